(* L0, fifth part: the further dynamic operators that the GENERATED translation of the equality / string /
   hash / copy / pickle methods of typedpy/structures/structures.py (Structure.__eq__, __ne__, __hash__,
   __str__ with its local helpers, __repr__, __getstate__, __deepcopy__, __copy__, Field.__get__,
   Field.__serialize__, _get_all_fields_by_name; Gen/EqHashSrc.v, emitted by harness/genmods/py2v_eqhash.py)
   uses.

   Objects.  An INSTANCE of a Structure class is the value [PStruct cls d]: the name of its class and its WHOLE
   instance __dict__ (public attributes and typedpy's internal entries `_none_fields`, `_instantiated`, ...),
   in insertion order.  A CLASS object, a Field object and the configuration class TypedPyDefaults are
   references [ref name] into the heap of Base/PyObj.v; the class of [PStruct cls d] is [ref cls].
   Attribute reads on an instance follow CPython's lookup: a data descriptor of the class (typedpy's Field
   objects, listed in the class attribute `_field_by_name`) wins, then the instance __dict__, then the class.
   The descriptor's __get__ is a PARAMETER [fget] (the generated file passes the translation of Field.__get__).

   Loops with `return` / `continue` in the body are folds whose step says whether the loop goes on ([Next s])
   or the function returns ([Return v]).

   As in PyOps.v every operator raises the exception class CPython raises for the operand kinds it can meet
   and [Unmodelled] where the model declines to predict.  Executable; no proofs here. *)
From Coq Require Import ZArith NArith String Ascii Bool List.
Import ListNotations.
From TP Require Import Base.PyVal Base.PyOps Base.PyOps2 Base.PyObj Base.PyOpsDerive.
From TP Require Base.PyOpsFields Base.PyOpsVersioned.
Local Open Scope Z_scope.

Definition is_object (v : pyval) : bool := PyOpsVersioned.is_object v.

(* ------------------------------------------------------------------ loops with return / continue *)

Inductive ctl (St : Type) :=
| Next (s : St)          (* the body fell off its end or hit `continue`: go on with state s *)
| Return (v : pyval).    (* the body executed `return v` *)
Arguments Next {St} s.
Arguments Return {St} v.

Fixpoint py_for {St : Type} (f : St -> pyval -> res (ctl St)) (l : list pyval) (s : St) : res (ctl St) :=
  match l with
  | [] => Ok (Next s)
  | x :: t => r <- f s x ;;
              match r with
              | Next s' => py_for f t s'
              | Return v => Ok (Return v)
              end
  end.

(* ------------------------------------------------------------------ iteration, dicts *)

(* iter(v) where the iteration order of a set is OBSERVED (the value carries it) *)
Definition py_iter_obs (v : pyval) : res (list pyval) := PyOpsFields.py_iter v.

(* {**a, **b} *)
Definition py_dict_merge (a b : pyval) : res pyval := PyOpsFields.py_dict_merge a b.

(* d.get(k, default) *)
Definition py_dict_get (d k default : pyval) : res pyval := PyOpsVersioned.py_dict_get d k default.

(* {k: v for ...}: entries inserted in order, a later equal key overrides; every key is hashed *)
Definition py_dict_of (kvs : list (pyval * pyval)) : res pyval := PyOpsFields.py_dict_of kvs.

(* d.update(e) on a local dict: the updated dict *)
Definition py_dict_update (d e : pyval) : res pyval :=
  match d, e with
  | PDict kd, PDict ke => Ok (PDict (fold_left (fun acc p => dict_set acc (fst p) (snd p)) ke kd))
  | PDict _, _ => Raise Unmodelled            (* an iterable of pairs, an object with keys() *)
  | _, _ => if is_object d then Raise Unmodelled else Raise AttributeError
  end.

(* reversed(l) *)
Definition py_reversed (v : pyval) : res pyval :=
  match v with
  | PList l => Ok (PList (rev l))
  | PTuple l => Ok (PList (rev l))
  | PDeque l => Ok (PList (rev l))
  | PStr _ | PDict _ => Raise Unmodelled
  | _ => if is_object v then Raise Unmodelled else Raise TypeError
  end.

(* ------------------------------------------------------------------ sorted(...) *)

Fixpoint str_ltb (a b : pystr) : bool :=
  match a, b with
  | [], [] => false
  | [], _ :: _ => true
  | _ :: _, [] => false
  | x :: a', y :: b' => if N.ltb x y then true else if N.eqb x y then str_ltb a' b' else false
  end.

(* stable insertion sort by a str key *)
Fixpoint ins_key {A} (p : pystr * A) (l : list (pystr * A)) : list (pystr * A) :=
  match l with
  | [] => [p]
  | q :: t => if str_ltb (fst q) (fst p) then q :: ins_key p t else p :: q :: t
  end.

Definition sort_keyed {A} (l : list (pystr * A)) : list (pystr * A) := fold_right ins_key [] l.

Fixpoint str_nodup (l : list pystr) : bool :=
  match l with
  | [] => true
  | x :: t => negb (str_in x t) && str_nodup t
  end.

Definition is_str (v : pyval) : bool := match v with PStr _ => true | _ => false end.

(* what decides the place of an element: a str itself; of a tuple its first component when that is a str *)
Definition sort_key (v : pyval) : option pystr :=
  match v with
  | PStr s => Some s
  | PTuple (PStr s :: _) => Some s
  | _ => None
  end.

Fixpoint keyed (l : list pyval) : option (list (pystr * pyval)) :=
  match l with
  | [] => Some []
  | v :: t => match sort_key v, keyed t with
              | Some k, Some r => Some ((k, v) :: r)
              | _, _ => None
              end
  end.

(* sorted(l): predicted for a list of strs, and for a list of tuples whose first components are pairwise
   different strs (then no later component is ever compared); the model declines otherwise *)
Definition py_sorted (l : list pyval) : res (list pyval) :=
  match keyed l with
  | Some kl =>
      if forallb is_str l || (forallb (fun v => negb (is_str v)) l && str_nodup (map fst kl))
      then Ok (map snd (sort_keyed kl))
      else Raise Unmodelled
  | None => Raise Unmodelled
  end.

(* ------------------------------------------------------------------ str methods *)

Fixpoint str_join (sep : pystr) (l : list pystr) : pystr :=
  match l with
  | [] => []
  | x :: t => match t with [] => x | _ :: _ => x ++ sep ++ str_join sep t end
  end.

Fixpoint all_strs (l : list pyval) : option (list pystr) :=
  match l with
  | [] => Some []
  | PStr s :: t => match all_strs t with Some r => Some (s :: r) | None => None end
  | _ => None
  end.

(* sep.join(v) *)
Definition py_str_join (sep v : pyval) : res pyval :=
  match sep with
  | PStr sp =>
      xs <- py_iter_obs v ;;
      match all_strs xs with
      | Some ss => Ok (PStr (str_join sp ss))
      | None => if existsb is_object xs then Raise Unmodelled else Raise TypeError
      end
  | _ => if is_object sep then Raise Unmodelled else Raise AttributeError
  end.

(* s.startswith(p) *)
Definition py_str_startswith (v p : pyval) : res bool :=
  match v with
  | PStr s =>
      match p with
      | PStr t => Ok (PyOpsFields.str_prefix t s)
      | PTuple _ => Raise Unmodelled
      | _ => if is_object p then Raise Unmodelled else Raise TypeError
      end
  | _ => if is_object v then Raise Unmodelled else Raise AttributeError
  end.

(* ------------------------------------------------------------------ str(), repr(), hash of a str *)

(* the oracles: str() of an int / float / Decimal, repr() of a str, repr() of the value of enum member
   cls.name, str.__hash__ *)
Record soracle := mk_so {
  so_num_str : num -> pystr;
  so_str_repr : pystr -> pystr;
  so_enum_vrepr : pystr -> pystr -> pystr;
  so_str_hash : pystr -> Z }.

Section Repr.
  Variable O : soracle.
  (* str() / repr() of an instance of a Structure class: the class's __str__ (Structure.__repr__ is its
     __str__; Gen/EqHashSrc.v Src_Structure_repr) *)
  Variable srec : pyval -> res pyval.

  Definition struct_text (v : pyval) : res pystr :=
    r <- srec v ;;
    match r with
    | PStr s => Ok s
    | _ => Raise TypeError          (* __str__ returned non-string *)
    end.

  Definition so_num_repr (n : num) : pystr :=
    match n with
    | NDec _ _ => s2p "Decimal('" ++ so_num_str O n ++ s2p "')"
    | _ => so_num_str O n
    end.

  Definition comma : pystr := s2p ", ".

  (* repr(v) for the builtin kinds (insertion order of sets / dicts as carried by the value) *)
  Fixpoint py_repr (v : pyval) {struct v} : res pystr :=
    let fix reprs (l : list pyval) {struct l} : res (list pystr) :=
        match l with
        | [] => Ok []
        | x :: t => y <- py_repr x ;; ys <- reprs t ;; Ok (y :: ys)
        end in
    match v with
    | PNone => Ok (s2p "None")
    | PBool b => Ok (if b then s2p "True" else s2p "False")
    | PNum n => Ok (so_num_repr n)
    | PStr s => Ok (so_str_repr O s)
    | PList l => xs <- reprs l ;; Ok (s2p "[" ++ str_join comma xs ++ s2p "]")
    | PTuple l =>
        xs <- reprs l ;;
        Ok (s2p "(" ++ str_join comma xs ++ (if Nat.eqb (length l) 1 then s2p "," else []) ++ s2p ")")
    | PSet false l =>
        xs <- reprs l ;;
        Ok (if Nat.eqb (length l) 0 then s2p "set()" else s2p "{" ++ str_join comma xs ++ s2p "}")
    | PSet true l =>
        xs <- reprs l ;;
        Ok (if Nat.eqb (length l) 0 then s2p "frozenset()"
            else s2p "frozenset({" ++ str_join comma xs ++ s2p "})")
    | PDeque l => xs <- reprs l ;; Ok (s2p "deque([" ++ str_join comma xs ++ s2p "])")
    | PDict kv =>
        xs <- (fix go (l : list (pyval * pyval)) : res (list pystr) :=
                 match l with
                 | [] => Ok []
                 | (a, b) :: t => k <- py_repr a ;; x <- py_repr b ;; r <- go t ;; Ok ((k ++ s2p ": " ++ x) :: r)
                 end) kv ;;
        Ok (s2p "{" ++ str_join comma xs ++ s2p "}")
    | PEnum cn n _ => Ok (s2p "<" ++ cn ++ s2p "." ++ n ++ s2p ": " ++ so_enum_vrepr O cn n ++ s2p ">")
    | PStruct _ _ => struct_text v
    | POther _ rp => Ok rp
    end.

  (* str(v): a str is itself, a number its str(), an enum member `Cls.name`; every other builtin kind has
     no __str__ of its own and shows its repr *)
  Definition py_str_text (v : pyval) : res pystr :=
    match v with
    | PStr s => Ok s
    | PNum n => Ok (so_num_str O n)
    | PEnum cn n _ => Ok (cn ++ s2p "." ++ n)
    | _ => py_repr v
    end.

  Definition py_str (v : pyval) : res pyval := s <- py_str_text v ;; Ok (PStr s).
End Repr.

(* v.__hash__() : predicted (through the oracle) for a str *)
Definition py_hash (O : soracle) (v : pyval) : res pyval :=
  match v with
  | PStr s => Ok (zint (so_str_hash O s))
  | PList _ | PDict _ | PDeque _ | PSet false _ => Raise TypeError
  | _ => Raise Unmodelled
  end.

(* ------------------------------------------------------------------ classes and class tests *)

(* the object bound to a class that the source uses as a VALUE (typedpy.commons.Undefined): as the harness
   reifies it, its name and its repr *)
Definition py_class_value (name rp : pystr) : pyval := POther name rp.

Definition class_says (h : heap) (c k : pystr) : bool :=
  match h c (isinstance_attr k) with Some b => py_truthy b | None => false end.

(* isinstance(v, K) for a class K of typedpy: the class of an object (the name an instance, an enum member or
   an opaque object carries) says so in the heap by its pseudo-attribute "isinstance:K"; a reference to a heap
   object is answered as in PyOpsDerive.v; plain data is never an instance *)
Definition val_isinstance (h : heap) (v : pyval) (k : pystr) : res bool :=
  match v with
  | PStruct c _ | PEnum c _ _ => Ok (class_says h c k)
  | POther t name => if pystr_eqb t ref_tag then obj_isinstance h v k else Ok (class_says h t k)
  | _ => Ok false
  end.

(* isinstance(v, enum.Enum): an enum member is; an instance of a Structure class is not; for any other object
   its class says so in the heap; plain data is not *)
Definition py_is_enum (h : heap) (v : pyval) : res bool :=
  match v with
  | PEnum _ _ _ => Ok true
  | PStruct _ _ => Ok false
  | POther t name => if pystr_eqb t ref_tag then obj_isinstance h v (s2p "Enum") else Ok (class_says h t (s2p "Enum"))
  | _ => Ok false
  end.

(* callable(v): plain data is not; an enum member and an instance of a Structure class are taken not to
   define __call__; a heap object says so by its pseudo-attribute "callable()", any other object through its
   class (the class's pseudo-attribute "callable()") *)
Definition py_callable (h : heap) (v : pyval) : res bool :=
  match v with
  | POther t name =>
      Ok (match h (if pystr_eqb t ref_tag then name else t) (s2p "callable()") with
          | Some b => py_truthy b
          | None => false
          end)
  | _ => Ok false
  end.

(* ------------------------------------------------------------------ instances *)

Definition dict_of_attrs (attrs : list (pystr * pyval)) : pyval :=
  PDict (map (fun p => (PStr (fst p), snd p)) attrs).

(* o.__dict__ of an instance *)
Definition inst_dict (v : pyval) : res pyval :=
  match v with
  | PStruct _ attrs => Ok (dict_of_attrs attrs)
  | PEnum _ _ _ | POther _ _ => Raise Unmodelled
  | _ => Raise AttributeError
  end.

(* o.__class__ *)
Definition inst_class (v : pyval) : res pyval := PyOpsFields.fld_class_of v.

Definition n_field_by_name : pystr := s2p "_field_by_name".

(* the Field object (data descriptor) that class c binds to the name a, if any *)
Definition class_field (h : heap) (c a : pystr) : option pyval :=
  match h c n_field_by_name with
  | Some (PDict kv) => dict_get kv (PStr a)
  | _ => None
  end.

Section Attr.
  (* descriptor.__get__(instance, owner) *)
  Variable fget : pyval -> pyval -> pyval -> res pyval.
  Variable h : heap.

  (* o.a / getattr(o, a): instances as described above, anything else as in Base/PyObj.v *)
  Definition any_getattr (o : pyval) (a : pystr) : res pyval :=
    match o with
    | PStruct c attrs =>
        match class_field h c a with
        | Some f => fget f o (ref c)
        | None =>
            match alist_get attrs a with
            | Some x => Ok x
            | None => match h c a with Some x => Ok x | None => Raise AttributeError end
            end
        end
    | _ => obj_getattr h o a
    end.

  (* getattr(o, a, d): the default replaces an AttributeError (also one raised inside a descriptor) *)
  Definition any_getattr_def (o : pyval) (a : pystr) (d : pyval) : res pyval :=
    match o with
    | PStruct _ _ =>
        match any_getattr o a with
        | Raise AttributeError => Ok d
        | r => r
        end
    | _ => obj_getattr_def h o a d
    end.

  (* getattr(o, k) / getattr(o, k, d) with a run-time name *)
  Definition any_getattr_dyn (o k : pyval) : res pyval :=
    match k with
    | PStr a => any_getattr o a
    | _ => if is_object k then Raise Unmodelled else Raise TypeError
    end.

  Definition any_getattr_dyn_def (o k d : pyval) : res pyval :=
    match k with
    | PStr a => any_getattr_def o a d
    | _ => if is_object k then Raise Unmodelled else Raise TypeError
    end.
End Attr.

(* cls.__new__(cls) for a Structure class: a new instance with an empty __dict__ *)
Definition obj_new (cls : pyval) : res pyval :=
  match cls with
  | POther t name => if pystr_eqb t ref_tag then Ok (PStruct name []) else Raise Unmodelled
  | PStruct _ _ | PEnum _ _ _ => Raise Unmodelled
  | _ => Raise AttributeError
  end.

(* Stores on an object that the function itself created and nobody else refers to: the updated object.
   `o.a = x` / setattr(o, a, x) on an instance of a Structure class runs Structure.__setattr__ and, for a
   field, Field.__set__ (translated in Gen/StructGuards.v, tied to the instance model in
   Struct/StructGuardProofs.v: the guards that may refuse a store, or divert a None into `_none_fields`).
   Here only the STORE they end in when they accept the value is kept -- which is what they do for the names
   and values that are already in the __dict__ of a valid instance of the same class, stored into an object
   that is not yet `_instantiated`. *)
Definition inst_setattr (o : pyval) (a : pystr) (x : pyval) : res pyval :=
  match o with
  | PStruct c attrs => Ok (PStruct c (alist_set attrs a x))
  | _ => Raise Unmodelled
  end.

Definition inst_setattr_dyn (o k x : pyval) : res pyval :=
  match k with
  | PStr a => inst_setattr o a x
  | _ => if is_object k then Raise Unmodelled else Raise TypeError
  end.

(* delattr(o, a) / del o.a *)
Definition inst_delattr (o : pyval) (a : pystr) : res pyval :=
  match o with
  | PStruct c attrs => if alist_has attrs a then Ok (PStruct c (alist_del attrs a)) else Raise AttributeError
  | _ => Raise Unmodelled
  end.

Fixpoint attrs_update (attrs : list (pystr * pyval)) (kv : list (pyval * pyval)) : res (list (pystr * pyval)) :=
  match kv with
  | [] => Ok attrs
  | (PStr k, x) :: t => attrs_update (alist_set attrs k x) t
  | _ => Raise Unmodelled
  end.

(* o.__dict__.update(d) *)
Definition inst_dict_update (o d : pyval) : res pyval :=
  match o with
  | PStruct c attrs =>
      match d with
      | PDict kv => r <- attrs_update attrs kv ;; Ok (PStruct c r)
      | _ => Raise Unmodelled
      end
  | _ => Raise Unmodelled
  end.

(* d[k] = x on a local dict: the updated dict *)
Definition py_dict_setitem (d k x : pyval) : res pyval :=
  match d with
  | PDict kv => if py_hashable' k then Ok (PDict (dict_set kv k x)) else Raise TypeError
  | _ => Raise Unmodelled
  end.

(* o.__dict__[k] = x: a plain store into the instance dictionary (no descriptor, no __setattr__) *)
Definition inst_dict_setitem (o k x : pyval) : res pyval :=
  match o, k with
  | PStruct c attrs, PStr a => Ok (PStruct c (alist_set attrs a x))
  | _, _ => Raise Unmodelled
  end.

(* o.__dict__.setdefault(k, x) as a statement: stores x unless k is already there *)
Definition inst_dict_setdefault (o k x : pyval) : res pyval :=
  match o, k with
  | PStruct c attrs, PStr a => Ok (if alist_has attrs a then o else PStruct c (alist_set attrs a x))
  | _, _ => Raise Unmodelled
  end.

(* getattr(o, k) on a heap object with a run-time name *)
Definition obj_getattr_dyn (h : heap) (o k : pyval) : res pyval :=
  match k with
  | PStr a => obj_getattr h o a
  | _ => if is_object k then Raise Unmodelled else Raise TypeError
  end.

(* f"{v}" *)
Definition py_format_str (v : pyval) : res pystr := py_format v.

(* ------------------------------------------------------------------ the world of a translated function *)

(* the oracles and the heap every translated function takes: str() / repr() / hash oracles, the call `o.m(args)` through an attribute of a run-time object, the heap of class /
   Field / configuration objects *)
Record world := mk_world {
  w_or : soracle;
  w_mcall : pyval -> pystr -> list pyval -> res pyval;
  w_heap : heap }.

(* inside a descriptor's own __get__ a nested descriptor read is not predicted *)
Definition no_fget : pyval -> pyval -> pyval -> res pyval := fun _ _ _ => Raise Unmodelled.

(* x and y / x or y as VALUES: the operand that decides *)
Definition py_and_val (a : res pyval) (b : unit -> res pyval) : res pyval := PyOpsFields.py_and_val a b.
Definition py_or_val (a : res pyval) (b : unit -> res pyval) : res pyval := PyOpsFields.py_or_val a b.
