(* L0, third part: attribute access on OBJECTS (a Structure instance, its class, a Field, the
   TypedPyDefaults configuration class), as the GENERATED translations of the guard prefixes of
   typedpy/structures/structures.py (Gen/StructGuards.v, emitted by harness/genmods/py2v_struct.py) use it.
   An object is a name; the heap maps (object name, attribute name) to the attribute's value, None when
   the object has no such attribute.  A value may be a REFERENCE to an object ([ref name]); None and
   plain data have no typedpy attributes.  Executable; no proofs here. *)
From Coq Require Import ZArith NArith String Bool List.
Import ListNotations.
From TP Require Import Base.PyVal Base.PyOps Base.PyOps2.
Local Open Scope Z_scope.

Definition heap := pystr -> pystr -> option pyval.

Definition ref_tag : pystr := s2p "ref".
Definition ref (name : pystr) : pyval := POther ref_tag name.

(* getattr(o, a, d) *)
Definition obj_getattr_def (h : heap) (o : pyval) (a : pystr) (d : pyval) : res pyval :=
  match o with
  | POther t name =>
      if pystr_eqb t ref_tag then Ok (match h name a with Some v => v | None => d end)
      else Raise Unmodelled
  | PStruct _ _ | PEnum _ _ _ => Raise Unmodelled
  | _ => Ok d
  end.

(* o.a  /  getattr(o, a) *)
Definition obj_getattr (h : heap) (o : pyval) (a : pystr) : res pyval :=
  match o with
  | POther t name =>
      if pystr_eqb t ref_tag then match h name a with Some v => Ok v | None => Raise AttributeError end
      else Raise Unmodelled
  | PStruct _ _ | PEnum _ _ _ => Raise Unmodelled
  | _ => Raise AttributeError
  end.

(* hasattr(o, a) *)
Definition obj_hasattr (h : heap) (o : pyval) (a : pystr) : res bool :=
  match o with
  | POther t name =>
      if pystr_eqb t ref_tag then Ok (match h name a with Some _ => true | None => false end)
      else Raise Unmodelled
  | PStruct _ _ | PEnum _ _ _ => Raise Unmodelled
  | _ => Ok false
  end.

(* typedpy.commons._is_sunder / _is_dunder (enum-module style name tests), on code points *)
Definition underscore : N := 95%N.
Definition is_us (c : N) : bool := N.eqb c underscore.

Definition str_is_sunder (s : pystr) : bool :=
  Nat.ltb 2 (length s) &&
  match s with
  | c0 :: c1 :: _ => is_us c0 && negb (is_us c1)
  | _ => false
  end.

Definition str_is_dunder (s : pystr) : bool :=
  Nat.ltb 4 (length s) &&
  match s, rev s with
  | a0 :: a1 :: a2 :: _, z0 :: z1 :: z2 :: _ =>
      is_us a0 && is_us a1 && is_us z0 && is_us z1 && negb (is_us a2) && negb (is_us z2)
  | _, _ => false
  end.

Definition py_is_sunder (v : pyval) : res bool :=
  match v with PStr s => Ok (str_is_sunder s) | _ => Raise Unmodelled end.
Definition py_is_dunder (v : pyval) : res bool :=
  match v with PStr s => Ok (str_is_dunder s) | _ => Raise Unmodelled end.

(* any([...]) / all([...]) over an already evaluated list of truth values *)
Definition py_any (l : list bool) : bool := existsb (fun b => b) l.
Definition py_all (l : list bool) : bool := forallb (fun b => b) l.
