(* L0, fourth part: the further dynamic operators that the GENERATED translation of
   typedpy/serialization/versioned_mapping.py (_convert, convert_dict) and typedpy/commons.py (deep_get,
   Constant) uses (Gen/VersionedSrc.v, emitted by harness/genmods/py2v_versioned.py):
   tests against classes named in the source, attribute reads on objects, string methods, slices,
   + / - / unary -, dict methods and item stores on a local dict, iteration, loops and comprehensions,
   and the height of a value (the fuel a recursive function is given by its callers).
   As in PyOps.v every operator raises the exception class CPython raises for the operand kinds it can meet
   and [Unmodelled] where the model declines to predict (opaque objects, roundings).
   Executable; the few facts about them that proofs need are at the end. *)
From Coq Require Import ZArith QArith NArith String Ascii Bool Lia List.
Import ListNotations.
From TP Require Import Base.PyVal Base.PyOps Base.PyOps2.
Local Open Scope Z_scope.

(* values whose class the model does not know: their methods / operators are not predicted *)
Definition is_object (v : pyval) : bool :=
  match v with PEnum _ _ _ | PStruct _ _ | POther _ _ => true | _ => false end.

(* ------------------------------------------------------------------ module-level names and classes *)

(* the object bound to a module-level name of the translated module (a class such as Deleted): opaque,
   equal only to itself.  The translator lets it appear only as an operand of == / != . *)
Definition global_tag : pystr := s2p "global".
Definition py_global (name : pystr) : pyval := POther global_tag name.

(* the second argument of isinstance: a builtin class, one of the collections.abc protocols the sources
   test against, or a class named in the source (instances of it are seen as [PStruct name attrs], other
   objects as [POther name repr]: the tag IS the class, subclasses are not modelled; opaque objects are
   taken not to implement the abc protocols) *)
Inductive vclass :=
| C_k (k : pyclass)
| C_Mapping
| C_Generator
| C_named (n : pystr).

Definition isinstance_v1 (v : pyval) (c : vclass) : bool :=
  match c with
  | C_k k => isinstance1 v k
  | C_Mapping => match v with PDict _ => true | _ => false end
  | C_Generator => false
  | C_named n =>
      match v with
      | PStruct cls _ => pystr_eqb cls n
      | POther t _ => pystr_eqb t n
      | _ => false
      end
  end.

Definition py_isinstance_v (v : pyval) (cs : list vclass) : bool := existsb (isinstance_v1 v) cs.

(* o.a for an instance of a class named in the source: its instance attributes are the [attrs] *)
Definition py_attr (v : pyval) (a : pystr) : res pyval :=
  match v with
  | PStruct _ attrs => match alist_get attrs a with Some x => Ok x | None => Raise Unmodelled end
  | PEnum _ _ _ | POther _ _ => Raise Unmodelled
  | _ => Raise AttributeError
  end.

(* the instance a constructor builds whose __init__ only stores its parameters *)
Definition py_new (cls : pystr) (attrs : list (pystr * pyval)) : pyval := PStruct cls attrs.

(* ------------------------------------------------------------------ strings *)

Definition str_endswith (s t : pystr) : bool :=
  Nat.leb (length t) (length s) && pystr_eqb (skipn (length s - length t) s) t.

Definition py_str_endswith (v suffix : pyval) : res bool :=
  match v with
  | PStr s =>
      match suffix with
      | PStr t => Ok (str_endswith s t)
      | PTuple _ => Raise Unmodelled
      | _ => if is_object suffix then Raise Unmodelled else Raise TypeError
      end
  | _ => if is_object v then Raise Unmodelled else Raise AttributeError
  end.

Fixpoint split_char_aux (c : N) (cur : pystr) (s : pystr) : list pystr :=
  match s with
  | [] => [rev cur]
  | x :: t => if N.eqb x c then rev cur :: split_char_aux c [] t else split_char_aux c (x :: cur) t
  end.
Definition split_char (c : N) (s : pystr) : list pystr := split_char_aux c [] s.

(* s.split(sep): single-character separators are modelled *)
Definition py_str_split (v sep : pyval) : res pyval :=
  match v with
  | PStr s =>
      match sep with
      | PStr [] => Raise ValueError
      | PStr [c] => Ok (PList (map PStr (split_char c s)))
      | PStr _ => Raise Unmodelled
      | PNone => Raise Unmodelled
      | _ => if is_object sep then Raise Unmodelled else Raise TypeError
      end
  | _ => if is_object v then Raise Unmodelled else Raise AttributeError
  end.

(* ------------------------------------------------------------------ slices  v[lo:hi] *)

Definition clamp (n : nat) (z : Z) : nat :=
  if z <? 0 then Z.to_nat (Z.max 0 (Z.of_nat n + z)) else Nat.min n (Z.to_nat z).

Definition slice_list {A} (lo hi : option Z) (l : list A) : list A :=
  let n := length l in
  let a := match lo with Some z => clamp n z | None => 0%nat end in
  let b := match hi with Some z => clamp n z | None => n end in
  firstn (b - a) (skipn a l).

(* a slice bound: absent / None, or something with __index__ (int, bool) *)
Definition slice_index (i : option pyval) : res (option Z) :=
  match i with
  | None | Some PNone => Ok None
  | Some (PNum (NInt z)) => Ok (Some z)
  | Some (PBool b) => Ok (Some (if b then 1 else 0))
  | Some v => if is_object v then Raise Unmodelled else Raise TypeError
  end.

Definition py_slice (v : pyval) (lo hi : option pyval) : res pyval :=
  match v with
  | PStr s => a <- slice_index lo ;; b <- slice_index hi ;; Ok (PStr (slice_list a b s))
  | PList l => a <- slice_index lo ;; b <- slice_index hi ;; Ok (PList (slice_list a b l))
  | PTuple l => a <- slice_index lo ;; b <- slice_index hi ;; Ok (PTuple (slice_list a b l))
  | PDict _ | PEnum _ _ _ | PStruct _ _ | POther _ _ => Raise Unmodelled
  | _ => Raise TypeError          (* None, numbers, bool, set, deque: not subscriptable by a slice *)
  end.

(* ------------------------------------------------------------------ arithmetic *)

Definition as_int (v : pyval) : option Z :=
  match v with
  | PNum (NInt z) => Some z
  | PBool b => Some (if b then 1 else 0)
  | _ => None
  end.

Definition two53 : Z := 9007199254740992.

(* float + int where the exact sum is a binary64 value: then it IS the result (no rounding happens; the int is
   below 2^53, so its conversion to float is exact).  The result is reified like every float of the universe:
   m * 2^e with m odd, or 0 * 2^0.  Everything else involving a float or a Decimal is not predicted. *)
Fixpoint tz_pos (q : positive) : Z := match q with xO r => 1 + tz_pos r | _ => 0 end.
Definition float_norm (m e : Z) : res pyval :=
  match m with
  | Z0 => Ok (PNum (NFlt 0 0))
  | Zpos q => let t := tz_pos q in
              if Z.abs (m / 2 ^ t) <? 2 ^ 53 then Ok (PNum (NFlt (m / 2 ^ t) (e + t))) else Raise Unmodelled
  | Zneg q => let t := tz_pos q in
              if Z.abs (m / 2 ^ t) <? 2 ^ 53 then Ok (PNum (NFlt (m / 2 ^ t) (e + t))) else Raise Unmodelled
  end.
Definition float_add_int (m e z : Z) : res pyval :=
  if (Z.abs z <? two53) then
    if e <? 0 then float_norm (m + z * 2 ^ (- e)) e else float_norm (m * 2 ^ e + z) 0
  else Raise Unmodelled.

Definition is_num (v : pyval) : bool := match v with PNum _ | PBool _ => true | _ => false end.

Definition py_add (a b : pyval) : res pyval :=
  match as_int a, as_int b with
  | Some x, Some y => Ok (PNum (NInt (x + y)))
  | _, _ =>
      match a, b with
      | PNum (NFlt m e), _ => match as_int b with Some z => float_add_int m e z | None =>
                                if is_num b || is_object b then Raise Unmodelled else Raise TypeError end
      | _, PNum (NFlt m e) => match as_int a with Some z => float_add_int m e z | None =>
                                if is_num a || is_object a then Raise Unmodelled else Raise TypeError end
      | PStr s, PStr t => Ok (PStr (s ++ t))
      | PList s, PList t => Ok (PList (s ++ t))
      | PTuple s, PTuple t => Ok (PTuple (s ++ t))
      | _, _ =>
          if is_object a || is_object b then Raise Unmodelled
          else if is_num a && is_num b then Raise Unmodelled        (* Decimal arithmetic *)
          else Raise TypeError
      end
  end.

Definition py_neg (a : pyval) : res pyval :=
  match a with
  | PNum (NInt z) => Ok (PNum (NInt (- z)))
  | PBool b => Ok (PNum (NInt (if b then -1 else 0)))
  | PNum (NFlt m e) => Ok (PNum (NFlt (- m) e))
  | PNum (NDec _ _) => Raise Unmodelled
  | _ => if is_object a then Raise Unmodelled else Raise TypeError
  end.

Definition py_sub (a b : pyval) : res pyval :=
  match as_int a, as_int b with
  | Some x, Some y => Ok (PNum (NInt (x - y)))
  | _, _ =>
      match a, as_int b with
      | PNum (NFlt m e), Some z => float_add_int m e (- z)
      | _, _ =>
          if is_object a || is_object b then Raise Unmodelled
          else if is_num a && is_num b then Raise Unmodelled
          else match a, b with
               | PSet _ _, PSet _ _ => Raise Unmodelled               (* set difference *)
               | _, _ => Raise TypeError
               end
      end
  end.

(* ------------------------------------------------------------------ dict methods, item store / delete *)

(* d.get(k, default) *)
Definition py_dict_get (d k default : pyval) : res pyval :=
  match d with
  | PDict kv =>
      if py_hashable' k then Ok (match dict_get kv k with Some v => v | None => default end)
      else Raise TypeError
  | _ => if is_object d then Raise Unmodelled else Raise AttributeError
  end.

(* d.items() *)
Definition py_dict_items (d : pyval) : res (list (pyval * pyval)) :=
  match d with
  | PDict kv => Ok kv
  | _ => if is_object d then Raise Unmodelled else Raise AttributeError
  end.

(* d[k] = v on a dict the function owns (the translator checks that the name is bound to a fresh copy):
   the new value of d *)
Definition py_setitem (d k v : pyval) : res pyval :=
  match d with
  | PDict kv => if py_hashable' k then Ok (PDict (dict_set kv k v)) else Raise TypeError
  | PList _ | PDeque _ => Raise Unmodelled                            (* index / slice stores *)
  | _ => if is_object d then Raise Unmodelled else Raise TypeError
  end.

(* del d[k] *)
Definition py_delitem (d k : pyval) : res pyval :=
  match d with
  | PDict kv =>
      if py_hashable' k then
        if dict_has kv k then Ok (PDict (dict_del kv k)) else Raise KeyError
      else Raise TypeError
  | PList _ | PDeque _ => Raise Unmodelled
  | _ => if is_object d then Raise Unmodelled else Raise TypeError
  end.

(* ------------------------------------------------------------------ iteration *)

Definition py_iter (v : pyval) : res (list pyval) :=
  match v with
  | PList l | PTuple l | PDeque l | PSet _ l => Ok l
  | PDict kv => Ok (map fst kv)
  | PStr s => Ok (map (fun c => PStr [c]) s)
  | _ => if is_object v then Raise Unmodelled else Raise TypeError
  end.

(* for x in l: s = body(s, x)   -- the loop state threaded through, an exception leaves the loop *)
Fixpoint foldM {S A} (f : S -> A -> res S) (l : list A) (s : S) : res S :=
  match l with
  | [] => Ok s
  | x :: t => s' <- f s x ;; foldM f t s'
  end.

(* [f(x) for x in l if c(x)] *)
Fixpoint comp_list {A B} (c : A -> res bool) (f : A -> res B) (l : list A) : res (list B) :=
  match l with
  | [] => Ok []
  | x :: t => b <- c x ;;
              if b then y <- f x ;; ys <- comp_list c f t ;; Ok (y :: ys)
              else comp_list c f t
  end.

(* ------------------------------------------------------------------ height (fuel of recursive functions) *)

(* A recursive function of the source is translated with explicit fuel; a caller gives it one more than the
   summed height of the arguments, which is enough for any recursion that descends into sub-values. *)
Fixpoint py_height (v : pyval) : nat :=
  let fix hl (l : list pyval) : nat :=
      match l with [] => 0%nat | x :: t => Nat.max (py_height x) (hl t) end in
  match v with
  | PList l | PTuple l | PDeque l | PSet _ l => S (hl l)
  | PDict kv =>
      S ((fix hd (l : list (pyval * pyval)) : nat :=
            match l with
            | [] => 0%nat
            | (k, x) :: t => Nat.max (Nat.max (py_height k) (py_height x)) (hd t)
            end) kv)
  | PEnum _ _ x => S (py_height x)
  | PStruct _ attrs =>
      S ((fix hs (l : list (pystr * pyval)) : nat :=
            match l with
            | [] => 0%nat
            | (_, x) :: t => Nat.max (py_height x) (hs t)
            end) attrs)
  | _ => 0%nat
  end.

Definition heights (l : list pyval) : nat := fold_right (fun v n => (py_height v + n)%nat) 0%nat l.

(* ------------------------------------------------------------------ facts *)

Fixpoint list_height (l : list pyval) : nat :=
  match l with [] => 0%nat | x :: t => Nat.max (py_height x) (list_height t) end.

Fixpoint dict_height (l : list (pyval * pyval)) : nat :=
  match l with
  | [] => 0%nat
  | (k, x) :: t => Nat.max (Nat.max (py_height k) (py_height x)) (dict_height t)
  end.

Lemma py_height_list l : py_height (PList l) = S (list_height l).
Proof. reflexivity. Qed.

Lemma py_height_tuple l : py_height (PTuple l) = S (list_height l).
Proof. reflexivity. Qed.

Lemma py_height_dict kv : py_height (PDict kv) = S (dict_height kv).
Proof. reflexivity. Qed.

Lemma list_height_in x l : In x l -> (py_height x <= list_height l)%nat.
Proof.
  induction l as [|y t IH]; intros H; [destruct H|].
  cbn [list_height]. destruct H as [->|H]; [lia|]. specialize (IH H). lia.
Qed.

Lemma dict_height_in k x kv : In (k, x) kv -> (py_height x <= dict_height kv)%nat.
Proof.
  induction kv as [|[k' y] t IH]; intros H; [destruct H|].
  cbn [dict_height]. destruct H as [H|H]; [inversion H; subst; lia|]. specialize (IH H). lia.
Qed.
