(* L0, second part: the further dynamic operators that the GENERATED translations of
   typedpy/fields/enum.py (Gen/EnumGuards.v, emitted by harness/genmods/py2v_enum.py) use:
   attribute reads on enum members, comprehensions over a list of members, membership in a
   run-time container, subscription of a run-time mapping.  As in PyOps.v every operator raises
   the exception class CPython raises for the operand kinds it can meet and [Unmodelled] where the
   model declines to predict.  Executable; no proofs here. *)
From Coq Require Import ZArith NArith String Bool List.
Import ListNotations.
From TP Require Import Base.PyVal Base.PyOps.
Local Open Scope Z_scope.

(* value.name / value.value: defined on enum members; any value of the model's other kinds has no
   such attribute (str, int, list, None... -> AttributeError); opaque objects are not predicted *)
Definition py_getattr (v : pyval) (a : pystr) : res pyval :=
  match v with
  | PEnum _ name x =>
      if pystr_eqb a (s2p "name") then Ok (PStr name)
      else if pystr_eqb a (s2p "value") then Ok x
      else Raise Unmodelled
  | POther _ _ | PStruct _ _ => Raise Unmodelled
  | _ => Raise AttributeError
  end.

(* [x.a for x in l]  and  {x.a for x in l}  over a run-time list *)
Definition py_listcomp_attr (l : pyval) (a : pystr) : res pyval :=
  xs <- py_seq_items l ;; r <- mapM (fun x => py_getattr x a) xs ;; Ok (PList r).
Definition py_setcomp_attr (l : pyval) (a : pystr) : res pyval :=
  xs <- py_seq_items l ;; r <- mapM (fun x => py_getattr x a) xs ;;
  if forallb py_hashable' r then Ok (PSet false (py_dedup r)) else Raise TypeError.

(* x in c  for a run-time container c: sets and dicts hash the candidate first (a dict then compares
   each stored key with the candidate, stored key on the left, exactly as c[x] does); sequences scan
   with == *)
Definition py_in_dyn (x c : pyval) : res bool :=
  match c with
  | PSet _ l => py_in_hashed x l
  | PDict kv => if py_hashable' x then Ok (dict_has kv x) else Raise TypeError
  | PList l | PTuple l | PDeque l => py_in_lit x l
  | PStr _ => match x with PStr _ => Raise Unmodelled | _ => Raise TypeError end
  | POther _ _ | PStruct _ _ => Raise Unmodelled
  | _ => Raise TypeError
  end.

(* c[k]  for a run-time mapping c (a dict; an enum CLASS is seen as the mapping name -> member, whose
   __getitem__ raises KeyError for every unknown key) *)
Definition py_getitem_dyn (c k : pyval) : res pyval :=
  match c with
  | PDict kv => py_dict_getitem kv k
  | _ => Raise Unmodelled
  end.

(* the value a function returns when control falls off its end *)
Definition py_none : pyval := PNone.

(* any(x is v for v in c)  for a run-time sequence c: identity with one of its elements.  The model
   knows the identity of enum members only (one object per class and name; a value of any other kind
   is never that object); whether two equal strs / ints are one object is not predicted. *)
Definition py_is_member (x v : pyval) : res bool :=
  match v with
  | PEnum c n _ =>
      Ok (match x with PEnum c' n' _ => pystr_eqb c' c && pystr_eqb n' n | _ => false end)
  | _ => Raise Unmodelled
  end.
Definition py_any_is (x c : pyval) : res bool :=
  xs <- py_seq_items c ;; r <- mapM (py_is_member x) xs ;; Ok (existsb (fun b => b) r).
