(* L0, further part: the dynamic operators that the GENERATED translation of
   typedpy/serialization/fast_serialization.py (Gen/FastSrc.v, emitted by harness/genmods/py2v_fast.py) uses on top
   of Base/PyOps.v, PyOps2.v, PyObj.v and PyOpsFields.v.

   FUNCTION VALUES.  A function object is data: [fn_val qualname captured] -- the qualified name of its code
   (module-level function "f", method "C.m", inner function "outer.inner") and the variables it closes over with
   the values they have when the closure is made.  Applying one is the business of the generated dispatcher
   (src_apply in Gen/FastSrc.v), which every translated body receives as its [call] argument.

   CLASS OBJECTS.  As in PyObj.v a class is the reference [ref name] and its OWN attributes (its __dict__) live
   in the heap; here attribute lookup on a class follows its __mro__ (the heap attribute "__mro__", a list of
   class references starting with the class itself; a class without one has only itself), a store on a class is
   a functional update of the heap, and `"a" in C.__dict__` looks at the own attributes only.

   CODE OUTSIDE THE TRANSLATED FILE is reached through [extern]: x_fn for a function of another module called by
   name, x_meth for a method of an object whose class is defined elsewhere (Field.__get__, <field>.serialize,
   Structure._additional_serialization, the next __init__ after a super() delegation); x_meth receives the
   caller's [call] so that the method can call function values back (Array.serialize -> the serializer installed
   on a referenced class).  Such calls return values; effects on class attributes are not modelled for them.

   As in PyOps.v every operator raises the exception class CPython raises for the operand kinds it can meet and
   [Unmodelled] where the model declines to predict.  Executable; the few facts proofs need are at the end. *)
From Coq Require Import ZArith NArith String Bool List.
Import ListNotations.
From TP Require Import Base.PyVal Base.PyOps Base.PyOps2 Base.PyObj Base.PyOpsFields.
Local Open Scope Z_scope.

(* ------------------------------------------------------------------ function values, code outside *)

Definition fn_prefix : pystr := s2p "function:".
Definition fn_val (qual : pystr) (captured : list (pystr * pyval)) : pyval := PStruct (fn_prefix ++ qual) captured.
Definition is_fn (v : pyval) : bool := match v with PStruct c _ => str_prefix fn_prefix c | _ => false end.

Definition callfn := pyval -> list pyval -> res pyval.

Record extern := {
  x_fn : pystr -> list pyval -> res pyval;
  x_meth : callfn -> pyval -> pystr -> list pyval -> res pyval }.

(* a variable a closure captured *)
Definition clo_get (env : list (pystr * pyval)) (name : pystr) : res pyval :=
  match alist_get env name with Some v => Ok v | None => Raise Unmodelled end.

(* calling a value that is not one of the translated functions: plain data is not callable; an object's
   __call__ is code outside *)
Definition py_call_other (call : callfn) (ext : extern) (f : pyval) (args : list pyval) : res pyval :=
  match f with
  | PStruct _ _ | POther _ _ => x_meth ext call f (s2p "__call__") args
  | PEnum _ _ _ => Raise Unmodelled
  | _ => Raise TypeError
  end.

(* ------------------------------------------------------------------ classes in the heap *)

Definition heap_set (h : heap) (o a : pystr) (v : pyval) : heap :=
  fun o' a' => if pystr_eqb o' o && pystr_eqb a' a then Some v else h o' a'.

Definition ref_name (v : pyval) : option pystr :=
  match v with POther t n => if pystr_eqb t ref_tag then Some n else None | _ => None end.

Definition mro_attr : pystr := s2p "__mro__".

Definition cls_mro (h : heap) (name : pystr) : list pystr :=
  match h name mro_attr with
  | Some (PList l) | Some (PTuple l) =>
      flat_map (fun v => match ref_name v with Some n => [n] | None => [] end) l
  | _ => [name]
  end.

Fixpoint mro_find (h : heap) (a : pystr) (l : list pystr) : option pyval :=
  match l with
  | [] => None
  | c :: t => match h c a with Some v => Some v | None => mro_find h a t end
  end.

Definition cls_lookup (h : heap) (name a : pystr) : option pyval := mro_find h a (cls_mro h name).

(* o.a / getattr(o, a): an instance carries its attributes; a class is looked up along its __mro__ *)
Definition fs_getattr (h : heap) (o : pyval) (a : pystr) : res pyval :=
  match o with
  | PStruct _ attrs => match alist_get attrs a with Some v => Ok v | None => Raise AttributeError end
  | POther t name =>
      if pystr_eqb t ref_tag then match cls_lookup h name a with Some v => Ok v | None => Raise AttributeError end
      else Raise Unmodelled
  | PEnum _ _ _ => Raise Unmodelled
  | _ => Raise AttributeError
  end.

(* getattr(o, a, d) *)
Definition fs_getattr_def (h : heap) (o : pyval) (a : pystr) (d : pyval) : res pyval :=
  match o with
  | PStruct _ attrs => Ok (match alist_get attrs a with Some v => v | None => d end)
  | POther t name =>
      if pystr_eqb t ref_tag then Ok (match cls_lookup h name a with Some v => v | None => d end)
      else Raise Unmodelled
  | PEnum _ _ _ => Raise Unmodelled
  | _ => Ok d
  end.

(* hasattr(o, a) *)
Definition fs_hasattr (h : heap) (o : pyval) (a : pystr) : res bool :=
  match o with
  | PStruct _ attrs => Ok (alist_has attrs a)
  | POther t name =>
      if pystr_eqb t ref_tag then Ok (match cls_lookup h name a with Some _ => true | None => false end)
      else Raise Unmodelled
  | PEnum _ _ _ => Raise Unmodelled
  | _ => Ok false
  end.

(* "a" in o.__dict__ : the object's own attributes *)
Definition fs_has_own (h : heap) (o : pyval) (a : pystr) : res bool :=
  match o with
  | PStruct _ attrs => Ok (alist_has attrs a)
  | POther t name =>
      if pystr_eqb t ref_tag then Ok (match h name a with Some _ => true | None => false end)
      else Raise Unmodelled
  | PEnum _ _ _ => Raise Unmodelled
  | _ => Raise AttributeError
  end.

(* o.a = v / setattr(o, a, v): only a store on a class object is modelled (instances are values) *)
Definition fs_setattr (h : heap) (o : pyval) (a : pystr) (v : pyval) : res heap :=
  match ref_name o with
  | Some name => Ok (heap_set h name a v)
  | None => match o with
            | PStruct _ _ | PEnum _ _ _ | POther _ _ => Raise Unmodelled
            | _ => Raise AttributeError
            end
  end.

(* issubclass(o, K) for class objects *)
Definition fs_issubclass (h : heap) (o k : pyval) : res bool :=
  match ref_name o, ref_name k with
  | Some n, Some kn => Ok (str_in kn (cls_mro h n))
  | None, _ => match o with
               | PStruct _ _ | PEnum _ _ _ | POther _ _ => Raise Unmodelled
               | _ => Raise TypeError
               end
  | _, None => Raise Unmodelled
  end.

(* isinstance(v, (K1, ..., Kn)) for classes Ki of the table: as fld_isinstance, and a class object or a function
   is an instance of none of them *)
Definition fs_isinstance (tbl : class_table) (v : pyval) (ks : list pystr) : res bool :=
  match v with
  | PStruct c _ =>
      if str_prefix fn_prefix c then Ok false
      else if class_known tbl c then Ok (class_in tbl c ks) else Raise Unmodelled
  | POther t _ => if pystr_eqb t ref_tag then Ok false else Raise Unmodelled
  | PEnum _ _ _ => Raise Unmodelled
  | _ => Ok false
  end.

(* a is b, for object operands (None and classes included): a class is identified by its name; a module-level
   function or method is one object; two closures of the same code are distinct objects unless they are the same
   one, which the value does not tell; the identity of two pieces of plain data or of two instances is not
   predicted *)
Inductive okind :=
| KNone | KData | KInst | KOpaque
| KCls (n : pystr)
| KFn (code : pystr) (no_captures : bool).

Definition obj_kind (v : pyval) : okind :=
  match v with
  | PNone => KNone
  | POther t n => if pystr_eqb t ref_tag then KCls n else KOpaque
  | PStruct c e => if str_prefix fn_prefix c then KFn c (match e with [] => true | _ => false end) else KInst
  | PEnum _ _ _ => KOpaque
  | _ => KData
  end.

Definition py_is_obj (a b : pyval) : res bool :=
  match obj_kind a, obj_kind b with
  | KNone, KNone => Ok true
  | KNone, _ | _, KNone => Ok false
  | KOpaque, _ | _, KOpaque => Raise Unmodelled
  | KCls n, KCls m => Ok (pystr_eqb n m)
  | KCls _, _ | _, KCls _ => Ok false
  | KFn c e, KFn c' e' => if pystr_eqb c c' then (if e && e' then Ok true else Raise Unmodelled) else Ok false
  | KFn _ _, _ | _, KFn _ _ => Ok false
  | KData, KInst | KInst, KData => Ok false
  | KData, KData | KInst, KInst => Raise Unmodelled
  end.

(* v.__class__ is K for a builtin class K: the exact class (True is not an int here) *)
Definition py_class_is (v : pyval) (k : pyclass) : bool :=
  match k, v with
  | K_int, PNum (NInt _) => true
  | K_float, PNum (NFlt _ _) => true
  | K_Decimal, PNum (NDec _ _) => true
  | K_str, PStr _ => true
  | K_bool, PBool _ => true
  | K_list, PList _ => true
  | K_deque, PDeque _ => true
  | K_tuple, PTuple _ => true
  | K_set, PSet false _ => true
  | K_frozenset, PSet true _ => true
  | K_dict, PDict _ => true
  | K_NoneType, PNone => true
  | _, _ => false
  end.

(* ------------------------------------------------------------------ method calls *)

Definition call_attr (m : pystr) : pystr := m ++ s2p "()".

(* o.m(args).  A class: the function found along the __mro__ is called with the arguments as they are.  An
   instance: a callable it carries, or the function its class holds (called with the instance first).  A
   parameterless query whose answer the object carries as the attribute "m()" (the convention of PyObj.v /
   PyOpsFields.v: get_all_fields_by_name(), get_fields()) is that answer.  Anything else is code outside. *)
Definition py_call_method (h : heap) (call : callfn) (ext : extern) (o : pyval) (m : pystr) (args : list pyval)
  : res pyval :=
  match o with
  | POther t name =>
      if pystr_eqb t ref_tag then
        match cls_lookup h name m with
        | Some f => call f args
        | None => match args, cls_lookup h name (call_attr m) with
                  | [], Some v => Ok v
                  | _, _ => x_meth ext call o m args
                  end
        end
      else Raise Unmodelled
  | PStruct c attrs =>
      match alist_get attrs m with
      | Some f => call f args
      | None => match args, alist_get attrs (call_attr m) with
                | [], Some v => Ok v
                | _, _ => match cls_lookup h c m with
                          | Some f => call f (o :: args)
                          | None => x_meth ext call o m args
                          end
                end
      end
  | _ => Raise Unmodelled
  end.

(* super().m(...) inside a method of class C: the next implementation along the __mro__ of the instance, code outside *)
Definition py_super_call (call : callfn) (ext : extern) (self : pyval) (cls m : pystr) (args : list pyval) : res pyval :=
  x_meth ext call self (s2p "super:" ++ cls ++ s2p "." ++ m) args.

(* ------------------------------------------------------------------ dict views as values, pairs *)

(* d.items() / d.values() / d.keys() kept as a value (the generator checks the dict is not changed afterwards) *)
Definition py_dict_items_val (d : pyval) : res pyval :=
  kv <- py_dict_items d ;; Ok (PList (map (fun p => PTuple [fst p; snd p]) kv)).
Definition py_dict_values_val (d : pyval) : res pyval := l <- py_dict_values d ;; Ok (PList l).
Definition py_dict_keys_val (d : pyval) : res pyval := l <- py_dict_keys d ;; Ok (PList l).

(* for a, b in v *)
Definition unpack2 (v : pyval) : res (pyval * pyval) :=
  match v with
  | PList [a; b] | PTuple [a; b] | PDeque [a; b] => Ok (a, b)
  | PList _ | PTuple _ | PDeque _ => Raise ValueError
  | PNone | PBool _ | PNum _ => Raise TypeError
  | _ => Raise Unmodelled
  end.
Definition py_iter_pairs (v : pyval) : res (list (pyval * pyval)) := l <- py_iter v ;; mapM unpack2 l.

(* ------------------------------------------------------------------ facts *)

Lemma heap_set_same h o a v : heap_set h o a v o a = Some v.
Proof. unfold heap_set. rewrite !pystr_eqb_refl. reflexivity. Qed.

Lemma heap_set_other_attr h o a v o' a' : pystr_eqb a' a = false -> heap_set h o a v o' a' = h o' a'.
Proof. intro H. unfold heap_set. rewrite H, andb_false_r. reflexivity. Qed.

Lemma heap_set_other_obj h o a v o' a' : pystr_eqb o' o = false -> heap_set h o a v o' a' = h o' a'.
Proof. intro H. unfold heap_set. rewrite H. reflexivity. Qed.

Lemma iter_pairs_items kv :
  py_iter_pairs (PList (map (fun p => PTuple [fst p; snd p]) kv)) = Ok kv.
Proof.
  unfold py_iter_pairs. cbn [py_iter bind].
  induction kv as [|[k v] t IH]; [reflexivity|].
  cbn [map mapM unpack2 fst snd bind]. rewrite IH. reflexivity.
Qed.
