(* L0, fifth part: the further dynamic operators that the GENERATED translation of the class-definition code of
   typedpy/structures/structures.py (make_signature, get_base_info, _check_for_final_violations,
   _block_invalid_consts, _get_all_fields_by_name, _instantiate_fields_if_needed,
   _apply_default_and_update_required_not_to_include_fields_with_defaults, StructMeta.__new__;
   Gen/DefineSrc.v, emitted by harness/genmods/py2v_define.py) uses.

   Objects.  A typedpy object (a class, a Field instance, a Constant instance, TypedPyDefaults) is a reference
   [ref name] into the heap of Base/PyObj.v; an attribute STORE yields the updated heap.  Objects of the standard
   library that are never mutated are values: an inspect.Parameter is [PStruct "Parameter" [name; kind; default]],
   an inspect.Signature is [PStruct "Signature" [parameters]], a dict view is [PStruct "dict_keys" [items]] ...,
   a parameterless function that returns v is [PStruct "function" [return := v]].

   Sets.  A set value keeps its elements in the order the model inserted them; the order in which CPython
   ITERATES a set is not predicted: every iteration of a set goes through the oracle [so : set_order], about
   which the proofs assume only that it permutes its argument.

   As in PyOps.v every operator raises the exception class CPython raises for the operand kinds it can meet and
   [Unmodelled] where the model declines to predict.  Executable; no proofs here. *)
From Coq Require Import ZArith NArith String Ascii Bool List.
Import ListNotations.
From TP Require Import Base.PyVal Base.PyEq Base.PyOps Base.PyOps2 Base.PyObj Base.PyOpsDerive.
From TP Require Base.PyOpsVersioned Base.PyOpsFields.
Local Open Scope Z_scope.

Definition is_object (v : pyval) : bool :=
  match v with PEnum _ _ _ | PStruct _ _ | POther _ _ => true | _ => false end.

(* ------------------------------------------------------------------ the heap: stores *)

Definition heap_set (h : heap) (o a : pystr) (v : pyval) : heap :=
  fun o' a' => if pystr_eqb o' o && pystr_eqb a' a then Some v else h o' a'.

(* o.a = v  /  setattr(o, a, v): only objects of the heap take attributes *)
Definition dv_setattr (h : heap) (o : pyval) (a : pystr) (v : pyval) : res heap :=
  match o with
  | POther t name => if pystr_eqb t ref_tag then Ok (heap_set h name a v) else Raise Unmodelled
  | PStruct _ _ | PEnum _ _ _ => Raise Unmodelled
  | _ => Raise AttributeError
  end.

(* del o.a / delattr(o, a) *)
Definition heap_del (h : heap) (o a : pystr) : heap :=
  fun o' a' => if pystr_eqb o' o && pystr_eqb a' a then None else h o' a'.

Definition dv_delattr (h : heap) (o : pyval) (a : pystr) : res heap :=
  match o with
  | POther t name =>
      if pystr_eqb t ref_tag then
        match h name a with Some _ => Ok (heap_del h name a) | None => Raise AttributeError end
      else Raise Unmodelled
  | PStruct _ _ | PEnum _ _ _ => Raise Unmodelled
  | _ => Raise AttributeError
  end.

(* a dict that several objects share (a class body's __annotations__) is an object of the heap: [ref name] whose
   pseudo-attribute "dict()" holds its current content.  Every operator that consumes a container is given
   [deref h v]; a store through such a reference updates the heap *)
Definition n_dict_content : pystr := s2p "dict()".

Definition deref (h : heap) (v : pyval) : pyval :=
  match v with
  | POther t n => if pystr_eqb t ref_tag then match h n n_dict_content with Some d => d | None => v end else v
  | _ => v
  end.

(* o.a = {} (a dict nobody else holds yet): the dict becomes the heap object "<o>.<a>", the attribute holds the
   reference.  The name must be unused: an older dict of that name might still be referred to *)
Definition newdict_name (o a : pystr) : pystr := o ++ s2p "." ++ a.

Definition dv_setattr_newdict (h : heap) (o : pyval) (a : pystr) (d : pyval) : res heap :=
  match o with
  | POther t name =>
      if pystr_eqb t ref_tag then
        let n := newdict_name name a in
        match h n n_dict_content with
        | None => Ok (heap_set (heap_set h n n_dict_content d) name a (ref n))
        | Some _ => Raise Unmodelled
        end
      else Raise Unmodelled
  | PStruct _ _ | PEnum _ _ _ => Raise Unmodelled
  | _ => Raise AttributeError
  end.

(* o.a[k] = v : the container reached through an attribute may be shared, so it must be a heap dict *)
Definition dv_setitem_obj (h : heap) (d k v : pyval) : res heap :=
  match d with
  | POther t n =>
      if pystr_eqb t ref_tag then
        match h n n_dict_content with
        | Some c => c' <- py_setitem c k v ;; Ok (heap_set h n n_dict_content c')
        | None => Raise Unmodelled
        end
      else Raise Unmodelled
  | _ => Raise Unmodelled
  end.

(* o.a  /  getattr(o, a): an object of the heap, or a value object that lists its attributes *)
Definition dv_getattr (h : heap) (o : pyval) (a : pystr) : res pyval :=
  match o with
  | PStruct _ attrs => match alist_get attrs a with Some v => Ok v | None => Raise Unmodelled end
  | _ => obj_getattr h o a
  end.

(* getattr(o, a, d) *)
Definition dv_getattr_def (h : heap) (o : pyval) (a : pystr) (d : pyval) : res pyval :=
  match o with
  | PStruct _ attrs => match alist_get attrs a with Some v => Ok v | None => Raise Unmodelled end
  | _ => obj_getattr_def h o a d
  end.

(* hasattr(o, a) *)
Definition dv_hasattr (h : heap) (o : pyval) (a : pystr) : res bool :=
  match o with
  | POther t name =>
      if pystr_eqb t ref_tag then Ok (match h name a with Some _ => true | None => false end)
      else Raise Unmodelled
  | PStruct _ _ | PEnum _ _ _ => Raise Unmodelled
  | _ => Ok false
  end.

(* getattr(o, n) with a run-time name *)
Definition dv_getattr_dyn (h : heap) (o n : pyval) : res pyval :=
  match n with
  | PStr a => dv_getattr h o a
  | _ => if is_object n then Raise Unmodelled else Raise TypeError
  end.

(* a is b / a is not b: objects of the heap are identified by their names, None is a singleton; identity of
   two pieces of plain data is not predicted, an object is never identical to plain data *)
Definition is_ref (v : pyval) : option pystr :=
  match v with POther t n => if pystr_eqb t ref_tag then Some n else None | _ => None end.

Definition dv_is (a b : pyval) : res bool :=
  match is_ref a, is_ref b with
  | Some x, Some y => Ok (pystr_eqb x y)
  | Some _, None => if is_object b then Raise Unmodelled else Ok false
  | None, Some _ => if is_object a then Raise Unmodelled else Ok false
  | None, None =>
      match a, b with
      | PNone, PNone => Ok true
      | PNone, _ => if is_object b then Raise Unmodelled else Ok false
      | _, PNone => if is_object a then Raise Unmodelled else Ok false
      | _, _ => Raise Unmodelled
      end
  end.
Definition dv_is_not (a b : pyval) : res bool := x <- dv_is a b ;; Ok (negb x).

(* issubclass(c, k) for two class objects of the heap: k is in c.__mro__ *)
Definition n_mro : pystr := s2p "__mro__".

Definition obj_issubclass (h : heap) (c k : pyval) : res bool :=
  match is_ref c, is_ref k with
  | Some cn, Some kn =>
      match h cn n_mro with
      | Some (PTuple l) => Ok (existsb (fun x => match is_ref x with Some xn => pystr_eqb xn kn | None => false end) l)
      | _ => Raise Unmodelled
      end
  | Some _, None => Raise Unmodelled
  | None, _ => if is_object c then Raise Unmodelled else Raise TypeError
  end.

(* ------------------------------------------------------------------ dict views *)

Definition n_items : pystr := s2p "items".
Definition dict_keys_tag : pystr := s2p "dict_keys".
Definition dict_values_tag : pystr := s2p "dict_values".
Definition dict_items_tag : pystr := s2p "dict_items".

Definition mk_view (tag : pystr) (l : list pyval) : pyval := PStruct tag [(n_items, PList l)].

Definition as_view (v : pyval) : option (pystr * list pyval) :=
  match v with
  | PStruct tag [(a, PList l)] =>
      if pystr_eqb a n_items &&
         (pystr_eqb tag dict_keys_tag || pystr_eqb tag dict_values_tag || pystr_eqb tag dict_items_tag)
      then Some (tag, l) else None
  | _ => None
  end.

Definition dict_kv (d : pyval) : res (list (pyval * pyval)) :=
  match d with
  | PDict kv => Ok kv
  | _ => if is_object d then Raise Unmodelled else Raise AttributeError
  end.

Definition dv_keys (d : pyval) : res pyval := kv <- dict_kv d ;; Ok (mk_view dict_keys_tag (map fst kv)).
Definition dv_values (d : pyval) : res pyval := kv <- dict_kv d ;; Ok (mk_view dict_values_tag (map snd kv)).
Definition dv_items (d : pyval) : res pyval :=
  kv <- dict_kv d ;; Ok (mk_view dict_items_tag (map (fun p => PTuple [fst p; snd p]) kv)).

(* ------------------------------------------------------------------ iteration, sets *)

Definition set_order := list pyval -> list pyval.

(* iter(v): what a `for`, a comprehension, list(), set(), dict() see *)
Definition dv_iter (so : set_order) (v : pyval) : res (list pyval) :=
  match v with
  | PList l | PTuple l | PDeque l => Ok l
  | PSet _ l => Ok (so l)
  | PDict kv => Ok (map fst kv)
  | PStr s => Ok (map (fun c => PStr [c]) s)
  | PStruct _ _ => match as_view v with Some (_, l) => Ok l | None => Raise Unmodelled end
  | POther _ _ | PEnum _ _ _ => Raise Unmodelled
  | PNone | PBool _ | PNum _ => Raise TypeError
  end.

(* list(v) *)
Definition dv_list_of (so : set_order) (v : pyval) : res pyval := l <- dv_iter so v ;; Ok (PList l).

(* set(v) *)
Definition dv_set_of (so : set_order) (v : pyval) : res pyval :=
  l <- dv_iter so v ;; if forallb py_hashable' l then Ok (PSet false (py_dedup l)) else Raise TypeError.

(* the operands of | and - that behave as sets: a set, a frozenset, a keys view *)
Definition as_setlike (v : pyval) : option (list pyval) :=
  match v with
  | PSet _ l => Some l
  | PStruct _ _ => match as_view v with
                   | Some (tag, l) => if pystr_eqb tag dict_keys_tag then Some l else None
                   | None => None
                   end
  | _ => None
  end.

Definition left_frozen (v : pyval) : bool := match v with PSet f _ => f | _ => false end.

(* a | b : union of two set-like operands (the result is a set; a frozenset when the left operand is one);
   the other overloads of | (ints, dicts, a keys view with an arbitrary iterable) are not predicted *)
Definition dv_bitor (a b : pyval) : res pyval :=
  match as_setlike a, as_setlike b with
  | Some x, Some y => Ok (PSet (left_frozen a) (x ++ filter (fun e => negb (py_in e x)) y))
  | _, _ =>
      match a, b with
      | (PNone | PStr _ | PList _ | PTuple _ | PDeque _), (PNone | PStr _ | PList _ | PTuple _ | PDeque _) => Raise TypeError
      | _, _ => Raise Unmodelled
      end
  end.

(* a - b : difference of two set-like operands; numbers as in PyOpsVersioned.py_sub *)
Definition dv_minus (a b : pyval) : res pyval :=
  match as_setlike a, as_setlike b with
  | Some x, Some y => Ok (PSet (left_frozen a) (filter (fun e => negb (py_in e y)) x))
  | _, _ => PyOpsVersioned.py_sub a b
  end.

(* s.add(x) / s.remove(x) on a set the function owns: the new value of s *)
Definition dv_set_add (s x : pyval) : res pyval :=
  match s with
  | PSet false l =>
      if py_hashable' x then Ok (PSet false (if py_in x l then l else l ++ [x])) else Raise TypeError
  | _ => if is_object s then Raise Unmodelled else Raise AttributeError
  end.

Definition dv_set_remove (s x : pyval) : res pyval :=
  match s with
  | PSet false l =>
      if py_hashable' x then
        if py_in x l then Ok (PSet false (filter (fun y => negb (py_eq x y)) l)) else Raise KeyError
      else Raise TypeError
  | _ => if is_object s then Raise Unmodelled else Raise AttributeError
  end.

(* x in c: a keys view hashes the candidate, a values view scans with == *)
Definition dv_in (x c : pyval) : res bool :=
  match c with
  | PStruct _ _ =>
      match as_view c with
      | Some (tag, l) =>
          if pystr_eqb tag dict_keys_tag then py_in_hashed x l
          else if pystr_eqb tag dict_values_tag then py_in_lit x l
          else Raise Unmodelled
      | None => Raise Unmodelled
      end
  | _ => py_in_dyn x c
  end.

(* ------------------------------------------------------------------ dicts *)

(* d.get(k, default) *)
Definition dv_dict_get (d k default : pyval) : res pyval := PyOpsVersioned.py_dict_get d k default.

(* del d[k] on a dict the function owns *)
Definition dv_delitem (d k : pyval) : res pyval := PyOpsVersioned.py_delitem d k.

(* d.pop(k, default) on a dict the function owns: (the new value of d, the popped value) *)
Definition dv_dict_pop (d k default : pyval) : res (pyval * pyval) :=
  match d with
  | PDict kv =>
      if py_hashable' k then
        match dict_get kv k with
        | Some v => Ok (PDict (dict_del kv k), v)
        | None => Ok (d, default)
        end
      else Raise TypeError
  | _ => if is_object d then Raise Unmodelled else Raise AttributeError
  end.

(* dict(v) / OrderedDict(v): a copy of a dict, or the dict built from an iterable of pairs *)
Definition dv_dict_of (so : set_order) (v : pyval) : res pyval :=
  match v with
  | PDict kv => Ok (PDict kv)
  | _ =>
      l <- dv_iter so v ;;
      ps <- mapM (fun it => p <- py_unpack 2 false it ;;
                            match p with [k; x] => Ok (k, x) | _ => Raise Unmodelled end) l ;;
      PyOpsFields.py_dict_of ps
  end.

(* {**a, **b} *)
Definition dv_dict_merge (a b : pyval) : res pyval := PyOpsFields.py_dict_merge a b.

(* d.update(e) on a dict the function owns *)
Definition dv_dict_update (d e : pyval) : res pyval :=
  match d with
  | PDict _ => PyOpsFields.py_dict_merge d e
  | _ => if is_object d then Raise Unmodelled else Raise AttributeError
  end.

(* a + b *)
Definition dv_add (a b : pyval) : res pyval := PyOpsVersioned.py_add a b.

(* reversed(v) *)
Definition dv_reversed (v : pyval) : res pyval :=
  match v with
  | PList l | PTuple l | PDeque l => Ok (PList (rev l))
  | PNone | PBool _ | PNum _ | PSet _ _ => Raise TypeError
  | _ => Raise Unmodelled
  end.

(* comprehensions: [e for x in l if c] -- f x = Some e when the condition holds, None when it does not *)
Definition dv_comp (f : pyval -> res (option pyval)) (l : list pyval) : res (list pyval) := PyOpsFields.filterM f l.

(* for x in l: st = body st x *)
Definition dv_foldM {S : Type} (f : S -> pyval -> res S) (l : list pyval) (s : S) : res S := py_foldM f l s.

(* ------------------------------------------------------------------ strings *)

Definition dv_startswith (v p : pyval) : res bool :=
  match v with
  | PStr s =>
      match p with
      | PStr t => Ok (PyOpsFields.str_prefix t s)
      | PTuple _ => Raise Unmodelled
      | _ => if is_object p then Raise Unmodelled else Raise TypeError
      end
  | _ => if is_object v then Raise Unmodelled else Raise AttributeError
  end.

(* ------------------------------------------------------------------ callables *)

Definition function_tag : pystr := s2p "function".
Definition n_return : pystr := s2p "return".
Definition mk_function (v : pyval) : pyval := PStruct function_tag [(n_return, v)].

Definition as_function (v : pyval) : option pyval :=
  match v with
  | PStruct t [(a, x)] => if pystr_eqb t function_tag && pystr_eqb a n_return then Some x else None
  | _ => None
  end.

Definition n_callable : pystr := s2p "callable()".

(* callable(v): plain data is not callable; an object of the heap says so by its pseudo-attribute *)
Definition dv_callable (h : heap) (v : pyval) : res bool :=
  match v with
  | PStruct _ _ =>
      match as_function v, as_view v with
      | Some _, _ => Ok true
      | None, Some _ => Ok false
      | None, None => Raise Unmodelled
      end
  | POther t name =>
      if pystr_eqb t ref_tag then
        match h name n_callable with Some b => Ok (py_truthy b) | None => Raise Unmodelled end
      else Raise Unmodelled
  | PEnum _ _ _ => Raise Unmodelled
  | _ => Ok false
  end.

(* v(): a parameterless function value returns its value; plain data is not callable *)
Definition dv_call0 (v : pyval) : res pyval :=
  match as_function v with
  | Some x => Ok x
  | None => if is_object v then Raise Unmodelled else Raise TypeError
  end.

(* ------------------------------------------------------------------ module globals *)

(* "Name" in globals(), once the module is initialised: the names its top level binds *)
Definition dv_in_globals (tbl : list pystr) (name : pyval) : res bool :=
  match name with
  | PStr s => Ok (str_in s tbl)
  | _ => if py_hashable' name then Ok false else Raise TypeError
  end.

(* ------------------------------------------------------------------ inspect.Parameter / inspect.Signature *)

Definition kind_cls : pystr := s2p "_ParameterKind".
Definition param_kind (name : pystr) (n : Z) : pyval := PEnum kind_cls name (zint n).
Definition kind_names : list (pystr * Z) :=
  [(s2p "POSITIONAL_ONLY", 0); (s2p "POSITIONAL_OR_KEYWORD", 1); (s2p "VAR_POSITIONAL", 2);
   (s2p "KEYWORD_ONLY", 3); (s2p "VAR_KEYWORD", 4)].

(* Parameter.empty: a class object, not None *)
Definition param_empty : pyval := POther (s2p "class") (s2p "inspect._empty").
Definition is_param_empty (v : pyval) : bool :=
  match v with POther t n => pystr_eqb t (s2p "class") && pystr_eqb n (s2p "inspect._empty") | _ => false end.

Definition param_tag : pystr := s2p ("Param" ++ "eter")%string.
Definition signature_tag : pystr := s2p "Signature".
Definition n_name : pystr := s2p "name".
Definition n_kind : pystr := s2p "kind".
Definition n_default : pystr := s2p "default".
Definition n_parameters : pystr := s2p "parameters".

(* Parameter.<attr> / Signature.<attr>: the class attributes the model knows *)
Definition inspect_attr (cls a : pystr) : res pyval :=
  if pystr_eqb cls param_tag then
    if pystr_eqb a (s2p "empty") then Ok param_empty
    else match alist_get kind_names a with Some n => Ok (param_kind a n) | None => Raise Unmodelled end
  else Raise Unmodelled.

Definition kind_index (k : pyval) : option Z :=
  match k with
  | PEnum c name (PNum (NInt n)) =>
      if pystr_eqb c kind_cls then
        match alist_get kind_names name with Some m => if n =? m then Some n else None | None => None end
      else None
  | _ => None
  end.

(* str.isidentifier() and not keyword.iskeyword(), for ASCII names *)
Definition is_ascii (s : pystr) : bool := forallb (fun c => N.ltb c 128) s.
Definition ch_alpha (c : N) : bool :=
  (N.leb 65 c && N.leb c 90) || (N.leb 97 c && N.leb c 122) || N.eqb c 95.
Definition ch_alnum (c : N) : bool := ch_alpha c || (N.leb 48 c && N.leb c 57).
Definition py_keywords : list pystr :=
  map s2p ["False"; "None"; "True"; "and"; "as"; "assert"; "async"; "await"; "break"; "class"; "continue"; "def";
           "del"; "elif"; "else"; "except"; "finally"; "for"; "from"; "global"; "if"; "import"; "in"; "is";
           "lambda"; "nonlocal"; "not"; "or"; "pass"; "raise"; "return"; "try"; "while"; "with"; "yield"]%string.
Definition ascii_identifier (s : pystr) : bool :=
  match s with
  | c :: t => ch_alpha c && forallb ch_alnum t
  | [] => false
  end.
Definition valid_param_name (s : pystr) : bool := ascii_identifier s && negb (str_in s py_keywords).

(* Parameter(name, kind[, default=d]) *)
Definition dv_Parameter (name kind : pyval) (default : option pyval) : res pyval :=
  match kind_index kind with
  | None => Raise Unmodelled
  | Some k =>
      if (match default with Some _ => (k =? 2) || (k =? 4) | None => false end) then Raise ValueError
      else
        match name with
        | PStr [] => Raise IndexError
        | PStr s =>
            if negb (is_ascii s) || match s with c :: _ => N.eqb c 46 | [] => false end then Raise Unmodelled
            else if valid_param_name s then
              Ok (PStruct param_tag [(n_name, PStr s); (n_kind, kind);
                                     (n_default, match default with Some d => d | None => param_empty end)])
            else Raise ValueError
        | _ => if is_object name then Raise Unmodelled else Raise TypeError
        end
  end.

Definition param_fields (p : pyval) : option (pystr * Z * pyval) :=
  match p with
  | PStruct t [(a1, PStr name); (a2, kind); (a3, d)] =>
      if pystr_eqb t param_tag && pystr_eqb a1 n_name && pystr_eqb a2 n_kind && pystr_eqb a3 n_default then
        match kind_index kind with Some k => Some (name, k, d) | None => None end
      else None
  | _ => None
  end.

(* Signature.__init__ with parameter validation: kinds in order, no parameter without default after one with a
   default (among the positional ones), no duplicate name -- ValueError otherwise *)
Fixpoint sig_build (ps : list pyval) (top : Z) (seen_default : bool) (acc : list (pyval * pyval))
  : res (list (pyval * pyval)) :=
  match ps with
  | [] => Ok acc
  | p :: t =>
      match param_fields p with
      | None => Raise Unmodelled
      | Some (name, k, d) =>
          if k <? top then Raise ValueError
          else
            let top' := Z.max top k in
            let positional := (k =? 0) || (k =? 1) in
            if positional && is_param_empty d && seen_default then Raise ValueError
            else
              let sd := if positional && negb (is_param_empty d) then true else seen_default in
              if dict_has acc (PStr name) then Raise ValueError
              else sig_build t top' sd (acc ++ [(PStr name, p)])
      end
  end.

Definition dv_Signature (so : set_order) (v : pyval) : res pyval :=
  l <- dv_iter so v ;; ps <- sig_build l 0 false [] ;; Ok (PStruct signature_tag [(n_parameters, PDict ps)]).

(* ------------------------------------------------------------------ calls the translation does not look into *)

(* a method of an object (".m"), a module-level function or class that is not translated ("f"), a run-time
   callable ("()"), `super().m` ("super().m"): its effect on the heap, its result (or exception) and the values
   of its arguments after the call (a container the caller owns may have been updated by the callee) come from
   an oracle, keyed by the name in the source.  A keyword argument k=v is passed as [kwarg k v]. *)
Definition ext_oracle := pystr -> heap -> list pyval -> res (heap * pyval * list pyval).
Definition kwarg (k : pystr) (v : pyval) : pyval := PStruct (s2p "kwarg") [(k, v)].

(* an argument that the caller holds by value (so possibly from several places) must come back from the oracle
   as it went in: the translation could not follow an update of it *)
Definition dv_unchanged (before after : pyval) : res unit :=
  if pyval_eqb before after then Ok tt else Raise Unmodelled.
