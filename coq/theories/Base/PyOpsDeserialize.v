(* L0, fifth part: the further dynamic operators that the GENERATED translation of the deserialization side
   of typedpy/serialization/serialization.py (Gen/DeserializeSrc.v, emitted by
   harness/genmods/py2v_deserialize.py) uses: calls of objects the function does not know statically
   (a builtin class handed in as an argument, a Structure class, a method of a Field object), try/except with
   the state the handler sees, enumerate, in-place operators on a list the function owns, the "unbound local"
   marker, class tests against the class statements of the package, exception classes.

   Conventions (those of Base/PyObj.v and Base/PyOpsFields.v):
     * a typedpy object whose class is a class of the PACKAGE (a Field instance: Array(...), AnyOf(...)) is
       [PStruct <class name> <attributes>]; a parameterless query method m() is the attribute "m()";
     * a [PStruct c _] whose class the package's class table does not know is an instance of a user's
       Structure class (the reading of Base/PyVal.v);
     * a class object of the package or of the user is [ref name], its attributes live in the heap;
     * a builtin class (list, tuple, set, collections.deque, str, int, float, NoneType) is [bref name];
     * every call that leaves the translated functions (a module-level function that is not translated,
       a method with arguments of an object, the call of a class object) goes to ONE oracle
       [ext : name -> positional arguments -> keyword arguments -> outcome]; the name is the function's name,
       "." ++ method name (receiver first among the arguments), or "()" (callee first).
   As in PyOps.v every operator raises the exception class CPython raises for the operand kinds it can meet
   and [Unmodelled] where the model declines to predict.  Executable; the few facts proofs need are at the end. *)
From Coq Require Import ZArith QArith NArith String Ascii Bool Lia List.
Import ListNotations.
From TP Require Import Base.PyVal Base.PyOps Base.PyOps2 Base.PyObj Base.PyOpsFields.
From TP Require Base.PyOpsVersioned Base.PyOpsDerive.
Local Open Scope Z_scope.

(* ------------------------------------------------------------------ the oracle for calls that leave the translation *)

Definition extern := pystr -> list pyval -> list (pystr * pyval) -> res pyval.

Definition call_name : pystr := s2p "()".
Definition meth_name (m : pystr) : pystr := s2p "." ++ m.

(* ------------------------------------------------------------------ builtin classes as values *)

Definition builtin_tag : pystr := s2p "builtin".
Definition bref (name : pystr) : pyval := POther builtin_tag name.

Definition builtin_class (n : pystr) : option pyclass :=
  if pystr_eqb n (s2p "list") then Some K_list
  else if pystr_eqb n (s2p "tuple") then Some K_tuple
  else if pystr_eqb n (s2p "set") then Some K_set
  else if pystr_eqb n (s2p "frozenset") then Some K_frozenset
  else if pystr_eqb n (s2p "deque") then Some K_deque
  else if pystr_eqb n (s2p "dict") then Some K_dict
  else if pystr_eqb n (s2p "str") then Some K_str
  else if pystr_eqb n (s2p "int") then Some K_int
  else if pystr_eqb n (s2p "float") then Some K_float
  else if pystr_eqb n (s2p "bool") then Some K_bool
  else if pystr_eqb n (s2p "Decimal") then Some K_Decimal
  else if pystr_eqb n (s2p "NoneType") then Some K_NoneType
  else None.

(* isinstance(v, c) where c is computed at run time: a builtin class or a tuple of them; anything that is
   not a class is CPython's TypeError; a class of the heap is not predicted here *)
Definition dyn_class (c : pyval) : res (list pyclass) :=
  match c with
  | POther t n =>
      if pystr_eqb t builtin_tag
      then match builtin_class n with Some k => Ok [k] | None => Raise Unmodelled end
      else Raise Unmodelled
  | PStruct _ _ | PEnum _ _ _ => Raise Unmodelled
  | PTuple _ => Raise Unmodelled
  | _ => Raise TypeError
  end.

Definition py_isinstance_dyn (v c : pyval) : res bool :=
  ks <- dyn_class c ;; Ok (py_isinstance v ks).

(* ------------------------------------------------------------------ locals that may be unbound *)

Definition unbound_tag : pystr := s2p "<unbound>".
Definition py_unbound : pyval := POther unbound_tag [].
Definition is_unbound (v : pyval) : bool :=
  match v with POther t _ => pystr_eqb t unbound_tag | _ => false end.
Definition UnboundLocalError : exn := OtherExn (s2p "UnboundLocalError").
(* the read of a local that some path leaves unassigned *)
Definition py_local (v : pyval) : res pyval := if is_unbound v then Raise UnboundLocalError else Ok v.

(* ------------------------------------------------------------------ exceptions *)

Definition exn_name (x : exn) : pystr :=
  match x with
  | TypeError => s2p "TypeError" | ValueError => s2p "ValueError"
  | InvalidStructureErr => s2p "InvalidStructureErr"
  | IndexError => s2p "IndexError" | KeyError => s2p "KeyError" | AttributeError => s2p "AttributeError"
  | OverflowError => s2p "OverflowError" | ZeroDivisionError => s2p "ZeroDivisionError"
  | NotImplementedError => s2p "NotImplementedError" | RuntimeError => s2p "RuntimeError"
  | OutOfFuel => s2p "<OutOfFuel>" | Unmodelled => s2p "<Unmodelled>"
  | OtherExn n => n
  end.

(* the exception object a handler binds with `as e` *)
Definition exn_tag : pystr := s2p "exception".
Definition exn_val (x : exn) : pyval := POther exn_tag (exn_name x).

(* the builtin exception classes the model names: all their proper ancestors *)
Definition builtin_exn_ancestors : list (pystr * list pystr) :=
  [ (s2p "TypeError", [s2p "Exception"; s2p "BaseException"]);
    (s2p "ValueError", [s2p "Exception"; s2p "BaseException"]);
    (s2p "IndexError", [s2p "LookupError"; s2p "Exception"; s2p "BaseException"]);
    (s2p "KeyError", [s2p "LookupError"; s2p "Exception"; s2p "BaseException"]);
    (s2p "AttributeError", [s2p "Exception"; s2p "BaseException"]);
    (s2p "OverflowError", [s2p "ArithmeticError"; s2p "Exception"; s2p "BaseException"]);
    (s2p "ZeroDivisionError", [s2p "ArithmeticError"; s2p "Exception"; s2p "BaseException"]);
    (s2p "RuntimeError", [s2p "Exception"; s2p "BaseException"]);
    (s2p "NotImplementedError", [s2p "RuntimeError"; s2p "Exception"; s2p "BaseException"]) ].

(* [xt]: the exception classes the PACKAGE defines -> all their proper ancestors (generated from the class
   statements). *)
Definition exn_ancestors (xt : class_table) (n : pystr) : list pystr :=
  match alist_get xt n with
  | Some a => a
  | None => match alist_get builtin_exn_ancestors n with
            | Some a => a
            | None => [s2p "Exception"; s2p "BaseException"]
            end
  end.

(* does `except (K1, ..., Kn)` catch x?  The two artefacts of the model are not Python exceptions: never caught.
   An exception class the model does not name ([OtherExn]) is taken to derive from Exception directly and to be
   none of the classes an except clause names (the translator accepts only the classes named here, their builtin
   ancestors, and the package's exception classes that have a constructor in [exn]). *)
Definition exn_caught (xt : class_table) (x : exn) (ks : list pystr) : bool :=
  match x with
  | OutOfFuel | Unmodelled => false
  | OtherExn _ => existsb (fun k => pystr_eqb k (s2p "Exception") || pystr_eqb k (s2p "BaseException")) ks
  | _ => let n := exn_name x in
         existsb (fun k => pystr_eqb n k || str_in k (exn_ancestors xt n)) ks
  end.

(* a statement-level bind inside a `try` body: an exception goes to the handler (which is given the values the
   locals have at that point), not to the caller *)
Definition bind_or {A B} (r : res A) (handler : exn -> res B) (f : A -> res B) : res B :=
  match r with Ok a => f a | Raise x => handler x end.

(* ------------------------------------------------------------------ class tests against the package's class statements *)

Definition structure_cls : pystr := s2p "Structure".

(* isinstance(v, (K1, ..., Kn)) for classes Ki of the package.  An instance of a class of the package is
   decided by the table.  An instance of a class the table does not know is an instance of a user's
   Structure class: it is an instance of Structure and of Structure's ancestors, of no class unrelated to
   Structure, and whether it is an instance of a proper descendant of Structure is not predicted.
   An enum member is an instance of its own class only; plain data of none. *)
Definition cls_isinstance (tbl : class_table) (v : pyval) (ks : list pystr) : res bool :=
  match v with
  | PStruct c _ =>
      if class_known tbl c then Ok (class_in tbl c ks)
      else if existsb (fun k => subclass_of tbl structure_cls k) ks then Ok true
      else if existsb (fun k => subclass_of tbl k structure_cls) ks then Raise Unmodelled
      else Ok false
  | PEnum c _ _ => Ok (str_in c ks)
  | POther t _ => if class_known tbl t then Ok (class_in tbl t ks) else Ok false
  | _ => Ok false
  end.

(* issubclass(c, K) for a class object c of the heap: the heap says so by the pseudo-attribute "issubclass:K" *)
Definition issubclass_attr (k : pystr) : pystr := s2p "issubclass:" ++ k.
Definition obj_issubclass (h : heap) (c : pyval) (ks : list pystr) : res bool :=
  match c with
  | POther t name =>
      if pystr_eqb t ref_tag
      then Ok (existsb (fun k => match h name (issubclass_attr k) with Some b => py_truthy b | None => false end) ks)
      else Raise Unmodelled
  | PStruct _ attrs =>
      (* a class object given with its attributes (the metaclass instance of Ser/MappersSrcProofs.v) *)
      Ok (existsb (fun k => match alist_get attrs (issubclass_attr k) with Some b => py_truthy b | None => false end) ks)
  | PEnum _ _ _ => Raise Unmodelled
  | _ => Raise TypeError
  end.

(* x is K / x is not K for a class K of the package: class objects are [ref name], identified by their names; an
   instance, an enum member, plain data, a builtin class, an exception object, an opaque object (tagged by the
   name of ITS class) are not a class object of the package *)
Definition py_is_classobj (a : pyval) (n : pystr) : res bool :=
  match a with
  | POther t m => if pystr_eqb t ref_tag then Ok (pystr_eqb m n) else Ok false
  | _ => Ok false
  end.

(* x is M / x is not M for an enum member M: members are singletons *)
Definition py_is_member (a m : pyval) : bool := py_eq m a.

(* getattr(o, name, d) with a name computed at run time *)
Definition fld_getattr_dyn_def (h : heap) (o name d : pyval) : res pyval :=
  match name with
  | PStr s => fld_getattr_def h o s d
  | POther _ _ | PStruct _ _ | PEnum _ _ _ => Raise Unmodelled
  | _ => Raise TypeError
  end.

(* ------------------------------------------------------------------ calls *)

Definition hashable_all (l : list pyval) : bool := forallb py_hashable' l.

(* K(args) for a builtin class K: the container conversions; NoneType() *)
Definition call_builtin (n : pystr) (args : list pyval) (kw : list (pystr * pyval)) : res pyval :=
  match builtin_class n with
  | Some K_list =>
      match args, kw with
      | [], [] => Ok (PList [])
      | [x], [] => l <- py_iter x ;; Ok (PList l)
      | _, _ => Raise TypeError
      end
  | Some K_tuple =>
      match args, kw with
      | [], [] => Ok (PTuple [])
      | [x], [] => l <- py_iter x ;; Ok (PTuple l)
      | _, _ => Raise TypeError
      end
  | Some K_deque =>
      match args, kw with
      | [], [] => Ok (PDeque [])
      | [x], [] => l <- py_iter x ;; Ok (PDeque l)
      | _, _ => Raise Unmodelled
      end
  | Some K_set =>
      match args, kw with
      | [], [] => Ok (PSet false [])
      | [x], [] => l <- py_iter x ;; if hashable_all l then Ok (PSet false (py_dedup l)) else Raise TypeError
      | _, _ => Raise TypeError
      end
  | Some K_NoneType =>
      match args, kw with
      | [], [] => Ok PNone
      | _, _ => Raise TypeError
      end
  | _ => Raise Unmodelled
  end.

(* f(args, kw) for a callee computed at run time *)
Definition py_call (ext : extern) (f : pyval) (args : list pyval) (kw : list (pystr * pyval)) : res pyval :=
  match f with
  | POther t n =>
      if pystr_eqb t builtin_tag then call_builtin n args kw
      else if pystr_eqb t ref_tag then ext call_name (f :: args) kw
      else Raise Unmodelled
  | PStruct _ _ | PEnum _ _ _ => ext call_name (f :: args) kw
  | _ => Raise TypeError
  end.

(* f( *v ) : the positional arguments *)
Definition py_star_args (v : pyval) : res (list pyval) := py_iter v.

(* f( **v ) : the keyword arguments; keywords must be strings *)
Fixpoint kw_of_pairs (kv : list (pyval * pyval)) : res (list (pystr * pyval)) :=
  match kv with
  | [] => Ok []
  | (PStr s, v) :: t => r <- kw_of_pairs t ;; Ok ((s, v) :: r)
  | _ :: _ => Raise TypeError
  end.
Definition py_star_kwargs (v : pyval) : res (list (pystr * pyval)) :=
  match v with
  | PDict kv => kw_of_pairs kv
  | POther _ _ | PStruct _ _ | PEnum _ _ _ => Raise Unmodelled
  | _ => Raise TypeError
  end.

(* o.m(args): the methods of a dict that the sources use are interpreted; a method of an object goes to the oracle;
   the methods of other plain data are not predicted *)
Definition py_meth (ext : extern) (o : pyval) (m : pystr) (args : list pyval) (kw : list (pystr * pyval)) : res pyval :=
  match o with
  | PStruct _ _ | PEnum _ _ _ | POther _ _ => ext (meth_name m) (o :: args) kw
  | PDict kv =>
      if pystr_eqb m (s2p "get") then
        match args, kw with
        | [k], [] => PyOpsVersioned.py_dict_get o k PNone
        | [k; d], [] => PyOpsVersioned.py_dict_get o k d
        | _, _ => Raise TypeError
        end
      else Raise Unmodelled
  | _ => Raise Unmodelled
  end.

(* ------------------------------------------------------------------ containers the function owns *)

(* enumerate(l) *)
Fixpoint enum_from (k : Z) (l : list pyval) : list (pyval * pyval) :=
  match l with
  | [] => []
  | x :: t => (zint k, x) :: enum_from (k + 1) t
  end.
Definition py_enumerate (l : list pyval) : list (pyval * pyval) := enum_from 0 l.

(* l += x  for a list l the function itself created: list.extend *)
Definition py_list_extend (l x : pyval) : res pyval :=
  match l with
  | PList xs => ys <- py_iter x ;; Ok (PList (xs ++ ys))
  | _ => Raise Unmodelled
  end.

(* a += b for anything else: immutable operands re-bind the name to a + b; an in-place change of a
   container that may be shared is not predicted *)
Definition py_iadd (a b : pyval) : res pyval :=
  match a with
  | PList _ | PDeque _ | PSet _ _ | PDict _ => Raise Unmodelled
  | _ => PyOpsVersioned.py_add a b
  end.

(* d.update(x) for a dict d the function itself created *)
Definition py_dict_update (d x : pyval) : res pyval :=
  match d, x with
  | PDict ka, PDict kb => Ok (PDict (fold_left (fun acc p => dict_set acc (fst p) (snd p)) kb ka))
  | PDict _, (PNone | PBool _ | PNum _) => Raise TypeError
  | _, _ => Raise Unmodelled
  end.

(* ------------------------------------------------------------------ text *)

(* f"...": the text is the concatenation when every part is a str; the rendering of any other operand is not
   modelled: the result is then an opaque str object (texts only reach messages and `name` arguments) *)
Definition opaque_text : pyval := POther (s2p "str") (s2p "<formatted>").
Fixpoint fstr_parts (l : list pyval) : option pystr :=
  match l with
  | [] => Some []
  | PStr s :: t => match fstr_parts t with Some r => Some (s ++ r) | None => None end
  | _ => None
  end.
Definition py_fstr (l : list pyval) : pyval :=
  match fstr_parts l with Some s => PStr s | None => opaque_text end.

(* ------------------------------------------------------------------ facts *)

Lemma bind_or_ok {A B} (a : A) (hd : exn -> res B) (f : A -> res B) : bind_or (Ok a) hd f = f a.
Proof. reflexivity. Qed.

Lemma bind_or_raise {A B} x (hd : exn -> res B) (f : A -> res B) : bind_or (Raise x) hd f = hd x.
Proof. reflexivity. Qed.

Lemma exn_caught_artefact xt ks : exn_caught xt OutOfFuel ks = false /\ exn_caught xt Unmodelled ks = false.
Proof. split; reflexivity. Qed.
