(* L0, fifth part: the further dynamic operators that the GENERATED translation of the serialization side of
   typedpy/serialization/serialization.py (Gen/SerializeSrc.v, emitted by harness/genmods/py2v_serialize.py:
   serialize_val, serialize_multifield_wrapper, serialize_field, _get_mapped_value,
   _convert_to_camel_case_if_required, serialize_internal, serialize) uses.

   OBJECTS.  Four kinds of Python objects appear besides plain data:
     * a CLASS of the package or of the user ([ref name], Base/PyObj.v) -- its attributes are in [w_cattr];
     * a BUILTIN class (dict, str, types.GeneratorType ...: [bref name]);
     * an INSTANCE of a Field class of the package ([iref address]): its class is [w_icls address], its
       attributes are [w_iattr address]; two references are the same object when the addresses are equal;
     * an instance of a user's Structure class: the VALUE [PStruct cls dict] (cls: the name of its class,
       dict: instance.__dict__ in its order), as in Ser/Serialize.v.  An attribute the instance's own __dict__
       does not have is resolved through its class: [w_sattr cls a].
   A [world] describes them, together with three ORACLES for what is not translated: [w_meth o m args] is the
   result of the method call o.m(args) (m = "__call__": of the call o(args)), [w_ext f args] of the call of a
   function f that is not one of the translated ones (arguments normalised to the positional order of f's own
   signature when f is a function of the package), [w_repr v] the text str(v).  The contract of the two call
   oracles: they answer only for calls that have no effect on any object of the world and [Raise Unmodelled]
   otherwise (an effect cannot be expressed: the world is immutable).

   The subclass relation of the classes of the package is a TABLE generated from the class statements of the
   source (class name -> all proper ancestors; a base class that is not a class of the package appears as
   "ext:<its name as written>").  Classes that are not in the table are user classes: [w_anc].

   As in PyOps.v every operator raises the exception class CPython raises for the operand kinds it can meet
   and [Unmodelled] where the model declines to predict.  Executable; the few facts about the operators that
   proofs need are at the end. *)
From Coq Require Import ZArith NArith String Ascii Bool List.
Import ListNotations.
From TP Require Import Base.PyVal Base.PyOps Base.PyOps2 Base.PyObj Base.PyOpsFields Ser.Json.
From TP Require Base.PyOpsDerive.
Local Open Scope Z_scope.

(* ------------------------------------------------------------------ references *)

Definition inst_tag : pystr := s2p "inst".
Definition iref (addr : pystr) : pyval := POther inst_tag addr.
Definition bltn_tag : pystr := s2p "builtin-class".
Definition bref (name : pystr) : pyval := POther bltn_tag name.
(* a bound method / function object that is only ever tested for truth or called through the oracle *)
Definition meth_tag : pystr := s2p "method".
Definition mref (name : pystr) : pyval := POther meth_tag name.
(* the namespace (__dict__) of a builtin class *)
Definition bns_tag : pystr := s2p "builtin-namespace".

Record world := {
  w_cattr : heap;                                    (* class objects: attribute of the class named .. *)
  w_icls  : pystr -> option pystr;                   (* Field instances: the class of the object at an address *)
  w_iattr : heap;                                    (* Field instances: attribute of the object at an address *)
  w_sattr : pystr -> pystr -> option pyval;          (* instance of the user class ..: attribute found through the class *)
  w_anc   : pystr -> option (list pystr);            (* a class outside the package's table: names of all its proper ancestors *)
  w_meth  : pyval -> pystr -> list pyval -> res pyval;
  w_ext   : pystr -> list pyval -> res pyval;
  w_repr  : pyval -> pystr }.

(* ------------------------------------------------------------------ the class table *)

Definition ext_mark : pystr := s2p "ext:".
Definition is_ext (a : pystr) : bool := str_prefix ext_mark a.
Definition ext_object : pystr := s2p "ext:object".
Definition ext_type : pystr := s2p "ext:type".

Definition ancestors_of (tbl : class_table) (k : pystr) : list pystr :=
  match alist_get tbl k with Some a => a | None => [] end.

(* K descends from a class outside the package other than object (list, dict, enum.Enum, type ...): plain data or
   a class object may then be an instance of K *)
Definition has_ext_base (tbl : class_table) (k : pystr) : bool :=
  existsb (fun a => is_ext a && negb (pystr_eqb a ext_object)) (ancestors_of tbl k).

(* every K of ks is a class of the table all of whose ancestors are classes of the package (or object) *)
Definition pure_classes (tbl : class_table) (ks : list pystr) : bool :=
  forallb (fun k => class_known tbl k && negb (has_ext_base tbl k)) ks.

Definition tag_is (t tag : pystr) : bool := pystr_eqb t tag.

(* isinstance(v, (K1, ..., Kn)) for classes Ki of the package *)
Definition sv_isinstance (tbl : class_table) (x : world) (v : pyval) (ks : list pystr) : res bool :=
  match v with
  | PStruct c _ =>
      match w_anc x c with
      | Some anc => Ok (existsb (fun k => str_in k (c :: anc)) ks)
      | None => Raise Unmodelled
      end
  | POther t a =>
      if tag_is t inst_tag then
        match w_icls x a with
        | Some c => if class_known tbl c then Ok (class_in tbl c ks) else Raise Unmodelled
        | None => Raise Unmodelled
        end
      else if tag_is t ref_tag || tag_is t bltn_tag then
        (* a class object is an instance of its metaclass only *)
        if pure_classes tbl ks then Ok false else Raise Unmodelled
      else Raise Unmodelled
  | PEnum _ _ _ => if pure_classes tbl ks then Ok false else Raise Unmodelled
  | _ => if pure_classes tbl ks then Ok false else Raise Unmodelled
  end.

(* the builtin classes the model's plain data inhabits *)
Definition builtin_class (n : pystr) : option pyclass :=
  if pystr_eqb n (s2p "int") then Some K_int else if pystr_eqb n (s2p "float") then Some K_float
  else if pystr_eqb n (s2p "Decimal") then Some K_Decimal else if pystr_eqb n (s2p "str") then Some K_str
  else if pystr_eqb n (s2p "bool") then Some K_bool else if pystr_eqb n (s2p "list") then Some K_list
  else if pystr_eqb n (s2p "deque") then Some K_deque else if pystr_eqb n (s2p "tuple") then Some K_tuple
  else if pystr_eqb n (s2p "set") then Some K_set else if pystr_eqb n (s2p "frozenset") then Some K_frozenset
  else if pystr_eqb n (s2p "dict") then Some K_dict else if pystr_eqb n (s2p "NoneType") then Some K_NoneType
  else None.

(* builtin classes none of the model's values is an instance of *)
Definition uninhabited_builtin (n : pystr) : bool :=
  pystr_eqb n (s2p "generator") || pystr_eqb n (s2p "function") || pystr_eqb n (s2p "module").

Definition plain_data (v : pyval) : bool :=
  match v with PStruct _ _ | PEnum _ _ _ | POther _ _ => false | _ => true end.

(* isinstance(v, c) for a class OBJECT c obtained at run time *)
Definition sv_isinstance_dyn (tbl : class_table) (x : world) (v c : pyval) : res bool :=
  match c with
  | POther t n =>
      if tag_is t ref_tag then
        if class_known tbl n then sv_isinstance tbl x v [n]
        else match v with
             | PStruct c' _ =>
                 (* a user class: the ancestors of the instance's own class decide *)
                 match w_anc x c' with
                 | Some anc => Ok (str_in n (c' :: anc))
                 | None => Raise Unmodelled
                 end
             | POther _ _ | PEnum _ _ _ => Raise Unmodelled
             | _ =>
                 match w_anc x n with
                 | Some anc_n => if existsb is_ext anc_n then Raise Unmodelled else Ok false
                 | None => Raise Unmodelled
                 end
             end
      else if tag_is t bltn_tag then
        match builtin_class n with
        | Some k => match v with POther _ _ => Raise Unmodelled | _ => Ok (isinstance1 v k) end
        | None =>
            if uninhabited_builtin n then match v with POther _ _ => Raise Unmodelled | _ => Ok false end
            else Raise Unmodelled
        end
      else Raise Unmodelled
  | PNone | PBool _ | PNum _ | PStr _ | PList _ | PDeque _ | PSet _ _ | PDict _ => Raise TypeError
  | _ => Raise Unmodelled
  end.

(* issubclass(c, (K1, ..., Kn)) for classes Ki of the package *)
Definition sv_issubclass (tbl : class_table) (x : world) (c : pyval) (ks : list pystr) : res bool :=
  match c with
  | POther t n =>
      if tag_is t ref_tag then
        if class_known tbl n then Ok (class_in tbl n ks)
        else match w_anc x n with
             | Some anc => Ok (existsb (fun k => str_in k (n :: anc)) ks)
             | None => Raise Unmodelled
             end
      else if tag_is t bltn_tag then
        (* a builtin class descends from no class of the package *)
        if forallb (class_known tbl) ks then Ok false else Raise Unmodelled
      else Raise Unmodelled
  | PStruct _ _ | PEnum _ _ _ => Raise Unmodelled
  | _ => Raise TypeError
  end.

(* isinstance(v, enum.Enum) *)
Definition py_is_enum_member (v : pyval) : res bool :=
  match v with
  | PEnum _ _ _ => Ok true
  | POther _ _ => Raise Unmodelled
  | _ => Ok false
  end.

(* the class of a class object: some metaclass (type, StructMeta, FieldMeta ...), known only as "the metaclass of
   the class named ..": it is none of the builtin classes of plain data *)
Definition meta_tag : pystr := s2p "metaclass-of".

(* v.__class__ / type(v) *)
Definition sv_class_of (x : world) (v : pyval) : res pyval :=
  match v with
  | PStruct c _ => Ok (ref c)
  | PEnum c _ _ => Ok (ref c)
  | POther t a =>
      if tag_is t inst_tag then match w_icls x a with Some c => Ok (ref c) | None => Raise Unmodelled end
      else if tag_is t ref_tag || tag_is t bltn_tag then Ok (POther meta_tag a)     (* the metaclass of the class a *)
      else Raise Unmodelled
  | PNone => Ok (bref (s2p "NoneType"))
  | PBool _ => Ok (bref (s2p "bool"))
  | PNum (NInt _) => Ok (bref (s2p "int"))
  | PNum (NFlt _ _) => Ok (bref (s2p "float"))
  | PNum (NDec _ _) => Ok (bref (s2p "Decimal"))
  | PStr _ => Ok (bref (s2p "str"))
  | PList _ => Raise Unmodelled          (* list or typedpy's _ListStruct *)
  | PTuple _ => Ok (bref (s2p "tuple"))
  | PDeque _ => Raise Unmodelled
  | PSet false _ => Raise Unmodelled
  | PSet true _ => Ok (bref (s2p "frozenset"))
  | PDict _ => Ok (bref (s2p "dict"))
  end.

(* a is b : None, True, False are singletons; classes are identified by their names, Field instances by their
   addresses; an object is never identical to a piece of plain data of another kind *)
Definition obj_kind (v : pyval) : option (pystr * pystr) :=
  match v with
  | POther t n => if tag_is t ref_tag || tag_is t bltn_tag || tag_is t inst_tag then Some (t, n) else None
  | _ => None
  end.

Definition is_meta (v : pyval) : bool := match v with POther t _ => tag_is t meta_tag | _ => false end.
Definition is_data_builtin (v : pyval) : bool :=
  match v with
  | POther t n => tag_is t bltn_tag && match builtin_class n with Some _ => true | None => false end
  | _ => false
  end.

Definition sv_is (a b : pyval) : res bool :=
  if is_meta a then (if is_data_builtin b then Ok false else Raise Unmodelled)
  else if is_meta b then (if is_data_builtin a then Ok false else Raise Unmodelled)
  else
  match obj_kind a, obj_kind b with
  | Some (t1, n1), Some (t2, n2) => Ok (pystr_eqb t1 t2 && pystr_eqb n1 n2)
  | Some _, None =>
      match b with PNone | PBool _ | PNum _ | PStr _ | PList _ | PTuple _ | PDeque _ | PSet _ _ | PDict _ => Ok false
              | _ => Raise Unmodelled end
  | None, Some _ =>
      match a with PNone | PBool _ | PNum _ | PStr _ | PList _ | PTuple _ | PDeque _ | PSet _ _ | PDict _ => Ok false
              | _ => Raise Unmodelled end
  | None, None =>
      match a, b with
      | PNone, PNone => Ok true
      | PBool p, PBool q => Ok (Bool.eqb p q)
      | PNone, (PBool _ | PNum _ | PStr _ | PList _ | PTuple _ | PDeque _ | PSet _ _ | PDict _)
      | (PBool _ | PNum _ | PStr _ | PList _ | PTuple _ | PDeque _ | PSet _ _ | PDict _), PNone => Ok false
      | PBool _, (PNum _ | PStr _ | PList _ | PTuple _ | PDeque _ | PSet _ _ | PDict _)
      | (PNum _ | PStr _ | PList _ | PTuple _ | PDeque _ | PSet _ _ | PDict _), PBool _ => Ok false
      | _, _ => Raise Unmodelled
      end
  end.

(* ------------------------------------------------------------------ attributes *)

Definition dict_of_attrs (attrs : list (pystr * pyval)) : list (pyval * pyval) :=
  map (fun p => (PStr (fst p), snd p)) attrs.

(* an attribute name that no builtin type defines: a single leading underscore *)
Definition private_name (a : pystr) : bool := str_is_sunder a.

Definition str_dict : pystr := s2p "__dict__".

(* the attribute, or None when the object has no such attribute *)
Definition sv_lookup (x : world) (o : pyval) (a : pystr) : res (option pyval) :=
  match o with
  | PStruct c attrs =>
      match w_anc x c with
      | None => Raise Unmodelled
      | Some _ =>
          if pystr_eqb a str_dict then Ok (Some (PDict (dict_of_attrs attrs)))
          else match alist_get attrs a with
               | Some v => Ok (Some v)
               | None => Ok (w_sattr x c a)
               end
      end
  | PEnum _ name v =>
      if pystr_eqb a (s2p "name") then Ok (Some (PStr name))
      else if pystr_eqb a (s2p "value") then Ok (Some v)
      else Raise Unmodelled
  | POther t n =>
      if tag_is t ref_tag then Ok (w_cattr x n a)
      else if tag_is t inst_tag then
        match w_icls x n with Some _ => Ok (w_iattr x n a) | None => Raise Unmodelled end
      else if tag_is t bltn_tag then
        if pystr_eqb a str_dict then Ok (Some (POther bns_tag n)) else Raise Unmodelled
      else Raise Unmodelled
  | _ => if private_name a then Ok None else Raise Unmodelled
  end.

(* o.a / getattr(o, a) *)
Definition sv_getattr (x : world) (o : pyval) (a : pystr) : res pyval :=
  r <- sv_lookup x o a ;; match r with Some v => Ok v | None => Raise AttributeError end.

(* getattr(o, a, d) *)
Definition sv_getattr_def (x : world) (o : pyval) (a : pystr) (d : pyval) : res pyval :=
  r <- sv_lookup x o a ;; Ok (match r with Some v => v | None => d end).

(* getattr(o, name) / getattr(o, name, d) for a name computed at run time *)
Definition sv_getattr_dyn (x : world) (o name : pyval) : res pyval :=
  match name with
  | PStr a => sv_getattr x o a
  | POther _ _ | PStruct _ _ | PEnum _ _ _ => Raise Unmodelled
  | _ => Raise TypeError
  end.
Definition sv_getattr_def_dyn (x : world) (o name d : pyval) : res pyval :=
  match name with
  | PStr a => sv_getattr_def x o a d
  | POther _ _ | PStruct _ _ | PEnum _ _ _ => Raise Unmodelled
  | _ => Raise TypeError
  end.

(* setattr(o, a, v): an effect on an object of the world *)
Definition sv_setattr (x : world) (o : pyval) (a : pystr) (v : pyval) : res pyval := Raise Unmodelled.

(* o.m(args) and f(args) through the oracles *)
Definition sv_call_meth (x : world) (o : pyval) (m : pystr) (args : list pyval) : res pyval := w_meth x o m args.
Definition sv_call (x : world) (f : pyval) (args : list pyval) : res pyval := w_meth x f (s2p "__call__") args.
Definition sv_ext (x : world) (f : pystr) (args : list pyval) : res pyval := w_ext x f args.

(* ------------------------------------------------------------------ dicts, lists, text *)

(* d.get(k) / d.get(k, dflt) *)
Definition py_dict_get (d k dflt : pyval) : res pyval :=
  match d with
  | PDict kv =>
      if py_hashable' k then Ok (match dict_get kv k with Some v => v | None => dflt end) else Raise TypeError
  | POther t n =>
      (* the namespace of a builtin class has no private names *)
      if tag_is t bns_tag then match k with PStr s => if private_name s then Ok dflt else Raise Unmodelled | _ => Raise Unmodelled end
      else Raise Unmodelled
  | PStruct _ _ | PEnum _ _ _ => Raise Unmodelled
  | _ => Raise AttributeError
  end.

Definition pairs_val (kv : list (pyval * pyval)) : pyval := PList (map (fun p => PTuple [fst p; snd p]) kv).

(* d.items() / d.keys() / d.values() as VALUES (a list, in the dict's order) *)
Definition py_items_val (d : pyval) : res pyval := kv <- py_dict_items d ;; Ok (pairs_val kv).
Definition py_keys_val (d : pyval) : res pyval := l <- py_dict_keys d ;; Ok (PList l).
Definition py_values_val (d : pyval) : res pyval := l <- py_dict_values d ;; Ok (PList l).

(* list(v) *)
Definition py_list_of (v : pyval) : res pyval := l <- py_iter v ;; Ok (PList l).

(* a, b = v   /   for a, b in ... *)
Definition py_unpack2 (v : pyval) : res (pyval * pyval) :=
  match v with
  | PTuple [a; b] | PList [a; b] | PDeque [a; b] => Ok (a, b)
  | PTuple _ | PList _ | PDeque _ => Raise ValueError
  | PNone | PBool _ | PNum _ => Raise TypeError
  | _ => Raise Unmodelled
  end.

Fixpoint unpack_all (l : list pyval) : res (list (pyval * pyval)) :=
  match l with
  | [] => Ok []
  | v :: t => p <- py_unpack2 v ;; r <- unpack_all t ;; Ok (p :: r)
  end.

(* dict(v): of a dict, a copy; of a sequence of pairs, built in order *)
Definition py_dict_of_val (v : pyval) : res pyval :=
  match v with
  | PDict kv => Ok (PDict kv)
  | PList l | PTuple l => ps <- unpack_all l ;; py_dict_of ps
  | PNone | PBool _ | PNum _ => Raise TypeError
  | _ => Raise Unmodelled
  end.

(* enumerate(v) *)
Fixpoint enum_from (i : Z) (l : list pyval) : list (pyval * pyval) :=
  match l with
  | [] => []
  | v :: t => (zint i, v) :: enum_from (i + 1) t
  end.
Definition py_enumerate (v : pyval) : res (list (pyval * pyval)) := l <- py_iter v ;; Ok (enum_from 0 l).

(* a + b : concatenation of two sequences of the same kind; arithmetic is not predicted *)
Definition py_add (a b : pyval) : res pyval :=
  let other (b : pyval) : res pyval :=
      match b with
      | PNone | PBool _ | PNum _ | PStr _ | PList _ | PTuple _ | PDict _ | PSet _ _ => Raise TypeError
      | _ => Raise Unmodelled
      end in
  match a with
  | PList l => match b with PList m => Ok (PList (l ++ m)) | _ => other b end
  | PTuple l => match b with PTuple m => Ok (PTuple (l ++ m)) | _ => other b end
  | PStr s => match b with PStr t => Ok (PStr (s ++ t)) | _ => other b end
  | PNone | PDict _ | PSet _ _ => other b
  | _ => Raise Unmodelled
  end.

(* the text of v inside an f-string / str(v): the text of a str is itself; of another value it is w_repr *)
Definition py_format (x : world) (v : pyval) : res pystr :=
  match v with
  | PStr s => Ok s
  | POther _ _ => Raise Unmodelled
  | _ => Ok (w_repr x v)
  end.
Definition py_str_of (x : world) (v : pyval) : res pyval := s <- py_format x v ;; Ok (PStr s).

(* {k: v for ...}: entries inserted one after the other, each key hashed when it is inserted *)
Fixpoint dictcompM {A} (f : A -> res (option (pyval * pyval))) (l : list A) (acc : list (pyval * pyval))
  : res (list (pyval * pyval)) :=
  match l with
  | [] => Ok acc
  | a :: t =>
      o <- f a ;;
      match o with
      | None => dictcompM f t acc
      | Some (k, v) => if py_hashable' k then dictcompM f t (dict_set acc k v) else Raise TypeError
      end
  end.

(* json.loads(json.dumps(v)): a scalar comes back as it is, a dict when it is a JSON document with string keys;
   Decimal, enum members, deque, set are not JSON serializable (TypeError); the rest is not predicted *)
Definition py_json_roundtrip (v : pyval) : res pyval :=
  match v with
  | PNone | PBool _ | PStr _ | PNum (NInt _) | PNum (NFlt _ _) => Ok v
  | PNum (NDec _ _) | PEnum _ _ _ | PDeque _ | PSet _ _ => Raise TypeError
  | PDict _ => if json_doc v then Ok v else Raise Unmodelled
  | _ => Raise Unmodelled
  end.

(* ------------------------------------------------------------------ try / except *)

(* does `except K1, ..., Kn` (classes by their Python names) catch the exception?  The artefacts of the model
   (Unmodelled, OutOfFuel) are not Python exceptions: no clause catches them *)
Definition exn_isa (ex : exn) (k : pystr) : res bool :=
  if model_exn ex then Ok false
  else if pystr_eqb k (s2p "Exception") || pystr_eqb k (s2p "BaseException") then Ok true
  else match ex with
       | TypeError => Ok (pystr_eqb k (s2p "TypeError"))
       | ValueError => Ok (pystr_eqb k (s2p "ValueError"))
       | InvalidStructureErr =>
           Ok (pystr_eqb k (s2p "InvalidStructureErr") || pystr_eqb k (s2p "ValueError") || pystr_eqb k (s2p "TypeError"))
       | IndexError => Ok (pystr_eqb k (s2p "IndexError") || pystr_eqb k (s2p "LookupError"))
       | KeyError => Ok (pystr_eqb k (s2p "KeyError") || pystr_eqb k (s2p "LookupError"))
       | AttributeError => Ok (pystr_eqb k (s2p "AttributeError"))
       | OverflowError => Ok (pystr_eqb k (s2p "OverflowError") || pystr_eqb k (s2p "ArithmeticError"))
       | ZeroDivisionError => Ok (pystr_eqb k (s2p "ZeroDivisionError") || pystr_eqb k (s2p "ArithmeticError"))
       | NotImplementedError => Ok (pystr_eqb k (s2p "NotImplementedError") || pystr_eqb k (s2p "RuntimeError"))
       | RuntimeError => Ok (pystr_eqb k (s2p "RuntimeError"))
       | OtherExn n => if pystr_eqb k n then Ok true else Raise Unmodelled
       | OutOfFuel | Unmodelled => Ok false
       end.

Fixpoint catches (ks : list pystr) (ex : exn) : res bool :=
  match ks with
  | [] => Ok false
  | k :: t => b <- exn_isa ex k ;; if b then Ok true else catches t ex
  end.

(* a bare `except:` *)
Definition catch_all (ex : exn) : res bool := Ok (negb (model_exn ex)).

(* try: BODY  except ...: HANDLER ; REST.   BODY yields [Some v] when it executed `return v`, [None] when control
   fell off its end *)
Definition py_try (catch : exn -> res bool) (body : res (option pyval))
           (rest : unit -> res pyval) (handler : unit -> res pyval) : res pyval :=
  match body with
  | Ok (Some v) => Ok v
  | Ok None => rest tt
  | Raise ex => c <- catch ex ;; if c then handler tt else Raise ex
  end.

(* ------------------------------------------------------------------ facts *)

Lemma tag_inst_ref : tag_is inst_tag ref_tag = false. Proof. reflexivity. Qed.
Lemma tag_inst_inst : tag_is inst_tag inst_tag = true. Proof. reflexivity. Qed.
Lemma tag_ref_inst : tag_is ref_tag inst_tag = false. Proof. reflexivity. Qed.
Lemma tag_ref_ref : tag_is ref_tag ref_tag = true. Proof. reflexivity. Qed.
Lemma tag_bltn_inst : tag_is bltn_tag inst_tag = false. Proof. reflexivity. Qed.
Lemma tag_bltn_ref : tag_is bltn_tag ref_tag = false. Proof. reflexivity. Qed.
Lemma tag_bltn_bltn : tag_is bltn_tag bltn_tag = true. Proof. reflexivity. Qed.

Lemma catch_all_spec ex : catch_all ex = Ok (negb (model_exn ex)).
Proof. reflexivity. Qed.
