(* L0, fourth part: the dynamic operators that the GENERATED translation of
   typedpy/json_schema/json_schema_mapping.py (Gen/SchemaSrc.v, emitted by harness/genmods/py2v_schema.py) uses.

   Objects.  A Python object of a typedpy class (a Field instance, a *Mapper instance) is the value
   [PStruct <class name> <attributes>]; a class is the value [cls_val <class name>].  The class
   hierarchy is a TABLE (class name -> its method resolution order, most specific first) which the
   generator computes (C3 linearisation) from the `class X(bases)` statements of typedpy's source and
   passes to every operator that needs it; a second table lists, per class, the names its body defines.
   As in PyOps.v every operator raises the exception class CPython raises for the operand kinds it can
   meet and [Unmodelled] where the model declines to predict.  Executable; no proofs here. *)
From Coq Require Import ZArith NArith String Bool List.
Import ListNotations.
From TP Require Import Base.PyVal Base.PyOps Base.PyOps2.
Local Open Scope Z_scope.

(* ------------------------------------------------------------------ classes *)

Definition class_tag : pystr := s2p "class".
Definition cls_val (name : pystr) : pyval := POther class_tag name.

Definition class_table := list (pystr * list pystr).      (* name -> __mro__ (names), or -> names defined in the body *)

(* issubclass(c, t) for two classes of the table; None: c is not in the table *)
Definition class_isa (tbl : class_table) (c t : pystr) : option bool :=
  match alist_get tbl c with
  | Some mro => Some (str_in t mro)
  | None => None
  end.

(* type(v) / v.__class__ *)
Definition py_class_of (v : pyval) : res pyval :=
  match v with
  | PStruct c _ => Ok (cls_val c)
  | _ => Raise Unmodelled
  end.

(* c.__name__ *)
Definition py_class_name (c : pyval) : res pyval :=
  match c with
  | POther t name => if pystr_eqb t class_tag then Ok (PStr name) else Raise Unmodelled
  | _ => Raise Unmodelled
  end.

(* c.__mro__ as a list of classes *)
Definition py_mro (tbl : class_table) (c : pyval) : res pyval :=
  match c with
  | POther t name =>
      if pystr_eqb t class_tag then
        match alist_get tbl name with
        | Some mro => Ok (PTuple (map cls_val mro))
        | None => Raise Unmodelled
        end
      else Raise Unmodelled
  | _ => Raise Unmodelled
  end.

(* what isinstance / issubclass can be asked against *)
Inductive iclass :=
| IK (k : pyclass)          (* a builtin of PyOps.v *)
| IEnum                     (* enum.Enum *)
| ICls (name : pystr).      (* a class of the table *)

(* isinstance(v, k): plain data (None, numbers, strings, containers, enum members) is never an instance of a
   class of the table, and an object of a class of the table is never an instance of a builtin data class or of
   enum.Enum (the generator leaves classes that derive from them out of the table); an object of a class that
   is not in the table is not predicted *)
Definition known_class (tbl : class_table) (c : pystr) : bool :=
  match alist_get tbl c with Some _ => true | None => false end.

Definition isinstance_i (tbl : class_table) (v : pyval) (k : iclass) : res bool :=
  match v with
  | POther _ _ => Raise Unmodelled
  | PStruct c _ =>
      if known_class tbl c then
        match k with
        | ICls t => match class_isa tbl c t with Some b => Ok b | None => Raise Unmodelled end
        | _ => Ok false
        end
      else Raise Unmodelled
  | _ =>
      match k with
      | IK b => Ok (isinstance1 v b)
      | IEnum => Ok (match v with PEnum _ _ _ => true | _ => false end)
      | ICls _ => Ok false
      end
  end.

Fixpoint py_isinstance_any (tbl : class_table) (v : pyval) (ks : list iclass) : res bool :=
  match ks with
  | [] => Ok false
  | k :: ks' => b <- isinstance_i tbl v k ;; if b then Ok true else py_isinstance_any tbl v ks'
  end.

(* issubclass(c, T) for a class value c and a class T of the table *)
Definition py_issubclass (tbl : class_table) (c : pyval) (t : pystr) : res bool :=
  match c with
  | POther tg name =>
      if pystr_eqb tg class_tag then
        match class_isa tbl name t with
        | Some b => Ok b
        | None => Raise Unmodelled
        end
      else Raise Unmodelled
  | _ => Raise Unmodelled       (* issubclass(<not a class>, T): TypeError in CPython; never meant *)
  end.

(* the class whose body defines method [m] for an object of class [c] (first along the MRO) *)
Definition py_resolve_method (mro defs : class_table) (c : pyval) (m : pystr) : res pystr :=
  match c with
  | POther tg name =>
      if pystr_eqb tg class_tag then
        match alist_get mro name with
        | Some l =>
            match find (fun k => match alist_get defs k with Some ms => str_in m ms | None => false end) l with
            | Some k => Ok k
            | None => Raise AttributeError
            end
        | None => Raise Unmodelled
        end
      else Raise Unmodelled
  | _ => Raise Unmodelled
  end.

(* ------------------------------------------------------------------ attributes of objects *)

(* o.a : the listed attributes are all the model knows of the object; anything else is not predicted.
   An enum member has .name and .value (as py_getattr of PyOps2.v) *)
Definition obj_attr (o : pyval) (a : pystr) : res pyval :=
  match o with
  | PStruct _ attrs => match alist_get attrs a with Some v => Ok v | None => Raise Unmodelled end
  | PEnum _ _ _ => py_getattr o a
  | POther _ _ => Raise Unmodelled
  | _ => Raise AttributeError
  end.

(* getattr(o, a, d) *)
Definition obj_attr_def (o : pyval) (a : pystr) (d : pyval) : res pyval :=
  match o with
  | PStruct _ attrs => Ok (match alist_get attrs a with Some v => v | None => d end)
  | POther _ _ | PEnum _ _ _ => Raise Unmodelled
  | _ => Ok d
  end.

(* C(x) for a class whose __init__(self, value) is `self.value = value` (checked by the generator for the
   classes listed in [simple]) *)
Definition py_new_simple (simple : list pystr) (attr : pystr) (c x : pyval) : res pyval :=
  match c with
  | POther tg name =>
      if pystr_eqb tg class_tag && str_in name simple then Ok (PStruct name [(attr, x)]) else Raise Unmodelled
  | _ => Raise Unmodelled
  end.

(* ------------------------------------------------------------------ dicts, lists, strings *)

(* d[k] = v on a dict VALUE (the generator allows it only on a local that holds a dict created in the function) *)
Definition py_dict_setitem (d k v : pyval) : res pyval :=
  match d with
  | PDict kv => if py_hashable' k then Ok (PDict (dict_set kv k v)) else Raise TypeError
  | _ => Raise Unmodelled
  end.

(* d.update(e) *)
Definition py_dict_update (d e : pyval) : res pyval :=
  match d, e with
  | PDict kv, PDict kw => Ok (PDict (fold_left (fun acc p => dict_set acc (fst p) (snd p)) kw kv))
  | _, _ => Raise Unmodelled
  end.

(* {k: v for k, v in d.items() if v is not None}: the keys of a dict are distinct, so the fresh dict is the
   sub-list *)
Definition py_dict_drop_none (d : pyval) : res pyval :=
  match d with
  | PDict kv => Ok (PDict (filter (fun p => py_is_not_none (snd p)) kv))
  | _ => Raise Unmodelled
  end.

(* [f(x) for x in l] *)
Definition py_listcomp (f : pyval -> res pyval) (l : pyval) : res pyval :=
  match l with
  | PList xs | PTuple xs | PDeque xs => r <- mapM f xs ;; Ok (PList r)
  | PNone | PBool _ | PNum _ => Raise TypeError
  | _ => Raise Unmodelled
  end.

(* a, b = v *)
Definition py_unpack2 (v : pyval) : res (pyval * pyval) :=
  match v with
  | PList [a; b] | PTuple [a; b] | PDeque [a; b] => Ok (a, b)
  | PList _ | PTuple _ | PDeque _ => Raise ValueError
  | PNone | PBool _ | PNum _ => Raise TypeError
  | _ => Raise Unmodelled
  end.
Definition pair_fst (p : pyval * pyval) : pyval := fst p.
Definition pair_snd (p : pyval * pyval) : pyval := snd p.

(* l[i] for a constant non-negative index *)
Definition py_index (l : pyval) (i : nat) : res pyval :=
  match l with
  | PList xs | PTuple xs | PDeque xs => match nth_error xs i with Some x => Ok x | None => Raise IndexError end
  | PNone | PBool _ | PNum _ => Raise TypeError
  | _ => Raise Unmodelled
  end.

(* a or b, as a VALUE *)
Definition py_or_val (a : pyval) (b : unit -> res pyval) : res pyval :=
  if py_truthy a then Ok a else b tt.
Definition py_and_val (a : pyval) (b : unit -> res pyval) : res pyval :=
  if py_truthy a then b tt else Ok a.

(* str(int) *)
Fixpoint dec_digits (fuel : nat) (n : N) (acc : pystr) : pystr :=
  match fuel with
  | O => acc
  | S f =>
      let d := (48 + N.modulo n 10)%N in
      let q := (n / 10)%N in
      if (q =? 0)%N then d :: acc else dec_digits f q (d :: acc)
  end.
Definition Z_dec (z : Z) : pystr :=
  match z with
  | Z0 => [48%N]
  | Zpos p => dec_digits (S (Pos.size_nat p)) (Npos p) []
  | Zneg p => 45%N :: dec_digits (S (Pos.size_nat p)) (Npos p) []
  end.

(* format(v) inside an f-string, without conversion or format spec *)
Definition py_format (v : pyval) : res pystr :=
  match v with
  | PStr s => Ok s
  | PNum (NInt z) => Ok (Z_dec z)
  | PNone => Ok (s2p "None")
  | PBool true => Ok (s2p "True")
  | PBool false => Ok (s2p "False")
  | _ => Raise Unmodelled
  end.

(* for x in l: <body>  where the body either returns a value (Some) or falls through (None); after the loop
   control goes on with [after] *)
Fixpoint for_return (xs : list pyval) (body : pyval -> res (option pyval)) (after : res pyval) : res pyval :=
  match xs with
  | [] => after
  | x :: xs' => r <- body x ;; match r with Some v => Ok v | None => for_return xs' body after end
  end.
Definition py_for_return (l : pyval) (body : pyval -> res (option pyval)) (after : res pyval) : res pyval :=
  match l with
  | PList xs | PTuple xs | PDeque xs => for_return xs body after
  | PNone | PBool _ | PNum _ => Raise TypeError
  | _ => Raise Unmodelled
  end.

(* a call the model deliberately does not look into (listed by name in the generator) *)
Definition py_opaque_call (name : pystr) : res pyval := Raise Unmodelled.

(* the value of an `...` / `pass` body: falling off the end *)
Definition py_fall_off : res pyval := Ok PNone.
