(* L0, fourth part: the dynamic operators that the GENERATED translation of
   typedpy/json_schema/json_schema_mapping.py (Gen/SchemaSrc.v, emitted by harness/genmods/py2v_schema.py) uses.

   Objects.  A Python object of a typedpy class (a Field instance, a *Mapper instance) is the value
   [PStruct <class name> <attributes>]; a class is the value [cls_val <class name>].  The class
   hierarchy is a TABLE (class name -> its method resolution order, most specific first) which the
   generator computes (C3 linearisation) from the `class X(bases)` statements of typedpy's source and
   passes to every operator that needs it; a second table lists, per class, the names its body defines.
   As in PyOps.v every operator raises the exception class CPython raises for the operand kinds it can
   meet and [Unmodelled] where the model declines to predict.  Executable; no proofs here. *)
From Coq Require Import ZArith NArith String Bool List.
Import ListNotations.
From TP Require Import Base.PyVal Base.PyOps Base.PyOps2.
Local Open Scope Z_scope.

(* ------------------------------------------------------------------ classes *)

Definition class_tag : pystr := s2p "class".
Definition cls_val (name : pystr) : pyval := POther class_tag name.

Definition class_table := list (pystr * list pystr).      (* name -> __mro__ (names), or -> names defined in the body *)

(* issubclass(c, t) for two classes of the table; None: c is not in the table *)
Definition class_isa (tbl : class_table) (c t : pystr) : option bool :=
  match alist_get tbl c with
  | Some mro => Some (str_in t mro)
  | None => None
  end.

(* type(v) / v.__class__ *)
Definition py_class_of (v : pyval) : res pyval :=
  match v with
  | PStruct c _ => Ok (cls_val c)
  | _ => Raise Unmodelled
  end.

(* c.__name__ *)
Definition py_class_name (c : pyval) : res pyval :=
  match c with
  | POther t name => if pystr_eqb t class_tag then Ok (PStr name) else Raise Unmodelled
  | _ => Raise Unmodelled
  end.

(* c.__mro__ as a list of classes *)
Definition py_mro (tbl : class_table) (c : pyval) : res pyval :=
  match c with
  | POther t name =>
      if pystr_eqb t class_tag then
        match alist_get tbl name with
        | Some mro => Ok (PTuple (map cls_val mro))
        | None => Raise Unmodelled
        end
      else Raise Unmodelled
  | _ => Raise Unmodelled
  end.

(* what isinstance / issubclass can be asked against *)
Inductive iclass :=
| IK (k : pyclass)          (* a builtin of PyOps.v *)
| IEnum                     (* enum.Enum *)
| ICls (name : pystr).      (* a class of the table *)

(* isinstance(v, k): plain data (None, numbers, strings, containers, enum members) is never an instance of a
   class of the table, and an object of a class of the table is never an instance of a builtin data class or of
   enum.Enum (the generator leaves classes that derive from them out of the table); an object of a class that
   is not in the table is not predicted *)
Definition known_class (tbl : class_table) (c : pystr) : bool :=
  match alist_get tbl c with Some _ => true | None => false end.

Definition isinstance_i (tbl : class_table) (v : pyval) (k : iclass) : res bool :=
  match v with
  | POther _ _ => Raise Unmodelled
  | PStruct c _ =>
      if known_class tbl c then
        match k with
        | ICls t => match class_isa tbl c t with Some b => Ok b | None => Raise Unmodelled end
        | _ => Ok false
        end
      else Raise Unmodelled
  | _ =>
      match k with
      | IK b => Ok (isinstance1 v b)
      | IEnum => Ok (match v with PEnum _ _ _ => true | _ => false end)
      | ICls _ => Ok false
      end
  end.

Fixpoint py_isinstance_any (tbl : class_table) (v : pyval) (ks : list iclass) : res bool :=
  match ks with
  | [] => Ok false
  | k :: ks' => b <- isinstance_i tbl v k ;; if b then Ok true else py_isinstance_any tbl v ks'
  end.

(* issubclass(c, T) for a class value c and a class T of the table *)
Definition py_issubclass (tbl : class_table) (c : pyval) (t : pystr) : res bool :=
  match c with
  | POther tg name =>
      if pystr_eqb tg class_tag then
        match class_isa tbl name t with
        | Some b => Ok b
        | None => Raise Unmodelled
        end
      else Raise Unmodelled
  | _ => Raise Unmodelled       (* issubclass(<not a class>, T): TypeError in CPython; never meant *)
  end.

(* the class whose body defines method [m] for an object of class [c] (first along the MRO) *)
Definition py_resolve_method (mro defs : class_table) (c : pyval) (m : pystr) : res pystr :=
  match c with
  | POther tg name =>
      if pystr_eqb tg class_tag then
        match alist_get mro name with
        | Some l =>
            match find (fun k => match alist_get defs k with Some ms => str_in m ms | None => false end) l with
            | Some k => Ok k
            | None => Raise AttributeError
            end
        | None => Raise Unmodelled
        end
      else Raise Unmodelled
  | _ => Raise Unmodelled
  end.

(* ------------------------------------------------------------------ attributes of objects *)

(* o.a : the listed attributes are all the model knows of the object; anything else is not predicted.
   An enum member has .name and .value (as py_getattr of PyOps2.v) *)
Definition obj_attr (o : pyval) (a : pystr) : res pyval :=
  match o with
  | PStruct _ attrs => match alist_get attrs a with Some v => Ok v | None => Raise Unmodelled end
  | PEnum _ _ _ => py_getattr o a
  | POther _ _ => Raise Unmodelled
  | _ => Raise AttributeError
  end.

(* getattr(o, a, d) *)
Definition obj_attr_def (o : pyval) (a : pystr) (d : pyval) : res pyval :=
  match o with
  | PStruct _ attrs => Ok (match alist_get attrs a with Some v => v | None => d end)
  | POther _ _ | PEnum _ _ _ => Raise Unmodelled
  | _ => Ok d
  end.

(* C(x) for a class whose __init__(self, value) is `self.value = value` (checked by the generator for the
   classes listed in [simple]) *)
Definition py_new_simple (simple : list pystr) (attr : pystr) (c x : pyval) : res pyval :=
  match c with
  | POther tg name =>
      if pystr_eqb tg class_tag && str_in name simple then Ok (PStruct name [(attr, x)]) else Raise Unmodelled
  | _ => Raise Unmodelled
  end.

(* ------------------------------------------------------------------ dicts, lists, strings *)

(* d[k] = v on a dict VALUE (the generator allows it only on a local that holds a dict created in the function) *)
Definition py_dict_setitem (d k v : pyval) : res pyval :=
  match d with
  | PDict kv => if py_hashable' k then Ok (PDict (dict_set kv k v)) else Raise TypeError
  | _ => Raise Unmodelled
  end.

(* d.update(e) *)
Definition py_dict_update (d e : pyval) : res pyval :=
  match d, e with
  | PDict kv, PDict kw => Ok (PDict (fold_left (fun acc p => dict_set acc (fst p) (snd p)) kw kv))
  | _, _ => Raise Unmodelled
  end.

(* {k: v for k, v in d.items() if v is not None}: the keys of a dict are distinct, so the fresh dict is the
   sub-list *)
Definition py_dict_drop_none (d : pyval) : res pyval :=
  match d with
  | PDict kv => Ok (PDict (filter (fun p => py_is_not_none (snd p)) kv))
  | _ => Raise Unmodelled
  end.

(* [f(x) for x in l] *)
Definition py_listcomp (f : pyval -> res pyval) (l : pyval) : res pyval :=
  match l with
  | PList xs | PTuple xs | PDeque xs => r <- mapM f xs ;; Ok (PList r)
  | PNone | PBool _ | PNum _ => Raise TypeError
  | _ => Raise Unmodelled
  end.

(* a, b = v *)
Definition py_unpack2 (v : pyval) : res (pyval * pyval) :=
  match v with
  | PList [a; b] | PTuple [a; b] | PDeque [a; b] => Ok (a, b)
  | PList _ | PTuple _ | PDeque _ => Raise ValueError
  | PNone | PBool _ | PNum _ => Raise TypeError
  | _ => Raise Unmodelled
  end.
Definition pair_fst (p : pyval * pyval) : pyval := fst p.
Definition pair_snd (p : pyval * pyval) : pyval := snd p.

(* l[i] for a constant non-negative index *)
Definition py_index (l : pyval) (i : nat) : res pyval :=
  match l with
  | PList xs | PTuple xs | PDeque xs => match nth_error xs i with Some x => Ok x | None => Raise IndexError end
  | PNone | PBool _ | PNum _ => Raise TypeError
  | _ => Raise Unmodelled
  end.

(* a or b, as a VALUE *)
Definition py_or_val (a : pyval) (b : unit -> res pyval) : res pyval :=
  if py_truthy a then Ok a else b tt.
Definition py_and_val (a : pyval) (b : unit -> res pyval) : res pyval :=
  if py_truthy a then b tt else Ok a.

(* str(int) *)
Fixpoint dec_digits (fuel : nat) (n : N) (acc : pystr) : pystr :=
  match fuel with
  | O => acc
  | S f =>
      let d := (48 + N.modulo n 10)%N in
      let q := (n / 10)%N in
      if (q =? 0)%N then d :: acc else dec_digits f q (d :: acc)
  end.
Definition Z_dec (z : Z) : pystr :=
  match z with
  | Z0 => [48%N]
  | Zpos p => dec_digits (S (Pos.size_nat p)) (Npos p) []
  | Zneg p => 45%N :: dec_digits (S (Pos.size_nat p)) (Npos p) []
  end.

(* format(v) inside an f-string, without conversion or format spec *)
Definition py_format (v : pyval) : res pystr :=
  match v with
  | PStr s => Ok s
  | PNum (NInt z) => Ok (Z_dec z)
  | PNone => Ok (s2p "None")
  | PBool true => Ok (s2p "True")
  | PBool false => Ok (s2p "False")
  | _ => Raise Unmodelled
  end.

(* for x in l: <body>  where the body either returns a value (Some) or falls through (None); after the loop
   control goes on with [after] *)
Fixpoint for_return (xs : list pyval) (body : pyval -> res (option pyval)) (after : res pyval) : res pyval :=
  match xs with
  | [] => after
  | x :: xs' => r <- body x ;; match r with Some v => Ok v | None => for_return xs' body after end
  end.
Definition py_for_return (l : pyval) (body : pyval -> res (option pyval)) (after : res pyval) : res pyval :=
  match l with
  | PList xs | PTuple xs | PDeque xs => for_return xs body after
  | PNone | PBool _ | PNum _ => Raise TypeError
  | _ => Raise Unmodelled
  end.

(* a call the model deliberately does not look into (listed by name in the generator) *)
Definition py_opaque_call (name : pystr) : res pyval := Raise Unmodelled.

(* the value of an `...` / `pass` body: falling off the end *)
Definition py_fall_off : res pyval := Ok PNone.

(* ================================================================== class-level functions (structure_to_schema) *)

(* the caller's definitions dict, where a function returns it next to its result: the dict itself is only ever
   passed through and written by [defs_store]; its place in a returned tuple is marked by this token *)
Definition defs_token : pyval := POther (s2p "definitions") [].

(* attributes of CLASSES live in a heap: class name -> attribute name -> value (None: the class has no such
   attribute); `C.m()` for a parameterless query method is the attribute "m()".  Other objects as [obj_attr]. *)
Definition cheap := pystr -> pystr -> option pyval.

Definition hobj_attr (h : cheap) (o : pyval) (a : pystr) : res pyval :=
  match o with
  | POther tg name =>
      if pystr_eqb tg class_tag then match h name a with Some v => Ok v | None => Raise Unmodelled end
      else Raise Unmodelled
  | _ => obj_attr o a
  end.

Definition hobj_attr_def (h : cheap) (o : pyval) (a : pystr) (d : pyval) : res pyval :=
  match o with
  | POther tg name =>
      if pystr_eqb tg class_tag then Ok (match h name a with Some v => v | None => d end)
      else Raise Unmodelled
  | _ => obj_attr_def o a d
  end.

(* issubclass(c, T): a class of the table by the table; any other class by its "__mro__" in the heap *)
Definition py_issubclass_h (h : cheap) (tbl : class_table) (c : pyval) (t : pystr) : res bool :=
  match c with
  | POther tg name =>
      if pystr_eqb tg class_tag then
        match class_isa tbl name t with
        | Some b => Ok b
        | None =>
            match h name (s2p "__mro__") with
            | Some (PTuple l) => Ok (existsb (fun k => py_eq k (cls_val t)) l)
            | _ => Raise Unmodelled
            end
        end
      else Raise Unmodelled
  | PStruct _ _ => Raise Unmodelled
  | _ => Raise TypeError            (* issubclass() arg 1 must be a class *)
  end.

(* v is C, for a class C *)
Definition py_is_class (v : pyval) (name : pystr) : bool :=
  match v with
  | POther tg n => pystr_eqb tg class_tag && pystr_eqb n name
  | _ => false
  end.

(* list(x), d.keys(), d.items(), set(x) *)
Definition py_list (v : pyval) : res pyval :=
  match v with
  | PList l | PTuple l | PDeque l | PSet _ l => Ok (PList l)
  | PDict kv => Ok (PList (map fst kv))
  | PNone | PBool _ | PNum _ => Raise TypeError
  | _ => Raise Unmodelled
  end.
Definition py_dict_keys (v : pyval) : res pyval :=
  match v with PDict kv => Ok (PList (map fst kv)) | _ => Raise Unmodelled end.
Definition py_dict_items (v : pyval) : res pyval :=
  match v with PDict kv => Ok (PList (map (fun p => PTuple [fst p; snd p]) kv)) | _ => Raise Unmodelled end.
Definition py_set (v : pyval) : res pyval :=
  match v with
  | PList l | PTuple l | PDeque l | PSet _ l =>
      if forallb py_hashable' l then Ok (PSet false (py_dedup l)) else Raise TypeError
  | PNone | PBool _ | PNum _ => Raise TypeError
  | _ => Raise Unmodelled
  end.

(* sorted(l) for a list of strings: code-point order *)
Fixpoint cp_leb (a b : pystr) : bool :=
  match a, b with
  | [], _ => true
  | _ :: _, [] => false
  | x :: a', y :: b' => if N.ltb x y then true else if N.ltb y x then false else cp_leb a' b'
  end.
Fixpoint cp_insert (x : pystr) (l : list pystr) : list pystr :=
  match l with
  | [] => [x]
  | y :: t => if cp_leb x y then x :: l else y :: cp_insert x t
  end.
Definition cp_sort (l : list pystr) : list pystr := fold_right cp_insert [] l.
Fixpoint all_strs (l : list pyval) : option (list pystr) :=
  match l with
  | [] => Some []
  | PStr s :: t => match all_strs t with Some r => Some (s :: r) | None => None end
  | _ => None
  end.
Definition py_sorted (v : pyval) : res pyval :=
  match v with
  | PList l | PTuple l =>
      match all_strs l with Some ss => Ok (PList (map PStr (cp_sort ss))) | None => Raise Unmodelled end
  | _ => Raise Unmodelled
  end.

(* callable(v): data is not; objects and classes are not predicted *)
Definition py_callable (v : pyval) : res pyval :=
  match v with
  | PStruct _ _ | POther _ _ => Raise Unmodelled
  | _ => Ok (PBool false)
  end.

(* typedpy.commons.first_in(iterable) *)
Definition py_first_in (v : pyval) : res pyval :=
  match v with
  | PList (x :: _) | PTuple (x :: _) => Ok x
  | _ => Raise Unmodelled
  end.

(* OrderedDict([(k, v), ...]) *)
Definition py_dict_of_pairs (v : pyval) : res pyval :=
  match v with
  | PList l =>
      r <- mapM (fun p => match p with PTuple [k; x] => Ok (k, x) | _ => Raise Unmodelled end) l ;;
      Ok (PDict (fold_left (fun acc p => dict_set acc (fst p) (snd p)) r []))
  | _ => Raise Unmodelled
  end.

(* d.get(k, default) *)
Definition py_dict_get_def (d k dflt : pyval) : res pyval :=
  match d with
  | PDict kv => if py_hashable' k then Ok (match dict_get kv k with Some v => v | None => dflt end) else Raise TypeError
  | _ => Raise Unmodelled
  end.

(* l.index(x), l.pop(i), l.append(x) on a list VALUE; c[k] = v on a dict or a list *)
Fixpoint index_of (xs : list pyval) (x : pyval) (i : Z) : option Z :=
  match xs with
  | [] => None
  | y :: t => if py_eq y x then Some i else index_of t x (i + 1)
  end.
Definition py_list_index (l x : pyval) : res pyval :=
  match l with
  | PList xs => match index_of xs x 0 with Some i => Ok (zint i) | None => Raise ValueError end
  | _ => Raise Unmodelled
  end.
Fixpoint remove_nth {A} (n : nat) (l : list A) : list A :=
  match n, l with
  | _, [] => []
  | O, _ :: t => t
  | S k, x :: t => x :: remove_nth k t
  end.
Fixpoint replace_nth {A} (n : nat) (v : A) (l : list A) : list A :=
  match n, l with
  | _, [] => []
  | O, _ :: t => v :: t
  | S k, x :: t => x :: replace_nth k v t
  end.
Definition py_list_pop (l i : pyval) : res pyval :=
  match l, i with
  | PList xs, PNum (NInt z) =>
      if (0 <=? z) && (z <? lenZ' xs) then Ok (PList (remove_nth (Z.to_nat z) xs))
      else if z <? 0 then Raise Unmodelled else Raise IndexError
  | _, _ => Raise Unmodelled
  end.
Definition py_list_append (l x : pyval) : res pyval :=
  match l with PList xs => Ok (PList (xs ++ [x])) | _ => Raise Unmodelled end.
Definition py_setitem (c k v : pyval) : res pyval :=
  match c with
  | PDict _ => py_dict_setitem c k v
  | PList xs =>
      match k with
      | PNum (NInt z) =>
          if (0 <=? z) && (z <? lenZ' xs) then Ok (PList (replace_nth (Z.to_nat z) v xs))
          else if z <? 0 then Raise Unmodelled else Raise IndexError
      | _ => Raise Unmodelled
      end
  | _ => Raise Unmodelled
  end.

(* for x in l: <body that changes the locals gathered in the state> *)
Fixpoint for_state {S} (xs : list pyval) (body : pyval -> S -> res S) (st : S) : res S :=
  match xs with
  | [] => Ok st
  | x :: xs' => st' <- body x st ;; for_state xs' body st'
  end.
Definition py_for_state {S} (l : pyval) (body : pyval -> S -> res S) (st : S) : res S :=
  match l with
  | PList xs | PTuple xs | PDeque xs => for_state xs body st
  | PNone | PBool _ | PNum _ => Raise TypeError
  | _ => Raise Unmodelled
  end.
