(* C09 — how a JSON schema DOCUMENT (a [pyval], as the generator of typedpy/json_schema/json_schema_mapping.py
   receives it) is seen as a description of the hand-written token model Schema/CodeGen.v ([jfield], [jclass]).
   [field_of] / [class_of] read a document the way the harness does (harness/props/c09.py to_field / to_class):
   they answer None outside the model's fragment.  The fragment is wider than the harness's: keys the generator
   never looks at are ignored, the keys of a document may come in any order, a multi-field schema takes its fields
   from the FIRST entry of the document (as the generator does).  Numbers and booleans become the Python text the
   model carries ([LRaw]) through the oracle [co_num_text].
   Schema/CodegenSrcProofs.v proves that on this fragment the GENERATED translation of the generator
   (Gen/CodegenSrc.v) emits exactly the text of the model's token list.  No proofs in this file. *)
From Coq Require Import NArith List Bool String.
Import ListNotations.
From TP Require Import Base.PyVal Base.PyOps Base.PyOpsCodegen Schema.PyLiteral Schema.CodeGen Gen.EmitSites.
Local Open Scope string_scope.

Notation sget kv k := (dict_get kv (PStr (s2p k))).
Notation shas kv k := (dict_has kv (PStr (s2p k))).
Definition getdef (kv : list (pyval * pyval)) (k : pystr) (d : pyval) : pyval :=
  match dict_get kv (PStr k) with Some v => v | None => d end.

(* the text the generator writes for a token list: [render] under the GENERATED site table *)
Definition rt (O : cg_oracle) (toks : list tok) : pystr := render (co_printable O) emit_sites toks.

Fixpoint mapO {A B} (f : A -> option B) (l : list A) : option (list B) :=
  match l with
  | [] => Some []
  | x :: t => match f x, mapO f t with Some y, Some ys => Some (y :: ys) | _, _ => None end
  end.

(* ------------------------------------------------------------------ literals *)

Definition num_of (O : cg_oracle) (v : pyval) : option pystr :=
  match v with
  | PBool b => Some (if b then s2p "True" else s2p "False")
  | PNum n => Some (co_num_text O n)
  | _ => None
  end.

Definition lit_of (O : cg_oracle) (v : pyval) : option jlit :=
  match v with
  | PStr s => Some (LStr s)
  | _ => option_map LRaw (num_of O v)
  end.

Definition dict_lit_of (O : cg_oracle) (p : pyval * pyval) : option (pystr * jlit) :=
  match fst p, lit_of O (snd p) with
  | PStr k, Some l => Some (k, l)
  | _, _ => None
  end.

(* "default": a scalar (not null), a list of scalars, a dict of scalars with string keys *)
Definition default_of (O : cg_oracle) (kv : list (pyval * pyval)) : option (option jdefault) :=
  match sget kv "default" with
  | None => Some None
  | Some (PList l) => option_map (fun ls => Some (DList ls)) (mapO (lit_of O) l)
  | Some (PDict d) => option_map (fun ls => Some (DDict ls)) (mapO (dict_lit_of O) d)
  | Some v => option_map (fun l => Some (DScalar l)) (lit_of O v)
  end.

(* the numeric / boolean keywords of [keys] that are present and not null, in the order of [keys] *)
Fixpoint nums_of (O : cg_oracle) (kv : list (pyval * pyval)) (keys : list pystr) : option (list (pystr * pystr)) :=
  match keys with
  | [] => Some []
  | k :: t =>
      match nums_of O kv t with
      | None => None
      | Some r =>
          match getdef kv k PNone with
          | PNone => Some r
          | v => match num_of O v with Some tx => Some ((k, tx) :: r) | None => None end
          end
      end
  end.

Definition required_of (v : option pyval) : option (option (list pystr)) :=
  match v with
  | None | Some PNone => Some None
  | Some (PList l) => option_map Some (as_strs l)
  | Some _ => None
  end.

(* ------------------------------------------------------------------ fields *)

Definition items_of (sub : pyval -> option jfield) (v : pyval) : option (ikind * list jfield) :=
  match v with
  | PNone => Some (INone, [])
  | PList l => option_map (fun fs => (IMany, fs)) (mapO sub l)
  | PDict _ => option_map (fun f => (IOne, [f])) (sub v)
  | _ => None
  end.

Definition prop_of (sub : pyval -> option jfield) (p : pyval * pyval) : option (pystr * jfield) :=
  match fst p, sub (snd p) with
  | PStr k, Some f => Some (k, f)
  | _, _ => None
  end.

Notation K s := (s2p s) (only parsing).

Definition string_keys : list pystr := [K "minLength"; K "maxLength"].
Definition number_keys : list pystr := [K "multiplesOf"; K "minimum"; K "maximum"; K "exclusiveMaximum"].
Definition array_keys : list pystr := [K "uniqueItems"; K "additionalItems"; K "minItems"; K "maxItems"].

Definition multi_ctor (kv : list (pyval * pyval)) : pystr :=
  if shas kv "not" then s2p "NotField"
  else if shas kv "oneOf" then s2p "OneOf"
  else if shas kv "anyOf" then s2p "AnyOf"
  else s2p "AllOf".

Definition is_multi (kv : list (pyval * pyval)) : bool :=
  shas kv "allOf" || shas kv "anyOf" || shas kv "oneOf" || shas kv "not".

Definition closed_of (kv : list (pyval * pyval)) : bool :=
  negb (py_truthy (getdef kv (K "additionalProperties") (PBool true))).

(* the value schema of a map: additionalProperties when it is truthy (a schema); the model has no patternProperties,
   maxItems, minItems on a map *)
Definition map_value_of (sub : pyval -> option jfield) (kv : list (pyval * pyval)) : option (option jfield) :=
  let ap := getdef kv (K "additionalProperties") PNone in
  if py_truthy ap then
    match getdef kv (K "maxItems") PNone, getdef kv (K "minItems") PNone, sub ap with
    | PNone, PNone, Some v => Some (Some v)
    | _, _, _ => None
    end
  else Some None.

Definition object_of (O : cg_oracle) (sub : pyval -> option jfield) (kv : list (pyval * pyval)) : option jfield :=
  if shas kv "properties" then
    match sget kv "properties", required_of (sget kv "required"), default_of O kv with
    | Some (PDict pkv), Some req, Some d =>
        option_map (fun props => FObject (closed_of kv) req props d) (mapO (prop_of sub) pkv)
    | _, _, _ => None
    end
  else
    if py_truthy (getdef kv (K "patternProperties") PNone) then None
    else
      match map_value_of sub kv, default_of O kv with
      | Some value, Some d => Some (FMap value d)
      | _, _ => None
      end.

Definition pat_of (kv : list (pyval * pyval)) : option (option pystr) :=
  if shas kv "pattern" then match sget kv "pattern" with Some (PStr p) => Some (Some p) | _ => None end
  else Some None.

Definition typed_of (O : cg_oracle) (sub : pyval -> option jfield) (kv : list (pyval * pyval)) (t : pystr)
  : option jfield :=
  if pystr_eqb t (K "object") then object_of O sub kv
  else if pystr_eqb t (K "string") then
    match nums_of O kv string_keys, pat_of kv, default_of O kv with
    | Some nums, Some pat, Some d => Some (FString nums pat d)
    | _, _, _ => None
    end
  else if pystr_eqb t (K "integer") || pystr_eqb t (K "number") then
    match nums_of O kv number_keys, default_of O kv with
    | Some nums, Some d => Some (FNumeric (if pystr_eqb t (K "integer") then s2p "Integer" else s2p "Number") nums d)
    | _, _ => None
    end
  else if pystr_eqb t (K "boolean") then option_map FBoolean (default_of O kv)
  else if pystr_eqb t (K "array") then
    match nums_of O kv array_keys, items_of sub (getdef kv (K "items") PNone), default_of O kv with
    | Some flags, Some (k, fs), Some d => Some (FArray flags k fs d)
    | _, _, _ => None
    end
  else None.

Definition field_of_dict (O : cg_oracle) (sub : pyval -> option jfield) (kv : list (pyval * pyval)) : option jfield :=
  if shas kv "$ref" then
    if shas kv "default" then None
    else match sget kv "$ref" with
         | Some (PStr r) => Some (FRef (skipn 14 r))
         | _ => None
         end
  else if is_multi kv then
    match kv with
    | (_, v0) :: _ =>
        match items_of sub v0, default_of O kv with
        | Some (k, fs), Some d => Some (FMulti (multi_ctor kv) k fs d)
        | _, _ => None
        end
    | [] => None
    end
  else if shas kv "enum" then
    match sget kv "enum", default_of O kv with
    | Some (PList l), Some d => option_map (fun ls => FEnum ls d) (mapO (lit_of O) l)
    | _, _ => None
    end
  else
    match sget kv "type" with
    | None => object_of O sub kv
    | Some (PStr t) => typed_of O sub kv t
    | Some _ => None
    end.

(* the recursion of the generator through sub-schemas takes fuel (as its translation does) *)
Fixpoint field_of (O : cg_oracle) (fuel : nat) (sch : pyval) : option jfield :=
  match fuel with
  | 0%nat => None
  | S n => match sch with
           | PDict kv => field_of_dict O (field_of O n) kv
           | _ => None
           end
  end.

(* ------------------------------------------------------------------ classes *)

Definition class_of (O : cg_oracle) (fuel : nat) (name : pystr) (sch : pyval) : option jclass :=
  match sch with
  | PDict kv =>
      let type_ok := match sget kv "type" with
                     | None => shas kv "properties"
                     | Some (PStr t) => pystr_eqb t (K "object")
                     | Some _ => false
                     end in
      let desc := if shas kv "description" then
                    match sget kv "description" with Some (PStr d) => Some (Some d) | _ => None end
                  else Some None in
      let props := match sget kv "properties" with
                   | None => Some []
                   | Some (PDict pkv) => mapO (prop_of (field_of O fuel)) pkv
                   | Some _ => None
                   end in
      if type_ok then
        match desc, required_of (sget kv "required"), props with
        | Some d, Some req, Some ps =>
            Some {| c_name := name; c_description := d; c_closed := closed_of kv; c_required := req; c_props := ps |}
        | _, _, _ => None
        end
      else None
  | _ => None
  end.

(* the definitions document: one class per entry, in the document's order *)
Definition def_of (O : cg_oracle) (fuel : nat) (p : pyval * pyval) : option jclass :=
  match fst p with
  | PStr name => class_of O fuel name (snd p)
  | _ => None
  end.

Definition classes_of (O : cg_oracle) (fuel : nat) (defs : pyval) : option (list jclass) :=
  match defs with
  | PDict kv => mapO (def_of O fuel) kv
  | _ => None
  end.

(* ------------------------------------------------------------------ parameter lists *)

(* the text `name=value` the generator writes for the entries of a parameter list (a list of 2-tuples) *)
Definition ptext (O : cg_oracle) (p : pyval) : res pystr :=
  match p with
  | PTuple [k; v] => a <- cg_format O k ;; b <- cg_format O v ;; Ok (a ++ s2p "=" ++ b)%list
  | _ => Raise Unmodelled
  end.
Definition ptexts (O : cg_oracle) (ps : list pyval) : res (list pystr) := mapM (ptext O) ps.

(* the model's parameter list of a field, without the trailing `default=` *)
Definition model_params (f : jfield) : list (list tok) :=
  match f with
  | FString nums pat _ =>
      num_params nums ++ match pat with Some p => [kv [raw "pattern"] [TStr (s2p "pattern") p]] | None => [] end
  | FNumeric _ nums _ => num_params nums
  | FBoolean _ => []
  | FEnum values _ => [kv [raw "values"] (list_toks (s2p "enum") values)]
  | FRef _ => []
  | FArray flags kind items _ =>
      num_params flags ++ match items_toks kind (map field_toks items) with
                          | Some c => [kv [raw "items"] c]
                          | None => []
                          end
  | FMulti _ kind fields _ =>
      match (match kind with
             | IOne => items_toks IMany (match fields with f0 :: _ => [field_toks f0] | [] => [] end)
             | k => items_toks k (map field_toks fields)
             end) with
      | Some c => [kv [raw "fields"] c]
      | None => [kv [raw "fields"] [raw "None"]]
      end
  | FObject closed req props _ =>
      (if closed then [kv [raw "_additional_properties"] [raw "False"]] else [])
      ++ match req with
         | Some r => [kv [raw "_required"] (list_toks (s2p "nested_required") (map LStr r))]
         | None => []
         end
      ++ map (fun p => kv [TStr (s2p "nested_property_name") (fst p)] (field_toks (snd p))) props
  | FMap value _ =>
      match value with
      | Some v => [kv [raw "items"] (raw "[String(), " :: field_toks v ++ [raw "]"])]
      | None => []
      end
  end.

Definition model_ctor (f : jfield) : pystr :=
  match f with
  | FString _ _ _ => s2p "String"
  | FNumeric c _ _ => c
  | FBoolean _ => s2p "Boolean"
  | FEnum _ _ => s2p "Enum"
  | FRef _ => []
  | FArray _ _ _ _ => s2p "Array"
  | FMulti c _ _ _ => c
  | FObject _ _ _ _ => s2p "StructureReference"
  | FMap _ _ => s2p "Map"
  end.
