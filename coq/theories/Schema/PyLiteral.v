(* C09 — model of the lexical layer the schema-to-code generator relies on.

   typedpy/json_schema/json_schema_mapping.py builds Python source by string concatenation.  Whether
   the output compiles, and whether it means what the schema says, is decided where a schema-supplied
   string is turned into source text.  This file models
     * the quoting disciplines found at those sites ([quoting], [emit]);
     * CPython's lexer for string literals ([lex_lit]): short (single- or double-quoted) and
       triple-quoted literals over [pystr = list N] with the escape sequences backslash +
       backslash, quote, double quote, n r t a b f v, octal, xHH, uHHHH, UHHHHHHHH,
       backslash-newline, unknown escapes (the backslash stays),
       termination, raw newline / NUL / surrogate handling and the CR -> LF translation of the
       source reader;  the named escape N{name} needs the Unicode name table and is answered [None] (whatever CPython
       makes of it is a single character, never the text that was written);
     * NAME tokens for the sites that emit a schema string as an identifier ([lex_ident]);
     * the syntactic characterisation [quote_ok] of the strings each discipline emits correctly.
   No proofs here (Schema/PyLiteralProofs.v). *)
From Coq Require Import NArith List Bool.
Import ListNotations.
From TP Require Import Base.PyVal.
Local Open Scope N_scope.

Definition SQ : N := 39.   (* single quote *)
Definition DQ : N := 34.   (* double quote *)
Definition BS : N := 92.   (* backslash *)
Definition NL : N := 10.
Definition CR : N := 13.
Definition TAB : N := 9.

Inductive quoting :=
| Repr            (* repr(x), an f-string field with !r, or str() of a list/dict holding the string *)
| WrapVal         (* typedpy.commons.wrap_val: the value pasted between single quotes *)
| RawFString      (* an f-string that writes single quotes around the value in place *)
| TripleQuoted    (* the value pasted between triple double quotes *)
| Identifier      (* the value pasted as a name *)
| Unrecognised.   (* the translator does not understand the site: nothing is assumed safe *)

Definition quoting_eqb (a b : quoting) : bool :=
  match a, b with
  | Repr, Repr | WrapVal, WrapVal | RawFString, RawFString | TripleQuoted, TripleQuoted
  | Identifier, Identifier | Unrecognised, Unrecognised => true
  | _, _ => false
  end.

(* ------------------------------------------------------------------ characters *)

Definition is_surrogate (c : N) : bool := (55296 <=? c) && (c <=? 57343).
Definition valid_char (c : N) : bool := c <? 1114112.
Definition valid_str (s : pystr) : bool := forallb valid_char s.

Definition oct_val (c : N) : option N :=
  if (48 <=? c) && (c <=? 55) then Some (c - 48) else None.

Definition hex_val (c : N) : option N :=
  if (48 <=? c) && (c <=? 57) then Some (c - 48)
  else if (97 <=? c) && (c <=? 102) then Some (c - 87)
  else if (65 <=? c) && (c <=? 70) then Some (c - 55)
  else None.

(* backslash followed by: backslash, quote, double quote, n r t a b f v *)
Definition simple_escape (e : N) : option N :=
  if e =? BS then Some BS
  else if e =? SQ then Some SQ
  else if e =? DQ then Some DQ
  else if e =? 110 then Some NL
  else if e =? 114 then Some CR
  else if e =? 116 then Some TAB
  else if e =? 97 then Some 7
  else if e =? 98 then Some 8
  else if e =? 102 then Some 12
  else if e =? 118 then Some 11
  else None.

(* value of the first k characters read as hex digits *)
Fixpoint hexs (k : nat) (r : list N) (acc : N) : option N :=
  match k with
  | O => Some acc
  | S k' => match r with
            | [] => None
            | h :: r' => match hex_val h with
                         | Some d => hexs k' r' (acc * 16 + d)
                         | None => None
                         end
            end
  end.

(* what follows a backslash *)
Inductive esc :=
| EChar (v : N) (k : nat)    (* one character v; k source characters after the backslash are consumed *)
| ECont (k : nat)            (* backslash-newline: nothing; k characters consumed *)
| EKeep                      (* not an escape: the backslash is an ordinary character *)
| EBad.                      (* malformed escape (or a named escape) *)

Definition oct_esc (d1 : N) (r1 : list N) : esc :=
  match r1 with
  | c2 :: r2 =>
      match oct_val c2 with
      | Some d2 =>
          match r2 with
          | c3 :: _ => match oct_val c3 with
                       | Some d3 => EChar (d1 * 64 + d2 * 8 + d3) 3
                       | None => EChar (d1 * 8 + d2) 2
                       end
          | [] => EChar (d1 * 8 + d2) 2
          end
      | None => EChar d1 1
      end
  | [] => EChar d1 1
  end.

Definition decode_esc (r : list N) : esc :=
  match r with
  | [] => EBad
  | e :: r1 =>
      match simple_escape e with
      | Some v => EChar v 1
      | None =>
          if e =? NL then ECont 1
          else if e =? CR then
                 match r1 with
                 | x :: _ => if x =? NL then ECont 2 else ECont 1
                 | [] => ECont 1
                 end
          else if e =? 120 then
                 match hexs 2 r1 0 with Some v => EChar v 3 | None => EBad end
          else if e =? 117 then
                 match hexs 4 r1 0 with Some v => EChar v 5 | None => EBad end
          else if e =? 85 then
                 match hexs 8 r1 0 with
                 | Some v => if v <? 1114112 then EChar v 9 else EBad
                 | None => EBad
                 end
          else if e =? 78 then EBad
          else match oct_val e with
               | Some d1 => oct_esc d1 r1
               | None => EKeep
               end
      end
  end.

(* the characters after which a backslash stays a backslash *)
Definition keeps (e : N) : bool :=
  match simple_escape e with
  | Some _ => false
  | None =>
      negb ((e =? NL) || (e =? CR) || (e =? 120) || (e =? 117) || (e =? 85) || (e =? 78))
      && match oct_val e with Some _ => false | None => true end
  end.

(* an unescaped source character inside a literal *)
Inductive rawstep := RBad | RChar (v : N) (k : nat).

Definition raw_char (t : bool) (c : N) (r : list N) : rawstep :=
  if (c =? 0) || is_surrogate c then RBad
  else if c =? NL then (if t then RChar NL 0 else RBad)
  else if c =? CR then
         (if t then match r with
                    | x :: _ => if x =? NL then RChar NL 1 else RChar NL 0
                    | [] => RChar NL 0
                    end
          else RBad)
  else RChar c 0.

(* the unescaped characters that stand for themselves (t: inside a triple-quoted literal) *)
Definition raw_id (t : bool) (c : N) : bool :=
  negb ((c =? 0) || is_surrogate c || (c =? CR) || ((c =? NL) && negb t)).

(* ------------------------------------------------------------------ string literals *)

Definition is_close (t : bool) (q : N) (src : list N) : bool :=
  match src with
  | a :: r =>
      (a =? q) &&
      (if t then match r with
                 | b :: c :: _ => (b =? q) && (c =? q)
                 | _ => false
                 end
       else true)
  | [] => false
  end.

Definition clen (t : bool) : nat := if t then 3%nat else 1%nat.
Definition closer (t : bool) (q : N) : list N := if t then [q; q; q] else [q].

Definition push (v : N) (o : option (pystr * list N)) : option (pystr * list N) :=
  match o with
  | Some (out, rest) => Some (v :: out, rest)
  | None => None
  end.

(* body of a literal after the opening quote(s); one unit of fuel per lexical step *)
Fixpoint lexf (fuel : nat) (t : bool) (q : N) (src : list N) : option (pystr * list N) :=
  match fuel with
  | O => None
  | S f =>
      match src with
      | [] => None
      | c :: r =>
          if is_close t q src then Some ([], skipn (clen t) src)
          else if c =? BS then
                 match decode_esc r with
                 | EChar v k => push v (lexf f t q (skipn k r))
                 | ECont k => lexf f t q (skipn k r)
                 | EKeep => push BS (lexf f t q r)
                 | EBad => None
                 end
          else match raw_char t c r with
               | RBad => None
               | RChar v k => push v (lexf f t q (skipn k r))
               end
      end
  end.

(* a string literal at the head of src: its value and the remaining source *)
Definition starts2 (q : N) (r : list N) : bool :=
  match r with
  | a :: b :: _ => (a =? q) && (b =? q)
  | _ => false
  end.

Definition lex_lit (src : list N) : option (pystr * list N) :=
  match src with
  | q :: r =>
      if (q =? SQ) || (q =? DQ) then
        if starts2 q r then lexf (length r) true q (skipn 2 r)
        else lexf (length r) false q r
      else None
  | [] => None
  end.

(* ------------------------------------------------------------------ names *)

Definition is_alpha (c : N) : bool := ((65 <=? c) && (c <=? 90)) || ((97 <=? c) && (c <=? 122)).
Definition is_digit (c : N) : bool := (48 <=? c) && (c <=? 57).
Definition ident_start (c : N) : bool := is_alpha c || (c =? 95).
Definition ident_char (c : N) : bool := ident_start c || is_digit c.

Fixpoint span_ident (src : list N) : pystr * list N :=
  match src with
  | c :: r => if ident_char c then let (a, b) := span_ident r in (c :: a, b) else ([], src)
  | [] => ([], [])
  end.

(* a NAME token (ASCII names only; kw: the reserved words of the running CPython) *)
Definition lex_ident (kw : list pystr) (src : list N) : option (pystr * list N) :=
  match src with
  | c :: _ =>
      if ident_start c then
        let (a, b) := span_ident src in
        if str_in a kw then None else Some (a, b)
      else None
  | [] => None
  end.

Definition is_ident (kw : list pystr) (s : pystr) : bool :=
  match s with
  | c :: r => ident_start c && forallb ident_char r && negb (str_in s kw)
  | [] => false
  end.

(* ------------------------------------------------------------------ emission *)

Definition hex_digit (d : N) : N := if d <? 10 then 48 + d else 87 + d.

Fixpoint hexN (k : nat) (c : N) : list N :=
  match k with
  | O => []
  | S k' => hexN k' (c / 16) ++ [hex_digit (c mod 16)]
  end.

Section Emit.
  (* str.isprintable of the running CPython (consulted for non-ASCII characters only) *)
  Variable printable : N -> bool.

  (* one character of repr(str) with quote character q (CPython unicode_repr) *)
  Definition repr_char (q c : N) : list N :=
    if c =? BS then [BS; BS]
    else if c =? q then [BS; q]
    else if c =? TAB then [BS; 116]
    else if c =? NL then [BS; 110]
    else if c =? CR then [BS; 114]
    else if (c <? 32) || (c =? 127) then BS :: 120 :: hexN 2 c
    else if c <? 127 then [c]
    else if printable c && negb (is_surrogate c) then [c]
    else if c <? 256 then BS :: 120 :: hexN 2 c
    else if c <? 65536 then BS :: 117 :: hexN 4 c
    else BS :: 85 :: hexN 8 c.

  Definition repr_quote (s : pystr) : N :=
    if existsb (N.eqb SQ) s && negb (existsb (N.eqb DQ) s) then DQ else SQ.

  Definition emit (qd : quoting) (s : pystr) : list N :=
    match qd with
    | Repr => let q := repr_quote s in q :: flat_map (repr_char q) s ++ [q]
    | WrapVal | RawFString => SQ :: s ++ [SQ]
    | TripleQuoted => DQ :: DQ :: DQ :: s ++ [DQ; DQ; DQ]
    | Identifier => s
    | Unrecognised => []
    end.
End Emit.

(* ------------------------------------------------------------------ characterisation *)

(* s pasted raw between quotes q (cl = the closing delimiter) is read back as s:
   no position of s starts the closing delimiter, every backslash is followed by a character that
   is not an escape, every other character stands for itself *)
Fixpoint okb (t : bool) (q : N) (cl : list N) (s : pystr) : bool :=
  match s with
  | [] => true
  | c :: r =>
      negb (is_close t q (s ++ cl))
      && (if c =? BS then match r with e :: _ => keeps e | [] => false end else raw_id t c)
      && okb t q cl r
  end.

Definition quote_ok (kw : list pystr) (qd : quoting) (s : pystr) : bool :=
  match qd with
  | Repr => true
  | WrapVal | RawFString => okb false SQ [SQ] s
  | TripleQuoted => okb true DQ [DQ; DQ; DQ] s
  | Identifier => is_ident kw s
  | Unrecognised => false
  end.

(* the token read back at a site of discipline qd *)
Definition lex_tok (kw : list pystr) (qd : quoting) (src : list N) : option (pystr * list N) :=
  match qd with
  | Identifier => lex_ident kw src
  | Unrecognised => None
  | _ => lex_lit src
  end.

(* a discipline that is safe for every string *)
Definition discipline_total (qd : quoting) : bool :=
  match qd with Repr => true | _ => false end.

(* a string the discipline gets wrong (for the disciplines that are not total) *)
Definition witness (qd : quoting) : pystr :=
  match qd with
  | TripleQuoted => [DQ; DQ; DQ]
  | _ => [SQ]
  end.

(* "plain": the characters that every raw discipline emits correctly *)
Definition plain_char (c : N) : bool :=
  negb ((c =? SQ) || (c =? DQ) || (c =? BS) || (c =? NL) || (c =? CR) || (c =? 0) || is_surrogate c).
