(* C09 — the token model only uses sites of the GENERATED table: every schema string of field_toks / class_toks sits
   at a literal site (repr) or at a name site (identifier) of Schema/CodeGen.v's lists, which Props/C09.v checks
   against Gen/EmitSites.v.  With Schema/CodegenSrcProofs.v (the generated translation of the generator emits the
   text of class_toks) this gives, for every schema document of the fragment: every string literal of the schema
   reaches the emitted text through a Repr site and is read back exactly. *)
From Coq Require Import NArith List Bool Lia String.
Import ListNotations.
From TP Require Import Base.PyVal Base.PyOpsCodegen Schema.PyLiteral Schema.PyLiteralProofs Schema.CodeGen
     Schema.CodeGenProofs Gen.EmitSites Gen.CodegenSrc Schema.CodegenBridge Schema.CodegenSrcProofs.
Local Open Scope string_scope. Local Open Scope list_scope.

Definition known_site (site : pystr) : bool := str_in site literal_sites || str_in site name_sites.

Definition sites_ok (l : list tok) : bool :=
  forallb (fun t => match t with TRaw _ => true | TStr site _ => known_site site end) l.

Section jfield_ind_strong.
  Variable P : jfield -> Prop.
  Hypothesis HString : forall nums pat d, P (FString nums pat d).
  Hypothesis HNumeric : forall c nums d, P (FNumeric c nums d).
  Hypothesis HBoolean : forall d, P (FBoolean d).
  Hypothesis HEnum : forall vs d, P (FEnum vs d).
  Hypothesis HRef : forall n, P (FRef n).
  Hypothesis HArray : forall flags k items d, Forall P items -> P (FArray flags k items d).
  Hypothesis HMulti : forall c k fields d, Forall P fields -> P (FMulti c k fields d).
  Hypothesis HObject : forall cl req props d, Forall (fun p => P (snd p)) props -> P (FObject cl req props d).
  Hypothesis HMap : forall v d, match v with Some x => P x | None => True end -> P (FMap v d).

  Fixpoint jfield_ind' (f : jfield) : P f :=
    let fix go (l : list jfield) : Forall P l :=
        match l with
        | [] => Forall_nil _
        | x :: t => Forall_cons _ (jfield_ind' x) (go t)
        end in
    match f with
    | FString nums pat d => HString nums pat d
    | FNumeric c nums d => HNumeric c nums d
    | FBoolean d => HBoolean d
    | FEnum vs d => HEnum vs d
    | FRef n => HRef n
    | FArray flags k items d => HArray flags k items d (go items)
    | FMulti c k fields d => HMulti c k fields d (go fields)
    | FObject cl req props d =>
        HObject cl req props d
          ((fix gp (l : list (pystr * jfield)) : Forall (fun p => P (snd p)) l :=
              match l with
              | [] => Forall_nil _
              | (k, x) :: t => Forall_cons (k, x) (jfield_ind' x) (gp t)
              end) props)
    | FMap v d => HMap v d (match v with Some x => jfield_ind' x | None => I end)
    end.
End jfield_ind_strong.

Lemma so_app a b : sites_ok (a ++ b) = sites_ok a && sites_ok b.
Proof. apply forallb_app. Qed.

Lemma so_raw x l : sites_ok (TRaw x :: l) = sites_ok l.
Proof. reflexivity. Qed.
Lemma so_str site x l : sites_ok (TStr site x :: l) = known_site site && sites_ok l.
Proof. reflexivity. Qed.

Lemma so_join sep parts : sites_ok sep = true -> forallb sites_ok parts = true -> sites_ok (join sep parts) = true.
Proof.
  intros Hs. induction parts as [|p rest IH]; intro H; [reflexivity|].
  cbn [forallb] in H. apply andb_true_iff in H as [Hp Hr].
  destruct rest as [|q rest']; [exact Hp|].
  change (join sep (p :: q :: rest')) with (p ++ sep ++ join sep (q :: rest')).
  rewrite !so_app, Hp, Hs, (IH Hr). reflexivity.
Qed.

Lemma so_call c ps : forallb sites_ok ps = true -> sites_ok (call c ps) = true.
Proof. intro H. unfold call, raw. rewrite !so_raw, so_app, (so_join [TRaw (s2p ", ")] ps eq_refl H). reflexivity. Qed.

Lemma so_kv n v : sites_ok n = true -> sites_ok v = true -> sites_ok (kv n v) = true.
Proof. intros Hn Hv. unfold kv. rewrite so_app, Hn. exact Hv. Qed.

Lemma so_lit site l : known_site site = true -> sites_ok (lit_toks site l) = true.
Proof. intro H. destruct l; cbn [lit_toks sites_ok forallb]; [rewrite H|]; reflexivity. Qed.

Lemma so_list site ls : known_site site = true -> sites_ok (list_toks site ls) = true.
Proof.
  intro H. unfold list_toks, raw. rewrite so_raw, so_app, so_join; [reflexivity | reflexivity |].
  induction ls as [|l ls IH]; [reflexivity|]. cbn [map forallb]. rewrite (so_lit site l H). exact IH.
Qed.

Lemma so_dict site kvs : known_site site = true -> sites_ok (dict_toks site kvs) = true.
Proof.
  intro H. unfold dict_toks, raw. rewrite so_raw, so_app, so_join; [reflexivity | reflexivity |].
  induction kvs as [|p kvs IH]; [reflexivity|]. cbn [map forallb]. rewrite IH, andb_true_r.
  rewrite so_str, so_raw, H. exact (so_lit site (snd p) H).
Qed.

Lemma so_default d : forallb sites_ok (default_param d) = true.
Proof.
  destruct d as [[l|ls|kvs]|]; cbn [default_param forallb]; try reflexivity; rewrite andb_true_r; apply so_kv; try reflexivity.
  - apply so_lit. reflexivity.
  - unfold raw. rewrite so_raw. apply so_list; reflexivity.
  - unfold raw. rewrite so_raw. apply so_dict; reflexivity.
Qed.

Lemma so_nums nums : forallb sites_ok (num_params nums) = true.
Proof. induction nums as [|p nums IH]; [reflexivity|]. cbn [num_params map forallb]. exact IH. Qed.

Lemma so_all_app a b : forallb sites_ok (a ++ b) = forallb sites_ok a && forallb sites_ok b.
Proof. apply forallb_app. Qed.

Lemma so_items k codes :
  forallb sites_ok codes = true ->
  match items_toks k codes with Some c => sites_ok c = true | None => True end.
Proof.
  intro H. destruct k; cbn [items_toks]; [exact I| |].
  - destruct codes as [|c ?]; [reflexivity|]. cbn [forallb] in H. apply andb_true_iff in H as [H _]. exact H.
  - unfold raw. rewrite so_raw, so_app, (so_join [TRaw (s2p ", ")] codes eq_refl H). reflexivity.
Qed.

Lemma so_map_fields (l : list jfield) :
  Forall (fun f => sites_ok (field_toks f) = true) l -> forallb sites_ok (map field_toks l) = true.
Proof. induction 1 as [|x l Hx _ IH]; [reflexivity|]. cbn [map forallb]. rewrite Hx. exact IH. Qed.

(* every schema string of a field expression sits at a literal or a name site *)
Theorem field_toks_sites : forall f, sites_ok (field_toks f) = true.
Proof.
  induction f using jfield_ind'; cbn [field_toks].
  - apply so_call. rewrite !so_all_app, so_nums, so_default, andb_true_r. destruct pat; reflexivity.
  - apply so_call. rewrite so_all_app, so_nums, so_default. reflexivity.
  - apply so_call. apply so_default.
  - apply so_call. cbn [forallb]. rewrite so_default, andb_true_r. apply so_kv; [reflexivity|]. apply so_list; reflexivity.
  - reflexivity.
  - apply so_call. rewrite !so_all_app, so_nums, so_default, andb_true_r. cbn [andb].
    pose proof (so_items k _ (so_map_fields items H)) as Hi.
    destruct (items_toks k (map field_toks items)); [|reflexivity].
    cbn [forallb]. rewrite andb_true_r. apply so_kv; [reflexivity | exact Hi].
  - apply so_call. rewrite so_all_app, so_default, andb_true_r.
    assert (Hi : match (match k with
                        | IOne => items_toks IMany (match fields with f0 :: _ => [field_toks f0] | [] => [] end)
                        | k0 => items_toks k0 (map field_toks fields)
                        end) with Some c => sites_ok c = true | None => True end).
    { destruct k.
      - exact I.
      - apply so_items. destruct H as [|f0 ? H0 _]; [reflexivity|]. cbn [forallb]. rewrite H0. reflexivity.
      - apply so_items. exact (so_map_fields fields H). }
    destruct (match k with IOne => _ | k0 => _ end); cbn [forallb]; rewrite andb_true_r; apply so_kv; try reflexivity; exact Hi.
  - apply so_call. rewrite !so_all_app, so_default, andb_true_r.
    assert (Hp : forallb sites_ok (map (fun p => kv [TStr (s2p "nested_property_name") (fst p)] (field_toks (snd p))) props) = true).
    { induction H as [|p l Hp _ IH]; [reflexivity|]. cbn [map forallb]. rewrite IH, andb_true_r. apply so_kv; [reflexivity | exact Hp]. }
    rewrite Hp, andb_true_r. destruct cl, req; cbn [forallb andb]; try reflexivity;
      rewrite ?andb_true_r; try (apply so_kv; [reflexivity|]; apply so_list; reflexivity).
  - apply so_call. rewrite so_all_app, so_default, andb_true_r. destruct v as [x|]; [|reflexivity].
    cbn [forallb]. rewrite andb_true_r. apply so_kv; [reflexivity|]. unfold raw. rewrite so_raw, so_app, H. reflexivity.
Qed.

(* ... and so does every schema string of a class statement *)
Theorem class_toks_sites : forall c toks, class_toks c = Some toks -> sites_ok toks = true.
Proof.
  intros c toks H. unfold class_toks in H. destruct (final_required (c_required c) (c_props c)) as [req|]; [|discriminate].
  assert (E : forall A (a b : A), Some a = Some b -> a = b) by (intros ? ? ? X; injection X; trivial).
  apply E in H. subst toks. apply so_join; [reflexivity|]. rewrite !so_all_app. cbn [forallb].
  assert (Hp : forallb sites_ok (map (fun p => raw "    " :: TStr (s2p "property_name") (fst p) :: raw ": " :: field_toks (snd p)) (c_props c)) = true).
  { induction (c_props c) as [|p l IH]; [reflexivity|]. cbn [map forallb]. rewrite IH, andb_true_r.
    unfold raw. rewrite so_raw, so_str, so_raw. exact (field_toks_sites (snd p)). }
  rewrite Hp. destruct (c_description c), (c_closed c), req; cbn [forallb andb]; try reflexivity;
    rewrite ?andb_true_r; apply so_list; reflexivity.
Qed.

(* ------------------------------------------------------------------ composition with the generated translation *)

Lemma literal_sites_are_repr :
  forallb (fun site => quoting_eqb (site_disc emit_sites site) Repr) literal_sites = true
  /\ forallb (fun site => quoting_eqb (site_disc emit_sites site) Identifier) name_sites = true.
Proof. split; vm_compute; reflexivity. Qed.

(* the only condition left on a generated text: its NAMES are identifiers (and its strings are strings) *)
Definition names_fine (kw : list pystr) (l : list tok) : bool :=
  forallb (fun t => match t with
                    | TRaw _ => true
                    | TStr site s => valid_str s && (if str_in site name_sites then is_ident kw s else true)
                    end) l.

Lemma names_fine_only kw l : sites_ok l = true -> names_fine kw l = true -> names_only kw literal_sites name_sites l = true.
Proof.
  unfold sites_ok, names_fine, names_only. induction l as [|t l IH]; [reflexivity|]. cbn [forallb].
  intros H1 H2. apply andb_true_iff in H1 as [Ha H1]. apply andb_true_iff in H2 as [Hb H2].
  rewrite (IH H1 H2), andb_true_r. destruct t as [x|site s]; [reflexivity|].
  apply andb_true_iff in Hb as [Hv Hb]. rewrite Hv. cbn [andb]. unfold known_site in Ha.
  destruct (str_in site name_sites); [exact Hb|]. rewrite orb_false_r in Ha. exact Ha.
Qed.

(* For every schema document of the fragment: the generator's own (translated) source emits the text of the model's
   token list; every schema string in it sits at a site of the generated table; a string at a literal site goes
   through repr() and the piece of text written for it is read back by the Python lexer as exactly that string,
   whatever it contains; and the whole text is read back as exactly the schema's strings as soon as its NAMES are
   identifiers. *)
Theorem src_literals_roundtrip : forall O n name sch c toks,
    class_of O n name sch = Some c -> class_toks c = Some toks ->
    schema_to_struct_code O (2 * n + 1) (PStr name) sch (PList []) = Ok (PStr (render (co_printable O) emit_sites toks))
    /\ (forall site s, In (TStr site s) toks ->
          known_site site = true
          /\ (str_in site name_sites = false ->
              str_in site literal_sites = true /\ site_disc emit_sites site = Repr
              /\ (valid_str s = true ->
                  lex_tok py_keywords (site_disc emit_sites site)
                          (render_tok (co_printable O) emit_sites (TStr site s)) = Some (s, []))))
    /\ (names_fine py_keywords toks = true -> well_sep toks = true ->
        relex py_keywords emit_sites (map shape_of toks) (render (co_printable O) emit_sites toks) = Some (leaves toks)).
Proof.
  intros O n name sch c toks Hc Ht.
  pose proof (class_toks_sites c toks Ht) as Hs. destruct literal_sites_are_repr as [Hl Hn].
  split; [exact (schema_to_struct_code_bridge O n name sch c toks Hc Ht)|]. split.
  - intros site s Hin. unfold sites_ok in Hs. rewrite forallb_forall in Hs. specialize (Hs _ Hin). cbn beta iota in Hs.
    split; [exact Hs|]. intro Hnn. unfold known_site in Hs. rewrite Hnn, orb_false_r in Hs.
    pose proof (site_forall_disc emit_sites Repr literal_sites site Hl Hs) as E.
    split; [exact Hs|]. split; [exact E|]. intro Hv. cbn [render_tok]. rewrite E.
    apply (lex_roundtrip (co_printable O) py_keywords); [exact Hv | reflexivity].
  - intros Hnf Hw. apply (relex_render (co_printable O) py_keywords); [|exact Hw].
    exact (names_only_sites_ok py_keywords emit_sites literal_sites name_sites toks Hl Hn (names_fine_only _ _ Hs Hnf)).
Qed.

Print Assumptions field_toks_sites.
Print Assumptions class_toks_sites.
Print Assumptions src_literals_roundtrip.
