(* Class level of the tie between the GENERATED translation of json_schema_mapping.py (Gen/SchemaSrc.v) and the hand
   model Schema/ToSchema.v: _validated_mapped_value, _generate_schema_for_fields_internal and structure_to_schema
   against [class_schema] (wrapper form, properties in field order under the renamed keys, defaults, the required
   list, additionalProperties).

   How a class of the model's environment is seen at the Python level: its attributes live in the class heap
   [class_heap e] (get_all_fields_by_name() = the dict name -> field object, in field order; _required;
   _additional_properties; __mro__ through Structure); a field that declares a default carries it as its
   `_default` attribute ([fdecl_obj]); the aggregated serialization mapper of the class is the dict of its string
   renames ([ren_dict (smap c)], what the context function [agg] returns). *)
From Coq Require Import ZArith QArith NArith String Ascii Bool Lia List.
Import ListNotations.
From TP Require Import Base.PyVal Base.PyOps Base.PyOps2 Base.PyOpsSchema Fields.FieldAst
     Schema.Draft4 Schema.ToSchema Gen.SchemaSrc Schema.SchemaSrcProofs.
Local Open Scope Z_scope.

Definition ren_dict (m : renames) : pyval := PDict (map (fun p => (PStr (fst p), PStr (snd p))) m).
Definition strs (l : list pystr) : pyval := PList (map PStr l).

(* ------------------------------------------------------------------ facts about the operators *)

Lemma pystr_eqb_sym a b : pystr_eqb a b = pystr_eqb b a.
Proof.
  destruct (pystr_eqb a b) eqn:H1; destruct (pystr_eqb b a) eqn:H2; try reflexivity.
  - apply pystr_eqb_spec in H1. subst. rewrite pystr_eqb_refl in H2. discriminate.
  - apply pystr_eqb_spec in H2. subst. rewrite pystr_eqb_refl in H1. discriminate.
Qed.

Lemma ren_get m k :
  dict_get (map (fun p => (PStr (fst p), PStr (snd p))) m) (PStr k) = option_map PStr (alist_get m k).
Proof.
  induction m as [|[a b] m IH]; [reflexivity|].
  cbn [map fst snd dict_get alist_get py_eq]. destruct (pystr_eqb a k); [reflexivity|exact IH].
Qed.

Lemma ren_in m k : py_in_dyn (PStr k) (ren_dict m) = Ok (alist_has m k).
Proof.
  unfold ren_dict, py_in_dyn, dict_has, alist_has. cbn [py_hashable']. rewrite ren_get.
  destruct (alist_get m k); reflexivity.
Qed.

Lemma ren_getitem m k :
  py_getitem_dyn (ren_dict m) (PStr k) = match alist_get m k with Some v => Ok (PStr v) | None => Raise KeyError end.
Proof.
  unfold ren_dict, py_getitem_dyn, py_dict_getitem. cbn [py_hashable']. rewrite ren_get.
  destruct (alist_get m k); reflexivity.
Qed.

Lemma ren_get_def m k d :
  py_dict_get_def (ren_dict m) (PStr k) d = Ok (match alist_get m k with Some v => PStr v | None => d end).
Proof.
  unfold ren_dict, py_dict_get_def. cbn [py_hashable']. rewrite ren_get. destruct (alist_get m k); reflexivity.
Qed.

(* _validated_mapped_value on a mapper of string renames: None *)
Lemma generated_validated_mapped_value m k : validated_mapped_value (ren_dict m) (PStr k) = Ok PNone.
Proof.
  unfold validated_mapped_value. rewrite ren_in. unfold alist_has. rewrite ren_getitem.
  destruct (alist_get m k) as [v|]; cbn [bind]; [|reflexivity].
  generalize v. intro w. vm_compute. reflexivity.
Qed.

Lemma strs_in k R : py_in_dyn (PStr k) (strs R) = Ok (str_in k R).
Proof.
  unfold strs, py_in_dyn, py_in_lit, py_in, str_in. f_equal.
  induction R as [|r R IH]; [reflexivity|]. cbn [map existsb]. rewrite IH. reflexivity.
Qed.

(* the first occurrence of k replaced by v *)
Fixpoint replace_first (k v : pystr) (R : list pystr) : list pystr :=
  match R with
  | [] => []
  | r :: R' => if pystr_eqb r k then v :: R' else r :: replace_first k v R'
  end.

Lemma index_of_strs k R i :
  index_of (map PStr R) (PStr k) i
  = (fix go (R : list pystr) (i : Z) := match R with [] => None | r :: R' => if pystr_eqb r k then Some i else go R' (i + 1) end) R i.
Proof. revert i. induction R as [|r R IH]; intro i; [reflexivity|]. cbn [map index_of py_eq]. destruct (pystr_eqb r k); [reflexivity|apply IH]. Qed.

Lemma strs_replace k v R : str_in k R = true ->
  exists j, py_list_index (strs R) (PStr k) = Ok (zint j) /\
            py_setitem (strs R) (zint j) (PStr v) = Ok (strs (replace_first k v R)).
Proof.
  unfold strs, py_list_index, py_setitem.
  assert (G : forall R i, 0 <= i -> str_in k R = true ->
              exists j, index_of (map PStr R) (PStr k) i = Some (i + Z.of_nat j) /\ (j < length R)%nat /\
                        replace_nth j (PStr v) (map PStr R) = map PStr (replace_first k v R)).
  { clear R. induction R as [|r R IH]; intros i Hi H; [discriminate H|].
    cbn [str_in existsb] in H. cbn [map index_of py_eq replace_first]. rewrite (pystr_eqb_sym k r) in H.
    destruct (pystr_eqb r k) eqn:E.
    - exists 0%nat. split; [f_equal; lia|]. split; [cbn; lia|reflexivity].
    - cbn [orb] in H. destruct (IH (i + 1) ltac:(lia) H) as (j & Ej & Lj & Rj).
      exists (S j). split; [rewrite Ej; f_equal; lia|]. split; [cbn [length]; lia|].
      cbn [replace_nth map]. rewrite Rj. reflexivity. }
  intro H. destruct (G R 0 ltac:(lia) H) as (j & Ej & Lj & Rj). exists (Z.of_nat j). rewrite Ej. split; [reflexivity|].
  unfold zint, PyOps.lenZ'. rewrite map_length.
  replace (0 <=? Z.of_nat j) with true by (symmetry; apply Z.leb_le; lia).
  replace (Z.of_nat j <? Z.of_nat (length R)) with true by (symmetry; apply Z.ltb_lt; lia).
  cbn [andb]. rewrite Nat2Z.id, Rj. reflexivity.
Qed.

(* the position of the first occurrence of k (the length when there is none) *)
Fixpoint index_str (k : pystr) (Og : list pystr) : nat :=
  match Og with
  | [] => 0%nat
  | r :: Og' => if pystr_eqb r k then 0%nat else S (index_str k Og')
  end.

Lemma replace_nth_length {A} n (v : A) l : length (replace_nth n v l) = length l.
Proof. revert n. induction l as [|x l IH]; intros [|n]; cbn [replace_nth length]; try reflexivity. rewrite IH. reflexivity. Qed.

Lemma map_replace_nth n v R : replace_nth n (PStr v) (map PStr R) = map PStr (replace_nth n v R).
Proof. revert n. induction R as [|r R IH]; intros [|n]; cbn [replace_nth map]; try reflexivity. rewrite IH. reflexivity. Qed.

(* original.index(k), then required[that] = v, on two lists of the same length *)
Lemma strs_replace_at k v Og R : str_in k Og = true -> length Og = length R ->
  exists j, py_list_index (strs Og) (PStr k) = Ok (zint j) /\
            py_setitem (strs R) (zint j) (PStr v) = Ok (strs (replace_nth (index_str k Og) v R)).
Proof.
  intros H Hl. unfold strs, py_list_index, py_setitem.
  assert (G : forall Og i, str_in k Og = true ->
              index_of (map PStr Og) (PStr k) i = Some (i + Z.of_nat (index_str k Og)) /\ (index_str k Og < length Og)%nat).
  { clear. induction Og as [|r Og IH]; intros i H; [discriminate H|].
    cbn [str_in existsb] in H. cbn [map index_of py_eq index_str length]. rewrite (pystr_eqb_sym k r) in H.
    destruct (pystr_eqb r k) eqn:E.
    - split; [f_equal; lia | lia].
    - cbn [orb] in H. destruct (IH (i + 1) H) as (Ej & Lj). split; [rewrite Ej; f_equal; lia | lia]. }
  destruct (G Og 0 H) as (Ej & Lj). exists (Z.of_nat (index_str k Og)). rewrite Ej. split; [reflexivity|].
  unfold zint, PyOps.lenZ'. rewrite map_length.
  replace (0 <=? Z.of_nat (index_str k Og)) with true by (symmetry; apply Z.leb_le; lia).
  replace (Z.of_nat (index_str k Og) <? Z.of_nat (length R)) with true by (symmetry; apply Z.ltb_lt; lia).
  cbn [andb]. rewrite Nat2Z.id, map_replace_nth. reflexivity.
Qed.

Lemma strs_append R v : py_list_append (strs R) (PStr v) = Ok (strs (R ++ [v])).
Proof. unfold strs, py_list_append. rewrite map_app. reflexivity. Qed.

Section ClassView.
  Variable pat_text : N -> pystr.
  Variable ei : einfo_t.
  Variable h : cheap.
  Variable agg : pyval -> pyval -> res pyval.
  Variable s2s : pyval -> pyval -> res pyval.
  Variable defs_store : pyval -> pyval -> res unit.
  Variable rec : pyval -> pyval -> res pyval.

  Local Notation fobj := (field_obj pat_text ei).
  Local Notation jsch f := (sch_json pat_text (fschema ei f)) (only parsing).

  (* the field object of a class attribute: a declared default is its `_default` attribute *)
  Definition fdecl_obj (d : fdecl) : pyval :=
    match fd_default d, fobj (fd_field d) with
    | Some v, PStruct c a => PStruct c ((s2p "_default", v) :: a)
    | _, o => o
    end.

  (* a default that is plain data (not None: that is "no default"; not an object or a factory) *)
  Definition default_ok (v : pyval) : bool :=
    match v with PNone | PStruct _ _ | POther _ _ => false | _ => true end.

  (* the schema of one property, as the dict the source builds *)
  Definition prop_json (d : fdecl) : pyval := sch_json pat_text (prop_schema ei d).

  (* one round of the loop of _generate_schema_for_fields_internal on the state (original, properties, required):
     [original] keeps, position by position, the field name each entry of [required] stands for *)
  Definition step (m : renames) (st : list pystr * list (pyval * pyval) * list pystr) (d : fdecl)
    : list pystr * list (pyval * pyval) * list pystr :=
    let '(Og, P, R) := st in
    let key := fd_name d in
    let mk := rename m key in
    let req1 := if str_in key Og then replace_nth (index_str key Og) mk R else R in
    let P1 := dict_set P (PStr mk) (prop_json d) in
    match fd_default d with
    | Some _ => if str_in key Og then (Og, P1, req1) else (Og ++ [key], P1, req1 ++ [mk])
    | None => (Og, P1, req1)
    end.

  (* the loop started on (properties P, required R): the final (properties, required) *)
  Definition run_fields (m : renames) (fs : list fdecl) (P : list (pyval * pyval)) (R : list pystr)
    : list (pyval * pyval) * list pystr :=
    let st := fold_left (step m) fs (R, P, R) in (snd (fst st), snd st).

  Lemma step_aligned m Og P R d :
    length Og = length R ->
    let '(Og1, _, R1) := step m (Og, P, R) d in length Og1 = length R1.
  Proof.
    intro Hl. unfold step.
    assert (L1 : length Og = length (if str_in (fd_name d) Og
                                    then replace_nth (index_str (fd_name d) Og) (rename m (fd_name d)) R else R)).
    { destruct (str_in (fd_name d) Og); [rewrite replace_nth_length|]; exact Hl. }
    destruct (fd_default d); [destruct (str_in (fd_name d) Og) eqn:E|]; try exact L1.
    rewrite !app_length. cbn [length]. rewrite Hl. reflexivity.
  Qed.

  Definition item (d : fdecl) : pyval := PTuple [PStr (fd_name d); fdecl_obj d].

  Lemma default_attr d :
    hobj_attr_def h (fdecl_obj d) (s2p "_default") PNone
    = Ok (match fd_default d with Some v => v | None => PNone end).
  Proof.
    unfold fdecl_obj. rewrite (field_obj_struct pat_text ei (fd_field d)).
    destruct (fd_default d) as [v|]; [reflexivity|].
    generalize (fd_field d). intro f.
    destruct f as [k s c|c| | | |vs|cl ms|k sz u|k g sz u|k gs sz u ad|im it sz|gs u|sz|kf vf sz|gs|gs|gs|gs|cl];
      reflexivity.
  Qed.

  (* the exported schema of a field never has a "default" keyword of its own *)
  Definition not_default (k : kw) : bool := match k with KDefault _ => false | _ => true end.

  Lemma fschema_no_default : forall f, forallb not_default (kws_of (fschema ei f)) = true.
  Proof.
    induction f using field_ind'; cbn [fschema kws_of];
      try (unfold num_kws, str_kws, size_kws, uniq_kws, optl, enum_schema;
           repeat match goal with |- context [match ?x with _ => _ end] => destruct x end; reflexivity).
    destruct fs as [|a [|b [|c r]]]; try reflexivity; destruct b; try reflexivity.
    inversion H as [|? ? Ha _]; subst. exact Ha.
  Qed.

  Lemma dict_set_new kws dv :
    forallb not_default kws = true ->
    dict_set (map (kw_json pat_text) kws) (PStr (s2p "default")) dv
    = map (kw_json pat_text) kws ++ [(PStr (s2p "default"), dv)].
  Proof.
    induction kws as [|k kws IH]; [reflexivity|]. cbn [forallb map]. intro H. apply andb_true_iff in H as [Hk H].
    cbn [dict_set app]. destruct k; try discriminate Hk; cbn [kw_json kv fst]; rewrite <- (IH H); reflexivity.
  Qed.

  Lemma set_default f dv :
    py_setitem (jsch f) (PStr (s2p "default")) dv
    = Ok (sch_json pat_text (Sch (kws_of (fschema ei f) ++ [KDefault dv]))).
  Proof.
    pose proof (fschema_no_default f) as H. destruct (fschema ei f) as [kws]. cbn [kws_of] in *.
    rewrite !sch_json_Sch. unfold jkws. cbn [py_setitem py_dict_setitem py_hashable'].
    rewrite (dict_set_new kws dv H), map_app. reflexivity.
  Qed.

  Definition fields_dict (fs : list fdecl) : pyval := PDict (map (fun d => (PStr (fd_name d), fdecl_obj d)) fs).

  (* what the field-level theorem gives for the fields of the class *)
  Definition field_ready (d : fdecl) : Prop :=
    (forall sm, rec (fdecl_obj d) sm = Ok (jsch (fd_field d))) /\
    match fd_default d with Some v => default_ok v = true | None => True end.

  Lemma enum_name c n y : hobj_attr h (PEnum c n y) (s2p "name") = Ok (PStr n).
  Proof. reflexivity. Qed.

  Lemma default_json_enum c n x : default_json (PEnum c n x) = PStr n.
  Proof. reflexivity. Qed.

  (* _generate_schema_for_fields_internal = the fold of [step] over the fields, for every mapper of string renames *)
  Lemma generated_generate_schema_for_fields : forall m fs P R,
      (forall d, In d fs -> field_ready d) ->
      generate_schema_for_fields_internal h agg s2s defs_store rec (fields_dict fs) (ren_dict m) (PDict P) (strs R)
      = Ok (PTuple [PDict (fst (run_fields m fs P R)); strs (snd (run_fields m fs P R))]).
  Proof.
    intros m fs P R Hall. unfold generate_schema_for_fields_internal, fields_dict, run_fields.
    change (py_list (strs R)) with (Ok (strs R)).
    cbn [py_dict_items bind py_for_state]. rewrite map_map. cbn [fst snd].
    match goal with |- context [for_state _ ?B _] => set (B0 := B) end.
    assert (Hstep : forall d Og P R, field_ready d -> length Og = length R ->
                B0 (PTuple [PStr (fd_name d); fdecl_obj d]) (strs Og, PDict P, strs R)
                = Ok (strs (fst (fst (step m (Og, P, R) d))), PDict (snd (fst (step m (Og, P, R) d))),
                      strs (snd (step m (Og, P, R) d)))).
    { clear. intros d Og P R [Hrec Hd] Hlen. subst B0. cbv beta.
      cbn [py_unpack2 bind pair_fst pair_snd fst snd].
      rewrite !ren_in, !generated_validated_mapped_value. unfold alist_has. rewrite !ren_getitem.
      unfold step. unfold rename.
      set (name := fd_name d) in *.
      assert (E8 : exists mk, mk = match alist_get m name with Some k' => k' | None => name end) by (eexists; reflexivity).
      destruct E8 as (mk & Emk). rewrite <- Emk.
      assert (T8 : (c <- py_and (Ok match alist_get m name with Some _ => true | None => false end)
                          (fun _ : unit => t6 <- match alist_get m name with Some v => Ok (PStr v) | None => Raise KeyError end ;;
                                           py_isinstance_any class_mro t6 [IK K_str]) ;;
                    (if c then t7 <- match alist_get m name with Some v => Ok (PStr v) | None => Raise KeyError end ;; Ok t7
                     else Ok (PStr name))) = Ok (PStr mk)).
      { rewrite Emk. destruct (alist_get m name); reflexivity. }
      rewrite T8. clear T8. cbn [bind py_or py_is_class py_isinstance_any isinstance_i].
      rewrite !strs_in. cbn [bind py_format]. rewrite !ren_get_def. cbn [bind]. rewrite !Hrec. cbn [bind].
      rewrite !default_attr.
      assert (Dflt : forall R1,
                 (t25 <- Ok match fd_default d with Some v => v | None => PNone end ;;
                  (if py_is_not_none t25
                   then
                    t29 <- (c1 <- (t27 <- py_callable t25 ;; Ok (py_truthy t27)) ;;
                            (if c1 then t28 <- py_opaque_call (s2p "default_raw") ;; Ok t28 else Ok t25)) ;;
                    c1 <- py_isinstance_any class_mro t29 [IEnum] ;;
                    (if c1
                     then
                      t31 <- hobj_attr h t29 (s2p "name") ;;
                      t34 <- py_setitem (sch_json pat_text (fschema ei (fd_field d))) (PStr (s2p "default")) t31 ;;
                      c2 <- py_not (Ok (str_in name Og)) ;;
                      (if c2 then t36 <- py_list_append (strs R1) (PStr mk) ;; t37 <- py_list_append (strs Og) (PStr name) ;;
                                  t38 <- py_setitem (PDict P) (PStr mk) t34 ;; Ok (t37, t38, t36)
                       else t40 <- py_setitem (PDict P) (PStr mk) t34 ;; Ok (strs Og, t40, strs R1))
                     else
                      t43 <- py_setitem (sch_json pat_text (fschema ei (fd_field d))) (PStr (s2p "default")) t29 ;;
                      c2 <- py_not (Ok (str_in name Og)) ;;
                      (if c2 then t45 <- py_list_append (strs R1) (PStr mk) ;; t46 <- py_list_append (strs Og) (PStr name) ;;
                                  t47 <- py_setitem (PDict P) (PStr mk) t43 ;; Ok (t46, t47, t45)
                       else t49 <- py_setitem (PDict P) (PStr mk) t43 ;; Ok (strs Og, t49, strs R1)))
                   else t51 <- py_setitem (PDict P) (PStr mk) (sch_json pat_text (fschema ei (fd_field d))) ;; Ok (strs Og, t51, strs R1)))
                 = Ok (strs match fd_default d with Some _ => if str_in name Og then Og else Og ++ [name] | None => Og end,
                       PDict (dict_set P (PStr mk) (prop_json d)),
                       strs match fd_default d with Some _ => if str_in name Og then R1 else R1 ++ [mk] | None => R1 end)).
      { intro R1. unfold prop_json, prop_schema. destruct (fd_default d) as [v|]; cbn [bind].
        - destruct v as [|b|n|s0|l|l|l|fr l|kv0|c n y|c ats|tg r]; try discriminate Hd;
            cbn [py_is_not_none py_is_none negb py_callable bind py_truthy py_isinstance_any isinstance_i];
            rewrite ?enum_name; cbn [bind];
            rewrite set_default; cbn [bind py_not];
            (destruct (str_in name Og); cbn [negb bind]; [reflexivity | rewrite !strs_append; reflexivity]).
        - cbn [py_is_not_none py_is_none negb py_setitem py_dict_setitem py_hashable']. reflexivity. }
      destruct (str_in name Og) eqn:Ein; cbn [bind].
      - destruct (strs_replace_at name mk Og R Ein Hlen) as (j & E1 & E2). rewrite E1. cbn [bind]. rewrite E2. cbn [bind].
        etransitivity; [exact (Dflt (replace_nth (index_str name Og) mk R))|].
        destruct (fd_default d); reflexivity.
      - etransitivity; [exact (Dflt R)|]. destruct (fd_default d); reflexivity. }
    clearbody B0.
    assert (Gen : forall fs Og P R, (forall d, In d fs -> field_ready d) -> length Og = length R ->
                for_state (map (fun d => PTuple [PStr (fd_name d); fdecl_obj d]) fs) B0 (strs Og, PDict P, strs R)
                = Ok (strs (fst (fst (fold_left (step m) fs (Og, P, R)))), PDict (snd (fst (fold_left (step m) fs (Og, P, R)))),
                      strs (snd (fold_left (step m) fs (Og, P, R))))).
    { clear fs P R Hall. induction fs as [|d fs IH]; intros Og P R Hall Hlen.
      - reflexivity.
      - cbn [map for_state fold_left]. rewrite (Hstep d Og P R (Hall d (or_introl eq_refl)) Hlen). cbn [bind].
        pose proof (step_aligned m Og P R d Hlen) as Hal.
        destruct (step m (Og, P, R) d) as [[Og1 P1] R1] eqn:Es. cbn [fst snd].
        apply IH; [intros d' Hd'; apply Hall; right; exact Hd' | exact Hal]. }
    rewrite (Gen fs R P R Hall eq_refl). cbn [bind]. reflexivity.
  Qed.

  (* ---------------------------------------------------------------- structure_to_schema *)

  Lemma strs_py_in x seen : py_in (PStr x) (map PStr seen) = str_in x seen.
  Proof. unfold py_in, str_in. induction seen as [|y t IH]; [reflexivity|]. cbn [map existsb]. rewrite IH. reflexivity. Qed.

  Lemma dedup_strs : forall R seen,
      nodup_str R = true -> forallb (fun x => negb (str_in x seen)) R = true ->
      py_dedup_aux (map PStr seen) (map PStr R) = rev (map PStr seen) ++ map PStr R.
  Proof.
    induction R as [|x t IH]; intros seen Hn Hd; cbn [map py_dedup_aux].
    - rewrite app_nil_r. reflexivity.
    - cbn [nodup_str forallb] in *. apply andb_true_iff in Hn as [Hx Hn]. apply andb_true_iff in Hd as [Hs Hd].
      rewrite strs_py_in. destruct (str_in x seen); [discriminate Hs|].
      change (PStr x :: map PStr seen) with (map PStr (x :: seen)). rewrite IH; [|exact Hn|].
      + cbn [map rev]. rewrite <- app_assoc. reflexivity.
      + rewrite forallb_forall in *. intros y Hy. specialize (Hd y Hy). cbn [str_in existsb].
        fold (str_in y seen). destruct (str_in y seen); [discriminate Hd|]. rewrite orb_false_r.
        destruct (pystr_eqb y x) eqn:E; [|reflexivity].
        apply pystr_eqb_spec in E. subst y. exfalso.
        assert (str_in x t = true) by (apply existsb_exists; exists x; split; [exact Hy|apply pystr_eqb_refl]).
        rewrite H in Hx. discriminate Hx.
  Qed.

  Lemma set_strs R : nodup_str R = true -> py_set (strs R) = Ok (PSet false (map PStr R)).
  Proof.
    intro Hn. unfold py_set, strs.
    assert (Hh : forallb py_hashable' (map PStr R) = true).
    { clear Hn. induction R as [|r R IH]; [reflexivity|]. cbn [map forallb py_hashable' andb]. exact IH. }
    rewrite Hh. unfold py_dedup. change (@nil pyval) with (map PStr []).
    rewrite dedup_strs; [reflexivity|exact Hn|]. clear. induction R as [|r R IH]; [reflexivity|]. cbn [forallb str_in existsb negb andb]. exact IH.
  Qed.

  (* set(required) == set([name]) for a duplicate-free required list *)
  Lemma set_eq_single R name : nodup_str R = true ->
    py_eq (PSet false (map PStr R)) (PSet false [PStr name]) = all_in [name] R && all_in R [name].
  Proof.
    intro Hn. destruct R as [|r [|r2 t]].
    - reflexivity.
    - cbn [py_eq map length Nat.eqb andb existsb all_in forallb str_in]. rewrite (pystr_eqb_sym name r).
      destruct (pystr_eqb r name); reflexivity.
    - cbn [py_eq map length Nat.eqb andb]. symmetry.
      cbn [all_in forallb str_in existsb]. rewrite !orb_false_r.
      destruct (pystr_eqb r name) eqn:E1; destruct (pystr_eqb r2 name) eqn:E2; rewrite ?andb_false_r, ?andb_false_l; try reflexivity.
      apply pystr_eqb_spec in E1, E2. subst. cbn in Hn. rewrite pystr_eqb_refl in Hn. discriminate Hn.
  Qed.

  Lemma len_eq1 {A} (l : list A) : py_eqv (PNum (NInt (PyOps.lenZ' l))) (zint 1) = Ok (Nat.eqb (length l) 1).
  Proof.
    unfold py_eqv, zint, PyOps.lenZ'. cbn [py_eq as_num]. f_equal.
    unfold num_eqb, Qeq_bool. cbn [num_to_Q Qnum Qden]. rewrite !Z.mul_1_r.
    destruct (Nat.eqb_spec (length l) 1) as [E|E]; [rewrite E; reflexivity|].
    destruct (Zeq_bool (Z.of_nat (length l)) 1) eqn:Q; [apply Zeq_bool_eq in Q; lia | reflexivity].
  Qed.

  Lemma all_strs_strs R : all_strs (map PStr R) = Some R.
  Proof. induction R as [|r R IH]; [reflexivity|]. cbn [map all_strs]. rewrite IH. reflexivity. Qed.

  (* how the class [c] (under the name [cn]) is seen by structure_to_schema through the heap and the mapper
     aggregation: see the header *)
  Record class_seen (c : classdef) (m : renames) (sm : pyval) : Prop := {
    cs_sub : py_issubclass_h h class_mro (cls_val (c_name c)) (s2p "Structure") = Ok true;
    cs_fields : h (c_name c) (s2p "get_all_fields_by_name()") = Some (fields_dict (c_fields c));
    cs_required : h (c_name c) (s2p "_required") = Some (strs (c_required c));
    cs_additional : h (c_name c) (s2p "_additional_properties") = Some (PBool (c_additional c));
    cs_default : exists v, h (s2p "TypedPyDefaults") (s2p "additional_properties_default") = Some v;
    cs_addser : exists a b, h (c_name c) (s2p "_additional_serialization") = Some a /\
                            h (s2p "Structure") (s2p "_additional_serialization") = Some b;
    cs_agg : agg (cls_val (c_name c)) sm = Ok (ren_dict m) }.

  Definition class_json (m : renames) (c : classdef) : pyval :=
    let st := run_fields m (c_fields c) [] (c_required c) in
    PDict [(PStr (s2p "type"), PStr (s2p "object"));
           (PStr (s2p "properties"), PDict (fst st));
           (PStr (s2p "required"), strs (cp_sort (snd st)));
           (PStr (s2p "additionalProperties"), PBool (c_additional c))].

  Lemma hattr cn a v : h cn a = Some v -> hobj_attr h (cls_val cn) a = Ok v.
  Proof. intro H. unfold hobj_attr, cls_val. rewrite pystr_eqb_refl, H. reflexivity. Qed.
  Lemma hattr_def cn a v d : h cn a = Some v -> hobj_attr_def h (cls_val cn) a d = Ok v.
  Proof. intro H. unfold hobj_attr_def, cls_val. rewrite pystr_eqb_refl, H. reflexivity. Qed.

  (* structure_to_schema on a class of the environment, for every mapper of string renames *)
  Lemma generated_structure_to_schema_body : forall c m sm,
      class_seen c m sm -> nodup_str (c_required c) = true ->
      (forall d, In d (c_fields c) -> field_ready d) ->
      structure_to_schema_body h agg s2s defs_store rec (cls_val (c_name c)) sm
      = if wrapper_form c
        then match c_fields c with
             | d :: _ => (J <- rec (fdecl_obj d) PNone ;; Ok (PTuple [J; defs_token]))
             | [] => Raise Unmodelled
             end
        else Ok (PTuple [class_json m c; defs_token]).
  Proof.
    intros c m sm [Hsub Hf Hr Ha [dv Hd] (a1 & a2 & Hs1 & Hs2) Hagg] Hn Hready.
    unfold structure_to_schema_body.
    rewrite Hsub. cbn [py_not bind negb].
    rewrite !(hattr _ _ _ Hf). cbn [bind]. unfold fields_dict at 1. cbn [py_dict_keys bind].
    rewrite !(hattr_def _ _ _ _ Hr). cbn [bind]. unfold strs at 1. cbn [py_list bind]. fold (strs (c_required c)).
    rewrite !(hattr _ _ _ Hd). cbn [bind]. rewrite !(hattr_def _ _ _ _ Ha). cbn [bind].
    rewrite Hagg. cbn [bind].
    assert (Eor : py_or_val (ren_dict m) (fun _ => Ok (PDict [])) = Ok (ren_dict m)) by (destruct m; reflexivity).
    rewrite Eor. cbn [bind]. rewrite !(hattr _ _ _ Hs1), !(hattr _ _ _ Hs2). cbn [bind py_ne].
    unfold fields_dict. cbn [py_len bind py_dict_keys py_dict_items]. rewrite !len_eq1, !map_length, !map_map. cbn [fst snd].
    rewrite !(set_strs _ Hn). cbn [bind].
    assert (Cond : py_and (Ok (Nat.eqb (length (c_fields c)) 1))
                      (fun _ => py_and (t18 <- py_set (PList (map (fun x => PStr (fd_name x)) (c_fields c))) ;;
                                        py_eqv (PSet false (map PStr (c_required c))) t18)
                                       (fun _ => Ok (py_is_false (PBool (c_additional c)))))
                   = Ok (wrapper_form c)).
    { unfold wrapper_form. destruct (c_fields c) as [|d [|d2 t]]; try reflexivity.
      cbn [length Nat.eqb py_and bind map]. change (PList [PStr (fd_name d)]) with (strs [fd_name d]).
      rewrite (set_strs [fd_name d]) by reflexivity. cbn [bind map]. unfold py_eqv. rewrite (set_eq_single _ _ Hn).
      destruct (all_in [fd_name d] (c_required c) && all_in (c_required c) [fd_name d]); cbn [andb py_and bind]; [|reflexivity].
      destruct (c_additional c); reflexivity. }
    rewrite !Cond. cbn [bind].
    assert (Same : forall (b : bool) (X : res pyval), (if b then X else X) = X) by (intros [] X; reflexivity).
    rewrite Same. clear Same Cond.
    destruct (wrapper_form c) eqn:W.
    - unfold wrapper_form in W. destruct (c_fields c) as [|d [|d2 t]]; try discriminate W. reflexivity.
    - change (py_dict_of_pairs (PList [PTuple [PStr (s2p "type"); PStr (s2p "object")]]))
        with (Ok (PDict [(PStr (s2p "type"), PStr (s2p "object"))])).
      cbn [bind].
      change (py_setitem (PDict [(PStr (s2p "type"), PStr (s2p "object"))]) (PStr (s2p "properties")) (PDict []))
        with (Ok (PDict [(PStr (s2p "type"), PStr (s2p "object")); (PStr (s2p "properties"), PDict [])])).
      cbn [bind].
      change (py_getitem_dyn (PDict [(PStr (s2p "type"), PStr (s2p "object")); (PStr (s2p "properties"), PDict [])])
                             (PStr (s2p "properties"))) with (Ok (PDict [])).
      cbn [bind]. fold (fields_dict (c_fields c)).
      rewrite (generated_generate_schema_for_fields m (c_fields c) [] (c_required c) Hready).
      cbn [bind py_index nth_error].
      set (st := run_fields m (c_fields c) [] (c_required c)).
      change (py_setitem (PDict [(PStr (s2p "type"), PStr (s2p "object")); (PStr (s2p "properties"), PDict [])])
                         (PStr (s2p "properties")) (PDict (fst st)))
        with (Ok (PDict [(PStr (s2p "type"), PStr (s2p "object")); (PStr (s2p "properties"), PDict (fst st))])).
      cbn [bind]. unfold py_sorted, strs at 1. rewrite all_strs_strs. cbn [bind]. fold (strs (cp_sort (snd st))).
      reflexivity.
  Qed.
End ClassView.

(* ------------------------------------------------------------------ a class of the model seen through a concrete heap *)

Definition heap_of (pat_text : N -> pystr) (ei : einfo_t) (e : env) : cheap :=
  fun cn a =>
    if pystr_eqb cn (s2p "TypedPyDefaults") then
      (if pystr_eqb a (s2p "additional_properties_default") then Some (PBool true) else None)
    else if pystr_eqb cn (s2p "Structure") then
      (if pystr_eqb a (s2p "_additional_serialization") then Some (POther (s2p "function") (s2p "Structure._additional_serialization")) else None)
    else match find_class e cn with
         | Some c =>
             if pystr_eqb a (s2p "get_all_fields_by_name()") then Some (fields_dict pat_text ei (c_fields c))
             else if pystr_eqb a (s2p "_required") then Some (strs (c_required c))
             else if pystr_eqb a (s2p "_additional_properties") then Some (PBool (c_additional c))
             else if pystr_eqb a (s2p "_additional_serialization")
                  then Some (POther (s2p "function") (s2p "Structure._additional_serialization"))
             else if pystr_eqb a (s2p "__mro__")
                  then Some (PTuple [cls_val cn; cls_val (s2p "Structure"); cls_val (s2p "UniqueMixin"); cls_val (s2p "object")])
             else None
         | None => None
         end.

Definition agg_of (smap : pystr -> renames) : pyval -> pyval -> res pyval :=
  fun c _ => match c with POther _ cn => Ok (ren_dict (smap cn)) | _ => Raise Unmodelled end.

Local Open Scope string_scope.
(* class T: x: Integer (renamed "xX"), s: String with a default, r: a reference to class P (wrapper form: one field) *)
Definition ex_fd (n : string) (f : field) (dv : option pyval) : fdecl :=
  {| fd_name := s2p n; fd_field := f; fd_immutable := false; fd_default := dv |}.
Definition ex_cls (n : string) (fs : list fdecl) (req : list string) (add : bool) : classdef :=
  {| c_name := s2p n; c_ancestors := []; c_fields := fs; c_required := map s2p req; c_additional := add;
     c_ignore_none := false; c_immutable := false; c_hook := HookNone |}.
Definition ex_P := ex_cls "P" [ex_fd "v" (FNumber KInteger SPositive no_numc) None] ["v"] false.
Definition ex_T := ex_cls "T" [ex_fd "x" (FNumber KInteger SAny no_numc) None;
                               ex_fd "s" (FString no_strc) (Some (PStr (s2p "dflt")));
                               ex_fd "r" (FSeqEach SeqList (FClassRef (s2p "P")) no_sizec false) None] ["x"] true.
Definition ex_env : env := [ex_P; ex_T].
Definition ex_smap : pystr -> renames := fun cn => if pystr_eqb cn (s2p "T") then [(s2p "x", s2p "xX")] else [].
Definition ex_pt (p : N) : pystr := s2p "a.c".

Example class_level_satisfiable :
  class_seen ex_pt no_einfo (heap_of ex_pt no_einfo ex_env) (agg_of ex_smap) ex_T (ex_smap (c_name ex_T)) PNone /\
  nodup_str (c_required ex_T) = true /\ wrapper_form ex_T = false /\ wrapper_form ex_P = true /\
  (* the generated structure_to_schema on T: exactly the hand model's class schema (and P's, reached through $ref) *)
  structure_to_schema (heap_of ex_pt no_einfo ex_env) (agg_of ex_smap) (fun _ _ => Ok tt) 6%nat 3%nat (cls_val (s2p "T")) PNone
  = Ok (PTuple [sch_json ex_pt (class_schema no_einfo (ex_smap (s2p "T")) ex_T); defs_token]) /\
  structure_to_schema (heap_of ex_pt no_einfo ex_env) (agg_of ex_smap) (fun _ _ => Ok tt) 6%nat 3%nat (cls_val (s2p "P")) PNone
  = Ok (PTuple [sch_json ex_pt (class_schema no_einfo (ex_smap (s2p "P")) ex_P); defs_token]) /\
  class_json ex_pt no_einfo (ex_smap (s2p "T")) ex_T = sch_json ex_pt (class_schema no_einfo (ex_smap (s2p "T")) ex_T).
Proof.
  split.
  { constructor; try (vm_compute; reflexivity).
    - eexists. vm_compute. reflexivity.
    - eexists; eexists. split; vm_compute; reflexivity. }
  repeat split; vm_compute; reflexivity.
Qed.

(* Chained renames over sibling names: the source keeps, next to the required list it renames in place, the field name
   each entry stands for, so an entry renamed to the NAME of a later field is not renamed again (before that repair the
   source exported required ["z"] here).  Fields x, a; required [x]; mapper {x: "a", a: "z"}: source and hand model
   both export required ["a"]. *)
Definition ex_chain := ex_cls "C" [ex_fd "x" (FNumber KInteger SAny no_numc) None; ex_fd "a" (FString no_strc) None] ["x"] true.
Definition ex_chain_map : renames := [(s2p "x", s2p "a"); (s2p "a", s2p "z")].
Example source_vs_hand_model_chained_renames :
  snd (run_fields ex_pt no_einfo ex_chain_map (c_fields ex_chain) [] (c_required ex_chain)) = [s2p "a"] /\
  required_out ex_chain_map ex_chain = [s2p "a"] /\
  structure_to_schema (heap_of ex_pt no_einfo [ex_chain]) (fun _ _ => Ok (ren_dict ex_chain_map)) (fun _ _ => Ok tt) 6%nat 3%nat
                      (cls_val (s2p "C")) PNone
  = Ok (PTuple [PDict [(PStr (s2p "type"), PStr (s2p "object"));
                       (PStr (s2p "properties"), PDict [(PStr (s2p "a"), PDict [(PStr (s2p "type"), PStr (s2p "integer"))]);
                                                        (PStr (s2p "z"), PDict [(PStr (s2p "type"), PStr (s2p "string"))])]);
                       (PStr (s2p "required"), PList [PStr (s2p "a")]);
                       (PStr (s2p "additionalProperties"), PBool true)]; defs_token]).
Proof. repeat split; vm_compute; reflexivity. Qed.

Print Assumptions generated_validated_mapped_value.
Print Assumptions generated_generate_schema_for_fields.
Print Assumptions generated_structure_to_schema_body.
Print Assumptions class_level_satisfiable.
Print Assumptions source_vs_hand_model_chained_renames.
