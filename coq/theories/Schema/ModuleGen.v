(* C09 — model of the module-level entry points of typedpy's schema-to-code generator:
   schema_definitions_to_code (one class per definition, in declaration order, joined by a fixed
   separator) and write_code_from_schema (prologue, the definitions' classes, a separator, the main
   class, epilogue), as token lists over Schema/CodeGen.v; and of what executing such a module does
   with NAMES: a class statement evaluates every field expression of its body when it is executed, so a
   reference to a definition ($ref, emitted as a bare identifier) is looked up at that moment and must
   have been bound by an earlier class statement of the module (or by `from typedpy import *`).
   The layout (which text is written, in which order, under which condition, over which definitions) is
   a parameter here; its current value is GENERATED from the source of write_code_from_schema /
   schema_definitions_to_code on every run (Gen/ModuleLayout.v, fail closed).
   No proofs in this file (Schema/ModuleGenProofs.v). *)
From Coq Require Import NArith List Bool String.
Import ListNotations.
From TP Require Import Base.PyVal Schema.PyLiteral Schema.CodeGen.
Local Open Scope N_scope.

(* ------------------------------------------------------------------ layout of the written module *)

Inductive mleaf :=
| MConst (text : pystr)     (* fixed text *)
| MDefs                     (* schema_definitions_to_code(<the caller's definitions>) *)
| MMain                     (* schema_to_struct_code(class_name, schema, <the caller's definitions>) *)
| MUnrecognised.            (* anything the recogniser does not understand *)

Inductive mpart :=
| MAlways (l : mleaf)
| MIfDefs (l : mleaf).      (* written only when the definitions dict is non-empty *)

Definition mlayout := list mpart.

(* ------------------------------------------------------------------ references *)

(* every definition name a field expression mentions, in whatever position: directly, as the items of
   an array (schema or positional list), inside allOf/anyOf/oneOf/not, as a property of a nested
   object, as the value schema of a map *)
Fixpoint field_refs (f : jfield) : list pystr :=
  match f with
  | FRef n => [n]
  | FArray _ kind items _ =>
      match kind, items with
      | INone, _ => []
      | IOne, i :: _ => field_refs i
      | IOne, [] => []
      | IMany, _ => flat_map field_refs items
      end
  | FMulti _ kind fields _ =>
      match kind, fields with
      | INone, _ => []
      | IOne, i :: _ => field_refs i
      | IOne, [] => []
      | IMany, _ => flat_map field_refs fields
      end
  | FObject _ _ props _ => flat_map (fun p => field_refs (snd p)) props
  | FMap (Some v) _ => field_refs v
  | FMap None _ => []
  | FString _ _ _ | FNumeric _ _ _ | FBoolean _ | FEnum _ _ => []
  end.

Definition class_refs (c : jclass) : list pystr :=
  flat_map (fun p => field_refs (snd p)) (c_props c).

(* ------------------------------------------------------------------ executing the class statements *)

(* bound: the names visible so far.  Executing `class c(Structure): ...` looks every reference of its
   body up, then binds c's own name (a class does not see its own name while its body runs). *)
Fixpoint names_ok (bound : list pystr) (cs : list jclass) : bool :=
  match cs with
  | [] => true
  | c :: rest => forallb (fun r => str_in r bound) (class_refs c) && names_ok (c_name c :: bound) rest
  end.

(* the NameError: the first name looked up and not found *)
Fixpoint first_unbound (bound : list pystr) (cs : list jclass) : option pystr :=
  match cs with
  | [] => None
  | c :: rest =>
      match filter (fun r => negb (str_in r bound)) (class_refs c) with
      | r :: _ => Some r
      | [] => first_unbound (c_name c :: bound) rest
      end
  end.

(* every reference is to a definition that exists (a well-formed schema) *)
Definition refs_defined (base : list pystr) (cs : list jclass) : bool :=
  forallb (fun c => forallb (fun r => str_in r base || str_in r (map c_name cs)) (class_refs c)) cs.

(* emitting only the definitions selected by [keep]: every reference of an emitted class is to a name
   that is still there *)
Definition refs_closed (keep : pystr -> bool) (base : list pystr) (cs : list jclass) : bool :=
  forallb (fun c => forallb (fun r => str_in r base || keep r) (class_refs c)) cs.

Definition keep_class (keep : pystr -> bool) (c : jclass) : bool := keep (c_name c).

(* ------------------------------------------------------------------ token lists *)

Fixpoint all_class_toks (cs : list jclass) : option (list (list tok)) :=
  match cs with
  | [] => Some []
  | c :: rest =>
      match class_toks c, all_class_toks rest with
      | Some t, Some ts => Some (t :: ts)
      | _, _ => None
      end
  end.

(* schema_definitions_to_code: None when the joiner is not recognised or a class raises *)
Definition defs_toks (joiner : option pystr) (defs : list jclass) : option (list tok) :=
  match joiner, all_class_toks defs with
  | Some j, Some ts => Some (join [TRaw j] ts)
  | _, _ => None
  end.

Definition leaf_toks (dt mt : list tok) (l : mleaf) : option (list tok) :=
  match l with
  | MConst t => Some [TRaw t]
  | MDefs => Some dt
  | MMain => Some mt
  | MUnrecognised => None
  end.

Definition part_toks (nodefs : bool) (dt mt : list tok) (p : mpart) : option (list tok) :=
  match p with
  | MAlways l => leaf_toks dt mt l
  | MIfDefs l => if nodefs then Some [] else leaf_toks dt mt l
  end.

Fixpoint layout_toks (nodefs : bool) (dt mt : list tok) (lay : mlayout) : option (list tok) :=
  match lay with
  | [] => Some []
  | p :: rest =>
      match part_toks nodefs dt mt p, layout_toks nodefs dt mt rest with
      | Some a, Some b => Some (a ++ b)
      | _, _ => None
      end
  end.

Definition is_nil {A} (l : list A) : bool := match l with [] => true | _ => false end.

(* write_code_from_schema: both texts are computed first (either may raise), then written *)
Definition module_toks (lay : mlayout) (joiner : option pystr) (defs : list jclass) (main : jclass)
  : option (list tok) :=
  match defs_toks joiner defs, class_toks main with
  | Some dt, Some mt => layout_toks (is_nil defs) dt mt lay
  | _, _ => None
  end.

(* the class statements of the written module, in order *)
Definition leaf_classes (defs : list jclass) (main : jclass) (l : mleaf) : list jclass :=
  match l with MDefs => defs | MMain => [main] | _ => [] end.

Definition module_classes (lay : mlayout) (defs : list jclass) (main : jclass) : list jclass :=
  flat_map (fun p => match p with
                     | MAlways l => leaf_classes defs main l
                     | MIfDefs l => if is_nil defs then [] else leaf_classes defs main l
                     end) lay.

Definition module_names_ok (base : list pystr) (lay : mlayout) (defs : list jclass) (main : jclass) : bool :=
  names_ok base (module_classes lay defs main).

(* the layout of the pinned tree, for statements that do not depend on the generated table *)
Definition layout_v1 : mlayout :=
  [ MAlways (MConst (s2p "from typedpy import *" ++ [10; 10; 10]));
    MIfDefs MDefs;
    MIfDefs (MConst ([10; 10] ++ s2p "# ********************" ++ [10; 10; 10]));
    MAlways MMain;
    MAlways (MConst [10]) ].

Definition joiner_v1 : option pystr := Some [10; 10; 10].
