(* Proofs about the model of structure_to_schema (property C08):
   well-formedness of the emitted schema + $ref resolution, and completeness (the serialization of
   an accepted value validates) by structural induction over the field. *)
From Coq Require Import ZArith QArith Lqa NArith String Ascii Bool Lia List.
Import ListNotations.
From TP Require Import Base.PyVal Fields.FieldAst Fields.SetChain Fields.Doc Fields.SetChainProofs
  Schema.Draft4 Schema.ToSchema.
Local Open Scope Z_scope.

(* ------------------------------------------------------------------ generic list facts *)

Lemma forallb_map {A B} (f : A -> B) (p : B -> bool) l :
  forallb p (map f l) = forallb (fun x => p (f x)) l.
Proof. induction l as [|x l IH]; simpl; [reflexivity | rewrite IH; reflexivity]. Qed.

Lemma forallb_Forall_impl {A} (P : A -> Prop) (p q : A -> bool) l :
  Forall (fun x => p x = true -> P x -> q x = true) l ->
  forallb p l = true -> (forall x, In x l -> P x) -> forallb q l = true.
Proof.
  induction 1 as [|x l H _ IH]; simpl; intros Hp HP; [reflexivity|].
  apply andb_true_iff in Hp as [Hx Hl].
  rewrite H; [| exact Hx | apply HP; left; reflexivity]. simpl. apply IH; auto.
Qed.

Lemma alist_has_in {A} (l : list (pystr * A)) k v : In (k, v) l -> alist_has l k = true.
Proof.
  unfold alist_has. induction l as [|[k' v'] l IH]; simpl; [contradiction|].
  intros [H|H].
  - inversion H; subst. rewrite pystr_eqb_refl. reflexivity.
  - destruct (pystr_eqb k' k); [reflexivity | apply IH; exact H].
Qed.

Lemma alist_get_in {A} (l : list (pystr * A)) k v :
  alist_get l k = Some v -> In (k, v) l.
Proof.
  induction l as [|[k' v'] l IH]; simpl; [discriminate|].
  destruct (pystr_eqb k' k) eqn:E.
  - intro H; inversion H; subst. apply pystr_eqb_spec in E; subst. left; reflexivity.
  - intro H; right; apply IH; exact H.
Qed.

Section EI.
  Variable ei : einfo_t.

(* ------------------------------------------------------------------ well-formedness, fields *)

Lemma wf4_Sch D kws : wf4 D (Sch kws) = forallb (wf_kw D kws) kws.
Proof. reflexivity. Qed.
Lemma fix_dialect_Sch kws : fix_dialect (Sch kws) = Sch (map fix_kw kws).
Proof. reflexivity. Qed.
Lemma wfk_items D sibs s : wf_kw D sibs (fix_kw (KItems s)) = wf4 D (fix_dialect s).
Proof. reflexivity. Qed.
Lemma wfk_itemsL D sibs ss :
  wf_kw D sibs (fix_kw (KItemsL ss)) =
  negb (Nat.eqb (length (map fix_dialect ss)) 0) && forallb (wf4 D) (map fix_dialect ss).
Proof. reflexivity. Qed.
Lemma wfk_addS D sibs s : wf_kw D sibs (fix_kw (KAddPropsS s)) = wf4 D (fix_dialect s).
Proof. reflexivity. Qed.
Lemma wfk_pat1 D sibs p s : wf_kw D sibs (fix_kw (KPatProps [(p, s)])) = wf4 D (fix_dialect s) && true.
Proof. reflexivity. Qed.
Lemma wfk_allof D sibs ss :
  wf_kw D sibs (fix_kw (KAllOf ss)) =
  negb (Nat.eqb (length (map fix_dialect ss)) 0) && forallb (wf4 D) (map fix_dialect ss).
Proof. reflexivity. Qed.
Lemma wfk_anyof D sibs ss :
  wf_kw D sibs (fix_kw (KAnyOf ss)) =
  negb (Nat.eqb (length (map fix_dialect ss)) 0) && forallb (wf4 D) (map fix_dialect ss).
Proof. reflexivity. Qed.
Lemma wfk_oneof D sibs ss :
  wf_kw D sibs (fix_kw (KOneOf ss)) =
  negb (Nat.eqb (length (map fix_dialect ss)) 0) && forallb (wf4 D) (map fix_dialect ss).
Proof. reflexivity. Qed.
Lemma wfk_notl D sibs ss :
  wf_kw D sibs (fix_kw (KNotL ss)) =
  negb (Nat.eqb (length (map fix_dialect ss)) 0) && forallb (wf4 D) (map fix_dialect ss) && true.
Proof. reflexivity. Qed.
Lemma wfk_ref D sibs c : wf_kw D sibs (fix_kw (KRef c)) = alist_has D c.
Proof. reflexivity. Qed.
Lemma wfk_enum D sibs vs :
  wf_kw D sibs (fix_kw (KEnum vs)) = negb (Nat.eqb (length vs) 0) && junique vs && forallb is_json vs.
Proof. reflexivity. Qed.
Lemma wfk_additems D sibs b : wf_kw D sibs (fix_kw (KAddItems b)) = true.
Proof. reflexivity. Qed.

Lemma get_min_json k s c m :
  bound_json (minimum c) = true -> get_min k s c = Some m -> num_json m = true.
Proof.
  unfold get_min, bound_json. destruct (minimum c) as [x|].
  - intros H E; inversion E; subst; exact H.
  - intros _. destruct s, k; intro E; inversion E; reflexivity.
Qed.

Lemma get_max_json k s c m :
  bound_json (maximum c) = true -> get_max k s c = Some m -> num_json m = true.
Proof.
  unfold get_max, bound_json. destruct (maximum c) as [x|].
  - intros H E; inversion E; subst; exact H.
  - intros _. destruct s, k; intro E; inversion E; reflexivity.
Qed.

Lemma size_kws_wf D sibs sz :
  size_sane sz = true -> forallb (wf_kw D sibs) (map fix_kw (size_kws sz)) = true.
Proof.
  unfold size_sane, size_kws, nonneg. destruct (minItems sz), (maxItems sz); cbn; intro H;
    repeat (apply andb_true_iff in H as [? H]); repeat (apply andb_true_iff; split); auto.
Qed.

Lemma uniq_kws_wf D sibs u : forallb (wf_kw D sibs) (map fix_kw (uniq_kws u)) = true.
Proof. destruct u; reflexivity. Qed.

Lemma wf_app D sibs a b :
  forallb (wf_kw D sibs) (map fix_kw (a ++ b)) =
  forallb (wf_kw D sibs) (map fix_kw a) && forallb (wf_kw D sibs) (map fix_kw b).
Proof. rewrite map_app, forallb_app. reflexivity. Qed.

Lemma number_wf_aux D sibs k s c :
  match multiplesOf c with Some m => 0 <? m | None => true end = true ->
  bound_json (minimum c) = true -> bound_json (maximum c) = true ->
  (forall m, maximum c = Some m -> has_maximum sibs = true) ->
  forallb (wf_kw D sibs) (map fix_kw (num_kws k s c)) = true.
Proof.
  intros Hm Hmin Hmax Hsib. unfold num_kws. rewrite !wf_app.
  assert (E1 : forallb (wf_kw D sibs) (map fix_kw (optl (multiplesOf c) (fun m => KMultiplesOf (NInt m)))) = true).
  { destruct (multiplesOf c) as [m|]; [|reflexivity].
    cbn [map optl fix_kw forallb wf_kw num_json andb]. unfold num_pos, Qle_bool. cbn [num_to_Q Qnum Qden].
    rewrite andb_true_r. apply negb_true_iff. apply Z.leb_gt. apply Z.ltb_lt in Hm. lia. }
  assert (E2 : forallb (wf_kw D sibs) (map fix_kw (optl (get_min k s c) KMinimum)) = true).
  { destruct (get_min k s c) as [m|] eqn:E; cbn [map optl fix_kw forallb wf_kw]; [|reflexivity].
    rewrite (get_min_json _ _ _ _ Hmin E). reflexivity. }
  assert (E3 : forallb (wf_kw D sibs) (map fix_kw (optl (get_max k s c) KMaximum)) = true).
  { destruct (get_max k s c) as [m|] eqn:E; cbn [map optl fix_kw forallb wf_kw]; [|reflexivity].
    rewrite (get_max_json _ _ _ _ Hmax E). reflexivity. }
  assert (E4 : forallb (wf_kw D sibs)
                 (map fix_kw (if exclusiveMaximum c && match maximum c with Some _ => true | None => false end
                              then [KExclMax true] else [])) = true).
  { destruct (exclusiveMaximum c); cbn [andb map fix_kw forallb wf_kw]; [|reflexivity].
    destruct (maximum c) as [m|] eqn:Em; cbn [map fix_kw forallb wf_kw]; [|reflexivity].
    rewrite (Hsib m eq_refl). reflexivity. }
  rewrite E1, E2, E3, E4. reflexivity.
Qed.

Lemma number_wf D k s c :
  fclean ei (FNumber k s c) = true -> wf4 D (fix_dialect (fschema ei (FNumber k s c))) = true.
Proof.
  cbn [fclean fschema]. rewrite fix_dialect_Sch, wf4_Sch. intro H.
  apply andb_true_iff in H as [H Hmax].
  apply andb_true_iff in H as [Hm Hmin].
  apply number_wf_aux; auto.
  intros m Em. unfold num_kws, get_max. rewrite Em.
  unfold has_maximum. rewrite !map_app, !existsb_app. simpl.
  rewrite !orb_true_r. reflexivity.
Qed.

Lemma string_wf D c :
  fclean ei (FString c) = true -> wf4 D (fix_dialect (fschema ei (FString c))) = true.
Proof.
  cbn [fclean fschema]. rewrite fix_dialect_Sch, wf4_Sch. unfold str_kws, nonneg. intro H.
  apply andb_true_iff in H as [H1 H2].
  destruct (minLength c), (maxLength c), (pattern c); cbn; cbn in H1, H2; rewrite ?H1, ?H2; reflexivity.
Qed.

Lemma junique_map_pstr_json ms :
  forallb is_json (map (fun m : pystr * pyval => PStr (fst m)) ms) = true.
Proof. induction ms; simpl; auto. Qed.

Section FieldWf.
  Variable D : list (pystr * schema).

  Definition refs_ok (f : field) : Prop := forall nm, In nm (field_refs f) -> alist_has D nm = true.

  Lemma refs_ok_list (fs : list field) :
    (forall nm, In nm (flat_map field_refs fs) -> alist_has D nm = true) ->
    forall g, In g fs -> refs_ok g.
  Proof.
    intros H g Hg nm Hn. apply H. apply in_flat_map. exists g. split; assumption.
  Qed.

  Lemma list_wf (fs : list field) :
    Forall (fun f => fclean ei f = true -> refs_ok f -> wf4 D (fix_dialect (fschema ei f)) = true) fs ->
    forallb (fclean ei) fs = true ->
    (forall nm, In nm (flat_map field_refs fs) -> alist_has D nm = true) ->
    forallb (wf4 D) (map fix_dialect (map (fschema ei) fs)) = true.
  Proof.
    intros HF Hc Hr. rewrite !forallb_map.
    apply (forallb_Forall_impl refs_ok (fclean ei)); auto.
    apply refs_ok_list. exact Hr.
  Qed.

  Lemma length_map2 (fs : list field) :
    Nat.eqb (length (map fix_dialect (map (fschema ei) fs))) 0 = Nat.eqb (length fs) 0.
  Proof. rewrite !map_length. reflexivity. Qed.

  Ltac open_sch := cbn [fschema]; rewrite fix_dialect_Sch, wf4_Sch.

  Theorem fschema_wf : forall f,
      fclean ei f = true -> refs_ok f -> wf4 D (fix_dialect (fschema ei f)) = true.
  Proof.
    induction f using field_ind'; intros Hc Hr.
    - apply number_wf; exact Hc.
    - apply string_wf; exact Hc.
    - reflexivity.
    - discriminate.
    - discriminate.
    - (* FEnumLit *)
      cbn [fclean] in Hc. unfold enum_clean in Hc. cbn [fschema]. unfold enum_schema.
      destruct (enum_vals ei (FEnumLit vs)) as [l|]; [|discriminate Hc].
      rewrite fix_dialect_Sch, wf4_Sch. cbn [map forallb]. rewrite wfk_enum, Hc. reflexivity.
    - (* FEnumCls *)
      cbn [fclean] in Hc. unfold enum_clean in Hc. cbn [fschema]. unfold enum_schema.
      destruct (enum_vals ei (FEnumCls c ms)) as [l|]; [|discriminate Hc].
      rewrite fix_dialect_Sch, wf4_Sch. cbn [map forallb]. rewrite wfk_enum, Hc. reflexivity.
    - (* FSeqAny *)
      cbn [fclean] in Hc. apply andb_true_iff in Hc as [_ Hs].
      open_sch. rewrite !wf_app, uniq_kws_wf, size_kws_wf by exact Hs. reflexivity.
    - (* FSeqEach *)
      cbn [fclean] in Hc. apply andb_true_iff in Hc as [Hc Hi]. apply andb_true_iff in Hc as [_ Hs].
      open_sch. rewrite !wf_app, uniq_kws_wf, size_kws_wf by exact Hs.
      cbn [map forallb]. rewrite wfk_items, IHf; auto.
    - (* FSeqPos *)
      cbn [fclean] in Hc. apply andb_true_iff in Hc as [Hc Hi]. apply andb_true_iff in Hc as [Hc Hn].
      apply andb_true_iff in Hc as [_ Hs].
      open_sch. rewrite !wf_app, uniq_kws_wf, size_kws_wf by exact Hs.
      cbn [map forallb]. rewrite wfk_itemsL, length_map2, Hn, list_wf; auto.
      destruct a; reflexivity.
    - (* FSet None *)
      cbn [fclean] in Hc. apply andb_true_iff in Hc as [Hs _].
      open_sch. rewrite !wf_app, size_kws_wf by exact Hs. reflexivity.
    - (* FSet Some *)
      cbn [fclean] in Hc. apply andb_true_iff in Hc as [Hs Hi].
      open_sch. rewrite !wf_app, size_kws_wf by exact Hs.
      cbn [map forallb]. rewrite wfk_items, IHf; auto.
    - (* FTuple *)
      cbn [fclean] in Hc. apply andb_true_iff in Hc as [Hn Hi].
      open_sch. rewrite !wf_app, uniq_kws_wf.
      cbn [map forallb]. rewrite wfk_itemsL, wfk_additems, length_map2, Hn, list_wf; auto.
    - (* FMapAny *)
      cbn [fclean] in Hc.
      open_sch. rewrite !wf_app, size_kws_wf by exact Hc. reflexivity.
    - (* FMapKV *)
      cbn [fclean] in Hc. apply andb_true_iff in Hc as [Hs Hk].
      destruct f1; try discriminate.
      open_sch. rewrite !wf_app, size_kws_wf by exact Hs.
      destruct (key_constrained c); cbn [map forallb]; rewrite ?wfk_pat1, ?wfk_addS, IHf2; auto.
    - (* FAllOf *)
      cbn [fclean] in Hc. apply andb_true_iff in Hc as [Hn Hi].
      open_sch. cbn [map forallb]. rewrite wfk_allof, length_map2, Hn, list_wf; auto.
    - (* FAnyOf *)
      assert (G : negb (Nat.eqb (length fs) 0) && forallb (fclean ei) fs = true ->
                  wf4 D (fix_dialect (Sch [KAnyOf (map (fschema ei) fs)])) = true).
      { intro Hc'. apply andb_true_iff in Hc' as [Hn Hi].
        rewrite fix_dialect_Sch, wf4_Sch. cbn [map forallb]. rewrite wfk_anyof, length_map2, Hn, list_wf; auto. }
      destruct fs as [|g [|h t]]; try (apply G; exact Hc).
      destruct h; destruct t as [|k' fs']; try (apply G; exact Hc).
      (* Optional: [g; FNone] *)
      cbn [fclean] in Hc. cbn [fschema].
      inversion H as [|? ? Hg _]; subst. apply Hg; auto.
      intros nm Hn. apply Hr. cbn [field_refs flat_map app]. rewrite ?app_nil_r. exact Hn.
    - (* FOneOf *)
      cbn [fclean] in Hc. apply andb_true_iff in Hc as [Hn Hi].
      open_sch. cbn [map forallb]. rewrite wfk_oneof, length_map2, Hn, list_wf; auto.
    - (* FNot: "not": [..]  ->  "not": {"anyOf": [..]} *)
      cbn [fclean] in Hc. apply andb_true_iff in Hc as [Hn Hi].
      open_sch. cbn [map forallb]. rewrite wfk_notl, length_map2, Hn, list_wf; auto.
    - (* FClassRef *)
      open_sch. cbn [map forallb]. rewrite wfk_ref, Hr; [reflexivity|]. left; reflexivity.
  Qed.
End FieldWf.

(* ------------------------------------------------------------------ completeness, fields *)

(* the sub-fragment on which the serialization of every accepted value validates (no class references:
   those are covered by the differential; see Props/C08.v for what is excluded and why) *)
Fixpoint cfrag (f : field) : bool :=
  match f with
  | FNumber k s c => negb (eps_bound k s c)
  | FString _ | FBoolean => true
  | FEnumCls c _ => negb (eo_by_value (ei c))       (* by-value enum fields: decided by the differential *)
  | FSeqAny SeqList _ false => true
  | FSeqEach SeqList g _ false => cfrag g
  | FMapKV (FString _) vf _ => cfrag vf
  | FAnyOf fs =>
      match fs with
      | [g; FNone] => simple g && cfrag g
      | _ => forallb (fun g => simple g && cfrag g) fs
      end
  | _ => false
  end.

Fixpoint fdepth (f : field) : nat :=
  match f with
  | FSeqEach _ g _ _ => S (fdepth g)
  | FMapKV _ vf _ => S (fdepth vf)
  | FAnyOf fs => S (fold_right Nat.max 0%nat (map fdepth fs))
  | _ => 1%nat
  end.

Definition no_ref (kws : list kw) : bool :=
  forallb (fun k => match k with KRef _ => false | _ => true end) kws.

Lemma no_ref_find kws : no_ref kws = true -> find_ref kws = None.
Proof.
  induction kws as [|k kws IH]; simpl; [reflexivity|].
  intro H. apply andb_true_iff in H as [Hk H]. destruct k; try discriminate; apply IH; exact H.
Qed.

Lemma valid4_S re D n kws j :
  no_ref kws = true ->
  valid4 re D (S n) (Sch kws) j = forallb (valid_kw re (valid4 re D n) kws j) kws.
Proof. intro H. cbn [valid4 kws_of]. rewrite (no_ref_find _ H). reflexivity. Qed.

Lemma mapM_Forall2 {A B} (f : A -> res B) l r :
  mapM f l = Ok r -> Forall2 (fun x y => f x = Ok y) l r.
Proof.
  revert r; induction l as [|x l IH]; simpl; intros r H.
  - inversion H; constructor.
  - destruct (f x) eqn:E; simpl in H; [|discriminate].
    destruct (mapM f l) eqn:E2; simpl in H; [|discriminate].
    inversion H; subst. constructor; auto.
Qed.

Lemma mapO_Forall2 {A B} (f : A -> option B) l r :
  mapO f l = Some r -> Forall2 (fun x y => f x = Some y) l r.
Proof.
  revert r; induction l as [|x l IH]; simpl; intros r H.
  - inversion H; constructor.
  - destruct (f x) eqn:E; [|discriminate]. destruct (mapO f l) eqn:E2; [|discriminate].
    inversion H; subst. constructor; auto.
Qed.

Lemma Forall2_length' {A B} (P : A -> B -> Prop) l r : Forall2 P l r -> length l = length r.
Proof. induction 1; simpl; congruence. Qed.

(* numbers *)

(* exclusiveMaximum as exported: next to the field's own maximum only *)
Definition xmax (c : numc) : bool :=
  exclusiveMaximum c && match maximum c with Some _ => true | None => false end.

Lemma num_kws_no_ref k s c : no_ref (map fix_kw (num_kws k s c)) = true.
Proof.
  unfold num_kws. fold (xmax c). destruct (multiplesOf c), (get_min k s c), (get_max k s c), (xmax c); reflexivity.
Qed.

Lemma excl_max_num_kws k s c :
  excl_max (map fix_kw (num_kws k s c)) = xmax c.
Proof.
  unfold num_kws, excl_max. fold (xmax c).
  destruct (multiplesOf c), (get_min k s c), (get_max k s c), (xmax c); reflexivity.
Qed.

Lemma ltb_false_leb a b : num_ltb a b = false -> num_leb b a = true.
Proof. unfold num_ltb, num_leb. intro H. apply negb_false_iff in H. exact H. Qed.


Lemma int_pos_ge1 z : sign_ok SPositive (NInt z) = true -> num_leb (NInt 1) (NInt z) = true.
Proof.
  unfold sign_ok, num_ltb, num_leb, zero, Qle_bool. cbn [num_to_Q Qnum Qden].
  intro H. apply negb_true_iff in H. apply Z.leb_gt in H. apply Z.leb_le. lia.
Qed.

Lemma int_neg_le_m1 z : sign_ok SNegative (NInt z) = true -> num_leb (NInt z) (NInt (-1)) = true.
Proof.
  unfold sign_ok, num_ltb, num_leb, zero, Qle_bool. cbn [num_to_Q Qnum Qden].
  intro H. apply negb_true_iff in H. apply Z.leb_gt in H. apply Z.leb_le. lia.
Qed.

Definition int_if_integer (k : numkind) (n : num) : Prop :=
  match k with KInteger => exists z, n = NInt z | _ => True end.

Lemma number_valid_aux re rec sibs k s c n :
  excl_max sibs = xmax c ->
  cfrag (FNumber k s c) = true ->
  int_if_integer k n ->
  num_constraints_ok c n = true -> sign_ok s n = true ->
  forallb (valid_kw re rec sibs (PNum n)) (map fix_kw (num_kws k s c)) = true.
Proof.
  intros Hex Hc Hint Hok Hs. cbn [cfrag] in Hc. rename Hc into Heps.
  apply negb_true_iff in Heps.
  unfold num_constraints_ok in Hok. apply andb_true_iff in Hok as [Hok Hmax].
  apply andb_true_iff in Hok as [Hmul Hmin].
  unfold num_kws. rewrite !map_app, !forallb_app.
  assert (E0 : forallb (valid_kw re rec sibs (PNum n))
                 (map fix_kw [KType match k with KInteger => TInteger | _ => TNumber end]) = true).
  { destruct k; try reflexivity. destruct Hint as [z ->]. reflexivity. }
  assert (E1 : forallb (valid_kw re rec sibs (PNum n))
                 (map fix_kw (optl (multiplesOf c) (fun m => KMultiplesOf (NInt m)))) = true).
  { destruct (multiplesOf c) as [m|]; [|reflexivity]. cbn [optl map fix_kw forallb valid_kw]. rewrite Hmul. reflexivity. }
  assert (E2 : forallb (valid_kw re rec sibs (PNum n)) (map fix_kw (optl (get_min k s c) KMinimum)) = true).
  { unfold get_min. destruct (minimum c) as [mn|] eqn:Emn.
    - cbn [optl map fix_kw forallb valid_kw]. rewrite Hmin. reflexivity.
    - destruct s; try reflexivity.
      + (* Positive *) destruct k.
        * unfold eps_bound in Heps. rewrite Emn in Heps. discriminate.
        * destruct Hint as [z ->]. cbn [optl map fix_kw forallb valid_kw]. rewrite (int_pos_ge1 _ Hs). reflexivity.
        * unfold eps_bound in Heps. rewrite Emn in Heps. discriminate.
      + (* NonNegative *) cbn [optl map fix_kw forallb valid_kw]. unfold sign_ok in Hs. unfold zero in Hs.
        rewrite Hs. reflexivity. }
  assert (E3 : forallb (valid_kw re rec sibs (PNum n)) (map fix_kw (optl (get_max k s c) KMaximum)) = true).
  { unfold get_max. destruct (maximum c) as [mx|] eqn:Emx.
    - cbn [optl map fix_kw forallb valid_kw]. rewrite Hex. unfold xmax. rewrite Emx, andb_true_r.
      rewrite andb_true_r. exact Hmax.
    - (* the sign-implied maximum is never exclusive: the field ignores exclusiveMaximum without a maximum of its own *)
      assert (Enx : xmax c = false) by (unfold xmax; rewrite Emx; apply andb_false_r).
      destruct s; try reflexivity.
      + (* Negative *) destruct k.
        * unfold eps_bound in Heps. rewrite Emx in Heps. discriminate.
        * destruct Hint as [z ->]. cbn [optl map fix_kw forallb valid_kw]. rewrite Hex, Enx.
          rewrite (int_neg_le_m1 _ Hs). reflexivity.
        * unfold eps_bound in Heps. rewrite Emx in Heps. discriminate.
      + (* NonPositive *) cbn [optl map fix_kw forallb valid_kw]. rewrite Hex, Enx.
        unfold sign_ok, zero in Hs. rewrite Hs. reflexivity. }
  assert (E4 : forallb (valid_kw re rec sibs (PNum n))
                 (map fix_kw (if exclusiveMaximum c && match maximum c with Some _ => true | None => false end
                              then [KExclMax true] else [])) = true).
  { destruct (exclusiveMaximum c && match maximum c with Some _ => true | None => false end); reflexivity. }
  rewrite E0, E1, E2, E3, E4. reflexivity.
Qed.

Lemma all_some_Forall2 {A} (l : list (option A)) r :
  all_some l = Some r -> Forall2 (fun o y => o = Some y) l r.
Proof.
  revert r; induction l as [|[x|] l IH]; simpl; intros r H; try discriminate.
  - inversion H; constructor.
  - destruct (all_some l) eqn:E; [|discriminate]. inversion H; subst. constructor; auto.
Qed.

Lemma Forall2_map_l {A B C} (f : A -> B) (P : B -> C -> Prop) l r :
  Forall2 P (map f l) r -> Forall2 (fun x y => P (f x) y) l r.
Proof.
  revert r; induction l as [|x l IH]; simpl; intros r H; inversion H; subst; constructor; auto.
Qed.

Lemma enum_name_in (ms : list (pystr * pyval)) name :
  alist_has ms name = true ->
  existsb (jeq (PStr name)) (map (fun m : pystr * pyval => PStr (fst m)) ms) = true.
Proof.
  unfold alist_has. induction ms as [|[k x] ms IH]; [discriminate|].
  cbn [alist_get map existsb fst]. destruct (pystr_eqb k name) eqn:E.
  - intros _. apply pystr_eqb_spec in E. subst.
    change (jeq (PStr name) (PStr name)) with (pystr_eqb name name). rewrite pystr_eqb_refl. reflexivity.
  - intro H. rewrite (IH H). apply orb_true_r.
Qed.

Lemma enum_vals_by_name c ms :
  eo_by_value (ei c) = false ->
  enum_vals ei (FEnumCls c ms) = Some (map (fun m : pystr * pyval => PStr (fst m)) ms).
Proof.
  intro Hb. cbn [enum_vals]. rewrite Hb. unfold members_of.
  induction ms as [|[n x] ms IH]; [reflexivity|].
  cbn [map mapO fst snd]. rewrite IH. reflexivity.
Qed.

Lemma size_kws_valid re rec sibs sz (l : list pyval) :
  size_ok sz (lenZ l) = true ->
  forallb (valid_kw re rec sibs (PList l)) (map fix_kw (size_kws sz)) = true.
Proof.
  unfold size_ok, size_kws, lenZ. intro H. apply andb_true_iff in H as [H1 H2].
  destruct (maxItems sz), (minItems sz); cbn [optl app map fix_kw forallb valid_kw]; unfold lenZ';
    rewrite ?H1, ?H2; reflexivity.
Qed.

Lemma size_kws_valid_dict re rec sibs sz kv :
  forallb (valid_kw re rec sibs (PDict kv)) (map fix_kw (size_kws sz)) = true.
Proof. unfold size_kws. destruct (maxItems sz), (minItems sz); reflexivity. Qed.

Lemma size_kws_no_ref sz : no_ref (map fix_kw (size_kws sz)) = true.
Proof. unfold size_kws. destruct (maxItems sz), (minItems sz); reflexivity. Qed.

Lemma no_ref_app a b : no_ref (a ++ b) = no_ref a && no_ref b.
Proof. unfold no_ref. apply forallb_app. Qed.

Lemma str_kws_no_ref c : no_ref (map fix_kw (str_kws c)) = true.
Proof. unfold str_kws. destruct (minLength c), (maxLength c), (pattern c); reflexivity. Qed.

Lemma dict_set_vals (P : pyval -> Prop) acc k v :
  Forall (fun p => P (snd p)) acc -> P v -> Forall (fun p : pyval * pyval => P (snd p)) (dict_set acc k v).
Proof.
  induction acc as [|[k' v'] acc IH]; simpl; intros HF Hv.
  - constructor; [exact Hv | constructor].
  - inversion HF; subst. destruct (py_eq k' k); constructor; auto.
Qed.

Lemma dict_of_pairs_vals (P : pyval -> Prop) r : forall acc,
  Forall (fun p => P (snd p)) acc -> Forall (fun p => P (snd p)) r ->
  Forall (fun p : pyval * pyval => P (snd p)) (dict_of_pairs acc r).
Proof.
  induction r as [|[k v] r IH]; simpl; intros acc Ha Hr; [exact Ha|].
  inversion Hr; subst. apply IH; [apply dict_set_vals; assumption | assumption].
Qed.

Lemma max_in_le (g : field) fs : In g fs -> (fdepth g <= fold_right Nat.max 0 (map fdepth fs))%nat.
Proof.
  induction fs as [|h fs IH]; simpl; [contradiction|].
  intros [->|H]; [lia | specialize (IH H); lia].
Qed.

Section Complete.
  Variable re_match re_search : N -> pystr -> bool.
  Hypothesis Hre : forall p s, re_match p s = true -> re_search p s = true.   (* re.match implies re.search *)
  Variable e : env.
  Variable D : list (pystr * schema).
  Variable ss : pystr -> list (pystr * pyval) -> option pyval.

  Lemma simple_docb_id g v w : simple g = true -> docb re_match e g v = Some w -> w = v.
  Proof.
    destruct g; try discriminate.
    - destruct k; try discriminate; intros _; cbn [docb]; destruct v; try discriminate.
      + destruct (num_constraints_ok c n && sign_ok s n); [|discriminate]. intro H; inversion H; reflexivity.
      + destruct n; try discriminate.
        destruct (num_constraints_ok c (NInt z) && sign_ok s (NInt z)); [|discriminate]. intro H; inversion H; reflexivity.
    - intros _. cbn [docb]. destruct v; try discriminate.
      match goal with |- (if ?b then _ else _) = _ -> _ => destruct b end; [|discriminate].
      intro H; inversion H; reflexivity.
  Qed.

  Lemma docb_mapkv kf vf sz v :
    docb re_match e (FMapKV kf vf sz) v =
    match v with
    | PDict kv =>
        if size_ok sz (lenZ kv) then
          match all_some (map (fun p => match docb re_match e kf (fst p), docb re_match e vf (snd p) with
                                        | Some k', Some v' => Some (k', v')
                                        | _, _ => None
                                        end) kv) with
          | Some r => Some (PDict (dict_of_pairs [] r))
          | None => None
          end
        else None
    | _ => None
    end.
  Proof. reflexivity. Qed.

  Lemma ser_mapkv kf vf sz v :
    ser ei re_match e ss (FMapKV kf vf sz) v =
    match v with
    | PDict kv =>
        match mapO (fun p => match ser ei re_match e ss kf (fst p), ser ei re_match e ss vf (snd p) with
                             | Some (PStr k), Some y => Some (PStr k, y)
                             | _, _ => None
                             end) kv with
        | Some r => Some (PDict r)
        | None => None
        end
    | _ => None
    end.
  Proof. reflexivity. Qed.

  Lemma first_sel v : forall gs j,
      (fix first (gs : list field) : option pyval :=
         match gs with
         | [] => None
         | g :: gs' =>
             if match docb re_match e g v with Some _ => true | None => false end then
               match ser ei re_match e ss g v with Some j => Some j | None => first gs' end
             else first gs'
         end) gs = Some j ->
      exists g w, In g gs /\ docb re_match e g v = Some w /\ ser ei re_match e ss g v = Some j.
  Proof.
    induction gs as [|g gs IH]; intros j H; [discriminate|].
    destruct (docb re_match e g v) as [w|] eqn:Ed.
    - destruct (ser ei re_match e ss g v) as [j'|] eqn:Es.
      + inversion H; subst. exists g, w. split; [left; reflexivity | split; assumption].
      + destruct (IH j H) as (g' & w' & Hin & H1 & H2). exists g', w'. split; [right; exact Hin | split; assumption].
    - destruct (IH j H) as (g' & w' & Hin & H1 & H2). exists g', w'. split; [right; exact Hin | split; assumption].
  Qed.

  Ltac num_case c s X Hd Hs :=
    destruct (num_constraints_ok c X && sign_ok s X) eqn:E; [|discriminate Hd];
    inversion Hd; subst; clear Hd; apply andb_true_iff in E as [Eok Esg];
    cbn [ser] in Hs; try discriminate Hs; inversion Hs; subst; clear Hs;
    cbn [fschema]; rewrite fix_dialect_Sch, valid4_S by apply num_kws_no_ref;
    apply number_valid_aux; auto using excl_max_num_kws; cbn [int_if_integer]; eauto.

  Theorem fschema_complete : forall f, cfrag f = true -> forall v nf j n,
      docb re_match e f v = Some nf -> ser ei re_match e ss f nf = Some j -> (fdepth f <= n)%nat ->
      valid4 re_search D n (fix_dialect (fschema ei f)) j = true.
  Proof.
    induction f using field_ind'; intros Hc v nf j n Hd Hs Hn; try discriminate Hc;
      (destruct n as [|n]; [cbn [fdepth] in Hn; lia|]).
    - (* FNumber *)
      cbn [docb] in Hd. destruct v as [| |x| | | | | | | | |]; try discriminate Hd.
      destruct k; destruct x; cbn beta iota in Hd; try discriminate Hd.
      + num_case c s (NInt z) Hd Hs.
      + num_case c s (NFlt m e0) Hd Hs.
      + num_case c s (NDec m e0) Hd Hs.
      + num_case c s (NInt z) Hd Hs.
      + destruct (int_to_flt_inv z) as [m [e' Ez]]. rewrite Ez in Hd.
        num_case c s (NFlt m e') Hd Hs.
      + num_case c s (NFlt m e0) Hd Hs.
    - (* FString *)
      cbn [docb] in Hd. destruct v as [| | |s0| | | | | | | |]; try discriminate Hd.
      match type of Hd with (if ?b then _ else _) = _ => destruct b eqn:E end; [|discriminate Hd].
      inversion Hd; subst; clear Hd. cbn [ser] in Hs. inversion Hs; subst; clear Hs.
      apply andb_true_iff in E as [E E3]. apply andb_true_iff in E as [E1 E2].
      cbn [fschema]. rewrite fix_dialect_Sch, valid4_S by apply str_kws_no_ref.
      unfold str_kws. unfold lenZ in *.
      destruct (minLength c), (maxLength c), (pattern c);
        cbn [optl app map fix_kw forallb valid_kw type_ok]; unfold lenZ';
        rewrite ?E1, ?E2, ?(Hre _ _ E3); reflexivity.
    - (* FBoolean *)
      cbn [docb] in Hd.
      assert (exists b, nf = PBool b) as [b ->].
      { destruct v; try discriminate Hd.
        - inversion Hd; eauto.
        - destruct (pystr_eqb s str_True); [inversion Hd; eauto|].
          destruct (pystr_eqb s str_False); [inversion Hd; eauto | discriminate Hd]. }
      cbn [ser] in Hs. inversion Hs; subst. reflexivity.
    - (* FEnumCls *)
      cbn [cfrag] in Hc. apply negb_true_iff in Hc.
      cbn [docb] in Hd.
      assert (exists c' name x, nf = PEnum c' name x /\ alist_has ms name = true) as (c' & name & x & -> & Hin).
      { destruct v; try discriminate Hd.
        - destruct (alist_get ms s) eqn:E; [|discriminate Hd]. inversion Hd; subst.
          exists c, s, p. split; [reflexivity|]. unfold alist_has. rewrite E. reflexivity.
        - destruct (pystr_eqb cls c && alist_has ms name) eqn:E; [|discriminate Hd].
          inversion Hd; subst. apply andb_true_iff in E as [_ E]. eauto. }
      cbn [ser] in Hs. rewrite Hc in Hs. inversion Hs; subst; clear Hs.
      cbn [fschema]. unfold enum_schema. rewrite (enum_vals_by_name _ _ Hc).
      rewrite fix_dialect_Sch, valid4_S by reflexivity.
      cbn [map fix_kw forallb valid_kw]. rewrite (enum_name_in _ _ Hin). reflexivity.
    - (* FSeqAny *)
      destruct k; [|discriminate Hc]. destruct u; [discriminate Hc|].
      cbn [docb seq_items] in Hd. destruct v; try discriminate Hd.
      destruct (size_ok sz (lenZ l) && (negb false || py_unique l)) eqn:E; [|discriminate Hd].
      inversion Hd; subst; clear Hd. apply andb_true_iff in E as [Esz _].
      cbn [ser seq_items seq_make] in Hs. destruct (mapO ser_any l) as [r|] eqn:Er; [|discriminate Hs].
      inversion Hs; subst; clear Hs.
      assert (Hlen : lenZ r = lenZ l).
      { unfold lenZ. rewrite (Forall2_length' _ _ _ (mapO_Forall2 _ _ _ Er)). reflexivity. }
      cbn [fschema uniq_kws]. rewrite fix_dialect_Sch, valid4_S.
      2:{ rewrite !map_app, !no_ref_app, size_kws_no_ref. reflexivity. }
      rewrite !map_app, !forallb_app. rewrite size_kws_valid by (rewrite Hlen; exact Esz). reflexivity.
    - (* FSeqEach *)
      destruct k; [|discriminate Hc]. destruct u; [discriminate Hc|]. cbn [cfrag] in Hc.
      cbn [docb seq_items] in Hd. destruct v; try discriminate Hd.
      destruct (size_ok sz (lenZ l) && (negb false || py_unique l)) eqn:E; [|discriminate Hd].
      destruct (all_some (map (docb re_match e f) l)) as [nfl|] eqn:Ea; [|discriminate Hd].
      inversion Hd; subst; clear Hd. apply andb_true_iff in E as [Esz _].
      cbn [ser seq_items seq_make] in Hs.
      destruct (mapO (ser ei re_match e ss f) nfl) as [r|] eqn:Er; [|discriminate Hs].
      inversion Hs; subst; clear Hs.
      pose proof (Forall2_map_l _ _ _ _ (all_some_Forall2 _ _ Ea)) as F1.
      pose proof (mapO_Forall2 _ _ _ Er) as F2.
      assert (Hlen : lenZ r = lenZ l).
      { unfold lenZ. rewrite <- (Forall2_length' _ _ _ F2), <- (Forall2_length' _ _ _ F1). reflexivity. }
      cbn [fdepth] in Hn.
      assert (Hall : forallb (valid4 re_search D n (fix_dialect (fschema ei f))) r = true).
      { clear -IHf Hc F1 F2 Hn. revert r F2. induction F1 as [|x y l nfl Hxy _ IH]; intros r F2; inversion F2; subst.
        - reflexivity.
        - cbn [forallb]. rewrite (IHf Hc x y _ n Hxy H1) by lia. apply IH. assumption. }
      cbn [fschema uniq_kws]. rewrite fix_dialect_Sch, valid4_S.
      2:{ rewrite !map_app, !no_ref_app, size_kws_no_ref. reflexivity. }
      rewrite !map_app, !forallb_app. rewrite size_kws_valid by (rewrite Hlen; exact Esz).
      cbn [app map fix_kw forallb valid_kw type_ok]. rewrite Hall. reflexivity.
    - (* FMapKV *)
      cbn [cfrag] in Hc. destruct f1; try discriminate Hc.
      rename Hc into Hcv.
      rewrite docb_mapkv in Hd. destruct v; try discriminate Hd.
      destruct (size_ok sz (lenZ kv)); [|discriminate Hd].
      match type of Hd with match all_some ?L with _ => _ end = _ => destruct (all_some L) as [r|] eqn:Ea end;
        [|discriminate Hd].
      inversion Hd; subst; clear Hd.
      rewrite ser_mapkv in Hs.
      match type of Hs with match mapO ?F ?L with _ => _ end = _ => destruct (mapO F L) as [out|] eqn:Eo end;
        [|discriminate Hs].
      inversion Hs; subst; clear Hs.
      cbn [fdepth] in Hn.
      (* every value of the stored dict is a documented normal form of the value field *)
      assert (Hvals : Forall (fun p : pyval * pyval => exists x, docb re_match e f2 x = Some (snd p))
                             (dict_of_pairs [] r)).
      { apply (dict_of_pairs_vals (fun y => exists x, docb re_match e f2 x = Some y)); [constructor|].
        pose proof (Forall2_map_l _ _ _ _ (all_some_Forall2 _ _ Ea)) as F1. cbv beta in F1.
        clear -F1. induction F1 as [|p q kv r Hpq _ IH]; constructor; auto.
        destruct (docb re_match e (FString c) (fst p)); [|discriminate Hpq].
        destruct (docb re_match e f2 (snd p)) eqn:Ev; [|discriminate Hpq].
        inversion Hpq; subst. exists (snd p). exact Ev. }
      assert (Hall : forallb (fun p : pyval * pyval => valid4 re_search D n (fix_dialect (fschema ei f2)) (snd p)) out = true).
      { pose proof (mapO_Forall2 _ _ _ Eo) as F2. clear -IHf2 Hcv Hvals F2 Hn.
        induction F2 as [|p q l out Hpq _ IH]; [reflexivity|].
        inversion Hvals as [|? ? [x Hx] Hrest]; subst.
        cbn [forallb]. rewrite IH by assumption. rewrite andb_true_r.
        cbv beta in Hpq.
        destruct (ser ei re_match e ss (FString c) (fst p)) as [[]|]; try discriminate Hpq.
        destruct (ser ei re_match e ss f2 (snd p)) as [y|] eqn:Ey; [|discriminate Hpq].
        inversion Hpq; subst. cbn [snd]. apply (IHf2 Hcv x (snd p) y n Hx Ey). lia. }
      cbn [fschema]. destruct (key_constrained c) eqn:Hk.
      + (* "patternProperties": {<key regex>: <value schema>}: every value validates, whichever keys the regex finds *)
        rewrite fix_dialect_Sch, valid4_S.
        2:{ rewrite !map_app, !no_ref_app, size_kws_no_ref. reflexivity. }
        rewrite !map_app, !forallb_app. rewrite size_kws_valid_dict.
        cbn [app map fix_kw forallb valid_kw type_ok fst snd]. rewrite !andb_true_r.
        clear -Hall. induction out as [|p out IH]; [reflexivity|].
        cbn [forallb] in *. apply andb_true_iff in Hall as [Hp Hall].
        rewrite Hp, orb_true_r. cbn [andb]. apply IH. exact Hall.
      + rewrite fix_dialect_Sch, valid4_S.
        2:{ rewrite !map_app, !no_ref_app, size_kws_no_ref. reflexivity. }
        rewrite !map_app, !forallb_app. rewrite size_kws_valid_dict.
        cbn [app map fix_kw forallb valid_kw type_ok]. rewrite andb_true_r.
        clear -Hall. induction out as [|p out IH]; [reflexivity|].
        cbn [forallb] in *. apply andb_true_iff in Hall as [Hp Hall].
        rewrite Hp, orb_true_r. apply IH. exact Hall.
    - (* FAnyOf *)
      assert (Hsel : exists g w, In g fs /\ docb re_match e g nf = Some w /\ ser ei re_match e ss g nf = Some j).
      { cbn [ser] in Hs. destruct nf; try discriminate Hs;
          try (apply first_sel in Hs; exact Hs).
        destruct (eo_mixin (ei cls)); try discriminate Hs; apply first_sel in Hs; exact Hs. }
      destruct Hsel as (g & w & Hin & Hdg & Hsg).
      assert (Hnn : nf <> PNone).
      { intro E. subst nf. cbn [ser] in Hs. discriminate Hs. }
      cbn [fdepth] in Hn.
      assert (Hdep : (fdepth g <= n)%nat) by (pose proof (max_in_le g fs Hin); lia).
      assert (G : forallb (fun g => simple g && cfrag g) fs = true ->
                  valid4 re_search D (S n) (fix_dialect (Sch [KAnyOf (map (fschema ei) fs)])) j = true).
      { intro Hall. rewrite fix_dialect_Sch, valid4_S by reflexivity.
        cbn [map fix_kw forallb valid_kw]. rewrite andb_true_r.
        apply existsb_exists. exists (fix_dialect (fschema ei g)). split.
        - apply in_map. apply in_map. exact Hin.
        - rewrite forallb_forall in Hall. specialize (Hall g Hin). apply andb_true_iff in Hall as [Hsim Hcg].
          rewrite Forall_forall in H. pose proof (simple_docb_id g nf w Hsim Hdg) as ->.
          apply (H g Hin Hcg nf nf j n Hdg Hsg Hdep). }
      cbn [cfrag] in Hc.
      destruct fs as [|g0 [|h t]]; try (apply G; exact Hc).
      destruct h; destruct t as [|k' fs']; try (apply G; exact Hc).
      (* Optional: [g0; FNone] *)
      cbn [fschema]. apply andb_true_iff in Hc as [Hsim Hcg].
      destruct Hin as [<-|[<-|[]]].
      + rewrite Forall_forall in H. pose proof (simple_docb_id g0 nf w Hsim Hdg) as ->.
        apply (H g0 (or_introl eq_refl) Hcg nf nf j (S n) Hdg Hsg). cbn in Hn. lia.
      + exfalso. cbn [docb] in Hdg. destruct nf; try discriminate Hdg. apply Hnn; reflexivity.
  Qed.
End Complete.
End EI.
