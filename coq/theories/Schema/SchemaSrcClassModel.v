(* The class schema the GENERATED structure_to_schema computes ([class_json]: the fold of [step], see
   Schema/SchemaSrcClassProofs.v) IS the rendering of the hand model's [class_schema], for every class whose
   required list is duplicate-free and names fields of the class, and whose renamed keys are pairwise distinct. *)
From Coq Require Import ZArith QArith NArith String Ascii Bool Lia List.
Import ListNotations.
From TP Require Import Base.PyVal Base.PyOps Base.PyOps2 Base.PyOpsSchema Fields.FieldAst
     Schema.Draft4 Schema.ToSchema Gen.SchemaSrc Schema.SchemaSrcProofs Schema.SchemaSrcClassProofs.
Local Open Scope Z_scope.

Lemma str_in_app x a b : str_in x (a ++ b) = str_in x a || str_in x b.
Proof. unfold str_in. apply existsb_app. Qed.

Lemma str_in_spec x l : str_in x l = true <-> In x l.
Proof.
  unfold str_in. rewrite existsb_exists. split.
  - intros (y & Hy & E). apply pystr_eqb_spec in E. subst. exact Hy.
  - intro H. exists x. split; [exact H|apply pystr_eqb_refl].
Qed.

Lemma replace_nth_app {A} n (v : A) a b : (n < length a)%nat -> replace_nth n v (a ++ b) = replace_nth n v a ++ b.
Proof.
  revert n. induction a as [|x a IH]; intros n Hn; [cbn in Hn; lia|].
  destruct n as [|n]; cbn [app replace_nth]; [reflexivity|]. rewrite IH; [reflexivity|cbn in Hn; lia].
Qed.

Lemma index_str_lt k l : str_in k l = true -> (index_str k l < length l)%nat.
Proof.
  induction l as [|r l IH]; [discriminate|]. cbn [str_in existsb index_str length]. rewrite (pystr_eqb_sym k r).
  destruct (pystr_eqb r k); [lia|]. cbn [orb]. intro H. specialize (IH H). lia.
Qed.

Lemma index_str_app k a b : str_in k a = true -> index_str k (a ++ b) = index_str k a.
Proof.
  induction a as [|r a IH]; [discriminate|]. cbn [str_in existsb index_str app]. rewrite (pystr_eqb_sym k r).
  destruct (pystr_eqb r k); [reflexivity|]. cbn [orb]. intro H. rewrite IH; [reflexivity|exact H].
Qed.

(* in a duplicate-free list, replacing at the position of k changes exactly the entry k *)
Lemma replace_at_index (g : pystr -> pystr) k v req :
  nodup_str req = true ->
  replace_nth (index_str k req) v (map g req) = map (fun r => if pystr_eqb r k then v else g r) req.
Proof.
  induction req as [|r req IH]; [reflexivity|]. cbn [nodup_str]. intro H. apply andb_true_iff in H as [Hr Hn].
  cbn [index_str map]. destruct (pystr_eqb r k) eqn:E.
  - cbn [replace_nth]. f_equal. apply pystr_eqb_spec in E. subst r.
    apply map_ext_in. intros a Ha. destruct (pystr_eqb a k) eqn:E2; [|reflexivity].
    apply pystr_eqb_spec in E2. subst a. apply str_in_spec in Ha. rewrite Ha in Hr. discriminate Hr.
  - cbn [replace_nth]. f_equal. apply IH. exact Hn.
Qed.

Lemma nodup_mid l k t : nodup_str (l ++ k :: t) = true -> str_in k l = false.
Proof.
  induction l as [|x l IH]; [reflexivity|]. cbn [app nodup_str]. intro H. apply andb_true_iff in H as [Hx Hn].
  cbn [str_in existsb]. fold (str_in k l). rewrite (IH Hn), orb_false_r.
  destruct (pystr_eqb k x) eqn:E; [|reflexivity]. apply pystr_eqb_spec in E. subst x.
  rewrite str_in_app in Hx. cbn [str_in existsb] in Hx. rewrite pystr_eqb_refl in Hx. cbn [orb] in Hx.
  rewrite orb_true_r in Hx. discriminate Hx.
Qed.

Section Model.
  Variable pat_text : N -> pystr.
  Variable ei : einfo_t.
  Variable m : renames.
  Variable req : list pystr.

  Local Notation stepm := (step pat_text ei m).
  Definition names (fs : list fdecl) : list pystr := map fd_name fs.
  Definition ex_names (fs : list fdecl) : list pystr :=
    flat_map (fun d => match fd_default d with
                       | Some _ => if str_in (fd_name d) req then [] else [fd_name d]
                       | None => []
                       end) fs.
  Definition props_of (fs : list fdecl) : list (pyval * pyval) :=
    map (fun d => (PStr (rename m (fd_name d)), prop_json pat_text ei d)) fs.

  Lemma ex_names_sub fs x : In x (ex_names fs) -> In x (names fs).
  Proof.
    unfold ex_names, names. rewrite in_flat_map, in_map_iff. intros (d & Hd & Hx). exists d. split; [|exact Hd].
    destruct (fd_default d); [|destruct Hx]. destruct (str_in (fd_name d) req); [destruct Hx|].
    destruct Hx as [E|[]]. exact E.
  Qed.

  Lemma dict_set_fresh P k v : dict_has P k = false -> dict_set P k v = P ++ [(k, v)].
  Proof.
    unfold dict_has. induction P as [|[k' v'] P IH]; [reflexivity|]. cbn [dict_get dict_set app].
    destruct (py_eq k' k); [discriminate|]. intro H. rewrite IH; [reflexivity|exact H].
  Qed.

  Lemma props_has fs k : dict_has (props_of fs) (PStr k) = str_in k (map (fun d => rename m (fd_name d)) fs).
  Proof.
    unfold dict_has, props_of. induction fs as [|d fs IH]; [reflexivity|].
    cbn [map dict_get py_eq str_in existsb]. rewrite (pystr_eqb_sym k).
    destruct (pystr_eqb (rename m (fd_name d)) k); [reflexivity|]. cbn [orb]. exact IH.
  Qed.

  (* the invariant of the loop after the fields [fs1] *)
  Definition inv (fs1 : list fdecl) : list pystr * list (pyval * pyval) * list pystr :=
    (req ++ ex_names fs1,
     props_of fs1,
     map (fun r => if str_in r (names fs1) then rename m r else r) req ++ map (rename m) (ex_names fs1)).

  Lemma fold_inv : forall fs2 fs1,
      nodup_str req = true ->
      nodup_str (map (fun d => rename m (fd_name d)) (fs1 ++ fs2)) = true ->
      nodup_str (names (fs1 ++ fs2)) = true ->
      fold_left stepm fs2 (inv fs1) = inv (fs1 ++ fs2).
  Proof.
    induction fs2 as [|d fs2 IH]; intros fs1 Hreq Hmk Hnm.
    - rewrite app_nil_r. reflexivity.
    - cbn [fold_left].
      assert (Estep : stepm (inv fs1) d = inv (fs1 ++ [d])).
      { unfold inv, step. set (k := fd_name d).
        assert (Hk1 : str_in k (names fs1) = false).
        { unfold names in *. rewrite map_app in Hnm. cbn [map] in Hnm. exact (nodup_mid _ _ _ Hnm). }
        assert (Hk2 : str_in k (ex_names fs1) = false).
        { destruct (str_in k (ex_names fs1)) eqn:E; [|reflexivity]. apply str_in_spec in E. apply ex_names_sub in E.
          apply str_in_spec in E. rewrite E in Hk1. discriminate Hk1. }
        assert (Hp : dict_has (props_of fs1) (PStr (rename m k)) = false).
        { rewrite props_has. rewrite map_app in Hmk. cbn [map] in Hmk. exact (nodup_mid _ _ _ Hmk). }
        rewrite str_in_app, Hk2, orb_false_r. rewrite (dict_set_fresh _ _ _ Hp).
        assert (Eprops : props_of fs1 ++ [(PStr (rename m k), prop_json pat_text ei d)] = props_of (fs1 ++ [d])).
        { unfold props_of. rewrite map_app. reflexivity. }
        rewrite Eprops.
        assert (Enames : forall r, str_in r (names (fs1 ++ [d])) = str_in r (names fs1) || pystr_eqb r k).
        { intro r. unfold names. rewrite map_app, str_in_app. cbn [map str_in existsb]. rewrite orb_false_r. reflexivity. }
        assert (Eex : ex_names (fs1 ++ [d]) = ex_names fs1 ++ match fd_default d with
                                                                 | Some _ => if str_in k req then [] else [k]
                                                                 | None => []
                                                                 end).
        { unfold ex_names. rewrite flat_map_app. cbn [flat_map]. rewrite app_nil_r. reflexivity. }
        destruct (str_in k req) eqn:Ekr.
        - (* k is required: its entry is renamed in place *)
          rewrite index_str_app by exact Ekr.
          rewrite replace_nth_app by (rewrite map_length; apply index_str_lt; exact Ekr).
          rewrite (replace_at_index _ k (rename m k) req Hreq).
          assert (Emap : map (fun r => if pystr_eqb r k then rename m k else if str_in r (names fs1) then rename m r else r) req
                         = map (fun r => if str_in r (names (fs1 ++ [d])) then rename m r else r) req).
          { apply map_ext. intro r. rewrite Enames. destruct (pystr_eqb r k) eqn:E.
            - apply pystr_eqb_spec in E. subst r. rewrite orb_true_r. reflexivity.
            - rewrite orb_false_r. reflexivity. }
          rewrite Emap, Eex. destruct (fd_default d); rewrite app_nil_r; reflexivity.
        - (* k is not required *)
          assert (Emap : map (fun r => if str_in r (names fs1) then rename m r else r) req
                         = map (fun r => if str_in r (names (fs1 ++ [d])) then rename m r else r) req).
          { apply map_ext_in. intros r Hr. rewrite Enames. destruct (pystr_eqb r k) eqn:E; [|rewrite orb_false_r; reflexivity].
            apply pystr_eqb_spec in E. subst r. apply str_in_spec in Hr. rewrite Hr in Ekr. discriminate Ekr. }
          rewrite Emap, Eex. destruct (fd_default d).
          + rewrite map_app, !app_assoc. reflexivity.
          + rewrite !app_nil_r. reflexivity. }
      rewrite Estep. rewrite (IH (fs1 ++ [d])); rewrite <- ?app_assoc; cbn [app]; auto.
  Qed.
End Model.

Lemma cp_leb_eq a b : cp_leb a b = pystr_leb a b.
Proof. revert b. induction a as [|x a IH]; intros [|y b]; reflexivity. Qed.
Lemma cp_insert_eq x l : cp_insert x l = insert_str x l.
Proof. induction l as [|y l IH]; [reflexivity|]. cbn [cp_insert insert_str]. rewrite cp_leb_eq, IH. reflexivity. Qed.
Lemma cp_sort_eq l : cp_sort l = sort_str l.
Proof. unfold cp_sort, sort_str. induction l as [|x l IH]; [reflexivity|]. cbn [fold_right]. rewrite IH. apply cp_insert_eq. Qed.

(* the domain of the class-level bridging: the required list is duplicate-free and names fields of the class; the
   renamed keys (hence the field names) are pairwise distinct *)
Definition class_dom (m : renames) (c : classdef) : bool :=
  nodup_str (c_required c) && all_in (c_required c) (map fd_name (c_fields c))
  && nodup_str (map (fun d => rename m (fd_name d)) (c_fields c)) && nodup_str (map fd_name (c_fields c)).

Theorem class_json_model : forall pat_text ei m c,
    class_dom m c = true -> wrapper_form c = false ->
    class_json pat_text ei m c = sch_json pat_text (class_schema ei m c).
Proof.
  intros pat_text ei m c Hd Hw. unfold class_dom in Hd.
  apply andb_true_iff in Hd as [Hd Hnm]. apply andb_true_iff in Hd as [Hd Hmk]. apply andb_true_iff in Hd as [Hreq Hsub].
  unfold class_json, run_fields, class_schema. rewrite Hw.
  pose proof (fold_inv pat_text ei m (c_required c) (c_fields c) [] Hreq Hmk Hnm) as F.
  unfold inv at 1 in F. cbn [ex_names flat_map props_of names map app] in F. rewrite app_nil_r in F.
  assert (E0 : map (fun r : pystr => r) (c_required c) = c_required c) by apply map_id.
  cbn [str_in existsb] in F. rewrite E0, app_nil_r in F. rewrite F. unfold inv. cbn [fst snd app].
  rewrite sch_json_Sch. unfold jkws. cbn [map kw_json kv].
  assert (Ereq : map (fun r => if str_in r (names (c_fields c)) then rename m r else r) (c_required c)
                 = map (rename m) (c_required c)).
  { apply map_ext_in. intros r Hr. unfold all_in in Hsub. rewrite forallb_forall in Hsub. unfold names. rewrite (Hsub r Hr). reflexivity. }
  rewrite Ereq, cp_sort_eq.
  assert (Eex : map (rename m) (ex_names (c_required c) (c_fields c))
                = flat_map (fun d => match fd_default d with
                                     | Some _ => if str_in (fd_name d) (c_required c) then [] else [rename m (fd_name d)]
                                     | None => []
                                     end) (c_fields c)).
  { unfold ex_names. generalize (c_fields c). clear. intro fs. induction fs as [|d fs IH]; [reflexivity|].
    cbn [flat_map]. rewrite map_app, IH.
    destruct (fd_default d); [destruct (str_in (fd_name d) (c_required c))|]; reflexivity. }
  rewrite Eex. unfold required_out, props_of, prop_json, strs. rewrite !map_map. reflexivity.
Qed.
Print Assumptions class_json_model.

(* ------------------------------------------------------------------ the fixpoint: nested classes through $ref *)

Lemma find_class_named e nm c : find_class e nm = Some c -> c_name c = nm.
Proof.
  induction e as [|x e IH]; [discriminate|]. cbn [find_class]. destruct (pystr_eqb (c_name x) nm) eqn:E.
  - intro H. inversion H; subst. apply pystr_eqb_spec. exact E.
  - exact IH.
Qed.

(* fdecl_obj vs field_obj, for the scalar fields: the `_default` attribute of a Number / String / Boolean field does
   not change what convert_to_schema returns *)
Definition scalar (f : field) : bool :=
  match f with FNumber _ _ _ | FString _ | FBoolean => true | _ => false end.

Lemma convert_scalar_default pat_text ei s2s defs_store n f v sm :
  scalar f = true ->
  convert_to_schema s2s defs_store (S n)
    (match field_obj pat_text ei f with PStruct c a => PStruct c ((s2p "_default", v) :: a) | o => o end) sm
  = Ok (sch_json pat_text (fschema ei f)).
Proof.
  intro Hs. cbn [convert_to_schema]. generalize (convert_to_schema s2s defs_store n). intro rec.
  destruct f as [k s c|c| | | |vs|cl ms|k sz u|k g sz u|k gs sz u ad|im it sz|gs u|sz|kf vf sz|gs|gs|gs|gs|cl];
    try discriminate Hs.
  - destruct c as [mo mn mx ex].
    destruct k; destruct s; destruct mo as [mo|]; destruct mn as [mn|]; destruct mx as [mx|]; destruct ex;
      vm_compute; reflexivity.
  - destruct c as [mn mx p]. destruct mn as [mn|]; destruct mx as [mx|]; destruct p as [p|]; vm_compute; reflexivity.
  - vm_compute. reflexivity.
Qed.

Section Fix.
  Variable pat_text : N -> pystr.
  Variable ei : einfo_t.
  Variable e : env.
  Variable smap : pystr -> renames.
  Variable defs_store : pyval -> pyval -> res unit.
  Hypothesis defs_store_ok : forall k v, defs_store k v = Ok tt.
  Variable ffuel : nat.

  (* a class name that is not one of typedpy's own classes *)
  Definition name_ok (nm : pystr) : bool :=
    negb (known_class class_mro nm).

  (* the domain, per class: [class_dom]; every field mappable, with non-empty key patterns, within the field fuel,
     and a default only on a Number / String / Boolean field, plain data ([default_ok]) *)
  Definition cls_ok (c : classdef) : bool :=
    class_dom (smap (c_name c)) c && name_ok (c_name c) &&
    forallb (fun d => mappable ei (fd_field d) && keys_text_ok pat_text (fd_field d)
                      && match fd_default d with
                         | None => true
                         | Some v => scalar (fd_field d) && default_ok v && Nat.leb 1 ffuel
                         end
                      && Nat.leb (cfuel (fd_field d)) ffuel) (c_fields c).

  Local Notation H := (heap_of pat_text ei e).
  Local Notation s2sf := (structure_to_schema H (agg_of smap) defs_store ffuel).

  Lemma heap_seen c sm :
    find_class e (c_name c) = Some c -> name_ok (c_name c) = true ->
    class_seen pat_text ei H (agg_of smap) c (smap (c_name c)) sm.
  Proof.
    intros Hf Hn. unfold name_ok, known_class in Hn.
    assert (Hisa : forall t, class_isa class_mro (c_name c) t = None).
    { intro t. unfold class_isa. destruct (alist_get class_mro (c_name c)); [discriminate Hn|reflexivity]. }
    assert (N1 : pystr_eqb (c_name c) (s2p "TypedPyDefaults") = false).
    { destruct (pystr_eqb (c_name c) (s2p "TypedPyDefaults")) eqn:E; [|reflexivity].
      apply pystr_eqb_spec in E. rewrite E in Hn. vm_compute in Hn. discriminate Hn. }
    assert (N2 : pystr_eqb (c_name c) (s2p "Structure") = false).
    { destruct (pystr_eqb (c_name c) (s2p "Structure")) eqn:E; [|reflexivity].
      apply pystr_eqb_spec in E. rewrite E in Hn. vm_compute in Hn. discriminate Hn. }
    assert (Hh : forall a, heap_of pat_text ei e (c_name c) a
                           = if pystr_eqb a (s2p "get_all_fields_by_name()") then Some (fields_dict pat_text ei (c_fields c))
                             else if pystr_eqb a (s2p "_required") then Some (strs (c_required c))
                             else if pystr_eqb a (s2p "_additional_properties") then Some (PBool (c_additional c))
                             else if pystr_eqb a (s2p "_additional_serialization")
                                  then Some (POther (s2p "function") (s2p "Structure._additional_serialization"))
                             else if pystr_eqb a (s2p "__mro__")
                                  then Some (PTuple [cls_val (c_name c); cls_val (s2p "Structure"); cls_val (s2p "UniqueMixin"); cls_val (s2p "object")])
                             else None).
    { intro a. unfold heap_of. rewrite N1, N2, Hf. reflexivity. }
    constructor.
    - unfold py_issubclass_h, cls_val. rewrite pystr_eqb_refl, Hisa.
      change (POther class_tag (c_name c)) with (cls_val (c_name c)). rewrite Hh.
      change (pystr_eqb (s2p "__mro__") (s2p "get_all_fields_by_name()")) with false.
      change (pystr_eqb (s2p "__mro__") (s2p "_required")) with false.
      change (pystr_eqb (s2p "__mro__") (s2p "_additional_properties")) with false.
      change (pystr_eqb (s2p "__mro__") (s2p "_additional_serialization")) with false.
      change (pystr_eqb (s2p "__mro__") (s2p "__mro__")) with true. cbv iota.
      cbn [existsb]. change (py_eq (cls_val (s2p "Structure")) (cls_val (s2p "Structure"))) with true.
      rewrite orb_true_r. reflexivity.
    - rewrite Hh. reflexivity.
    - rewrite Hh. reflexivity.
    - rewrite Hh. reflexivity.
    - eexists. reflexivity.
    - eexists; eexists. split; [rewrite Hh|]; reflexivity.
    - reflexivity.
  Qed.

  (* one level: given structure_to_schema on the referenced classes *)
  Lemma fix_step : forall (s2s : pyval -> pyval -> res pyval) c sm,
      find_class e (c_name c) = Some c -> cls_ok c = true ->
      (forall nm, In nm (class_refs c) -> exists d x, s2s (cls_val nm) PNone = Ok (PTuple [d; x])) ->
      structure_to_schema_body H (agg_of smap) s2s defs_store (convert_to_schema s2s defs_store ffuel) (cls_val (c_name c)) sm
      = Ok (PTuple [sch_json pat_text (class_schema ei (smap (c_name c)) c); defs_token]).
  Proof.
    intros s2s c sm Hf Hok Hrefs.
    unfold cls_ok in Hok. apply andb_true_iff in Hok as [Hok Hfs]. apply andb_true_iff in Hok as [Hdom Hname].
    pose proof Hdom as Hdom'. unfold class_dom in Hdom'.
    apply andb_true_iff in Hdom' as [Hd1 _]. apply andb_true_iff in Hd1 as [Hd1 _]. apply andb_true_iff in Hd1 as [Hreq _].
    rewrite forallb_forall in Hfs.
    assert (Hready : forall d, In d (c_fields c) ->
                               field_ready pat_text ei (convert_to_schema s2s defs_store ffuel) d).
    { intros d Hd. specialize (Hfs d Hd).
      apply andb_true_iff in Hfs as [Hfs Hfu]. apply andb_true_iff in Hfs as [Hfs Hdf].
      apply andb_true_iff in Hfs as [Hm Hk]. apply Nat.leb_le in Hfu.
      unfold field_ready, fdecl_obj. destruct (fd_default d) as [v|] eqn:Edf.
      { apply andb_true_iff in Hdf as [Hdf H1]. apply andb_true_iff in Hdf as [Hsc Hdo]. apply Nat.leb_le in H1.
        split; [|exact Hdo]. intro sm'. destruct ffuel as [|n]; [lia|].
        apply (convert_scalar_default pat_text ei s2s defs_store n (fd_field d) v sm' Hsc). }
      split; [|exact I]. intro sm'.
      apply (generated_convert_to_schema pat_text ei _ defs_store defs_store_ok (fd_field d) Hm Hk); [|exact Hfu].
      intros nm Hnm. apply Hrefs. unfold class_refs. apply in_flat_map. exists d. split; assumption. }
    rewrite (generated_structure_to_schema_body pat_text ei _ _ _ _ _ c (smap (c_name c)) sm
               (heap_seen c sm Hf Hname) Hreq Hready).
    destruct (wrapper_form c) eqn:W.
    - unfold class_schema. rewrite W. unfold wrapper_form in W. destruct (c_fields c) as [|d [|d2 t]] eqn:Efs; try discriminate W.
      destruct (Hready d (or_introl eq_refl)) as [Hr _]. rewrite Hr. reflexivity.
    - rewrite (class_json_model pat_text ei _ c Hdom W). reflexivity.
  Qed.

  (* the generated FIXPOINT: every class of an environment whose reference graph is explored within the fuel *)
  Theorem generated_structure_to_schema_fix : forall fuel c sm,
      find_class e (c_name c) = Some c -> cls_ok c = true -> closed e fuel cls_ok (class_refs c) = true ->
      structure_to_schema H (agg_of smap) defs_store ffuel (S fuel) (cls_val (c_name c)) sm
      = Ok (PTuple [sch_json pat_text (class_schema ei (smap (c_name c)) c); defs_token]).
  Proof.
    induction fuel as [|fuel IH]; intros c sm Hf Hok Hcl; cbn [structure_to_schema]; apply fix_step; try assumption.
    - intros nm Hin. exfalso. cbn [closed] in Hcl. destruct (class_refs c); [destruct Hin|discriminate Hcl].
    - intros nm Hin. cbn [closed] in Hcl. rewrite forallb_forall in Hcl. specialize (Hcl nm Hin).
      destruct (find_class e nm) as [c'|] eqn:Ef; [|discriminate Hcl]. apply andb_true_iff in Hcl as [Hok' Hcl'].
      pose proof (find_class_named e nm c' Ef) as En. subst nm.
      eexists; eexists. apply (IH c' PNone Ef Hok' Hcl').
  Qed.
End Fix.
Print Assumptions generated_structure_to_schema_fix.

(* the domain is inhabited: class T (a renamed key, a default on a String field, a $ref to the wrapper class P) *)
Example fix_satisfiable :
  find_class ex_env (c_name ex_T) = Some ex_T /\ cls_ok ex_pt no_einfo ex_smap 6 ex_T = true /\
  closed ex_env 1 (cls_ok ex_pt no_einfo ex_smap 6) (class_refs ex_T) = true /\ class_refs ex_T = [s2p "P"].
Proof. repeat split; vm_compute; reflexivity. Qed.
Print Assumptions convert_scalar_default.
Print Assumptions fix_satisfiable.
