(* C09 — model of typedpy's schema-to-code generator (schema_to_struct_code and the
   get_paramlist_from_schema functions of json_schema_mapping.py) as a function from a schema AST to
   a TOKEN LIST: fixed source text, and schema strings each tagged with the emission site it goes
   through.  The text the generator writes is [render] of the token list under the GENERATED table
   Gen/EmitSites.v (site -> quoting discipline).  Numbers and booleans are carried as their Python
   text (str(int), repr(float), True/False): their rendering is not the subject here.
   No proofs in this file (Schema/CodeGenProofs.v). *)
From Coq Require Import NArith List Bool String.
Import ListNotations.
From TP Require Import Base.PyVal Schema.PyLiteral.
Local Open Scope N_scope.

Inductive tok :=
| TRaw (text : pystr)                 (* source text fixed by the generator *)
| TStr (site : pystr) (s : pystr).    (* a string of the schema, written by the discipline of its site *)

Definition raw (s : string) : tok := TRaw (s2p s).

Definition site_table := list (pystr * quoting).

Definition site_disc (tbl : site_table) (site : pystr) : quoting :=
  match alist_get tbl site with Some q => q | None => Unrecognised end.

Section Render.
  Variable printable : N -> bool.
  Variable tbl : site_table.

  Definition render_tok (t : tok) : list N :=
    match t with
    | TRaw x => x
    | TStr site s => emit printable (site_disc tbl site) s
    end.

  Definition render (l : list tok) : list N := flat_map render_tok l.
End Render.

(* ------------------------------------------------------------------ schema AST (modelled fragment) *)

Inductive jlit :=
| LStr (s : pystr)          (* a JSON string *)
| LRaw (text : pystr).      (* a JSON number / boolean, as Python writes it *)

Inductive jdefault :=
| DScalar (l : jlit)
| DList (l : list jlit)
| DDict (kv : list (pystr * jlit)).

Inductive ikind := INone | IOne | IMany.

Inductive jfield :=
| FString (nums : list (pystr * pystr)) (pattern : option pystr) (dflt : option jdefault)
| FNumeric (ctor : pystr) (nums : list (pystr * pystr)) (dflt : option jdefault)
| FBoolean (dflt : option jdefault)
| FEnum (values : list jlit) (dflt : option jdefault)
| FRef (name : pystr)
| FArray (flags : list (pystr * pystr)) (kind : ikind) (items : list jfield) (dflt : option jdefault)
| FMulti (ctor : pystr) (kind : ikind) (fields : list jfield) (dflt : option jdefault)
| FObject (closed : bool) (required : option (list pystr)) (props : list (pystr * jfield))
          (dflt : option jdefault)
| FMap (value : option jfield) (dflt : option jdefault).

Record jclass := {
  c_name : pystr;
  c_description : option pystr;
  c_closed : bool;                         (* additionalProperties is false *)
  c_required : option (list pystr);
  c_props : list (pystr * jfield)
}.

Definition field_default (f : jfield) : option jdefault :=
  match f with
  | FString _ _ d | FNumeric _ _ d | FBoolean d | FEnum _ d | FArray _ _ _ d | FMulti _ _ _ d
  | FObject _ _ _ d | FMap _ d => d
  | FRef _ => None
  end.

(* ------------------------------------------------------------------ token builders *)

Fixpoint join (sep : list tok) (parts : list (list tok)) : list tok :=
  match parts with
  | [] => []
  | [p] => p
  | p :: rest => p ++ sep ++ join sep rest
  end.

Definition call (ctor : pystr) (params : list (list tok)) : list tok :=
  TRaw ctor :: raw "(" :: join [raw ", "] params ++ [raw ")"].

Definition kv (name : list tok) (v : list tok) : list tok := name ++ raw "=" :: v.

Definition lit_toks (site : pystr) (l : jlit) : list tok :=
  match l with LStr s => [TStr site s] | LRaw t => [TRaw t] end.

(* str() of a Python list *)
Definition list_toks (site : pystr) (ls : list jlit) : list tok :=
  raw "[" :: join [raw ", "] (map (lit_toks site) ls) ++ [raw "]"].

(* str() of a Python dict with string keys *)
Definition dict_toks (site : pystr) (kvs : list (pystr * jlit)) : list tok :=
  raw "{" :: join [raw ", "] (map (fun p => TStr site (fst p) :: raw ": " :: lit_toks site (snd p)) kvs)
      ++ [raw "}"].

Definition default_param (d : option jdefault) : list (list tok) :=
  match d with
  | None => []
  | Some (DScalar l) => [kv [raw "default"] (lit_toks (s2p "default") l)]
  | Some (DList ls) => [kv [raw "default"] (raw "lambda: " :: list_toks (s2p "default_container") ls)]
  | Some (DDict kvs) => [kv [raw "default"] (raw "lambda: " :: dict_toks (s2p "default_container") kvs)]
  end.

Definition num_params (nums : list (pystr * pystr)) : list (list tok) :=
  map (fun p => kv [TRaw (fst p)] [TRaw (snd p)]) nums.

Definition items_toks (kind : ikind) (codes : list (list tok)) : option (list tok) :=
  match kind with
  | INone => None
  | IOne => Some (match codes with c :: _ => c | [] => [] end)
  | IMany => Some (raw "[" :: join [raw ", "] codes ++ [raw "]"])
  end.

Fixpoint field_toks (f : jfield) : list tok :=
  match f with
  | FString nums pat d =>
      call (s2p "String")
           (num_params nums
            ++ match pat with Some p => [kv [raw "pattern"] [TStr (s2p "pattern") p]] | None => [] end
            ++ default_param d)
  | FNumeric ctor nums d => call ctor (num_params nums ++ default_param d)
  | FBoolean d => call (s2p "Boolean") (default_param d)
  | FEnum values d =>
      call (s2p "Enum") (kv [raw "values"] (list_toks (s2p "enum") values) :: default_param d)
  | FRef name => [TStr (s2p "ref") name]
  | FArray flags kind items d =>
      call (s2p "Array")
           (num_params flags
            ++ match items_toks kind (map field_toks items) with
               | Some c => [kv [raw "items"] c]
               | None => []
               end
            ++ default_param d)
  | FMulti ctor kind fields d =>
      (* MultiFieldMapper: the single schema of a draft-4 {"not": <schema>} is wrapped in a list *)
      call ctor
           (match (match kind with
                   | IOne => items_toks IMany (match fields with f0 :: _ => [field_toks f0] | [] => [] end)
                   | k => items_toks k (map field_toks fields)
                   end) with
            | Some c => [kv [raw "fields"] c]
            | None => [kv [raw "fields"] [raw "None"]]
            end
            ++ default_param d)
  | FObject closed req props d =>
      call (s2p "StructureReference")
           ((if closed then [kv [raw "_additional_properties"] [raw "False"]] else [])
            ++ match req with
               | Some r => [kv [raw "_required"] (list_toks (s2p "nested_required") (map LStr r))]
               | None => []
               end
            ++ map (fun p => kv [TStr (s2p "nested_property_name") (fst p)] (field_toks (snd p))) props
            ++ default_param d)
  | FMap value d =>
      call (s2p "Map")
           (match value with
            | Some v => [kv [raw "items"] (raw "[String(), " :: field_toks v ++ [raw "]"])]
            | None => []
            end
            ++ default_param d)
  end.

(* list.remove: first occurrence *)
Fixpoint remove_first (x : pystr) (l : list pystr) : list pystr :=
  match l with
  | [] => []
  | y :: t => if pystr_eqb x y then t else y :: remove_first x t
  end.

(* the walk of schema_to_struct_code over the properties: a property with a default is taken out
   of the (caller's) required list; without a required list there is nothing to take it out of
   (`"default" in sch and required is not None and name in required`).  The outer option is the
   generator's "raises" channel; this walk never uses it. *)
Fixpoint final_required (req : option (list pystr)) (props : list (pystr * jfield))
  : option (option (list pystr)) :=
  match props with
  | [] => Some req
  | (name, f) :: rest =>
      match field_default f, req with
      | Some _, Some r => final_required (Some (if str_in name r then remove_first name r else r)) rest
      | _, _ => final_required req rest
      end
  end.

Definition nl : tok := raw "
".

Definition class_toks (c : jclass) : option (list tok) :=
  match final_required (c_required c) (c_props c) with
  | None => None
  | Some req =>
      Some (join [nl]
              ([[raw "class "; TStr (s2p "struct_name") (c_name c); raw "(Structure):"]]
               ++ match c_description c with
                  | Some d => [[raw "    "; TStr (s2p "description") d; nl]]
                  | None => []
                  end
               ++ (if c_closed c then [[raw "    _additional_properties = False"]] else [])
               ++ map (fun p => raw "    " :: TStr (s2p "property_name") (fst p) :: raw ": "
                                    :: field_toks (snd p)) (c_props c)
               ++ match req with
                  | Some r => [[]; raw "    _required = " :: list_toks (s2p "required") (map LStr r)]
                  | None => []
                  end))
  end.

(* ------------------------------------------------------------------ reading the output back *)

Inductive shape := HRaw (text : pystr) | HHole (site : pystr).

Definition shape_of (t : tok) : shape :=
  match t with TRaw x => HRaw x | TStr site _ => HHole site end.

Fixpoint leaves (l : list tok) : list pystr :=
  match l with
  | [] => []
  | TRaw _ :: t => leaves t
  | TStr _ s :: t => s :: leaves t
  end.

Fixpoint strip_prefix (p src : list N) : option (list N) :=
  match p with
  | [] => Some src
  | a :: p' => match src with
               | b :: src' => if a =? b then strip_prefix p' src' else None
               | [] => None
               end
  end.

Section Relex.
  Variable kw : list pystr.
  Variable tbl : site_table.

  (* tokenise src along the generator's own layout: fixed text must be there verbatim, every hole is
     read by the Python lexer; the result is the list of strings the Python compiler would see *)
  Fixpoint relex (sh : list shape) (src : list N) : option (list pystr) :=
    match sh with
    | [] => match src with [] => Some [] | _ => None end
    | HRaw x :: sh' =>
        match strip_prefix x src with
        | Some r => relex sh' r
        | None => None
        end
    | HHole site :: sh' =>
        match lex_tok kw (site_disc tbl site) src with
        | Some (s, r) => match relex sh' r with Some l => Some (s :: l) | None => None end
        | None => None
        end
    end.

  Definition tok_ok (t : tok) : bool :=
    match t with
    | TRaw _ => true
    | TStr site s => valid_str s && quote_ok kw (site_disc tbl site) s
    end.

  Definition all_sites_ok (l : list tok) : bool := forallb tok_ok l.

  (* the (site, string) pairs of a token list that the site's discipline gets wrong *)
  Definition bad_leaves (l : list tok) : list (pystr * pystr) :=
    flat_map (fun t => match t with
                       | TStr site s => if tok_ok t then [] else [(site, s)]
                       | TRaw _ => []
                       end) l.
End Relex.

(* the sites of a class statement: those that write a schema string as a string literal, and those
   that paste it as a NAME *)
Definition literal_sites : list pystr :=
  [s2p "description"; s2p "required"; s2p "default"; s2p "default_container"; s2p "pattern"; s2p "enum";
   s2p "nested_required"].
Definition name_sites : list pystr :=
  [s2p "struct_name"; s2p "property_name"; s2p "nested_property_name"; s2p "ref"].

(* a token list whose only constraint is on NAMES: every string is at a literal site (any content) or
   at a name site (an identifier that is not reserved) *)
Definition names_only (kw : list pystr) (lits names : list pystr) (l : list tok) : bool :=
  forallb (fun t => match t with
                    | TRaw _ => true
                    | TStr site s => valid_str s && (if str_in site names then is_ident kw s else str_in site lits)
                    end) l.

(* a schema string is always followed by generator text starting with a delimiter *)
Definition sep_char (c : N) : bool := negb (ident_char c || (c =? SQ) || (c =? DQ)).

Definition follows_ok (l : list tok) : bool :=
  match l with
  | [] => true
  | TRaw (c :: _) :: _ => sep_char c
  | _ => false
  end.

Fixpoint well_sep (l : list tok) : bool :=
  match l with
  | [] => true
  | TRaw _ :: t => well_sep t
  | TStr _ _ :: t => follows_ok t && well_sep t
  end.
