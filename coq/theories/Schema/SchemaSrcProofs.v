(* The tie between the GENERATED translation of typedpy/json_schema/json_schema_mapping.py (Gen/SchemaSrc.v: what
   the source of get_mapper / convert_to_schema / every *Mapper.to_schema says now) and the hand-written model
   Schema/ToSchema.v (fschema, mappable) on which the C08 theorems are proved.

   How a model-level declaration is seen at the Python level ([field_obj]): a field of the AST is the object
   [PStruct <its typedpy class> <its attributes>] -- exactly the attributes the mappers read: the constructor
   arguments as the field's __init__ stores them (an omitted argument is None; `uniqueItems`/`exclusiveMaximum`
   are given as True or omitted, as the model's [bool] says; a pattern is its text [pat_text p]; `items` is None,
   a field, or a list of fields; Tuple.items is always a list; Map.items is None or the pair [key, value]).
   The class hierarchy ([class_mro]) is generated from the `class` statements of the source.

   Every lemma is for EVERY declaration (no sampling): the symbolic evaluation by vm_compute / cbv below runs on
   terms whose parameters are variables. *)
From Coq Require Import ZArith QArith NArith String Ascii Bool Lia List.
Import ListNotations.
From TP Require Import Base.PyVal Base.PyOps Base.PyOps2 Base.PyOpsSchema Fields.FieldAst
     Schema.Draft4 Schema.ToSchema Gen.SchemaSrc.
Local Open Scope Z_scope.

(* ------------------------------------------------------------------ the Python-level view of a declaration *)

Definition oz (o : option Z) : pyval := match o with Some z => zint z | None => PNone end.
Definition onum (o : option num) : pyval := match o with Some n => PNum n | None => PNone end.
Definition obool (o : option bool) : pyval := match o with Some b => PBool b | None => PNone end.
Definition otrue (b : bool) : pyval := if b then PBool true else PNone.     (* True, or the argument omitted *)

(* fieldgen.SIGN_CLASS *)
Definition num_class (k : numkind) (s : sign) : pystr :=
  match k, s with
  | KNumber, SAny => s2p "Number" | KNumber, SPositive => s2p "Positive" | KNumber, SNegative => s2p "Negative"
  | KNumber, SNonPositive => s2p "NonPositive" | KNumber, SNonNegative => s2p "NonNegative"
  | KInteger, SAny => s2p "Integer" | KInteger, SPositive => s2p "PositiveInt" | KInteger, SNegative => s2p "NegativeInt"
  | KInteger, SNonPositive => s2p "NonPositiveInt" | KInteger, SNonNegative => s2p "NonNegativeInt"
  | KFloat, SAny => s2p "Float" | KFloat, SPositive => s2p "PositiveFloat" | KFloat, SNegative => s2p "NegativeFloat"
  | KFloat, SNonPositive => s2p "NonPositiveFloat" | KFloat, SNonNegative => s2p "NonNegativeFloat"
  end.

Definition seq_class (k : seqkind) : pystr := match k with SeqList => s2p "Array" | SeqDeque => s2p "Deque" end.
Definition set_class (imm : bool) : pystr := if imm then s2p "ImmutableSet" else s2p "Set".

Definition member_val (cls : pystr) (m : pystr * pyval) : pyval := PEnum cls (fst m) (snd m).

Definition num_attrs (c : numc) : list (pystr * pyval) :=
  [(s2p "multiplesOf", oz (multiplesOf c)); (s2p "minimum", onum (minimum c)); (s2p "maximum", onum (maximum c));
   (s2p "exclusiveMaximum", otrue (exclusiveMaximum c))].

Definition size_attrs (sz : sizec) : list (pystr * pyval) :=
  [(s2p "minItems", oz (minItems sz)); (s2p "maxItems", oz (maxItems sz))].

Definition seq_attrs (items : pyval) (sz : sizec) (u : bool) (add : option bool) : list (pystr * pyval) :=
  [(s2p "items", items); (s2p "uniqueItems", otrue u); (s2p "additionalItems", obool add)] ++ size_attrs sz.

(* Enum(values=..., serialization_by_value=bv) *)
Definition enum_obj (values : list pyval) (bv : bool) : pyval :=
  PStruct (s2p "Enum") [(s2p "values", PList values); (s2p "serialization_by_value", PBool bv)].

Section View.
  Variable pat_text : N -> pystr.      (* the text of pattern id p (the model keeps patterns as oracle ids) *)
  Variable ei : einfo_t.               (* per enum class: mixed-in primitive type, serialization_by_value of its fields *)

  Definition opat (o : option N) : pyval := match o with Some p => PStr (pat_text p) | None => PNone end.

  Definition str_attrs (c : strc) : list (pystr * pyval) :=
    [(s2p "minLength", oz (minLength c)); (s2p "maxLength", oz (maxLength c)); (s2p "pattern", opat (pattern c))].

  Fixpoint field_obj (f : field) : pyval :=
    match f with
    | FNumber k s c => PStruct (num_class k s) (num_attrs c)
    | FString c => PStruct (s2p "String") (str_attrs c)
    | FBoolean => PStruct (s2p "Boolean") []
    | FNone => PStruct (s2p "NoneField") []
    | FAnything => PStruct (s2p "Anything") []
    | FEnumLit vs => enum_obj vs false
    | FEnumCls cls ms => enum_obj (map (member_val cls) ms) (eo_by_value (ei cls))
    | FSeqAny k sz u => PStruct (seq_class k) (seq_attrs PNone sz u None)
    | FSeqEach k g sz u => PStruct (seq_class k) (seq_attrs (field_obj g) sz u None)
    | FSeqPos k gs sz u add => PStruct (seq_class k) (seq_attrs (PList (map field_obj gs)) sz u add)
    | FSet imm item sz =>
        PStruct (set_class imm)
                ((s2p "items", match item with Some g => field_obj g | None => PNone end) :: size_attrs sz)
    | FTuple gs u => PStruct (s2p "Tuple") [(s2p "items", PList (map field_obj gs)); (s2p "uniqueItems", otrue u)]
    | FMapAny sz => PStruct (s2p "Map") ((s2p "items", PNone) :: size_attrs sz)
    | FMapKV kf vf sz => PStruct (s2p "Map") ((s2p "items", PList [field_obj kf; field_obj vf]) :: size_attrs sz)
    | FAllOf fs => PStruct (s2p "AllOf") [(s2p "_fields", PList (map field_obj fs))]
    | FAnyOf fs => PStruct (s2p "AnyOf") [(s2p "_fields", PList (map field_obj fs))]
    | FOneOf fs => PStruct (s2p "OneOf") [(s2p "_fields", PList (map field_obj fs))]
    | FNot fs => PStruct (s2p "NotField") [(s2p "_fields", PList (map field_obj fs))]
    | FClassRef c => PStruct (s2p "ClassReference") [(s2p "_ty", cls_val c)]
    end.

  (* Mapper(value) *)
  Definition mapper_obj (mapper_cls : pystr) (value : pyval) : pyval := PStruct mapper_cls [(s2p "value", value)].

  (* the schema as the Python dict *)
  Definition jschema (f : field) : pyval := sch_json pat_text ((fschema ei) f).
  Definition jkws (kws : list kw) : pyval := PDict (map (kw_json pat_text) kws).

  Lemma sch_json_Sch kws : sch_json pat_text (Sch kws) = jkws kws.
  Proof. reflexivity. Qed.

  Lemma jschema_dict f : exists kv, jschema f = PDict kv.
  Proof. unfold jschema. destruct ((fschema ei) f) as [kws]. eexists. reflexivity. Qed.

  (* ---------------------------------------------------------------- the context *)
  Variable s2s : pyval -> pyval -> res pyval.
  Variable defs_store : pyval -> pyval -> res unit.

  Ltac dnum n := destruct n as [?z|?m ?e|?m ?e].

  (* ---------------------------------------------------------------- scalar mappers *)

  (* NumberMapper.to_schema, for every numeric class, every combination of bounds; the "type" it writes is
     "number" (IntegerMapper overwrites it) *)
  Lemma generated_NumberMapper_to_schema : forall rec mc k s c sm,
      NumberMapper__to_schema s2s defs_store rec (mapper_obj mc (field_obj (FNumber k s c))) sm
      = Ok (jkws (KType TNumber :: tl (num_kws k s c))).
  Proof.
    intros rec mc k s [mo mn mx ex] sm.
    destruct k; destruct s; destruct mo as [mo|]; destruct mn as [mn|]; destruct mx as [mx|]; destruct ex;
      vm_compute; reflexivity.
  Qed.

  Lemma generated_IntegerMapper_to_schema : forall rec mc s c sm,
      IntegerMapper__to_schema s2s defs_store rec (mapper_obj mc (field_obj (FNumber KInteger s c))) sm
      = Ok (jschema (FNumber KInteger s c)).
  Proof.
    intros rec mc s [mo mn mx ex] sm.
    destruct s; destruct mo as [mo|]; destruct mn as [mn|]; destruct mx as [mx|]; destruct ex;
      vm_compute; reflexivity.
  Qed.

  Lemma generated_StringMapper_to_schema : forall rec mc c sm,
      StringMapper__to_schema s2s defs_store rec (mapper_obj mc (field_obj (FString c))) sm
      = Ok (jschema (FString c)).
  Proof.
    intros rec mc [mn mx p] sm.
    destruct mn as [mn|]; destruct mx as [mx|]; destruct p as [p|]; vm_compute; reflexivity.
  Qed.

  Lemma generated_BooleanMapper_to_schema : forall rec self sm,
      BooleanMapper__to_schema s2s defs_store rec self sm = Ok (jschema FBoolean).
  Proof. intros. vm_compute. reflexivity. Qed.

  (* ---------------------------------------------------------------- collection mappers *)

  (* the "items" entry: present unless convert_to_schema returned None (items=None) *)
  Definition items_entry (J : pyval) : list (pyval * pyval) :=
    if py_is_none J then [] else [(PStr (s2p "items"), J)].

  (* ArrayMapper.to_schema on an Array / Deque object ("else" branch), whatever `items` is and whatever
     convert_to_schema does on it *)
  Lemma generated_ArrayMapper_to_schema_seq : forall rec mc k items sz u add sm,
      ArrayMapper__to_schema s2s defs_store rec (mapper_obj mc (PStruct (seq_class k) (seq_attrs items sz u add))) sm
      = (J <- rec items sm ;;
         Ok (PDict (map (kw_json pat_text) ([KType TArray] ++ uniq_kws u ++ optl add KAddItems ++ size_kws sz)
                    ++ items_entry J))).
  Proof.
    intros rec mc k items [mn mx] u add sm.
    destruct k; destruct u; destruct add as [[|]|]; destruct mn as [mn|]; destruct mx as [mx|];
      vm_compute; (destruct (rec items sm) as [J|e]; [destruct J|]); vm_compute; reflexivity.
  Qed.

  (* ... on a Tuple object *)
  Lemma generated_ArrayMapper_to_schema_tuple : forall rec mc items u sm,
      ArrayMapper__to_schema s2s defs_store rec
        (mapper_obj mc (PStruct (s2p "Tuple") [(s2p "items", items); (s2p "uniqueItems", otrue u)])) sm
      = (J <- rec items sm ;;
         Ok (PDict (map (kw_json pat_text) ([KType TArray] ++ uniq_kws u ++ [KAddItems false]) ++ items_entry J))).
  Proof.
    intros rec mc items u sm.
    destruct u; vm_compute; (destruct (rec items sm) as [J|e]; [destruct J|]); vm_compute; reflexivity.
  Qed.

  (* ... on a Set / ImmutableSet object *)
  Lemma generated_ArrayMapper_to_schema_set : forall rec mc imm items sz sm,
      ArrayMapper__to_schema s2s defs_store rec
        (mapper_obj mc (PStruct (set_class imm) ((s2p "items", items) :: size_attrs sz))) sm
      = (J <- rec items sm ;;
         Ok (PDict (map (kw_json pat_text) ([KType TArray; KUnique true] ++ size_kws sz) ++ items_entry J))).
  Proof.
    intros rec mc imm items [mn mx] sm.
    destruct imm; destruct mn as [mn|]; destruct mx as [mx|];
      vm_compute; (destruct (rec items sm) as [J|e]; [destruct J|]); vm_compute; reflexivity.
  Qed.

  (* ---------------------------------------------------------------- MapMapper *)

  (* the class and the attribute list of the object of a declaration *)
  Definition field_pyclass (f : field) : pystr :=
    match f with
    | FNumber k s _ => num_class k s
    | FString _ => s2p "String" | FBoolean => s2p "Boolean" | FNone => s2p "NoneField" | FAnything => s2p "Anything"
    | FEnumLit _ | FEnumCls _ _ => s2p "Enum"
    | FSeqAny k _ _ | FSeqEach k _ _ _ | FSeqPos k _ _ _ _ => seq_class k
    | FSet imm _ _ => set_class imm
    | FTuple _ _ => s2p "Tuple"
    | FMapAny _ | FMapKV _ _ _ => s2p "Map"
    | FAllOf _ => s2p "AllOf" | FAnyOf _ => s2p "AnyOf" | FOneOf _ => s2p "OneOf" | FNot _ => s2p "NotField"
    | FClassRef _ => s2p "ClassReference"
    end.
  Definition field_attrs (f : field) : list (pystr * pyval) :=
    match field_obj f with PStruct _ a => a | _ => [] end.

  Lemma field_obj_struct f : field_obj f = PStruct (field_pyclass f) (field_attrs f).
  Proof. destruct f; reflexivity. Qed.

  (* the regex MapMapper writes as the key of "patternProperties":
     f"{keys.pattern or ''}{suffix}", suffix = f"{{{keys.minLength or ''}, {keys.maxLength or ''}}}" if a length is set *)
  Definition len_text (o : option Z) : pystr :=
    match o with Some z => if (z =? 0)%Z then [] else Z_dec z | None => [] end.
  Definition key_text (c : strc) : pystr :=
    (match pattern c with Some p => pat_text p | None => [] end ++
     (if nonzero (maxLength c) || nonzero (minLength c)
      then s2p "{" ++ len_text (minLength c) ++ s2p ", " ++ len_text (maxLength c) ++ s2p "}"
      else []))%list.

  (* the key pattern, if any, is not the empty text (see the note at [generated_MapMapper_empty_pattern]) *)
  Definition key_pat_ok (c : strc) : bool :=
    match pattern c with Some p => negb (Nat.eqb (length (pat_text p)) 0) | None => true end.
  (* ... and the regex oracle knows the regex built for the key under the id the model gives it *)
  Definition key_text_ok (c : strc) : bool :=
    key_pat_ok c && (negb (key_constrained c) || pystr_eqb (pat_text (key_pid c)) (key_text c)).

  Definition map_obj (items : pyval) (sz : sizec) : pyval := PStruct (s2p "Map") ((s2p "items", items) :: size_attrs sz).

  Lemma generated_MapMapper_to_schema_any : forall rec mc sz sm,
      MapMapper__to_schema s2s defs_store rec (mapper_obj mc (map_obj PNone sz)) sm = Ok (jschema (FMapAny sz)).
  Proof.
    intros rec mc [mn mx] sm. destruct mn as [mn|]; destruct mx as [mx|]; vm_compute; reflexivity.
  Qed.

  Ltac dz z := destruct z as [|?p|?p].

  (* String keys; V is the object of the value field, on which convert_to_schema returns a non-empty dict or raises *)
  Lemma generated_MapMapper_to_schema_kv : forall rec mc c V sz sm,
      key_pat_ok c = true ->
      (forall J, rec V sm = Ok J -> exists d D, J = PDict (d :: D)) ->
      MapMapper__to_schema s2s defs_store rec (mapper_obj mc (map_obj (PList [field_obj (FString c); V]) sz)) sm
      = (J <- rec V sm ;;
         Ok (PDict ([kw_json pat_text (KType TObject)]
                    ++ [if key_constrained c then (PStr (s2p "patternProperties"), PDict [(PStr (key_text c), J)])
                        else (PStr (s2p "additionalProperties"), J)]
                    ++ map (kw_json pat_text) (size_kws sz)))).
  Proof.
    intros rec mc [kmn kmx kp] V [mn mx] sm Hk HJ.
    unfold key_pat_ok in Hk. cbn [pattern] in Hk.
    unfold key_text, len_text. cbn [pattern minLength maxLength].
    assert (HJ' : match rec V sm with Ok J => exists d D, J = PDict (d :: D) | Raise _ => True end).
    { destruct (rec V sm) as [J|e]; [apply HJ; reflexivity|exact I]. }
    clear HJ. revert HJ'.
    destruct kp as [kp|].
    - unfold map_obj, mapper_obj. cbn [field_obj]. unfold str_attrs, opat. cbn [pattern].
      revert Hk. generalize (pat_text kp). intros [|ch rest] Hk; [discriminate Hk|].
      destruct mn as [mn|]; destruct mx as [mx|];
        (destruct kmn as [kmn|]; [dz kmn|]); (destruct kmx as [kmx|]; [dz kmx|]);
        vm_compute; (destruct (rec V sm) as [J|e]; [intros (d & D & ->)|intros _]); vm_compute; reflexivity.
    - destruct mn as [mn|]; destruct mx as [mx|];
        (destruct kmn as [kmn|]; [dz kmn|]); (destruct kmx as [kmx|]; [dz kmx|]);
        vm_compute; (destruct (rec V sm) as [J|e]; [intros (d & D & ->)|intros _]); vm_compute; reflexivity.
  Qed.

  (* a key field that is not a String: TypeError, before the values are looked at *)
  Ltac dfield g :=
    destruct g as [?k ?s ?c|?c| | | |?vs|?cl ?ms|?k ?sz ?u|?k ?g ?sz ?u|?k ?gs ?sz ?u ?ad|?im ?it ?sz|?gs ?u|?sz
                   |?kf ?vf ?sz|?gs|?gs|?gs|?gs|?cl];
    try match goal with k : numkind |- _ => destruct k end;
    try match goal with s : sign |- _ => destruct s end;
    try match goal with k : seqkind |- _ => destruct k end;
    try match goal with im : bool |- _ => destruct im end.

  Lemma generated_MapMapper_to_schema_badkey : forall rec mc kf V sz sm,
      match kf with FString _ => false | _ => true end = true ->
      MapMapper__to_schema s2s defs_store rec (mapper_obj mc (map_obj (PList [field_obj kf; V]) sz)) sm
      = Raise TypeError.
  Proof.
    intros rec mc kf V sz sm Hk. rewrite (field_obj_struct kf). generalize (field_attrs kf). intro A.
    dfield kf; try discriminate Hk; cbn [field_pyclass]; vm_compute; reflexivity.
  Qed.

  (* DISAGREEMENT with the hand model (which says "patternProperties" for every key pattern): a key pattern
     whose text is empty is falsy in `keys.pattern or ''`, so the source emits "additionalProperties"
     (the real library does: Map[String(pattern=''), Integer]) *)
  Lemma generated_MapMapper_empty_pattern : forall rec mc p V d D sm,
      pat_text p = [] ->
      rec V sm = Ok (PDict (d :: D)) ->
      MapMapper__to_schema s2s defs_store rec
        (mapper_obj mc (map_obj (PList [field_obj (FString {| minLength := None; maxLength := None; pattern := Some p |}); V])
                                no_sizec)) sm
      = Ok (PDict [kw_json pat_text (KType TObject); (PStr (s2p "additionalProperties"), PDict (d :: D))]).
  Proof.
    intros rec mc p V d D sm Ep H. vm_compute. rewrite Ep, H. vm_compute. reflexivity.
  Qed.

  (* ---------------------------------------------------------------- EnumMapper *)
  Lemma attr_value mc v : obj_attr (mapper_obj mc v) (s2p "value") = Ok v.
  Proof. reflexivity. Qed.
  Lemma attr_values vs bv : obj_attr (enum_obj vs bv) (s2p "values") = Ok (PList vs).
  Proof. reflexivity. Qed.
  Lemma attr_by_value vs bv d : obj_attr_def (enum_obj vs bv) (s2p "serialization_by_value") d = Ok (PBool bv).
  Proof. reflexivity. Qed.

  Lemma mapM_pointwise {A B} (F : A -> res B) (g : A -> B) l :
    (forall x, In x l -> F x = Ok (g x)) -> mapM F l = Ok (map g l).
  Proof.
    induction l as [|x l IH]; intro H; [reflexivity|].
    cbn [mapM map]. rewrite (H x (or_introl eq_refl)). cbn [bind]. rewrite IH; [reflexivity|].
    intros y Hy. apply H. right. exact Hy.
  Qed.

  Ltac enum_open :=
    unfold EnumMapper__to_schema; cbv zeta;
    rewrite !attr_value; cbn [bind]; rewrite !attr_values; cbn [bind py_listcomp].

  Lemma mapM_mapO {A B} (F : A -> res B) (g : A -> option B) (e : exn) l :
    (forall x, In x l -> F x = match g x with Some y => Ok y | None => Raise e end) ->
    mapM F l = match mapO g l with Some r => Ok r | None => Raise e end.
  Proof.
    induction l as [|x l IH]; intro H; [reflexivity|].
    cbn [mapM mapO]. rewrite (H x (or_introl eq_refl)).
    destruct (g x) as [y|]; cbn [bind]; [|reflexivity].
    rewrite IH; [destruct (mapO g l); reflexivity|].
    intros z Hz. apply H. right. exact Hz.
  Qed.

  (* literals that are data (None, numbers, strings, containers) or enum members; Python objects of other kinds
     are outside the literals of the model *)
  Definition plain_lit (v : pyval) : bool :=
    match v with PStruct _ _ | POther _ _ => false | _ => true end.

  (* Enum over literals (enum members among them included): the adjusted values, TypeError if one has none *)
  Lemma generated_EnumMapper_to_schema_lit : forall rec mc vs sm,
      forallb plain_lit vs = true ->
      EnumMapper__to_schema s2s defs_store rec (mapper_obj mc (field_obj (FEnumLit vs))) sm
      = if (mappable ei) (FEnumLit vs) then Ok (jschema (FEnumLit vs)) else Raise TypeError.
  Proof.
    intros rec mc vs sm H. cbn [field_obj]. enum_open.
    match goal with |- context [mapM ?F vs] => rewrite (mapM_mapO F (adjust_val ei false) TypeError vs) end.
    - unfold jschema. cbn [mappable fschema]. unfold enum_mappable, enum_schema. cbn [enum_vals].
      destruct (mapO (adjust_val ei false) vs); reflexivity.
    - intros v Hin. rewrite forallb_forall in H. specialize (H v Hin). clear Hin.
      destruct v as [|b|n|s|l|l|l|fr l|kv|c n y|c ats|tg r]; try discriminate H;
        try match goal with x : num |- _ => destruct x end; vm_compute; reflexivity.
  Qed.

  Lemma mapO_plain by_value vs : mapO (adjust_val ei by_value) vs <> None -> forallb plain_lit vs = true.
  Proof.
    induction vs as [|v vs IH]; [reflexivity|]. cbn [mapO forallb]. intro H.
    destruct (adjust_val ei by_value v) eqn:Ev; [|exfalso; apply H; reflexivity].
    destruct (mapO (adjust_val ei by_value) vs) eqn:Em; [|exfalso; apply H; reflexivity].
    rewrite IH by discriminate. rewrite andb_true_r.
    destruct v; try reflexivity; discriminate Ev.
  Qed.

  Lemma mappable_lit_plain vs : (mappable ei) (FEnumLit vs) = true -> forallb plain_lit vs = true.
  Proof.
    cbn [mappable]. unfold enum_mappable. cbn [enum_vals]. intro H. apply (mapO_plain false).
    destruct (mapO (adjust_val ei false) vs); [discriminate|discriminate H].
  Qed.

  Lemma enum_vals_cls c ms :
    enum_vals ei (FEnumCls c ms)
    = Some (map (fun m => if eo_by_value (ei c) then snd m else PStr (fst m)) ms).
  Proof.
    cbn [enum_vals]. unfold members_of. generalize (eo_by_value (ei c)). intro bv.
    induction ms as [|[n x] ms IH]; [reflexivity|].
    cbn [map mapO fst snd]. rewrite IH. destruct bv; reflexivity.
  Qed.

  (* Enum over (a subset of) the members of an enum class: the member names, or the member values when the
     field is declared with serialization_by_value=True *)
  Lemma generated_EnumMapper_to_schema_cls : forall rec mc cls ms sm,
      EnumMapper__to_schema s2s defs_store rec (mapper_obj mc (field_obj (FEnumCls cls ms))) sm
      = Ok (jschema (FEnumCls cls ms)).
  Proof.
    intros rec mc cls ms sm. unfold jschema. cbn [field_obj fschema]. unfold enum_schema.
    rewrite enum_vals_cls. generalize (eo_by_value (ei cls)). intro bv. enum_open.
    match goal with |- context [mapM ?F ?l] =>
      rewrite (mapM_pointwise F (fun v => match v with PEnum _ n x => if bv then x else PStr n | _ => v end) l) end.
    - rewrite map_map. destruct bv; reflexivity.
    - intros v Hin. apply in_map_iff in Hin. destruct Hin as ([n x] & <- & _). destruct bv; vm_compute; reflexivity.
  Qed.

  (* the same, with the flag explicit *)
  Lemma generated_EnumMapper_to_schema_cls_by_value : forall rec mc cls ms sm,
      EnumMapper__to_schema s2s defs_store rec (mapper_obj mc (enum_obj (map (member_val cls) ms) true)) sm
      = Ok (jkws [KEnum (map snd ms)]).
  Proof.
    intros rec mc cls ms sm. enum_open.
    match goal with |- context [mapM ?F ?l] =>
      rewrite (mapM_pointwise F (fun v => match v with PEnum _ _ x => x | _ => v end) l) end.
    - rewrite map_map. reflexivity.
    - intros v Hin. apply in_map_iff in Hin. destruct Hin as ([n x] & <- & _). vm_compute. reflexivity.
  Qed.

  (* ---------------------------------------------------------------- the multi-field wrappers *)

  Definition fields_obj (cls : pystr) (fs : pyval) : pyval := PStruct cls [(s2p "_fields", fs)].

  Lemma generated_AllOfMapper_to_schema : forall rec mc cls fs sm,
      AllOfMapper__to_schema s2s defs_store rec (mapper_obj mc (fields_obj cls fs)) sm
      = (J <- rec fs sm ;; Ok (PDict [(PStr (s2p "allOf"), J)])).
  Proof. intros. vm_compute. destruct (rec fs sm); reflexivity. Qed.

  Lemma generated_OneOfMapper_to_schema : forall rec mc cls fs sm,
      OneOfMapper__to_schema s2s defs_store rec (mapper_obj mc (fields_obj cls fs)) sm
      = (J <- rec fs sm ;; Ok (PDict [(PStr (s2p "oneOf"), J)])).
  Proof. intros. vm_compute. destruct (rec fs sm); reflexivity. Qed.

  Lemma generated_NotFieldMapper_to_schema : forall rec mc cls fs sm,
      NotFieldMapper__to_schema s2s defs_store rec (mapper_obj mc (fields_obj cls fs)) sm
      = (J <- rec fs sm ;; Ok (PDict [(PStr (s2p "not"), J)])).
  Proof. intros. vm_compute. destruct (rec fs sm); reflexivity. Qed.

  Lemma attr_fields cls fs : obj_attr (fields_obj cls fs) (s2p "_fields") = Ok fs.
  Proof. reflexivity. Qed.

  Lemma len_eq2 (l : list pyval) : py_eqv (PNum (NInt (PyOps.lenZ' l))) (zint 2) = Ok (Nat.eqb (length l) 2).
  Proof.
    unfold py_eqv, zint, PyOps.lenZ'. cbn [py_eq as_num]. f_equal.
    unfold num_eqb, Qeq_bool. cbn [num_to_Q Qnum Qden]. rewrite !Z.mul_1_r.
    destruct (Nat.eqb_spec (length l) 2) as [E|E]; [rewrite E; reflexivity|].
    destruct (Zeq_bool (Z.of_nat (length l)) 2) eqn:Q; [apply Zeq_bool_eq in Q; lia | reflexivity].
  Qed.

  (* AnyOf: Optional (exactly two options, the second a NoneField) is the schema of the first option *)
  Lemma generated_AnyOfMapper_to_schema : forall rec mc fs sm,
      AnyOfMapper__to_schema s2s defs_store rec (mapper_obj mc (field_obj (FAnyOf fs))) sm
      = match fs with
        | [g; FNone] => rec (field_obj g) sm
        | _ => (J <- rec (PList (map field_obj fs)) sm ;; Ok (PDict [(PStr (s2p "anyOf"), J)]))
        end.
  Proof.
    intros rec mc fs sm. cbn [field_obj]. fold (fields_obj (s2p "AnyOf") (PList (map field_obj fs))).
    unfold AnyOfMapper__to_schema.
    rewrite !attr_value. cbn [bind]. rewrite !attr_fields. cbn [bind py_len]. rewrite len_eq2. rewrite map_length.
    destruct fs as [|a [|b [|c r]]]; cbn [length Nat.eqb py_and bind map py_index nth_error].
    - destruct (rec (PList []) sm); reflexivity.
    - destruct (rec (PList [field_obj a]) sm); reflexivity.
    - rewrite (field_obj_struct b). cbn [py_class_of bind].
      assert (E : py_eqv (cls_val (field_pyclass b)) (cls_val (s2p "NoneField"))
                  = Ok match b with FNone => true | _ => false end).
      { dfield b; vm_compute; reflexivity. }
      rewrite E. cbn [bind]. rewrite <- (field_obj_struct b).
      destruct b; try (destruct (rec (PList [field_obj a; _]) sm); reflexivity).
      destruct (rec (field_obj a) sm); reflexivity.
    - destruct (rec (PList (field_obj a :: field_obj b :: field_obj c :: map field_obj r)) sm); destruct b; reflexivity.
  Qed.

  (* ---------------------------------------------------------------- class references *)

  Lemma attr_ty c : obj_attr (field_obj (FClassRef c)) (s2p "_ty") = Ok (cls_val c).
  Proof. reflexivity. Qed.
  Lemma class_name_val c : py_class_name (cls_val c) = Ok (PStr c).
  Proof. reflexivity. Qed.

  (* _map_class_reference: provided structure_to_schema returns its pair and the store into the definitions
     succeeds, the result is {"$ref": "#/definitions/<name>"} *)
  Lemma generated_map_class_reference : forall rec c d x,
      s2s (cls_val c) PNone = Ok (PTuple [d; x]) ->
      defs_store (PStr c) d = Ok tt ->
      map_class_reference s2s defs_store rec (field_obj (FClassRef c)) = Ok (jschema (FClassRef c)).
  Proof.
    intros rec c d x Hs Hd. unfold map_class_reference.
    rewrite !attr_ty. cbn [bind]. rewrite Hs. cbn [bind py_unpack2 pair_fst pair_snd fst snd].
    rewrite class_name_val. cbn [bind]. rewrite Hd. cbn [bind py_format]. reflexivity.
  Qed.

  (* ---------------------------------------------------------------- get_mapper and the dispatch *)

  Definition mapper_of (f : field) : option pystr :=
    match f with
    | FNumber KInteger _ _ => Some (s2p "IntegerMapper")
    | FNumber _ _ _ => Some (s2p "NumberMapper")
    | FString _ => Some (s2p "StringMapper")
    | FBoolean => Some (s2p "BooleanMapper")
    | FNone | FAnything | FClassRef _ => None
    | FEnumLit _ | FEnumCls _ _ => Some (s2p "EnumMapper")
    | FSeqAny k _ _ | FSeqEach k _ _ _ | FSeqPos k _ _ _ _ => if is_list_kind k then Some (s2p "ArrayMapper") else None
    | FSet _ _ _ | FTuple _ _ => Some (s2p "ArrayMapper")
    | FMapAny _ | FMapKV _ _ _ => Some (s2p "MapMapper")
    | FAllOf _ => Some (s2p "AllOfMapper")
    | FAnyOf _ => Some (s2p "AnyOfMapper")
    | FOneOf _ => Some (s2p "OneOfMapper")
    | FNot _ => Some (s2p "NotFieldMapper")
    end.

  (* get_mapper on the class of every declaration: the first class along the MRO that is a key of the mapping;
     Deque, NoneField, Anything (and ClassReference) have none *)
  Lemma generated_get_mapper : forall f,
      get_mapper (cls_val (field_pyclass f))
      = match mapper_of f with Some m => Ok (cls_val m) | None => Raise NotImplementedError end.
  Proof. intro f. dfield f; vm_compute; reflexivity. Qed.

  Definition is_classref (f : field) : bool := match f with FClassRef _ => true | _ => false end.

  (* convert_to_schema on the object of a declaration: a class reference goes to _map_class_reference, anything
     else to <its mapper>(field).to_schema -- Field.to_json_schema returns None for all these classes *)
  Lemma generated_convert_dispatch : forall rec f sm,
      convert_to_schema_body s2s defs_store rec (field_obj f) sm
      = if is_classref f then map_class_reference s2s defs_store rec (field_obj f)
        else match mapper_of f with
             | Some m => METHOD_to_schema s2s defs_store rec (mapper_obj m (field_obj f)) sm
             | None => Raise NotImplementedError
             end.
  Proof.
    intros rec f sm. unfold convert_to_schema_body. rewrite (field_obj_struct f).
    generalize (field_attrs f). intro A.
    generalize (METHOD_to_schema s2s defs_store rec). intro M.
    generalize (map_class_reference s2s defs_store rec). intro R.
    dfield f; vm_compute; reflexivity.
  Qed.

  Lemma generated_convert_none : forall rec sm, convert_to_schema_body s2s defs_store rec PNone sm = Ok PNone.
  Proof. intros. vm_compute. reflexivity. Qed.

  Lemma mapM_map_pointwise {A B C} (F : B -> res C) (h : A -> B) (k : A -> C) l :
    (forall x, In x l -> F (h x) = Ok (k x)) -> mapM F (map h l) = Ok (map k l).
  Proof.
    induction l as [|x l IH]; intro H; [reflexivity|].
    cbn [mapM map]. rewrite (H x (or_introl eq_refl)). cbn [bind]. rewrite IH; [reflexivity|].
    intros y Hy. apply H. right. exact Hy.
  Qed.

  (* convert_to_schema on a list of fields: the list of their schemas *)
  Lemma generated_convert_list : forall rec (gs : list field) sm,
      (forall g, In g gs -> rec (field_obj g) sm = Ok (jschema g)) ->
      convert_to_schema_body s2s defs_store rec (PList (map field_obj gs)) sm = Ok (PList (map jschema gs)).
  Proof.
    intros rec gs sm H. unfold convert_to_schema_body.
    cbn [py_is_none bind py_isinstance_any isinstance_i isinstance1 py_listcomp].
    rewrite (mapM_map_pointwise _ field_obj jschema gs); [reflexivity|].
    intros g Hg. rewrite (H g Hg). reflexivity.
  Qed.

  Lemma method_Number rec v sm : METHOD_to_schema s2s defs_store rec (mapper_obj (s2p "NumberMapper") v) sm
                               = NumberMapper__to_schema s2s defs_store rec (mapper_obj (s2p "NumberMapper") v) sm.
  Proof. reflexivity. Qed.
  Lemma method_Integer rec v sm : METHOD_to_schema s2s defs_store rec (mapper_obj (s2p "IntegerMapper") v) sm
                                = IntegerMapper__to_schema s2s defs_store rec (mapper_obj (s2p "IntegerMapper") v) sm.
  Proof. reflexivity. Qed.
  Lemma method_String rec v sm : METHOD_to_schema s2s defs_store rec (mapper_obj (s2p "StringMapper") v) sm
                               = StringMapper__to_schema s2s defs_store rec (mapper_obj (s2p "StringMapper") v) sm.
  Proof. reflexivity. Qed.
  Lemma method_Boolean rec v sm : METHOD_to_schema s2s defs_store rec (mapper_obj (s2p "BooleanMapper") v) sm
                                = BooleanMapper__to_schema s2s defs_store rec (mapper_obj (s2p "BooleanMapper") v) sm.
  Proof. reflexivity. Qed.
  Lemma method_Enum rec v sm : METHOD_to_schema s2s defs_store rec (mapper_obj (s2p "EnumMapper") v) sm
                             = EnumMapper__to_schema s2s defs_store rec (mapper_obj (s2p "EnumMapper") v) sm.
  Proof. reflexivity. Qed.
  Lemma method_Array rec v sm : METHOD_to_schema s2s defs_store rec (mapper_obj (s2p "ArrayMapper") v) sm
                              = ArrayMapper__to_schema s2s defs_store rec (mapper_obj (s2p "ArrayMapper") v) sm.
  Proof. reflexivity. Qed.
  Lemma method_Map rec v sm : METHOD_to_schema s2s defs_store rec (mapper_obj (s2p "MapMapper") v) sm
                            = MapMapper__to_schema s2s defs_store rec (mapper_obj (s2p "MapMapper") v) sm.
  Proof. reflexivity. Qed.
  Lemma method_AllOf rec v sm : METHOD_to_schema s2s defs_store rec (mapper_obj (s2p "AllOfMapper") v) sm
                              = AllOfMapper__to_schema s2s defs_store rec (mapper_obj (s2p "AllOfMapper") v) sm.
  Proof. reflexivity. Qed.
  Lemma method_AnyOf rec v sm : METHOD_to_schema s2s defs_store rec (mapper_obj (s2p "AnyOfMapper") v) sm
                              = AnyOfMapper__to_schema s2s defs_store rec (mapper_obj (s2p "AnyOfMapper") v) sm.
  Proof. reflexivity. Qed.
  Lemma method_OneOf rec v sm : METHOD_to_schema s2s defs_store rec (mapper_obj (s2p "OneOfMapper") v) sm
                              = OneOfMapper__to_schema s2s defs_store rec (mapper_obj (s2p "OneOfMapper") v) sm.
  Proof. reflexivity. Qed.
  Lemma method_Not rec v sm : METHOD_to_schema s2s defs_store rec (mapper_obj (s2p "NotFieldMapper") v) sm
                            = NotFieldMapper__to_schema s2s defs_store rec (mapper_obj (s2p "NotFieldMapper") v) sm.
  Proof. reflexivity. Qed.

  (* ---------------------------------------------------------------- convert_to_schema = fschema *)

  (* number of nested convert_to_schema calls (a list of fields costs one more) *)
  Fixpoint cfuel (f : field) : nat :=
    match f with
    | FSeqAny _ _ _ | FSet _ None _ => 2
    | FSeqEach _ g _ _ | FSet _ (Some g) _ => S (cfuel g)
    | FMapKV _ vf _ => S (cfuel vf)
    | FSeqPos _ gs _ _ _ | FTuple gs _ | FAllOf gs | FAnyOf gs | FOneOf gs | FNot gs =>
        S (S (fold_right Nat.max 0%nat (map cfuel gs)))
    | _ => 1
    end.

  (* every String key of a Map, at any depth, has a non-empty pattern text (or no pattern) *)
  Fixpoint keys_text_ok (f : field) : bool :=
    match f with
    | FSeqEach _ g _ _ | FSet _ (Some g) _ => keys_text_ok g
    | FMapKV kf vf _ => match kf with FString c => key_text_ok c | _ => true end && keys_text_ok vf
    | FSeqPos _ gs _ _ _ | FTuple gs _ | FAllOf gs | FAnyOf gs | FOneOf gs | FNot gs => forallb keys_text_ok gs
    | _ => true
    end.

  Lemma cfuel_in g gs : In g gs -> (cfuel g <= fold_right Nat.max 0 (map cfuel gs))%nat.
  Proof.
    induction gs as [|h gs IH]; cbn [In map fold_right]; [contradiction|].
    intros [->|H]; [lia | specialize (IH H); lia].
  Qed.

  Lemma enum_nonempty f : enum_mappable ei f = true -> exists k ks, enum_schema ei f = Sch (k :: ks).
  Proof.
    unfold enum_mappable, enum_schema. destruct (enum_vals ei f); [|discriminate]. intros _.
    eexists; eexists; reflexivity.
  Qed.

  Lemma mappable_nonempty : forall f, (mappable ei) f = true -> exists k ks, (fschema ei) f = Sch (k :: ks).
  Proof.
    induction f using field_ind'; intro Hm; try discriminate Hm; cbn [fschema]; unfold num_kws, str_kws; cbn [app];
      try (apply enum_nonempty; exact Hm);
      try (eexists; eexists; reflexivity).
    (* FAnyOf *)
    destruct fs as [|a [|b [|c r]]]; try (eexists; eexists; reflexivity);
      destruct b; try (eexists; eexists; reflexivity).
    inversion H as [|? ? Ha _]; subst. apply Ha. exact Hm.
  Qed.

  Lemma jschema_nonempty f : (mappable ei) f = true -> exists d D, jschema f = PDict (d :: D).
  Proof.
    intro Hm. destruct (mappable_nonempty f Hm) as (k & ks & E). unfold jschema. rewrite E.
    eexists; eexists; reflexivity.
  Qed.

  Lemma items_entry_schema f :
    items_entry (sch_json pat_text ((fschema ei) f)) = [(PStr (s2p "items"), sch_json pat_text ((fschema ei) f))].
  Proof. destruct ((fschema ei) f). reflexivity. Qed.

  Lemma items_entry_list l : items_entry (PList l) = [(PStr (s2p "items"), PList l)].
  Proof. reflexivity. Qed.

  Lemma forallb_In {A} (p : A -> bool) l x : forallb p l = true -> In x l -> p x = true.
  Proof. intros H Hx. rewrite forallb_forall in H. apply H. exact Hx. Qed.

  Section Main.
    (* the context: structure_to_schema returns its pair on the referenced classes; the store succeeds *)
    Hypothesis defs_store_ok : forall k v, defs_store k v = Ok tt.

    Definition refs_ok (f : field) : Prop :=
      forall c, In c (field_refs f) -> exists d x, s2s (cls_val c) PNone = Ok (PTuple [d; x]).

    Lemma refs_ok_in (gs : list field) g : (forall c, In c (flat_map field_refs gs) -> exists d x, s2s (cls_val c) PNone = Ok (PTuple [d; x])) ->
                                           In g gs -> refs_ok g.
    Proof. intros H Hg c Hc. apply H. apply in_flat_map. exists g. split; assumption. Qed.

    Local Notation conv := (convert_to_schema s2s defs_store).

    Lemma conv_S n v sm : conv (S n) v sm = convert_to_schema_body s2s defs_store (conv n) v sm.
    Proof. reflexivity. Qed.

    (* a list of fields, given the statement for each of them *)
    Lemma conv_fields n (gs : list field) sm :
      (forall g, In g gs -> conv n (field_obj g) sm = Ok (jschema g)) ->
      conv (S n) (PList (map field_obj gs)) sm = Ok (PList (map jschema gs)).
    Proof. intro H. rewrite conv_S. apply generated_convert_list. exact H. Qed.

    Ltac need_fuel n Hn := destruct n as [|n]; [cbn [cfuel] in Hn; lia|].

    Lemma kw_items s : kw_json pat_text (KItems s) = (PStr (s2p "items"), sch_json pat_text s).
    Proof. reflexivity. Qed.
    Lemma kw_itemsL ss : kw_json pat_text (KItemsL ss) = (PStr (s2p "items"), PList (map (sch_json pat_text) ss)).
    Proof. reflexivity. Qed.

    (* open the right-hand side (the rendering of the hand model) and flatten the appends on both sides *)
    Ltac rhs_open :=
      cbn [fschema]; rewrite sch_json_Sch; unfold jkws;
      cbn [optl bind]; rewrite ?map_app, <- ?app_assoc; cbn [map app].

    Lemma kw_allOf ss : kw_json pat_text (KAllOf ss) = (PStr (s2p "allOf"), PList (map (sch_json pat_text) ss)).
    Proof. reflexivity. Qed.
    Lemma kw_anyOf ss : kw_json pat_text (KAnyOf ss) = (PStr (s2p "anyOf"), PList (map (sch_json pat_text) ss)).
    Proof. reflexivity. Qed.
    Lemma kw_oneOf ss : kw_json pat_text (KOneOf ss) = (PStr (s2p "oneOf"), PList (map (sch_json pat_text) ss)).
    Proof. reflexivity. Qed.
    Lemma kw_notL ss : kw_json pat_text (KNotL ss) = (PStr (s2p "not"), PList (map (sch_json pat_text) ss)).
    Proof. reflexivity. Qed.

    (* the statement, per declaration *)
    Definition conv_ok (f : field) : Prop :=
      (mappable ei) f = true -> keys_text_ok f = true -> refs_ok f ->
      forall fuel sm, (cfuel f <= fuel)%nat ->
      convert_to_schema s2s defs_store fuel (field_obj f) sm = Ok (sch_json pat_text ((fschema ei) f)).

    Lemma conv_fields_IH fs :
      Forall conv_ok fs -> forallb (mappable ei) fs = true -> forallb keys_text_ok fs = true ->
      (forall c, In c (flat_map field_refs fs) -> exists d x, s2s (cls_val c) PNone = Ok (PTuple [d; x])) ->
      forall n sm, (fold_right Nat.max 0 (map cfuel fs) <= n)%nat ->
      conv (S n) (PList (map field_obj fs)) sm = Ok (PList (map (sch_json pat_text) (map (fschema ei) fs))).
    Proof.
      intros HF Hm Hk Hr n sm Hn. rewrite conv_fields; [unfold jschema; rewrite map_map; reflexivity|].
      intros g Hg. unfold jschema. rewrite Forall_forall in HF. apply (HF g Hg).
      - exact (forallb_In _ _ _ Hm Hg).
      - exact (forallb_In _ _ _ Hk Hg).
      - exact (refs_ok_in fs g Hr Hg).
      - pose proof (cfuel_in g fs Hg). lia.
    Qed.

    Theorem generated_convert_to_schema : forall f,
        (mappable ei) f = true -> keys_text_ok f = true -> refs_ok f ->
        forall fuel sm, (cfuel f <= fuel)%nat ->
        convert_to_schema s2s defs_store fuel (field_obj f) sm = Ok (sch_json pat_text ((fschema ei) f)).
    Proof.
      induction f using field_ind'; intros Hm Hk Hr fuel sm Hn; try discriminate Hm;
        need_fuel fuel Hn; rewrite conv_S, generated_convert_dispatch; cbn [is_classref mapper_of].
      - (* FNumber *)
        destruct k.
        + rewrite method_Number, generated_NumberMapper_to_schema. reflexivity.
        + rewrite method_Integer, generated_IntegerMapper_to_schema. reflexivity.
        + rewrite method_Number, generated_NumberMapper_to_schema. reflexivity.
      - (* FString *) rewrite method_String. apply generated_StringMapper_to_schema.
      - (* FBoolean *) rewrite method_Boolean. apply generated_BooleanMapper_to_schema.
      - (* FEnumLit *)
        rewrite method_Enum, generated_EnumMapper_to_schema_lit.
        + rewrite Hm. reflexivity.
        + apply mappable_lit_plain. exact Hm.
      - (* FEnumCls *) rewrite method_Enum. apply generated_EnumMapper_to_schema_cls.
      - (* FSeqAny *)
        cbn [mappable] in Hm. destruct k; [|discriminate Hm]. cbn [is_list_kind].
        need_fuel fuel Hn.
        rewrite method_Array. cbn [field_obj]. rewrite generated_ArrayMapper_to_schema_seq.
        rewrite conv_S, generated_convert_none. cbn [bind items_entry py_is_none].
        rewrite app_nil_r. rhs_open. reflexivity.
      - (* FSeqEach *)
        cbn [mappable] in Hm. destruct k; [|discriminate Hm]. cbn [is_list_kind andb] in *.
        rewrite method_Array. cbn [field_obj]. rewrite generated_ArrayMapper_to_schema_seq.
        rewrite IHf; [| exact Hm | exact Hk | exact Hr | cbn [cfuel] in Hn; lia].
        cbn [bind]. rewrite items_entry_schema. rhs_open. reflexivity.
      - (* FSeqPos *)
        cbn [mappable] in Hm. destruct k; [|discriminate Hm]. cbn [is_list_kind andb] in *.
        need_fuel fuel Hn.
        rewrite method_Array. cbn [field_obj]. rewrite generated_ArrayMapper_to_schema_seq.
        rewrite (conv_fields_IH fs H Hm Hk Hr); [|cbn [cfuel] in Hn; lia].
        cbn [bind]. rewrite items_entry_list. rhs_open. rewrite kw_itemsL. reflexivity.
      - (* FSet, no items *)
        need_fuel fuel Hn.
        rewrite method_Array. cbn [field_obj]. rewrite generated_ArrayMapper_to_schema_set.
        rewrite conv_S, generated_convert_none. cbn [bind items_entry py_is_none].
        rewrite app_nil_r. rhs_open. rewrite app_nil_r. reflexivity.
      - (* FSet of a field *)
        cbn [mappable] in Hm.
        rewrite method_Array. cbn [field_obj]. rewrite generated_ArrayMapper_to_schema_set.
        rewrite IHf; [| exact Hm | exact Hk | exact Hr | cbn [cfuel] in Hn; lia].
        cbn [bind]. rewrite items_entry_schema. rhs_open. reflexivity.
      - (* FTuple *)
        cbn [mappable] in Hm. need_fuel fuel Hn.
        rewrite method_Array. cbn [field_obj]. rewrite generated_ArrayMapper_to_schema_tuple.
        rewrite (conv_fields_IH fs H Hm Hk Hr); [|cbn [cfuel] in Hn; lia].
        cbn [bind]. rewrite items_entry_list. rhs_open. rewrite kw_itemsL. reflexivity.
      - (* FMapAny *)
        rewrite method_Map. apply generated_MapMapper_to_schema_any.
      - (* FMapKV *)
        cbn [mappable] in Hm. destruct f1 as [| c | | | | | | | | | | | | | | | | |]; try discriminate Hm.
        cbn [keys_text_ok] in Hk. apply andb_true_iff in Hk as [Hk1 Hk2].
        assert (E : conv fuel (field_obj f2) sm = Ok (sch_json pat_text ((fschema ei) f2))).
        { apply IHf2; [exact Hm | exact Hk2 | exact Hr | cbn [cfuel] in Hn; lia]. }
        rewrite method_Map.
        change (field_obj (FMapKV (FString c) f2 sz)) with (map_obj (PList [field_obj (FString c); field_obj f2]) sz).
        unfold key_text_ok in Hk1. apply andb_true_iff in Hk1 as [Hkp Hkt].
        rewrite generated_MapMapper_to_schema_kv; [| exact Hkp |].
        + rewrite E. cbn [bind]. destruct (key_constrained c) eqn:Ekc; rhs_open; rewrite Ekc.
          * cbn [negb orb] in Hkt. apply pystr_eqb_spec in Hkt.
            cbn [map app kw_json fst snd]. rewrite Hkt. reflexivity.
          * reflexivity.
        + intros J HJ. rewrite E in HJ. inversion HJ; subst J. apply (jschema_nonempty f2 Hm).
      - (* FAllOf *)
        cbn [mappable] in Hm. need_fuel fuel Hn.
        rewrite method_AllOf.
        change (field_obj (FAllOf fs)) with (fields_obj (s2p "AllOf") (PList (map field_obj fs))).
        rewrite generated_AllOfMapper_to_schema.
        rewrite (conv_fields_IH fs H Hm Hk Hr); [|cbn [cfuel] in Hn; lia].
        rhs_open. rewrite kw_allOf. reflexivity.
      - (* FAnyOf *)
        rewrite method_AnyOf, generated_AnyOfMapper_to_schema.
        assert (G : forallb (mappable ei) fs = true ->
                    (J <- conv fuel (PList (map field_obj fs)) sm ;; Ok (PDict [(PStr (s2p "anyOf"), J)]))
                    = Ok (sch_json pat_text (Sch [KAnyOf (map (fschema ei) fs)]))).
        { intro Hm'. need_fuel fuel Hn.
          rewrite (conv_fields_IH fs H Hm' Hk Hr); [|cbn [cfuel] in Hn; lia].
          rewrite sch_json_Sch. unfold jkws. cbn [bind map]. rewrite kw_anyOf. reflexivity. }
        destruct fs as [|a [|b [|c r]]]; try (apply G; exact Hm).
        + destruct b; try (apply G; exact Hm).
          cbn [mappable fschema] in *. inversion H as [|? ? Ha _]; subst.
          apply Ha; [exact Hm | | | cbn [cfuel map fold_right] in Hn; lia].
          * cbn [keys_text_ok forallb] in Hk. apply andb_true_iff in Hk as [Hk _]. exact Hk.
          * intros x Hx. apply Hr. cbn [field_refs flat_map]. apply in_or_app. left. exact Hx.
        + destruct b; apply G; exact Hm.
      - (* FOneOf *)
        cbn [mappable] in Hm. need_fuel fuel Hn.
        rewrite method_OneOf.
        change (field_obj (FOneOf fs)) with (fields_obj (s2p "OneOf") (PList (map field_obj fs))).
        rewrite generated_OneOfMapper_to_schema.
        rewrite (conv_fields_IH fs H Hm Hk Hr); [|cbn [cfuel] in Hn; lia].
        rhs_open. rewrite kw_oneOf. reflexivity.
      - (* FNot *)
        cbn [mappable] in Hm. need_fuel fuel Hn.
        rewrite method_Not.
        change (field_obj (FNot fs)) with (fields_obj (s2p "NotField") (PList (map field_obj fs))).
        rewrite generated_NotFieldMapper_to_schema.
        rewrite (conv_fields_IH fs H Hm Hk Hr); [|cbn [cfuel] in Hn; lia].
        rhs_open. rewrite kw_notL. reflexivity.
      - (* FClassRef *)
        destruct (Hr c (or_introl eq_refl)) as (d & x & Hs).
        apply (generated_map_class_reference _ c d x Hs (defs_store_ok _ _)).
    Qed.

    (* ---------------------------------------------------------------- not mappable = raises *)

    (* the exceptions convert_to_schema raises on an unmappable declaration *)
    Definition schema_exn (e : exn) : bool :=
      match e with TypeError | NotImplementedError => true | _ => false end.

    (* the literals of every Enum[...] are plain data *)
    Fixpoint lits_plain (f : field) : bool :=
      match f with
      | FEnumLit vs => forallb plain_lit vs
      | FSeqEach _ g _ _ | FSet _ (Some g) _ => lits_plain g
      | FMapKV kf vf _ => lits_plain kf && lits_plain vf
      | FSeqPos _ gs _ _ _ | FTuple gs _ | FAllOf gs | FAnyOf gs | FOneOf gs | FNot gs => forallb lits_plain gs
      | _ => true
      end.

    Lemma mapM_raises {A B} (F : A -> res B) (Q : exn -> Prop) l :
      (forall x, In x l -> (exists y, F x = Ok y) \/ (exists e, F x = Raise e /\ Q e)) ->
      (exists x, In x l /\ exists e, F x = Raise e) ->
      exists e, mapM F l = Raise e /\ Q e.
    Proof.
      induction l as [|x l IH]; intros H (x0 & Hin & e0 & He0); [destruct Hin|].
      cbn [mapM]. destruct (H x (or_introl eq_refl)) as [(y & Ey)|(e & Ee & Qe)].
      - rewrite Ey. cbn [bind].
        destruct IH as (e & E & Qe).
        + intros z Hz. apply H. right. exact Hz.
        + destruct Hin as [->|Hin]; [congruence|]. exists x0. split; [exact Hin|]. exists e0. exact He0.
        + exists e. rewrite E. split; [reflexivity|exact Qe].
      - exists e. rewrite Ee. split; [reflexivity|exact Qe].
    Qed.

    Lemma forallb_false_exists {A} (p : A -> bool) l : forallb p l = false -> exists x, In x l /\ p x = false.
    Proof.
      induction l as [|x l IH]; cbn [forallb]; intro H; [discriminate H|].
      destruct (p x) eqn:E.
      - destruct (IH H) as (y & Hy & Py). exists y. split; [right; exact Hy|exact Py].
      - exists x. split; [left; reflexivity|exact E].
    Qed.

    Definition raises (r : res pyval) : Prop := exists e, r = Raise e /\ schema_exn e = true.

    Lemma raises_bind (r : res pyval) (k : pyval -> res pyval) : raises r -> raises (x <- r ;; k x).
    Proof. intros (e & -> & Q). exists e. split; [reflexivity|exact Q]. Qed.

    Definition conv_raises (f : field) : Prop :=
      (mappable ei) f = false -> lits_plain f = true -> keys_text_ok f = true -> refs_ok f ->
      forall fuel sm, (cfuel f <= fuel)%nat -> raises (conv fuel (field_obj f) sm).

    Lemma conv_fields_raises fs :
      Forall conv_raises fs -> forallb (mappable ei) fs = false -> forallb lits_plain fs = true ->
      forallb keys_text_ok fs = true ->
      (forall c, In c (flat_map field_refs fs) -> exists d x, s2s (cls_val c) PNone = Ok (PTuple [d; x])) ->
      forall n sm, (fold_right Nat.max 0 (map cfuel fs) <= n)%nat ->
      raises (conv (S n) (PList (map field_obj fs)) sm).
    Proof.
      intros HF Hm Hl Hk Hr n sm Hn. rewrite conv_S. unfold convert_to_schema_body.
      cbn [py_is_none bind py_isinstance_any isinstance_i isinstance1 py_listcomp].
      match goal with |- raises (r <- mapM ?F ?l ;; _) =>
        destruct (mapM_raises F (fun e => schema_exn e = true) l) as (e & E & Qe) end.
      - intros x Hx. apply in_map_iff in Hx. destruct Hx as (g & <- & Hg).
        assert (Hfuel : (cfuel g <= n)%nat) by (pose proof (cfuel_in g fs Hg); lia).
        destruct ((mappable ei) g) eqn:Eg.
        + left. eexists.
          rewrite (generated_convert_to_schema g Eg (forallb_In _ _ _ Hk Hg) (refs_ok_in fs g Hr Hg) n sm Hfuel).
          reflexivity.
        + right. rewrite Forall_forall in HF.
          destruct (HF g Hg Eg (forallb_In _ _ _ Hl Hg) (forallb_In _ _ _ Hk Hg) (refs_ok_in fs g Hr Hg) n sm Hfuel)
            as (e & E & Qe).
          exists e. rewrite E. split; [reflexivity|exact Qe].
      - destruct (forallb_false_exists _ _ Hm) as (g & Hg & Eg).
        exists (field_obj g). split; [apply in_map; exact Hg|].
        assert (Hfuel : (cfuel g <= n)%nat) by (pose proof (cfuel_in g fs Hg); lia).
        rewrite Forall_forall in HF.
        destruct (HF g Hg Eg (forallb_In _ _ _ Hl Hg) (forallb_In _ _ _ Hk Hg) (refs_ok_in fs g Hr Hg) n sm Hfuel)
          as (e & E & Qe).
        exists e. rewrite E. reflexivity.
      - exists e. rewrite E. split; [reflexivity|exact Qe].
    Qed.

    Lemma raises_NIE : raises (Raise NotImplementedError).
    Proof. exists NotImplementedError. split; reflexivity. Qed.
    Lemma raises_TE : raises (Raise TypeError).
    Proof. exists TypeError. split; reflexivity. Qed.

    (* every declaration the hand model calls unmappable makes convert_to_schema raise TypeError or
       NotImplementedError (never return) *)
    Theorem generated_convert_to_schema_raises : forall f,
        (mappable ei) f = false -> lits_plain f = true -> keys_text_ok f = true -> refs_ok f ->
        forall fuel sm, (cfuel f <= fuel)%nat ->
        exists e, convert_to_schema s2s defs_store fuel (field_obj f) sm = Raise e /\ schema_exn e = true.
    Proof.
      change (forall f, conv_raises f).
      induction f using field_ind'; intros Hm Hl Hk Hr fuel sm Hn; try discriminate Hm;
        need_fuel fuel Hn; rewrite conv_S, generated_convert_dispatch; cbn [is_classref mapper_of].
      - (* FNone *) apply raises_NIE.
      - (* FAnything *) apply raises_NIE.
      - (* FEnumLit *)
        cbn [lits_plain] in Hl.
        rewrite method_Enum, (generated_EnumMapper_to_schema_lit _ _ _ _ Hl), Hm. apply raises_TE.
      - (* FEnumCls: always mappable *)
        cbn [mappable] in Hm. unfold enum_mappable in Hm. rewrite enum_vals_cls in Hm. discriminate Hm.
      - (* FSeqAny *) cbn [mappable] in Hm. destruct k; [discriminate Hm|]. apply raises_NIE.
      - (* FSeqEach *)
        cbn [mappable] in Hm. destruct k; [|apply raises_NIE]. cbn [is_list_kind andb] in *.
        rewrite method_Array. cbn [field_obj]. rewrite generated_ArrayMapper_to_schema_seq.
        apply raises_bind. apply IHf; [exact Hm | exact Hl | exact Hk | exact Hr | cbn [cfuel] in Hn; lia].
      - (* FSeqPos *)
        cbn [mappable] in Hm. destruct k; [|apply raises_NIE]. cbn [is_list_kind andb] in *.
        need_fuel fuel Hn.
        rewrite method_Array. cbn [field_obj]. rewrite generated_ArrayMapper_to_schema_seq.
        apply raises_bind. apply (conv_fields_raises fs H Hm Hl Hk Hr). cbn [cfuel] in Hn; lia.
      - (* FSet of a field *)
        cbn [mappable] in Hm.
        rewrite method_Array. cbn [field_obj]. rewrite generated_ArrayMapper_to_schema_set.
        apply raises_bind. apply IHf; [exact Hm | exact Hl | exact Hk | exact Hr | cbn [cfuel] in Hn; lia].
      - (* FTuple *)
        cbn [mappable] in Hm. need_fuel fuel Hn.
        rewrite method_Array. cbn [field_obj]. rewrite generated_ArrayMapper_to_schema_tuple.
        apply raises_bind. apply (conv_fields_raises fs H Hm Hl Hk Hr). cbn [cfuel] in Hn; lia.
      - (* FMapKV *)
        rewrite method_Map.
        change (field_obj (FMapKV f1 f2 sz)) with (map_obj (PList [field_obj f1; field_obj f2]) sz).
        destruct (match f1 with FString _ => false | _ => true end) eqn:Ekey.
        + rewrite (generated_MapMapper_to_schema_badkey _ _ f1 _ _ _ Ekey). apply raises_TE.
        + destruct f1 as [| c | | | | | | | | | | | | | | | | |]; try discriminate Ekey.
          cbn [mappable] in Hm. cbn [keys_text_ok] in Hk. apply andb_true_iff in Hk as [Hk1 Hk2].
          cbn [lits_plain andb] in Hl.
          assert (E : raises (conv fuel (field_obj f2) sm)).
          { apply IHf2; [exact Hm | exact Hl | exact Hk2 | exact Hr | cbn [cfuel] in Hn; lia]. }
          unfold key_text_ok in Hk1. apply andb_true_iff in Hk1 as [Hk1 _].
          rewrite generated_MapMapper_to_schema_kv; [apply raises_bind; exact E | exact Hk1 |].
          intros J HJ. destruct E as (e & E & _). rewrite E in HJ. discriminate HJ.
      - (* FAllOf *)
        cbn [mappable] in Hm. need_fuel fuel Hn.
        rewrite method_AllOf.
        change (field_obj (FAllOf fs)) with (fields_obj (s2p "AllOf") (PList (map field_obj fs))).
        rewrite generated_AllOfMapper_to_schema.
        apply raises_bind. apply (conv_fields_raises fs H Hm Hl Hk Hr). cbn [cfuel] in Hn; lia.
      - (* FAnyOf *)
        rewrite method_AnyOf, generated_AnyOfMapper_to_schema.
        assert (G : forallb (mappable ei) fs = false ->
                    raises (J <- conv fuel (PList (map field_obj fs)) sm ;; Ok (PDict [(PStr (s2p "anyOf"), J)]))).
        { intro Hm'. need_fuel fuel Hn. apply raises_bind.
          apply (conv_fields_raises fs H Hm' Hl Hk Hr). cbn [cfuel] in Hn; lia. }
        destruct fs as [|a [|b [|c r]]]; try (apply G; exact Hm).
        + destruct b; try (apply G; exact Hm).
          cbn [mappable] in Hm. inversion H as [|? ? Ha _]; subst.
          apply Ha; [exact Hm | | | | cbn [cfuel map fold_right] in Hn; lia].
          * cbn [lits_plain forallb] in Hl. apply andb_true_iff in Hl as [Hl _]. exact Hl.
          * cbn [keys_text_ok forallb] in Hk. apply andb_true_iff in Hk as [Hk _]. exact Hk.
          * intros x Hx. apply Hr. cbn [field_refs flat_map]. apply in_or_app. left. exact Hx.
        + destruct b; apply G; exact Hm.
      - (* FOneOf *)
        cbn [mappable] in Hm. need_fuel fuel Hn.
        rewrite method_OneOf.
        change (field_obj (FOneOf fs)) with (fields_obj (s2p "OneOf") (PList (map field_obj fs))).
        rewrite generated_OneOfMapper_to_schema.
        apply raises_bind. apply (conv_fields_raises fs H Hm Hl Hk Hr). cbn [cfuel] in Hn; lia.
      - (* FNot *)
        cbn [mappable] in Hm. need_fuel fuel Hn.
        rewrite method_Not.
        change (field_obj (FNot fs)) with (fields_obj (s2p "NotField") (PList (map field_obj fs))).
        rewrite generated_NotFieldMapper_to_schema.
        apply raises_bind. apply (conv_fields_raises fs H Hm Hl Hk Hr). cbn [cfuel] in Hn; lia.
    Qed.
  End Main.
End View.

(* ------------------------------------------------------------------ the side conditions are satisfiable *)

(* pattern 0, and the regex MapMapper builds for a key field String(pattern=<0>, minLength=2) *)
Definition src_ex_pat_text (p : N) : pystr :=
  if N.eqb p 0 then s2p "^[a-z]+$"
  else if N.eqb p (key_pid {| minLength := Some 2; maxLength := None; pattern := Some 0%N |}) then s2p "^[a-z]+${2, }"
  else s2p "a.c".
Definition src_ex_s2s (c sm : pyval) : res pyval := Ok (PTuple [PDict [(PStr (s2p "type"), PStr (s2p "object"))]; PDict []]).
Definition src_ex_store (k v : pyval) : res unit := Ok tt.
(* PrioV: an IntEnum whose Enum fields are declared with serialization_by_value=True *)
Definition src_ex_ei : einfo_t :=
  fun c => if pystr_eqb c (s2p "PrioV") then {| eo_mixin := MixInt; eo_by_value := true |} else no_einfo c.

(* Map[String(pattern=.., minLength=2), Array(items=[PositiveInt(maximum=5), Optional[Enum['a', 3, Color.RED]],
   Enum(values=PrioV, serialization_by_value=True), <class P>], uniqueItems=True)] *)
Definition src_ex_field : field :=
  FMapKV (FString {| minLength := Some 2; maxLength := None; pattern := Some 0%N |})
         (FSeqPos SeqList
                  [FNumber KInteger SPositive {| multiplesOf := None; minimum := None; maximum := Some (NInt 5); exclusiveMaximum := true |};
                   FAnyOf [FEnumLit [PStr (s2p "a"); PNum (NInt 3); PEnum (s2p "Color") (s2p "RED") (PNum (NInt 1))]; FNone];
                   FEnumCls (s2p "PrioV") [(s2p "LOW", PNum (NInt 1)); (s2p "HIGH", PNum (NInt 2))];
                   FClassRef (s2p "P")]
                  {| minItems := Some 1; maxItems := None |} true (Some false))
         no_sizec.

Example side_conditions_satisfiable :
  mappable src_ex_ei src_ex_field = true /\ keys_text_ok src_ex_pat_text src_ex_field = true /\ refs_ok src_ex_s2s src_ex_field /\
  (forall k v, src_ex_store k v = Ok tt) /\ (cfuel src_ex_field <= 6)%nat /\
  convert_to_schema src_ex_s2s src_ex_store 6 (field_obj src_ex_pat_text src_ex_ei src_ex_field) PNone
  = Ok (sch_json src_ex_pat_text (fschema src_ex_ei src_ex_field)).
Proof.
  split; [vm_compute; reflexivity|]. split; [vm_compute; reflexivity|].
  split; [intros c _; eexists; eexists; reflexivity|].
  split; [reflexivity|]. split; [vm_compute; lia|]. vm_compute. reflexivity.
Qed.

(* Array[Map[Integer, String]] (a key field that is not a String), and a Deque: not mappable, and they raise *)
Definition src_ex_unmappable : field :=
  FSeqEach SeqList (FMapKV (FNumber KInteger SAny no_numc) (FString no_strc) no_sizec) no_sizec false.

Example raises_side_conditions_satisfiable :
  mappable no_einfo src_ex_unmappable = false /\ lits_plain src_ex_unmappable = true /\
  keys_text_ok src_ex_pat_text src_ex_unmappable = true /\ refs_ok src_ex_s2s src_ex_unmappable /\
  convert_to_schema src_ex_s2s src_ex_store 4 (field_obj src_ex_pat_text no_einfo src_ex_unmappable) PNone = Raise TypeError /\
  convert_to_schema src_ex_s2s src_ex_store 4 (field_obj src_ex_pat_text no_einfo (FSeqAny SeqDeque no_sizec false)) PNone
  = Raise NotImplementedError.
Proof.
  split; [reflexivity|]. split; [reflexivity|]. split; [reflexivity|].
  split; [intros c []|]. split; vm_compute; reflexivity.
Qed.

(* the disagreement, on a concrete declaration: Map[String(pattern=''), Integer] (pattern id 0 has the empty text).
   The source (and the real library) emit "additionalProperties", the hand model "patternProperties". *)
Definition empty_pat_text (p : N) : pystr := [].
Definition map_empty_key_pattern : field :=
  FMapKV (FString {| minLength := None; maxLength := None; pattern := Some 0%N |}) (FNumber KInteger SAny no_numc) no_sizec.

Example source_vs_hand_model_empty_key_pattern :
  mappable no_einfo map_empty_key_pattern = true /\
  keys_text_ok empty_pat_text map_empty_key_pattern = false /\
  convert_to_schema src_ex_s2s src_ex_store 5 (field_obj empty_pat_text no_einfo map_empty_key_pattern) PNone
  = Ok (PDict [(PStr (s2p "type"), PStr (s2p "object"));
               (PStr (s2p "additionalProperties"), PDict [(PStr (s2p "type"), PStr (s2p "integer"))])]) /\
  sch_json empty_pat_text (fschema no_einfo map_empty_key_pattern)
  = PDict [(PStr (s2p "type"), PStr (s2p "object"));
           (PStr (s2p "patternProperties"), PDict [(PStr [], PDict [(PStr (s2p "type"), PStr (s2p "integer"))])])].
Proof. repeat split; vm_compute; reflexivity. Qed.

Print Assumptions generated_NumberMapper_to_schema.
Print Assumptions generated_IntegerMapper_to_schema.
Print Assumptions generated_StringMapper_to_schema.
Print Assumptions generated_BooleanMapper_to_schema.
Print Assumptions generated_ArrayMapper_to_schema_seq.
Print Assumptions generated_ArrayMapper_to_schema_tuple.
Print Assumptions generated_ArrayMapper_to_schema_set.
Print Assumptions generated_MapMapper_to_schema_any.
Print Assumptions generated_MapMapper_to_schema_kv.
Print Assumptions generated_MapMapper_to_schema_badkey.
Print Assumptions generated_MapMapper_empty_pattern.
Print Assumptions generated_EnumMapper_to_schema_lit.
Print Assumptions generated_EnumMapper_to_schema_cls.
Print Assumptions generated_EnumMapper_to_schema_cls_by_value.
Print Assumptions generated_AllOfMapper_to_schema.
Print Assumptions generated_OneOfMapper_to_schema.
Print Assumptions generated_NotFieldMapper_to_schema.
Print Assumptions generated_AnyOfMapper_to_schema.
Print Assumptions generated_map_class_reference.
Print Assumptions generated_get_mapper.
Print Assumptions generated_convert_dispatch.
Print Assumptions generated_convert_list.
Print Assumptions generated_convert_to_schema.
Print Assumptions generated_convert_to_schema_raises.
Print Assumptions side_conditions_satisfiable.
Print Assumptions raises_side_conditions_satisfiable.
Print Assumptions source_vs_hand_model_empty_key_pattern.
