(* Proofs about the lexical model of Schema/PyLiteral.v:
   for every quoting discipline, [quote_ok] characterises EXACTLY the strings that are read back
   unchanged (round trip for the good ones, failure for every other one), repr always round-trips. *)
From Coq Require Import NArith List Bool Lia Arith.
Import ListNotations.
From TP Require Import Base.PyVal Schema.PyLiteral.
Local Open Scope N_scope.

Ltac break_if_hyp H :=
  match type of H with
  | context [if ?b then _ else _] => destruct b eqn:?
  | context [match ?x with _ => _ end] => destruct x eqn:?
  end.

(* ------------------------------------------------------------------ bounds on one lexical step *)

Lemma hexs_len k : forall r acc v, hexs k r acc = Some v -> (k <= length r)%nat.
Proof.
  induction k as [|k IH]; intros r acc v H; cbn in *; [lia|].
  destruct r as [|h r']; [discriminate|].
  destruct (hex_val h); [|discriminate].
  apply IH in H. cbn [length]. lia.
Qed.

Lemma oct_esc_bounds d r v k : oct_esc d r = EChar v k -> (1 <= k <= S (length r))%nat.
Proof.
  unfold oct_esc. intro H.
  destruct r as [|c2 r2]; [inversion H; cbn; lia|].
  destruct (oct_val c2); [|inversion H; cbn; lia].
  destruct r2 as [|c3 r3]; [inversion H; cbn; lia|].
  destruct (oct_val c3); inversion H; cbn; lia.
Qed.

Lemma oct_esc_char d r : exists v k, oct_esc d r = EChar v k.
Proof.
  unfold oct_esc.
  destruct r as [|c2 r2]; [eauto|].
  destruct (oct_val c2); [|eauto].
  destruct r2 as [|c3 r3]; [eauto|].
  destruct (oct_val c3); eauto.
Qed.

Lemma decode_esc_char r v k : decode_esc r = EChar v k -> (1 <= k <= length r)%nat.
Proof.
  unfold decode_esc. intro H.
  destruct r as [|e r1]; [discriminate|].
  destruct (simple_escape e); [inversion H; cbn; lia|].
  destruct (e =? NL); [discriminate|].
  destruct (e =? CR).
  { destruct r1 as [|x r2]; [discriminate|]. destruct (x =? NL); discriminate. }
  destruct (e =? 120).
  { destruct (hexs 2 r1 0) eqn:Hh; [|discriminate]. apply hexs_len in Hh. inversion H; cbn [length]; lia. }
  destruct (e =? 117).
  { destruct (hexs 4 r1 0) eqn:Hh; [|discriminate]. apply hexs_len in Hh. inversion H; cbn [length]; lia. }
  destruct (e =? 85).
  { destruct (hexs 8 r1 0) eqn:Hh; [|discriminate]. apply hexs_len in Hh.
    destruct (n <? 1114112); [|discriminate]. inversion H; cbn [length]; lia. }
  destruct (e =? 78); [discriminate|].
  destruct (oct_val e); [|discriminate].
  apply oct_esc_bounds in H. cbn [length]. lia.
Qed.

Lemma decode_esc_cont r k : decode_esc r = ECont k -> (1 <= k <= length r)%nat.
Proof.
  unfold decode_esc. intro H.
  destruct r as [|e r1]; [discriminate|].
  destruct (simple_escape e); [discriminate|].
  destruct (e =? NL); [inversion H; cbn; lia|].
  destruct (e =? CR).
  { destruct r1 as [|x r2]; [inversion H; cbn; lia|]. destruct (x =? NL); inversion H; cbn; lia. }
  destruct (e =? 120); [destruct (hexs 2 r1 0); discriminate|].
  destruct (e =? 117); [destruct (hexs 4 r1 0); discriminate|].
  destruct (e =? 85); [destruct (hexs 8 r1 0) as [n|]; [destruct (n <? 1114112)|]; discriminate|].
  destruct (e =? 78); [discriminate|].
  destruct (oct_val e); [|discriminate].
  destruct (oct_esc_char n r1) as [v [k' Ho]]. rewrite Ho in H. discriminate.
Qed.

Lemma keeps_decode e r1 : keeps e = true -> decode_esc (e :: r1) = EKeep.
Proof.
  unfold keeps, decode_esc. intro H.
  destruct (simple_escape e); [discriminate|].
  apply andb_true_iff in H as [H1 H2].
  apply negb_true_iff in H1.
  repeat (apply orb_false_iff in H1 as [H1 ?]).
  repeat match goal with E : (_ =? _) = false |- _ => rewrite E; clear E end.
  destruct (oct_val e); [discriminate|reflexivity].
Qed.

Lemma decode_keeps e r1 : decode_esc (e :: r1) = EKeep -> keeps e = true.
Proof.
  unfold keeps, decode_esc. intro H.
  destruct (simple_escape e); [discriminate|].
  destruct (e =? NL); [discriminate|].
  destruct (e =? CR).
  { destruct r1 as [|x r2]; [discriminate|]. destruct (x =? NL); discriminate. }
  destruct (e =? 120); [destruct (hexs 2 r1 0); discriminate|].
  destruct (e =? 117); [destruct (hexs 4 r1 0); discriminate|].
  destruct (e =? 85); [destruct (hexs 8 r1 0) as [n|]; [destruct (n <? 1114112)|]; discriminate|].
  destruct (e =? 78); [discriminate|].
  destruct (oct_val e) as [n|]; [|reflexivity].
  destruct (oct_esc_char n r1) as [v [k' Ho]]. rewrite Ho in H. discriminate.
Qed.

Lemma raw_char_len t c r v k : raw_char t c r = RChar v k -> (k <= length r)%nat.
Proof.
  unfold raw_char. intro H.
  destruct ((c =? 0) || is_surrogate c); [discriminate|].
  destruct (c =? NL); [destruct t; inversion H; lia|].
  destruct (c =? CR); [|inversion H; lia].
  destruct t; [|discriminate].
  destruct r as [|x r']; [inversion H; lia|].
  destruct (x =? NL); inversion H; cbn; lia.
Qed.

Lemma raw_id_char t c r : raw_id t c = true -> raw_char t c r = RChar c 0.
Proof.
  unfold raw_id, raw_char. intro H.
  apply negb_true_iff in H.
  apply orb_false_iff in H as [H H4]. apply orb_false_iff in H as [H H3].
  rewrite H, H3.
  destruct (c =? NL) eqn:E; [|reflexivity].
  apply N.eqb_eq in E; subst c. cbn in H4. destruct t; [reflexivity|discriminate].
Qed.

Lemma raw_not_id t c r :
  raw_id t c = false ->
  raw_char t c r = RBad \/ (c = CR /\ exists k, raw_char t c r = RChar NL k).
Proof.
  unfold raw_id, raw_char. intro H.
  apply negb_false_iff in H.
  destruct ((c =? 0) || is_surrogate c) eqn:E0; [left; reflexivity|].
  cbn [orb] in H.
  destruct (c =? NL) eqn:E1.
  { apply N.eqb_eq in E1; subst c. cbn in H. destruct t; [discriminate|left; reflexivity]. }
  destruct (c =? CR) eqn:E2.
  { apply N.eqb_eq in E2; subst c. destruct t; [|left; reflexivity].
    right. split; [reflexivity|].
    destruct r as [|x r']; [eauto|]. destruct (x =? NL); eauto. }
  cbn in H. discriminate.
Qed.

Lemma is_close_len t q src :
  is_close t q src = true -> (clen t <= length src)%nat.
Proof.
  unfold is_close, clen. destruct src as [|a r]; [discriminate|].
  destruct t; [|cbn; lia].
  destruct r as [|b [|c r']]; cbn; intro H; try lia;
    rewrite ?andb_false_r in H; discriminate.
Qed.

(* ------------------------------------------------------------------ length: lexing never grows *)

Lemma lexf_len t q : forall fuel src out rest,
    lexf fuel t q src = Some (out, rest) ->
    (length out + length rest + clen t <= length src)%nat.
Proof.
  induction fuel as [|f IH]; intros src out rest H; [discriminate|].
  cbn [lexf] in H.
  destruct src as [|c r]; [discriminate|].
  destruct (is_close t q (c :: r)) eqn:Ec.
  - inversion H; subst. apply is_close_len in Ec.
    rewrite skipn_length. cbn [length] in *. lia.
  - destruct (c =? BS).
    + destruct (decode_esc r) eqn:Ed.
      * unfold push in H.
        destruct (lexf f t q (skipn k r)) as [[o' r']|] eqn:El; [|discriminate].
        inversion H; subst. apply IH in El. rewrite skipn_length in El.
        apply decode_esc_char in Ed. cbn [length]. lia.
      * apply IH in H. rewrite skipn_length in H. apply decode_esc_cont in Ed. cbn [length]. lia.
      * unfold push in H.
        destruct (lexf f t q r) as [[o' r']|] eqn:El; [|discriminate].
        inversion H; subst. apply IH in El. cbn [length]. lia.
      * discriminate.
    + destruct (raw_char t c r) eqn:Er; [discriminate|].
      unfold push in H.
      destruct (lexf f t q (skipn k r)) as [[o' r']|] eqn:El; [|discriminate].
      inversion H; subst. apply IH in El. rewrite skipn_length in El.
      apply raw_char_len in Er. cbn [length]. lia.
Qed.

(* ------------------------------------------------------------------ raw pasting: exact characterisation *)

Lemma is_close_app t q c r rest :
  is_close t q ((c :: r) ++ closer t q ++ rest) = is_close t q ((c :: r) ++ closer t q).
Proof.
  unfold is_close, closer. destruct t; [|reflexivity].
  destruct r as [|b [|d r']]; reflexivity.
Qed.

Lemma clen_closer t q : length (closer t q) = clen t.
Proof. destruct t; reflexivity. Qed.

Lemma lexf_ok t q : forall s fuel rest,
    (length s < fuel)%nat ->
    okb t q (closer t q) s = true ->
    lexf fuel t q (s ++ closer t q ++ rest) = Some (s, rest).
Proof.
  induction s as [|c r IH]; intros fuel rest Hf Hok.
  - destruct fuel as [|f]; [cbn in Hf; lia|].
    destruct t; cbn; rewrite N.eqb_refl; reflexivity.
  - destruct fuel as [|f]; [cbn in Hf; lia|].
    cbn [okb] in Hok.
    apply andb_true_iff in Hok as [Hok Hr]. apply andb_true_iff in Hok as [Hc Hm].
    apply negb_true_iff in Hc.
    change (lexf (S f) t q ((c :: r) ++ closer t q ++ rest))
      with (if is_close t q ((c :: r) ++ closer t q ++ rest)
            then Some ([], skipn (clen t) ((c :: r) ++ closer t q ++ rest))
            else if c =? BS then
                   match decode_esc (r ++ closer t q ++ rest) with
                   | EChar v k => push v (lexf f t q (skipn k (r ++ closer t q ++ rest)))
                   | ECont k => lexf f t q (skipn k (r ++ closer t q ++ rest))
                   | EKeep => push BS (lexf f t q (r ++ closer t q ++ rest))
                   | EBad => None
                   end
                 else match raw_char t c (r ++ closer t q ++ rest) with
                      | RBad => None
                      | RChar v k => push v (lexf f t q (skipn k (r ++ closer t q ++ rest)))
                      end).
    rewrite is_close_app, Hc.
    assert (Hf' : (length r < f)%nat) by (cbn in Hf; lia).
    destruct (c =? BS) eqn:Eb.
    + apply N.eqb_eq in Eb; subst c.
      destruct r as [|e r1]; [discriminate|].
      cbn [app]. rewrite (keeps_decode e _ Hm).
      change (e :: r1 ++ closer t q ++ rest) with ((e :: r1) ++ closer t q ++ rest).
      rewrite (IH f rest Hf' Hr). reflexivity.
    + rewrite (raw_id_char t c _ Hm). cbn [skipn].
      rewrite (IH f rest Hf' Hr). reflexivity.
Qed.

Lemma lexf_break t q : (q = SQ \/ q = DQ) -> forall s fuel,
    okb t q (closer t q) s = false ->
    lexf fuel t q (s ++ closer t q) <> Some (s, []).
Proof.
  intros Hq. induction s as [|c r IH]; intros fuel Hok; [discriminate|].
  destruct fuel as [|f]; [discriminate|].
  cbn [okb] in Hok.
  change (lexf (S f) t q ((c :: r) ++ closer t q))
    with (if is_close t q ((c :: r) ++ closer t q)
          then Some ([], skipn (clen t) ((c :: r) ++ closer t q))
          else if c =? BS then
                 match decode_esc (r ++ closer t q) with
                 | EChar v k => push v (lexf f t q (skipn k (r ++ closer t q)))
                 | ECont k => lexf f t q (skipn k (r ++ closer t q))
                 | EKeep => push BS (lexf f t q (r ++ closer t q))
                 | EBad => None
                 end
               else match raw_char t c (r ++ closer t q) with
                    | RBad => None
                    | RChar v k => push v (lexf f t q (skipn k (r ++ closer t q)))
                    end).
  destruct (is_close t q ((c :: r) ++ closer t q)) eqn:Ec; [discriminate|].
  cbn [negb andb] in Hok.
  destruct (c =? BS) eqn:Eb.
  - destruct (decode_esc (r ++ closer t q)) eqn:Ed.
    + intro H. unfold push in H.
      destruct (lexf f t q (skipn k (r ++ closer t q))) as [[o' r']|] eqn:El; [|discriminate].
      inversion H; subst. apply lexf_len in El.
      rewrite skipn_length, app_length, clen_closer in El.
      apply decode_esc_char in Ed. rewrite app_length, clen_closer in Ed.
      cbn [length] in El. lia.
    + intro H. apply lexf_len in H.
      rewrite skipn_length, app_length, clen_closer in H.
      apply decode_esc_cont in Ed. rewrite app_length, clen_closer in Ed.
      cbn [length] in H. lia.
    + destruct r as [|e r1].
      { exfalso. destruct Hq as [-> | ->]; destruct t; cbn in Ed; discriminate. }
      cbn [app] in Ed. apply decode_keeps in Ed. rewrite Ed in Hok. cbn [andb] in Hok.
      intro H. unfold push in H.
      destruct (lexf f t q ((e :: r1) ++ closer t q)) as [[o' r']|] eqn:El; [|discriminate].
      inversion H; subst. exact (IH f Hok El).
    + discriminate.
  - destruct (raw_id t c) eqn:Eid.
    + cbn [andb] in Hok. rewrite (raw_id_char t c _ Eid). cbn [skipn].
      intro H. unfold push in H.
      destruct (lexf f t q (r ++ closer t q)) as [[o' r']|] eqn:El; [|discriminate].
      inversion H; subst. exact (IH f Hok El).
    + destruct (raw_not_id t c (r ++ closer t q) Eid) as [Hb | [Hc [k Hk]]].
      * rewrite Hb. discriminate.
      * rewrite Hk. subst c. intro H. unfold push in H.
        destruct (lexf f t q (skipn k (r ++ closer t q))) as [[o' r']|]; [|discriminate].
        inversion H.
Qed.

(* ------------------------------------------------------------------ hex digits *)

Lemma hex_digit_val d : d < 16 -> hex_val (hex_digit d) = Some d.
Proof.
  intro H.
  assert (D : d = 0 \/ d = 1 \/ d = 2 \/ d = 3 \/ d = 4 \/ d = 5 \/ d = 6 \/ d = 7 \/ d = 8 \/ d = 9
              \/ d = 10 \/ d = 11 \/ d = 12 \/ d = 13 \/ d = 14 \/ d = 15) by lia.
  repeat (destruct D as [D | D]; [subst d; reflexivity|]). subst d; reflexivity.
Qed.

Fixpoint pow16 (k : nat) : N := match k with O => 1 | S k' => 16 * pow16 k' end.

Lemma hexs_hexN k : forall j c l acc,
    c < pow16 k -> hexs (k + j) (hexN k c ++ l) acc = hexs j l (acc * pow16 k + c).
Proof.
  induction k as [|k IH]; intros j c l acc H.
  - cbn [pow16] in H. cbn [hexN app Nat.add pow16]. f_equal. lia.
  - cbn [hexN]. rewrite <- app_assoc. cbn [app].
    replace (S k + j)%nat with (k + S j)%nat by lia.
    assert (Hd : c / 16 < pow16 k).
    { apply N.div_lt_upper_bound; [lia|]. exact H. }
    rewrite (IH (S j) (c / 16) _ acc Hd).
    cbn [hexs]. rewrite hex_digit_val by (apply N.mod_lt; lia).
    f_equal. cbn [pow16].
    pose proof (N.div_mod c 16). lia.
Qed.

Lemma hexs_hexN0 k c l : c < pow16 k -> hexs k (hexN k c ++ l) 0 = Some c.
Proof.
  intro H. pose proof (hexs_hexN k 0 c l 0 H) as X.
  rewrite Nat.add_0_r in X. rewrite X. cbn [hexs]. f_equal; lia.
Qed.

Lemma decode_x c l : c < 256 -> decode_esc (120 :: hexN 2 c ++ l) = EChar c 3.
Proof.
  intro H. unfold decode_esc.
  change (simple_escape 120) with (@None N).
  change (120 =? NL) with false. change (120 =? CR) with false. change (120 =? 120) with true.
  cbv iota. rewrite (hexs_hexN0 2 c l) by exact H. reflexivity.
Qed.

Lemma decode_u c l : c < 65536 -> decode_esc (117 :: hexN 4 c ++ l) = EChar c 5.
Proof.
  intro H. unfold decode_esc.
  change (simple_escape 117) with (@None N).
  change (117 =? NL) with false. change (117 =? CR) with false. change (117 =? 120) with false.
  change (117 =? 117) with true.
  cbv iota. rewrite (hexs_hexN0 4 c l) by exact H. reflexivity.
Qed.

Lemma decode_U c l : c < 1114112 -> decode_esc (85 :: hexN 8 c ++ l) = EChar c 9.
Proof.
  intro H. unfold decode_esc.
  change (simple_escape 85) with (@None N).
  change (85 =? NL) with false. change (85 =? CR) with false. change (85 =? 120) with false.
  change (85 =? 117) with false. change (85 =? 85) with true.
  cbv iota. rewrite (hexs_hexN0 8 c l) by (change (pow16 8) with 4294967296; lia).
  apply N.ltb_lt in H. rewrite H. reflexivity.
Qed.

Lemma hexN_len k : forall c, length (hexN k c) = k.
Proof. induction k as [|k IH]; intro c; cbn [hexN]; [reflexivity|]. rewrite app_length, IH. cbn. lia. Qed.

Lemma skipn_hex k c l : skipn k (hexN k c ++ l) = l.
Proof.
  rewrite skipn_app, hexN_len, Nat.sub_diag. cbn [skipn].
  rewrite skipn_all2 by (rewrite hexN_len; lia). reflexivity.
Qed.

(* ------------------------------------------------------------------ repr always round-trips *)

Lemma raw_char_plain t c r :
  c <> 0 -> is_surrogate c = false -> c <> NL -> c <> CR -> raw_char t c r = RChar c 0.
Proof.
  intros H0 Hs Hn Hc. unfold raw_char.
  apply N.eqb_neq in H0, Hn, Hc. rewrite H0, Hs, Hn, Hc. reflexivity.
Qed.

Lemma lexf_step_esc f q r v k :
  (q = SQ \/ q = DQ) -> decode_esc r = EChar v k ->
  lexf (S f) false q (BS :: r) = push v (lexf f false q (skipn k r)).
Proof.
  intros Hq Hd. cbn [lexf].
  assert (Hc : is_close false q (BS :: r) = false) by (destruct Hq as [-> | ->]; reflexivity).
  rewrite Hc. change (BS =? BS) with true. cbv iota. rewrite Hd. reflexivity.
Qed.

Lemma lexf_step_raw f q c r :
  (c =? q) = false -> (c =? BS) = false ->
  c <> 0 -> is_surrogate c = false -> c <> NL -> c <> CR ->
  lexf (S f) false q (c :: r) = push c (lexf f false q r).
Proof.
  intros Hq Hb H0 Hs Hn Hc. cbn [lexf is_close]. rewrite Hq, Hb. cbn [andb].
  rewrite (raw_char_plain false c r H0 Hs Hn Hc). reflexivity.
Qed.

Section ReprProofs.
  Variable printable : N -> bool.

  Lemma lexf_repr_char q c f rest :
    (q = SQ \/ q = DQ) -> valid_char c = true ->
    lexf (S f) false q (repr_char printable q c ++ rest) = push c (lexf f false q rest).
  Proof.
    intros Hq Hv. unfold valid_char in Hv. apply N.ltb_lt in Hv.
    unfold repr_char.
    destruct (c =? BS) eqn:E1.
    { apply N.eqb_eq in E1; subst c. cbn [app]. rewrite (lexf_step_esc f q _ BS 1 Hq); reflexivity. }
    destruct (c =? q) eqn:E2.
    { apply N.eqb_eq in E2; subst c. cbn [app].
      rewrite (lexf_step_esc f q _ q 1 Hq); [reflexivity|]. destruct Hq as [-> | ->]; reflexivity. }
    destruct (c =? TAB) eqn:E3.
    { apply N.eqb_eq in E3; subst c. cbn [app]. rewrite (lexf_step_esc f q _ TAB 1 Hq); reflexivity. }
    destruct (c =? NL) eqn:E4.
    { apply N.eqb_eq in E4; subst c. cbn [app]. rewrite (lexf_step_esc f q _ NL 1 Hq); reflexivity. }
    destruct (c =? CR) eqn:E5.
    { apply N.eqb_eq in E5; subst c. cbn [app]. rewrite (lexf_step_esc f q _ CR 1 Hq); reflexivity. }
    apply N.eqb_neq in E4, E5.
    destruct ((c <? 32) || (c =? 127)) eqn:E6.
    { cbn [app].
      assert (Hc : c < 256).
      { apply orb_true_iff in E6 as [E6 | E6]; [apply N.ltb_lt in E6 | apply N.eqb_eq in E6]; lia. }
      rewrite (lexf_step_esc f q _ c 3 Hq) by (apply decode_x; exact Hc).
      change (skipn 3 (120 :: hexN 2 c ++ rest)) with (skipn 2 (hexN 2 c ++ rest)).
      rewrite skipn_hex. reflexivity. }
    apply orb_false_iff in E6 as [E6 E7]. apply N.ltb_ge in E6. apply N.eqb_neq in E7.
    destruct (c <? 127) eqn:E8.
    { apply N.ltb_lt in E8. cbn [app].
      apply lexf_step_raw; try assumption; try lia.
      unfold is_surrogate. apply andb_false_iff. left. apply N.leb_gt. lia. }
    apply N.ltb_ge in E8.
    destruct (printable c && negb (is_surrogate c)) eqn:E9.
    { apply andb_true_iff in E9 as [_ E9]. apply negb_true_iff in E9. cbn [app].
      apply lexf_step_raw; try assumption; lia. }
    destruct (c <? 256) eqn:E10.
    { apply N.ltb_lt in E10. cbn [app].
      rewrite (lexf_step_esc f q _ c 3 Hq) by (apply decode_x; exact E10).
      change (skipn 3 (120 :: hexN 2 c ++ rest)) with (skipn 2 (hexN 2 c ++ rest)).
      rewrite skipn_hex. reflexivity. }
    destruct (c <? 65536) eqn:E11.
    { apply N.ltb_lt in E11. cbn [app].
      rewrite (lexf_step_esc f q _ c 5 Hq) by (apply decode_u; exact E11).
      change (skipn 5 (117 :: hexN 4 c ++ rest)) with (skipn 4 (hexN 4 c ++ rest)).
      rewrite skipn_hex. reflexivity. }
    cbn [app].
    rewrite (lexf_step_esc f q _ c 9 Hq) by (apply decode_U; exact Hv).
    change (skipn 9 (85 :: hexN 8 c ++ rest)) with (skipn 8 (hexN 8 c ++ rest)).
    rewrite skipn_hex. reflexivity.
  Qed.

  Lemma repr_char_head q c : (q = SQ \/ q = DQ) ->
    exists a tl, repr_char printable q c = a :: tl /\ (a =? q) = false.
  Proof.
    intro Hq. unfold repr_char.
    assert (Hb : (BS =? q) = false) by (destruct Hq as [-> | ->]; reflexivity).
    destruct (c =? BS); [eauto|].
    destruct (c =? q) eqn:E2; [eauto|].
    destruct (c =? TAB); [eauto|].
    destruct (c =? NL); [eauto|].
    destruct (c =? CR); [eauto|].
    destruct ((c <? 32) || (c =? 127)); [eauto|].
    destruct (c <? 127); [eauto|].
    destruct (printable c && negb (is_surrogate c)); [eauto|].
    destruct (c <? 256); [eauto|].
    destruct (c <? 65536); eauto.
  Qed.

  Lemma repr_body_len q : (q = SQ \/ q = DQ) -> forall s,
    (length s <= length (flat_map (repr_char printable q) s))%nat.
  Proof.
    intros Hq. induction s as [|c r IH]; [cbn; lia|].
    cbn [flat_map]. rewrite app_length.
    destruct (repr_char_head q c Hq) as [a [tl [E _]]]. rewrite E. cbn [length]. lia.
  Qed.

  Lemma lexf_repr_body q : (q = SQ \/ q = DQ) -> forall s fuel rest,
      valid_str s = true -> (length s < fuel)%nat ->
      lexf fuel false q (flat_map (repr_char printable q) s ++ q :: rest) = Some (s, rest).
  Proof.
    intros Hq. induction s as [|c r IH]; intros fuel rest Hv Hf.
    - destruct fuel as [|f]; [cbn in Hf; lia|]. cbn. rewrite N.eqb_refl. reflexivity.
    - destruct fuel as [|f]; [cbn in Hf; lia|].
      cbn [valid_str forallb] in Hv. apply andb_true_iff in Hv as [Hc Hr].
      cbn [flat_map]. rewrite <- app_assoc.
      rewrite (lexf_repr_char q c f _ Hq Hc).
      rewrite IH; [reflexivity | exact Hr | cbn in Hf; lia].
  Qed.

  Lemma repr_quote_cases s : repr_quote s = SQ \/ repr_quote s = DQ.
  Proof. unfold repr_quote. destruct (existsb (N.eqb SQ) s && negb (existsb (N.eqb DQ) s)); auto. Qed.

  Lemma starts2_head q a tl : (a =? q) = false -> starts2 q (a :: tl) = false.
  Proof. intro H. unfold starts2. destruct tl; [reflexivity|]. rewrite H. reflexivity. Qed.

  Lemma lex_repr s rest :
    valid_str s = true ->
    match rest with c :: _ => (c =? SQ) || (c =? DQ) = false | [] => True end ->
    lex_lit (emit printable Repr s ++ rest) = Some (s, rest).
  Proof.
    intros Hv Hrest. cbn [emit].
    set (q := repr_quote s).
    assert (Hq : q = SQ \/ q = DQ) by apply repr_quote_cases.
    change ((q :: flat_map (repr_char printable q) s ++ [q]) ++ rest)
      with (q :: (flat_map (repr_char printable q) s ++ [q]) ++ rest).
    rewrite <- app_assoc. cbn [app].
    unfold lex_lit.
    assert (Hqq : (q =? SQ) || (q =? DQ) = true) by (destruct Hq as [-> | ->]; reflexivity).
    rewrite Hqq.
    assert (Hs : starts2 q (flat_map (repr_char printable q) s ++ q :: rest) = false).
    { destruct s as [|c r].
      - cbn [flat_map app]. unfold starts2. destruct rest as [|x rest']; [reflexivity|].
        rewrite N.eqb_refl. cbn [andb].
        apply orb_false_iff in Hrest as [H1 H2]. destruct Hq as [-> | ->]; assumption.
      - cbn [flat_map]. destruct (repr_char_head q c Hq) as [a [tl [E Ha]]]. rewrite E.
        cbn [app]. apply starts2_head. exact Ha. }
    rewrite Hs.
    apply lexf_repr_body; [exact Hq | exact Hv |].
    rewrite app_length. pose proof (repr_body_len q Hq s). cbn [length]. lia.
  Qed.
End ReprProofs.

(* ------------------------------------------------------------------ raw disciplines at the literal level *)

Lemma okb_head_not_close t q cl c r : okb t q cl (c :: r) = true -> is_close t q ((c :: r) ++ cl) = false.
Proof.
  cbn [okb]. intro H. apply andb_true_iff in H as [H _]. apply andb_true_iff in H as [H _].
  apply negb_true_iff in H. exact H.
Qed.

Definition no_quote_next (rest : list N) : Prop :=
  match rest with c :: _ => (c =? SQ) || (c =? DQ) = false | [] => True end.

Lemma lex_wrapval s rest :
  okb false SQ [SQ] s = true -> no_quote_next rest ->
  lex_lit ((SQ :: s ++ [SQ]) ++ rest) = Some (s, rest).
Proof.
  intros Hok Hrest.
  change ((SQ :: s ++ [SQ]) ++ rest) with (SQ :: (s ++ [SQ]) ++ rest).
  rewrite <- app_assoc.
  unfold lex_lit. change ((SQ =? SQ) || (SQ =? DQ)) with true. cbv iota.
  assert (Hs : starts2 SQ (s ++ [SQ] ++ rest) = false).
  { destruct s as [|c r].
    - cbn [app]. unfold starts2. destruct rest as [|x rest']; [reflexivity|].
      cbn [no_quote_next] in Hrest. apply orb_false_iff in Hrest as [H1 _].
      rewrite H1. reflexivity.
    - apply okb_head_not_close in Hok. cbn [app is_close] in Hok.
      rewrite andb_true_r in Hok. cbn [app]. apply starts2_head. exact Hok. }
  rewrite Hs.
  apply (lexf_ok false SQ s _ rest); [|exact Hok].
  rewrite !app_length. cbn [length]. lia.
Qed.

Lemma lex_wrapval_break s :
  okb false SQ [SQ] s = false -> lex_lit (SQ :: s ++ [SQ]) <> Some (s, []).
Proof.
  intros Hok. unfold lex_lit. change ((SQ =? SQ) || (SQ =? DQ)) with true. cbv iota.
  destruct (starts2 SQ (s ++ [SQ])).
  - intro H. apply lexf_len in H. rewrite skipn_length, app_length in H. cbn [length clen] in H. lia.
  - apply (lexf_break false SQ (or_introl eq_refl) s _ Hok).
Qed.

Lemma lex_triple s rest :
  okb true DQ [DQ; DQ; DQ] s = true ->
  lex_lit ((DQ :: DQ :: DQ :: s ++ [DQ; DQ; DQ]) ++ rest) = Some (s, rest).
Proof.
  intros Hok.
  change ((DQ :: DQ :: DQ :: s ++ [DQ; DQ; DQ]) ++ rest)
    with (DQ :: DQ :: DQ :: (s ++ [DQ; DQ; DQ]) ++ rest).
  rewrite <- app_assoc.
  unfold lex_lit. change ((DQ =? SQ) || (DQ =? DQ)) with true. cbv iota.
  change (starts2 DQ (DQ :: DQ :: s ++ [DQ; DQ; DQ] ++ rest)) with true. cbv iota.
  cbn [skipn].
  apply (lexf_ok true DQ s _ rest); [|exact Hok].
  cbn [length]. rewrite app_length. lia.
Qed.

Lemma lex_triple_break s :
  okb true DQ [DQ; DQ; DQ] s = false ->
  lex_lit (DQ :: DQ :: DQ :: s ++ [DQ; DQ; DQ]) <> Some (s, []).
Proof.
  intros Hok. unfold lex_lit. change ((DQ =? SQ) || (DQ =? DQ)) with true. cbv iota.
  change (starts2 DQ (DQ :: DQ :: s ++ [DQ; DQ; DQ])) with true. cbv iota. cbn [skipn].
  apply (lexf_break true DQ (or_intror eq_refl) s _ Hok).
Qed.

(* ------------------------------------------------------------------ names *)

Lemma span_ident_all s rest :
  forallb ident_char s = true ->
  match rest with c :: _ => ident_char c = false | [] => True end ->
  span_ident (s ++ rest) = (s, rest).
Proof.
  induction s as [|c r IH]; intros Hs Hr.
  - cbn [app]. destruct rest as [|x rest']; [reflexivity|]. cbn [span_ident]. rewrite Hr. reflexivity.
  - cbn [forallb] in Hs. apply andb_true_iff in Hs as [Hc Hs].
    cbn [app span_ident]. rewrite Hc, (IH Hs Hr). reflexivity.
Qed.

Lemma span_ident_spec src : forall a b,
    span_ident src = (a, b) -> a ++ b = src /\ forallb ident_char a = true.
Proof.
  induction src as [|c r IH]; intros a b H.
  - inversion H; subst. split; reflexivity.
  - cbn [span_ident] in H. destruct (ident_char c) eqn:Ec.
    + destruct (span_ident r) as [a' b'] eqn:E. inversion H; subst.
      destruct (IH a' b eq_refl) as [H1 H2]. split; [cbn; rewrite H1; reflexivity|].
      cbn [forallb]. rewrite Ec, H2. reflexivity.
    + inversion H; subst. split; reflexivity.
Qed.

Lemma lex_ident_ok kw s rest :
  is_ident kw s = true ->
  match rest with c :: _ => ident_char c = false | [] => True end ->
  lex_ident kw (s ++ rest) = Some (s, rest).
Proof.
  intros Hi Hr. unfold is_ident in Hi. destruct s as [|c r]; [discriminate|].
  apply andb_true_iff in Hi as [Hi Hk]. apply andb_true_iff in Hi as [Hc Hs].
  apply negb_true_iff in Hk.
  unfold lex_ident. cbn [app]. rewrite Hc.
  change (c :: r ++ rest) with ((c :: r) ++ rest).
  rewrite span_ident_all; [rewrite Hk; reflexivity | | exact Hr].
  cbn [forallb]. unfold ident_char at 1. rewrite Hc, Hs. reflexivity.
Qed.

Lemma lex_ident_break kw s : is_ident kw s = false -> lex_ident kw s <> Some (s, []).
Proof.
  intro Hi. unfold lex_ident. destruct s as [|c r]; [discriminate|].
  unfold is_ident in Hi.
  destruct (ident_start c) eqn:Hc; [|discriminate].
  destruct (span_ident (c :: r)) as [a b] eqn:E.
  destruct (str_in a kw) eqn:Hk; [discriminate|].
  intro H. inversion H; subst a b.
  apply span_ident_spec in E as [_ E]. cbn [forallb] in E. apply andb_true_iff in E as [_ E].
  rewrite E, Hk in Hi. discriminate.
Qed.

(* ------------------------------------------------------------------ the two halves, all disciplines *)

Theorem lex_roundtrip printable kw q s :
  valid_str s = true -> quote_ok kw q s = true ->
  lex_tok kw q (emit printable q s) = Some (s, []).
Proof.
  intros Hv Hok. destruct q; cbn [quote_ok lex_tok emit] in *.
  - rewrite <- (app_nil_r (repr_quote s :: _)). apply lex_repr; [exact Hv | exact I].
  - rewrite <- (app_nil_r (SQ :: _)). apply lex_wrapval; [exact Hok | exact I].
  - rewrite <- (app_nil_r (SQ :: _)). apply lex_wrapval; [exact Hok | exact I].
  - rewrite <- (app_nil_r (DQ :: _)). apply lex_triple; exact Hok.
  - rewrite <- (app_nil_r s) at 1. apply lex_ident_ok; [exact Hok | exact I].
  - discriminate.
Qed.

Theorem lex_break printable kw q s :
  quote_ok kw q s = false ->
  lex_tok kw q (emit printable q s) <> Some (s, []).
Proof.
  intros Hok. destruct q; cbn [quote_ok lex_tok emit] in *.
  - discriminate.
  - apply lex_wrapval_break; exact Hok.
  - apply lex_wrapval_break; exact Hok.
  - apply lex_triple_break; exact Hok.
  - apply lex_ident_break; exact Hok.
  - discriminate.
Qed.

(* ------------------------------------------------------------------ the unsafe character sets, spelled out *)

Lemma okb_app_r t q cl a b : okb t q cl (a ++ b) = true -> okb t q cl b = true.
Proof.
  induction a as [|c a IH]; intro H; [exact H|].
  cbn [app okb] in H. apply andb_true_iff in H as [_ H]. exact (IH H).
Qed.

Lemma okb_suffix_false t q cl a b : okb t q cl b = false -> okb t q cl (a ++ b) = false.
Proof.
  intro H. destruct (okb t q cl (a ++ b)) eqn:E; [|reflexivity].
  apply okb_app_r in E. congruence.
Qed.

(* a character that does not stand for itself anywhere in s breaks the literal *)
Lemma okb_bad_char t q cl s c :
  In c s -> c <> BS -> raw_id t c = false -> okb t q cl s = false.
Proof.
  intros Hin Hb Hr. apply in_split in Hin as [a [b ->]].
  apply okb_suffix_false. cbn [okb].
  apply N.eqb_neq in Hb. rewrite Hb, Hr.
  rewrite andb_false_r. reflexivity.
Qed.

(* the quote character anywhere in s ends a short literal early *)
Lemma okb_short_quote q cl s : In q s -> okb false q cl s = false.
Proof.
  intros Hin. apply in_split in Hin as [a [b ->]].
  apply okb_suffix_false. cbn [okb app is_close]. rewrite N.eqb_refl. reflexivity.
Qed.

(* a trailing backslash swallows the closing quote *)
Lemma okb_bs_end t q cl a : okb t q cl (a ++ [BS]) = false.
Proof.
  apply okb_suffix_false. cbn [okb]. change (BS =? BS) with true. cbv iota.
  rewrite andb_false_r. reflexivity.
Qed.

(* a backslash followed by an escape character is read as the escape *)
Lemma okb_bs_escape t q cl a e b : keeps e = false -> okb t q cl (a ++ BS :: e :: b) = false.
Proof.
  intro H. apply okb_suffix_false. cbn [okb]. change (BS =? BS) with true. cbv iota.
  rewrite H, andb_false_r. reflexivity.
Qed.

(* three double quotes inside the text, or one at its end, close a triple-quoted literal early *)
Lemma okb_triple_inside a b : okb true DQ [DQ; DQ; DQ] (a ++ DQ :: DQ :: DQ :: b) = false.
Proof. apply okb_suffix_false. reflexivity. Qed.

Lemma okb_triple_end a : okb true DQ [DQ; DQ; DQ] (a ++ [DQ]) = false.
Proof. apply okb_suffix_false. reflexivity. Qed.

(* conversely: text made of plain characters only is always emitted correctly *)
Lemma plain_char_facts c :
  plain_char c = true ->
  (c =? SQ) = false /\ (c =? DQ) = false /\ (c =? BS) = false /\ raw_id false c = true.
Proof.
  unfold plain_char, raw_id. intro H. apply negb_true_iff in H.
  repeat (apply orb_false_iff in H as [H ?]).
  repeat split; try assumption.
  apply negb_true_iff.
  repeat match goal with E : _ = false |- _ => rewrite E; clear E end.
  rewrite andb_true_r. cbn [orb].
  repeat match goal with E : _ = false |- _ => rewrite E; clear E end. reflexivity.
Qed.

Lemma raw_id_mono c : raw_id false c = true -> raw_id true c = true.
Proof.
  unfold raw_id. intro H. apply negb_true_iff in H. apply negb_true_iff.
  repeat (apply orb_false_iff in H as [H ?]).
  rewrite H. cbn [orb].
  repeat match goal with E : _ = false |- _ => rewrite E; clear E end.
  rewrite andb_false_r. reflexivity.
Qed.

Lemma okb_plain t q cl s :
  (q = SQ \/ q = DQ) -> forallb plain_char s = true -> okb t q cl s = true.
Proof.
  intros Hq. induction s as [|c r IH]; intro H; [reflexivity|].
  cbn [forallb] in H. apply andb_true_iff in H as [Hc Hr].
  destruct (plain_char_facts c Hc) as [H1 [H2 [H3 H4]]].
  cbn [okb app is_close].
  assert (Hcq : (c =? q) = false) by (destruct Hq as [-> | ->]; assumption).
  rewrite Hcq, H3. cbn [andb negb].
  rewrite (IH Hr), andb_true_r.
  destruct t; [apply raw_id_mono|]; exact H4.
Qed.
