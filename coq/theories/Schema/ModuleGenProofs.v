(* Proofs about Schema/ModuleGen.v: when does a generated module execute without a NameError
   (exact characterisation: every reference goes to the base namespace or strictly backwards), what
   may be left out of it (exactly the reference-closed selections), recursion can never work, and the
   lexical theorem of Schema/CodeGenProofs.v lifted from one class to a whole module. *)
From Coq Require Import NArith List Bool Lia.
Import ListNotations.
From TP Require Import Base.PyVal Schema.PyLiteral Schema.PyLiteralProofs Schema.CodeGen
     Schema.CodeGenProofs Schema.ModuleGen.
Local Open Scope N_scope.

Lemma str_in_In s l : str_in s l = true <-> In s l.
Proof.
  unfold str_in. rewrite existsb_exists. split.
  - intros [x [Hx E]]. apply pystr_eqb_spec in E. subst. exact Hx.
  - intro H. exists s. split; [exact H | apply pystr_eqb_refl].
Qed.

Lemma str_in_cons x n l : str_in x (n :: l) = pystr_eqb x n || str_in x l.
Proof. reflexivity. Qed.

Lemma forallb_ext_in {A} (f g : A -> bool) l :
  (forall x, In x l -> f x = g x) -> forallb f l = forallb g l.
Proof.
  induction l as [|a l IH]; intro H; [reflexivity|].
  cbn [forallb]. rewrite (H a (or_introl eq_refl)). rewrite IH; [reflexivity|].
  intros x Hx. apply H. right. exact Hx.
Qed.

Lemma existsb_rev_eq {A} (f : A -> bool) l : existsb f (rev l) = existsb f l.
Proof.
  induction l as [|a l IH]; [reflexivity|].
  cbn [rev existsb]. rewrite existsb_app, IH. cbn [existsb]. rewrite orb_false_r, orb_comm. reflexivity.
Qed.

(* only membership in the bound set matters *)
Lemma names_ok_ext cs : forall b b',
    (forall x, str_in x b = str_in x b') -> names_ok b cs = names_ok b' cs.
Proof.
  induction cs as [|c cs IH]; intros b b' H; [reflexivity|].
  cbn [names_ok]. rewrite (forallb_ext_in (fun r => str_in r b) (fun r => str_in r b') _ (fun x _ => H x)).
  f_equal. apply IH. intro x. rewrite !str_in_cons, H. reflexivity.
Qed.

Lemma names_ok_app l1 : forall b l2,
    names_ok b (l1 ++ l2) = names_ok b l1 && names_ok (rev (map c_name l1) ++ b) l2.
Proof.
  induction l1 as [|c l1 IH]; intros b l2; [reflexivity|].
  cbn [app names_ok map rev]. rewrite IH, andb_assoc. f_equal.
  apply names_ok_ext. intro x. unfold str_in. rewrite <- !app_assoc, !existsb_app. cbn [existsb app].
  rewrite orb_false_r. reflexivity.
Qed.

(* ---------------------------------------------------------------- exact characterisation *)

(* every reference of the i-th class statement is in the base namespace or names a class statement at
   an index j < i *)
Definition backward (base : list pystr) (cs : list jclass) : Prop :=
  forall i c r, nth_error cs i = Some c -> In r (class_refs c) ->
                In r base \/ exists j d, (j < i)%nat /\ nth_error cs j = Some d /\ c_name d = r.

Lemma names_ok_backward_gen cs : forall b base pre,
    (forall x, In x b <-> In x base \/ In x (map c_name pre)) ->
    (names_ok b cs = true <->
     forall i c r, nth_error cs i = Some c -> In r (class_refs c) ->
                   In r base \/ exists j d, (j < List.length pre + i)%nat /\ nth_error (pre ++ cs) j = Some d /\ c_name d = r).
Proof.
  induction cs as [|c cs IH]; intros b base pre Hb.
  - split; [|reflexivity]. intros _ i c r Hn. destruct i; discriminate.
  - cbn [names_ok]. rewrite andb_true_iff, forallb_forall.
    specialize (IH (c_name c :: b) base (pre ++ [c])).
    assert (Hb' : forall x, In x (c_name c :: b) <-> In x base \/ In x (map c_name (pre ++ [c]))).
    { intro x. rewrite map_app, in_app_iff. cbn [In map]. rewrite Hb. tauto. }
    specialize (IH Hb'). rewrite IH. clear IH Hb'. split.
    + intros [H0 HS] i c' r Hn Hr. destruct i as [|i].
      * cbn in Hn. injection Hn as <-. specialize (H0 r Hr). apply str_in_In in H0. apply Hb in H0.
        destruct H0 as [H0|H0]; [left; exact H0|right].
        apply in_map_iff in H0 as [d [Hd Hin]]. apply In_nth_error in Hin as [j Hj].
        exists j, d. repeat split; [|rewrite nth_error_app1; [exact Hj|]|exact Hd].
        all: assert (j < List.length pre)%nat by (apply nth_error_Some; congruence); lia.
      * cbn in Hn. specialize (HS i c' r Hn Hr). destruct HS as [HS|[j [d [Hlt [Hj Hd]]]]]; [left; exact HS|right].
        exists j, d. rewrite app_length in Hlt. cbn in Hlt. rewrite <- app_assoc in Hj. cbn in Hj.
        repeat split; [lia | exact Hj | exact Hd].
    + intro H. split.
      * intros r Hr. apply str_in_In, Hb. specialize (H 0%nat c r eq_refl Hr).
        destruct H as [H|[j [d [Hlt [Hj Hd]]]]]; [left; exact H|right].
        rewrite nth_error_app1 in Hj by lia. apply in_map_iff. exists d. split; [exact Hd|].
        eapply nth_error_In. exact Hj.
      * intros i c' r Hn Hr. specialize (H (S i) c' r Hn Hr).
        destruct H as [H|[j [d [Hlt [Hj Hd]]]]]; [left; exact H|right].
        exists j, d. rewrite app_length. cbn. rewrite <- app_assoc. cbn.
        repeat split; [lia | exact Hj | exact Hd].
Qed.

Theorem names_ok_backward base cs : names_ok base cs = true <-> backward base cs.
Proof.
  unfold backward.
  rewrite (names_ok_backward_gen cs base base []); [reflexivity|].
  intro x. cbn. tauto.
Qed.

(* ---------------------------------------------------------------- ordered definitions execute *)

(* if the definitions alone execute, the whole module does as soon as the main class refers only to
   definitions (or base names): nothing else can go wrong with names *)
Theorem ordered_module_ok base defs main :
  names_ok base defs = true ->
  forallb (fun r => str_in r base || str_in r (map c_name defs)) (class_refs main) = true ->
  names_ok base (defs ++ [main]) = true.
Proof.
  intros Hd Hm. rewrite names_ok_app, Hd. cbn [andb names_ok]. rewrite andb_true_r.
  rewrite forallb_forall in *. intros r Hr. specialize (Hm r Hr).
  unfold str_in in *. rewrite existsb_app. rewrite existsb_rev_eq. rewrite orb_comm. exact Hm.
Qed.

(* ---------------------------------------------------------------- leaving definitions out *)

Lemma prune_gen keep base main defs : forall B B',
    (forall x, str_in x B' = str_in x base || (str_in x B && keep x)) ->
    names_ok B (defs ++ [main]) = true ->
    names_ok B' (filter (keep_class keep) defs ++ [main])
    = refs_closed keep base (filter (keep_class keep) defs ++ [main]).
Proof.
  induction defs as [|c defs IH]; intros B B' Hinv Hok.
  - cbn [filter app names_ok refs_closed forallb] in *. rewrite !andb_true_r in *.
    apply forallb_ext_in. intros r Hr. rewrite Hinv.
    rewrite forallb_forall in Hok. rewrite (Hok r Hr). reflexivity.
  - cbn [app names_ok] in Hok. apply andb_true_iff in Hok as [Hc Hrest].
    cbn [filter]. destruct (keep_class keep c) eqn:Hk; unfold keep_class in Hk.
    + cbn [app names_ok refs_closed forallb]. f_equal.
      * apply forallb_ext_in. intros r Hr. rewrite Hinv.
        rewrite forallb_forall in Hc. rewrite (Hc r Hr). reflexivity.
      * apply (IH (c_name c :: B) (c_name c :: B')); [|exact Hrest].
        intro x. rewrite !str_in_cons, Hinv.
        destruct (pystr_eqb x (c_name c)) eqn:E.
        -- apply pystr_eqb_spec in E. subst x. rewrite Hk. cbn. rewrite orb_true_r. reflexivity.
        -- reflexivity.
    + apply (IH (c_name c :: B) B'); [|exact Hrest].
      intro x. rewrite str_in_cons, Hinv.
      destruct (pystr_eqb x (c_name c)) eqn:E; [|reflexivity].
      apply pystr_eqb_spec in E. subst x. rewrite Hk. cbn. rewrite !andb_false_r. reflexivity.
Qed.

(* A module that executes with all its definitions still executes with only the definitions selected
   by [keep] EXACTLY WHEN the selection is closed under reference (from the main class and from every
   kept definition, in whatever position the reference occurs: class_refs collects them all). *)
Theorem prune_ok_iff keep base defs main :
  names_ok base (defs ++ [main]) = true ->
  names_ok base (filter (keep_class keep) defs ++ [main])
  = refs_closed keep base (filter (keep_class keep) defs ++ [main]).
Proof.
  apply prune_gen. intro x. destruct (str_in x base); reflexivity.
Qed.

(* whatever the original module did: a pruned module that executes is reference-closed *)
Lemma names_ok_closed_gen keep base cs : forall B,
    (forall x, str_in x B = true -> str_in x base || keep x = true) ->
    forallb (keep_class keep) cs = true ->
    names_ok B cs = true -> refs_closed keep base cs = true.
Proof.
  induction cs as [|c cs IH]; intros B HB Hk Hok; [reflexivity|].
  cbn [names_ok forallb refs_closed] in *.
  apply andb_true_iff in Hk as [Hkc Hk]. apply andb_true_iff in Hok as [Hc Hok].
  apply andb_true_iff. split.
  - rewrite forallb_forall in *. intros r Hr. apply HB, Hc, Hr.
  - apply (IH (c_name c :: B)); [|exact Hk|exact Hok].
    intros x Hx. rewrite str_in_cons in Hx. apply orb_true_iff in Hx as [E|Hx]; [|apply HB, Hx].
    apply pystr_eqb_spec in E. subst x. unfold keep_class in Hkc. rewrite Hkc. apply orb_true_r.
Qed.

Theorem dropped_reference_fails keep base defs main :
  refs_closed keep base (filter (keep_class keep) defs ++ [main]) = false ->
  names_ok base (filter (keep_class keep) defs ++ [main]) = false.
Proof.
  intro Hn. destruct (names_ok base (filter (keep_class keep) defs ++ [main])) eqn:Hok; [|reflexivity].
  rewrite <- Hn. symmetry.
  (* main is looked up against base and the kept names only *)
  rewrite names_ok_app in Hok. apply andb_true_iff in Hok as [Hd Hm].
  unfold refs_closed. rewrite forallb_app. apply andb_true_iff. split.
  - apply (names_ok_closed_gen keep base _ base); [| |exact Hd].
    + intros x Hx. rewrite Hx. reflexivity.
    + apply forallb_forall. intros c Hc. apply filter_In in Hc. apply Hc.
  - cbn [forallb names_ok] in *. rewrite andb_true_r in *. rewrite forallb_forall in *.
    intros r Hr. specialize (Hm r Hr). unfold str_in in Hm. rewrite existsb_app, existsb_rev_eq in Hm.
    apply orb_true_iff in Hm as [Hm|Hm].
    + apply existsb_exists in Hm as [n [Hn' E]]. apply pystr_eqb_spec in E. subst n.
      apply in_map_iff in Hn' as [d [Hd' Hin]]. apply filter_In in Hin as [_ Hkd].
      unfold keep_class in Hkd. rewrite Hd' in Hkd. rewrite Hkd. apply orb_true_r.
    + unfold str_in. rewrite Hm. reflexivity.
Qed.

(* ---------------------------------------------------------------- recursion *)

(* a definition that refers to itself (in any position) makes the module raise NameError whatever the
   order of the class statements: no reordering of the output can repair it *)
Lemma self_ref_gen c cs : forall B,
    In c cs -> In (c_name c) (class_refs c) -> str_in (c_name c) B = false ->
    NoDup (map c_name cs) -> names_ok B cs = false.
Proof.
  induction cs as [|d cs IH]; intros B Hin Hself HB Hnd; [destruct Hin|].
  cbn [names_ok]. destruct Hin as [->|Hin].
  - apply andb_false_iff. left. apply not_true_is_false. intro H. rewrite forallb_forall in H.
    specialize (H _ Hself). congruence.
  - apply andb_false_iff. right. cbn [map] in Hnd. inversion Hnd as [|? ? Hnotin Hnd']. subst.
    apply IH; [exact Hin | exact Hself | | exact Hnd'].
    rewrite str_in_cons, HB, orb_false_r. apply pystr_eqb_neq. intro E.
    apply Hnotin. rewrite <- E. apply in_map. exact Hin.
Qed.

Theorem self_reference_never_executes base c cs :
  In c cs -> In (c_name c) (class_refs c) -> str_in (c_name c) base = false ->
  NoDup (map c_name cs) -> names_ok base cs = false.
Proof. apply self_ref_gen. Qed.

(* more generally: in a module that executes, "refers to" goes strictly down the statement index, so
   there is no cycle of any length among the definitions *)
Theorem executes_no_two_cycle base cs i j a b :
  names_ok base cs = true -> NoDup (map c_name cs) ->
  nth_error cs i = Some a -> nth_error cs j = Some b ->
  ~ In (c_name a) base -> ~ In (c_name b) base ->
  In (c_name b) (class_refs a) -> In (c_name a) (class_refs b) -> False.
Proof.
  intros Hok Hnd Ha Hb Hna Hnb Hab Hba. apply names_ok_backward in Hok.
  assert (Huniq : forall k d n x, nth_error cs k = Some d -> nth_error cs n = Some x -> c_name d = c_name x -> k = n).
  { intros k d n x Hk Hn E.
    assert (Hk' : nth_error (map c_name cs) k = Some (c_name d)) by (rewrite nth_error_map, Hk; reflexivity).
    assert (Hn' : nth_error (map c_name cs) n = Some (c_name d)) by (rewrite nth_error_map, Hn, E; reflexivity).
    apply (proj1 (NoDup_nth_error (map c_name cs)) Hnd); [|congruence].
    apply nth_error_Some. congruence. }
  destruct (Hok i a (c_name b) Ha Hab) as [H|[k [d [Hlt [Hk Hd]]]]]; [contradiction|].
  destruct (Hok j b (c_name a) Hb Hba) as [H|[k' [d' [Hlt' [Hk' Hd']]]]]; [contradiction|].
  assert (k = j) by (eapply Huniq; eauto). assert (k' = i) by (eapply Huniq; eauto). lia.
Qed.

(* ---------------------------------------------------------------- the lexical theorem, module-wide *)

Lemma all_sites_ok_app kw tbl a b :
  all_sites_ok kw tbl (a ++ b) = all_sites_ok kw tbl a && all_sites_ok kw tbl b.
Proof. apply forallb_app. Qed.

Lemma all_sites_ok_join kw tbl sep parts :
  all_sites_ok kw tbl sep = true -> forallb (all_sites_ok kw tbl) parts = true ->
  all_sites_ok kw tbl (join sep parts) = true.
Proof.
  intros Hs. induction parts as [|p parts IH]; intro H; [reflexivity|].
  cbn [forallb] in H. apply andb_true_iff in H as [Hp H].
  destruct parts as [|p' parts]; [exact Hp|].
  change (join sep (p :: p' :: parts)) with (p ++ sep ++ join sep (p' :: parts)).
  rewrite !all_sites_ok_app, Hp, Hs, (IH H). reflexivity.
Qed.

Definition class_sites_ok kw tbl (c : jclass) : bool :=
  match class_toks c with Some t => all_sites_ok kw tbl t | None => false end.

Lemma all_class_toks_ok kw tbl cs : forall ts,
    all_class_toks cs = Some ts -> forallb (class_sites_ok kw tbl) cs = true ->
    forallb (all_sites_ok kw tbl) ts = true.
Proof.
  induction cs as [|c cs IH]; intros ts E H.
  - injection E as <-. reflexivity.
  - cbn [all_class_toks] in E. cbn [forallb] in H. apply andb_true_iff in H as [Hc H].
    unfold class_sites_ok in Hc.
    destruct (class_toks c) as [t|]; [|discriminate]. destruct (all_class_toks cs) as [ts'|]; [|discriminate].
    injection E as <-. cbn [forallb]. rewrite Hc, (IH ts' eq_refl H). reflexivity.
Qed.

Lemma layout_toks_ok kw tbl nodefs dt mt lay : forall toks,
    all_sites_ok kw tbl dt = true -> all_sites_ok kw tbl mt = true ->
    layout_toks nodefs dt mt lay = Some toks -> all_sites_ok kw tbl toks = true.
Proof.
  intros toks Hd Hm. revert toks. induction lay as [|p lay IH]; intros toks E.
  - injection E as <-. reflexivity.
  - cbn [layout_toks] in E.
    destruct (part_toks nodefs dt mt p) as [a|] eqn:Ep; [|discriminate].
    destruct (layout_toks nodefs dt mt lay) as [b|]; [|discriminate].
    injection E as <-. rewrite all_sites_ok_app, (IH b eq_refl), andb_true_r.
    assert (Hl : forall l a', leaf_toks dt mt l = Some a' -> all_sites_ok kw tbl a' = true).
    { intros l a' El. destruct l; cbn in El; try discriminate; injection El as <-; auto. }
    destruct p as [l|l]; cbn [part_toks] in Ep.
    + exact (Hl l a Ep).
    + destruct nodefs; [injection Ep as <-; reflexivity | exact (Hl l a Ep)].
Qed.

(* whatever the (recognised) layout and joiner: if every class of the module is within what its
   emission sites write correctly, so is the module *)
Theorem module_sites_ok kw tbl lay joiner defs main toks :
  module_toks lay joiner defs main = Some toks ->
  forallb (class_sites_ok kw tbl) (defs ++ [main]) = true ->
  all_sites_ok kw tbl toks = true.
Proof.
  unfold module_toks, defs_toks. intros E H.
  rewrite forallb_app in H. apply andb_true_iff in H as [Hd Hm].
  cbn [forallb] in Hm. rewrite andb_true_r in Hm. unfold class_sites_ok in Hm.
  destruct joiner as [j|]; [|discriminate].
  destruct (all_class_toks defs) as [ts|] eqn:Ets; [|discriminate].
  destruct (class_toks main) as [mt|]; [|discriminate].
  apply (layout_toks_ok kw tbl _ _ _ _ toks) in E; [exact E | | exact Hm].
  apply all_sites_ok_join; [reflexivity|]. exact (all_class_toks_ok kw tbl defs ts Ets Hd).
Qed.

Theorem module_relex printable kw tbl lay joiner defs main toks :
  module_toks lay joiner defs main = Some toks ->
  forallb (class_sites_ok kw tbl) (defs ++ [main]) = true ->
  well_sep toks = true ->
  relex kw tbl (map shape_of toks) (render printable tbl toks) = Some (leaves toks).
Proof.
  intros E H Hs. apply relex_render; [|exact Hs].
  exact (module_sites_ok kw tbl lay joiner defs main toks E H).
Qed.
