(* Proofs about Schema/BackRequired.v: the required list survives the round trip, up to order, exactly
   when every property that has a default is listed in it. *)
From Coq Require Import NArith List Bool Permutation Lia.
Import ListNotations.
From TP Require Import Base.PyVal Schema.PyLiteral Schema.CodeGen Schema.BackRequired.

Lemma str_in_In' s l : str_in s l = true <-> In s l.
Proof.
  unfold str_in. rewrite existsb_exists. split.
  - intros [x [Hx E]]. apply pystr_eqb_spec in E. subst. exact Hx.
  - intro H. exists s. split; [exact H | apply pystr_eqb_refl].
Qed.

Lemma remove_first_In n l x : NoDup l -> (In x (remove_first n l) <-> In x l /\ x <> n).
Proof.
  induction l as [|y l IH]; intro Hnd; [cbn; tauto|].
  inversion Hnd as [|? ? Hny Hnd']. subst. cbn [remove_first].
  destruct (pystr_eqb n y) eqn:E.
  - apply pystr_eqb_spec in E. subst y. cbn [In]. split.
    + intro H. split; [right; exact H|]. intro Hx. subst. contradiction.
    + intros [[H|H] Hne]; [congruence | exact H].
  - apply pystr_eqb_neq in E. cbn [In]. rewrite (IH Hnd'). split.
    + intros [H|[H Hne]]; [subst; split; [left; reflexivity | congruence] | split; [right; exact H | exact Hne]].
    + intros [[H|H] Hne]; [left; exact H | right; split; assumption].
Qed.

Lemma remove_first_NoDup n l : NoDup l -> NoDup (remove_first n l).
Proof.
  induction l as [|y l IH]; intro Hnd; [constructor|].
  inversion Hnd as [|? ? Hny Hnd']. subst. cbn [remove_first].
  destruct (pystr_eqb n y); [exact Hnd'|]. constructor; [|exact (IH Hnd')].
  intro H. apply (remove_first_In n l y Hnd') in H. tauto.
Qed.

Lemma NoDup_snoc {A} (l : list A) a : NoDup l -> ~ In a l -> NoDup (l ++ [a]).
Proof.
  induction l as [|y l IH]; intros Hnd Hn; cbn.
  - constructor; [intros []|constructor].
  - inversion Hnd as [|? ? Hy Hnd']. subst. constructor.
    + rewrite in_app_iff. cbn. intros [H|[H|[]]]; [contradiction|]. subst. apply Hn. left. reflexivity.
    + apply IH; [exact Hnd'|]. intro H. apply Hn. right. exact H.
Qed.

Lemma field_default_has p : has_default p = true <-> field_default (snd p) <> None.
Proof. unfold has_default. destruct (field_default (snd p)); split; congruence. Qed.

(* what the generator writes: the required list without the properties that have a default *)
Lemma final_required_spec props : forall req,
    NoDup req ->
    exists r, final_required (Some req) props = Some (Some r) /\ NoDup r /\
              forall x, In x r <-> In x req /\ ~ In x (defaulted props).
Proof.
  induction props as [|[n f] props IH]; intros req Hnd.
  - exists req. cbn. repeat split; tauto.
  - cbn [final_required]. unfold defaulted. cbn [filter]. unfold has_default at 1. cbn [snd fst].
    destruct (field_default f) as [d|] eqn:Ed.
    + set (req1 := if str_in n req then remove_first n req else req).
      assert (Hnd1 : NoDup req1).
      { unfold req1. destruct (str_in n req); [apply remove_first_NoDup|]; exact Hnd. }
      assert (Hin1 : forall x, In x req1 <-> In x req /\ x <> n).
      { intro x. unfold req1. destruct (str_in n req) eqn:E.
        - apply remove_first_In. exact Hnd.
        - split; [|tauto]. intro H. split; [exact H|]. intro Hx. subst.
          apply str_in_In' in H. congruence. }
      destruct (IH req1 Hnd1) as [r [E [Hr Hm]]]. exists r. split; [exact E|]. split; [exact Hr|].
      intro x. rewrite Hm, Hin1. cbn [map In fst]. unfold defaulted. split.
      * intros [[H1 H2] H3]. split; [exact H1|]. intros [H|H]; [congruence | contradiction].
      * intros [H1 H2]. repeat split; [exact H1 | intro; subst; apply H2; left; reflexivity | intro; apply H2; right; assumption].
    + destruct (IH req Hnd) as [r [E [Hr Hm]]]. exists r. split; [exact E|]. split; [exact Hr|]. exact Hm.
Qed.

(* what structure_to_schema returns: the class's list plus the fields that have a default *)
Lemma back_required_spec props : forall r,
    NoDup r ->
    NoDup (back_required r props) /\
    forall x, In x (back_required r props) <-> In x r \/ In x (defaulted props).
Proof.
  induction props as [|p props IH]; intros r Hnd.
  - cbn. split; [exact Hnd|]. intro x. tauto.
  - cbn [back_required]. unfold defaulted. cbn [filter]. destruct (has_default p) eqn:Hd.
    + destruct (str_in (fst p) r) eqn:E.
      * destruct (IH r Hnd) as [H1 H2]. split; [exact H1|]. intro x. rewrite H2. cbn [map In].
        apply str_in_In' in E. unfold defaulted. split; [tauto|]. intros [H|[H|H]]; [tauto | subst; tauto | tauto].
      * assert (Hnd' : NoDup (r ++ [fst p])).
        { apply NoDup_snoc; [exact Hnd|]. intro H. apply str_in_In' in H. congruence. }
        destruct (IH _ Hnd') as [H1 H2]. split; [exact H1|]. intro x. rewrite H2, in_app_iff. cbn [map In].
        unfold defaulted. tauto.
    + exact (IH r Hnd).
Qed.

Lemma defaulted_NoDup props : NoDup (map fst props) -> NoDup (defaulted props).
Proof.
  unfold defaulted. induction props as [|p props IH]; intro H; [constructor|].
  cbn [map] in H. inversion H as [|? ? Hn Hnd]. subst. cbn [filter].
  destruct (has_default p); [|exact (IH Hnd)].
  cbn [map]. constructor; [|exact (IH Hnd)].
  intro Hin. apply Hn. apply in_map_iff in Hin as [q [Eq Hq]]. apply filter_In in Hq as [Hq _].
  rewrite <- Eq. apply in_map. exact Hq.
Qed.

(* THE ROUND TRIP of `required`: when the schema lists every property that has a default (and lists
   nothing twice), what structure_to_schema returns for the generated class is the schema's required
   list up to order. *)
Theorem required_roundtrip req props :
  NoDup req ->
  (forall x, In x (defaulted props) -> In x req) ->
  exists r, final_required (Some req) props = Some (Some r) /\
            Permutation (back_required r props) req.
Proof.
  intros Hnd Hsub.
  destruct (final_required_spec props req Hnd) as [r [E [Hr Hm]]].
  exists r. split; [exact E|].
  destruct (back_required_spec props r Hr) as [Hb1 Hb2].
  apply NoDup_Permutation; [exact Hb1 | exact Hnd|].
  intro x. rewrite Hb2, Hm. split.
  - intros [[H _]|H]; [exact H | exact (Hsub x H)].
  - intro H. destruct (in_dec (fun a b => list_eq_dec N.eq_dec a b) x (defaulted props)) as [Hd|Hd]; [right; exact Hd | left; split; assumption].
Qed.

(* ... and otherwise it is NOT: a property with a default that the schema does not list comes back listed *)
Theorem required_roundtrip_only_if req props r x :
  NoDup req -> final_required (Some req) props = Some (Some r) ->
  In x (defaulted props) -> ~ In x req ->
  In x (back_required r props) /\ ~ Permutation (back_required r props) req.
Proof.
  intros Hnd E Hx Hn.
  destruct (final_required_spec props req Hnd) as [r' [E' [Hr Hm]]].
  rewrite E in E'. injection E' as <-.
  destruct (back_required_spec props r Hr) as [_ Hb2].
  assert (Hin : In x (back_required r props)) by (apply Hb2; right; exact Hx).
  split; [exact Hin|]. intro P. apply Hn. exact (Permutation_in x P Hin).
Qed.

(* the walk over the properties never raises *)
Lemma final_required_total props : forall req, exists r, final_required req props = Some r.
Proof.
  induction props as [|[n f] props IH]; intro req; [eexists; reflexivity|].
  cbn [final_required]. destruct (field_default f); destruct req; apply IH.
Qed.

(* ... hence schema_to_struct_code produces a class statement for every class description *)
Theorem class_toks_total c : exists toks, class_toks c = Some toks.
Proof.
  unfold class_toks. destruct (final_required_total (c_props c) (c_required c)) as [r E]. rewrite E.
  eexists. reflexivity.
Qed.

Lemma back_required_covered props : forall l,
  (forall p, In p props -> str_in (fst p) l = true) -> back_required l props = l.
Proof.
  induction props as [|p props IH]; intros l H; [reflexivity|].
  cbn [back_required]. rewrite (H p (or_introl eq_refl)).
  destruct (has_default p); apply IH; intros q Hq; apply H; right; exact Hq.
Qed.

(* without a required list the generator writes no _required, whatever defaults the properties have: typedpy
   then requires every field that has no default, and structure_to_schema lists every property *)
Theorem no_required_all_required props :
  final_required None props = Some None /\ back_required (map fst props) props = map fst props.
Proof.
  split.
  - induction props as [|[n f] props IH]; [reflexivity|].
    cbn [final_required]. destruct (field_default f); exact IH.
  - apply back_required_covered. intros p Hp. apply str_in_In'. apply in_map. exact Hp.
Qed.
