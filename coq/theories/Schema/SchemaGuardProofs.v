(* Bridging lemmas (property C08): the definitions regenerated from json_schema_mapping.py on every run
   (Gen/SchemaGuards.v) coincide with the hand-written model (Schema/ToSchema.v).  A source edit that changes the
   order of the isinstance tests of EnumMapper.adjust, a bound implied by a sign class, get_mapper's dispatch, or
   that introduces module-level state into the export module breaks a NAMED lemma here. *)
From Coq Require Import ZArith NArith String Bool List.
Import ListNotations.
From TP Require Import Base.PyVal Fields.FieldAst Schema.Draft4 Schema.ToSchema Gen.SchemaGuards.
Local Open Scope string_scope.

(* EnumMapper.to_schema.adjust *)
Lemma src_enum_adjust : forall is_enum is_prim by_value,
    enum_adjust_gen is_enum is_prim by_value = enum_adjust is_enum is_prim by_value.
Proof. intros [] [] []; reflexivity. Qed.

(* NumberMapper.to_schema.get_min / get_max *)
Definition interp_bound (explicit : option num) (r : bound_res) : option num :=
  match r with BExplicit => explicit | BNone => None | BConst n => Some n end.
Definition is_some {A} (o : option A) : bool := match o with Some _ => true | None => false end.

Lemma src_get_min : forall k s c,
    get_min k s c = interp_bound (minimum c) (get_min_gen k s (is_some (minimum c))).
Proof. intros k s c. unfold get_min. destruct (minimum c); destruct k, s; reflexivity. Qed.

Lemma src_get_max : forall k s c,
    get_max k s c = interp_bound (maximum c) (get_max_gen k s (is_some (maximum c))).
Proof. intros k s c. unfold get_max. destruct (maximum c); destruct k, s; reflexivity. Qed.

(* get_mapper: every modelled declaration is dispatched (through its typedpy base class) to the mapper whose
   to_schema the corresponding case of [fschema] transcribes *)
Definition field_class (f : field) : string :=
  match f with
  | FNumber KInteger _ _ => "Integer" | FNumber KFloat _ _ => "Float" | FNumber KNumber _ _ => "Number"
  | FString _ => "String" | FBoolean => "Boolean"
  | FEnumLit _ | FEnumCls _ _ => "Enum"
  | FSeqAny _ _ _ | FSeqEach _ _ _ _ | FSeqPos _ _ _ _ _ => "Array"
  | FSet _ _ _ => "Set" | FTuple _ _ => "Tuple"
  | FMapAny _ | FMapKV _ _ _ => "Map"
  | FAllOf _ => "AllOf" | FAnyOf _ => "AnyOf" | FOneOf _ => "OneOf" | FNot _ => "NotField"
  | FNone | FAnything | FClassRef _ => ""          (* no mapper: NotImplementedError / $ref *)
  end.
Definition mapper_for (f : field) : option string :=
  match f with
  | FNumber KInteger _ _ => Some "IntegerMapper" | FNumber _ _ _ => Some "NumberMapper"
  | FString _ => Some "StringMapper" | FBoolean => Some "BooleanMapper"
  | FEnumLit _ | FEnumCls _ _ => Some "EnumMapper"
  | FSeqAny _ _ _ | FSeqEach _ _ _ _ | FSeqPos _ _ _ _ _ | FSet _ _ _ | FTuple _ _ => Some "ArrayMapper"
  | FMapAny _ | FMapKV _ _ _ => Some "MapMapper"
  | FAllOf _ => Some "AllOfMapper" | FAnyOf _ => Some "AnyOfMapper" | FOneOf _ => Some "OneOfMapper"
  | FNot _ => Some "NotFieldMapper"
  | FNone | FAnything | FClassRef _ => None
  end.

Lemma src_get_mapper : forall f,
    alist_get schema_mapper_table (s2p (field_class f)) = option_map s2p (mapper_for f).
Proof. intros [[] | | | | | | | | | | | | | | | | | |]; intros; reflexivity. Qed.

(* the export module keeps no state across calls: structure_to_schema is a function of the class (and of the
   definitions dict passed in), which is what the model [to_schema] is *)
Lemma src_stateless : schema_module_state = [].
Proof. reflexivity. Qed.

(* the export and the serializer both read the nested mapper of an inline structure under the field's ATTRIBUTE name *)
Lemma src_submapper_lookup :
  schema_submapper_lookup = ByAttrName /\ serializer_submapper_lookup = ByAttrName.
Proof. split; reflexivity. Qed.
