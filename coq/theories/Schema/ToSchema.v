(* Model of typedpy/json_schema/json_schema_mapping.py: structure_to_schema, convert_to_schema and
   every *Mapper.to_schema, over the field AST of Fields/FieldAst.v; and a minimal, local model of
   the serializer (serialize_val / serialize_internal) for the values of the fragment.
   [fschema] is total; [mappable] says when the real code returns (rather than raising
   NotImplementedError / TypeError); [fclean] is the sub-fragment on which the emitted schema is free
   of the known defects (see Props/C08.v).  Executable; no proofs here. *)
From Coq Require Import ZArith QArith NArith String Ascii Bool Lia List.
Import ListNotations.
From TP Require Import Base.PyVal Fields.FieldAst Fields.SetChain Fields.Doc Schema.Draft4.
Local Open Scope Z_scope.

(* float 0.000001, exactly *)
Definition eps : num := NFlt 4722366482869645 (-72).
Definition neg_eps : num := NFlt (-4722366482869645) (-72).

Definition optl {A B} (o : option A) (f : A -> B) : list B :=
  match o with Some x => [f x] | None => [] end.

(* NumberMapper.to_schema / IntegerMapper.to_schema *)
Definition get_min (k : numkind) (s : sign) (c : numc) : option num :=
  match minimum c with
  | Some m => Some m
  | None =>
      match s with
      | SNonNegative => Some (NInt 0)
      | SPositive => Some (match k with KInteger => NInt 1 | _ => eps end)
      | _ => None
      end
  end.

Definition get_max (k : numkind) (s : sign) (c : numc) : option num :=
  match maximum c with
  | Some m => Some m
  | None =>
      match s with
      | SNonPositive => Some (NInt 0)
      | SNegative => Some (match k with KInteger => NInt (-1) | _ => neg_eps end)
      | _ => None
      end
  end.

Definition num_kws (k : numkind) (s : sign) (c : numc) : list kw :=
  [KType (match k with KInteger => TInteger | _ => TNumber end)]
  ++ optl (multiplesOf c) (fun m => KMultiplesOf (NInt m))
  ++ optl (get_min k s c) KMinimum
  ++ optl (get_max k s c) KMaximum
  (* exclusiveMaximum is emitted next to the field's OWN maximum only (the field applies it to that one only) *)
  ++ (if exclusiveMaximum c && match maximum c with Some _ => true | None => false end then [KExclMax true] else []).

Definition str_kws (c : strc) : list kw :=
  [KType TString] ++ optl (minLength c) KMinLength ++ optl (maxLength c) KMaxLength
  ++ optl (pattern c) KPattern.

Definition size_kws (sz : sizec) : list kw :=
  optl (maxItems sz) KMaxItems ++ optl (minItems sz) KMinItems.

Definition uniq_kws (u : bool) : list kw := if u then [KUnique true] else [].

(* MapMapper: "pattern_props" is truthy *)
Definition nonzero (o : option Z) : bool := match o with Some z => negb (z =? 0) | None => false end.
Definition key_constrained (c : strc) : bool :=
  match pattern c with Some _ => true | None => false end || nonzero (maxLength c) || nonzero (minLength c).

(* MapMapper emits "patternProperties": {<key regex>: <value schema>} where the key regex is the text
   f"{keys.pattern or ''}{suffix}", suffix = f"{{{keys.minLength or ''}, {keys.maxLength or ''}}}" when a length bound
   is set.  The regex oracle knows regexes by id: a key pattern alone is that pattern; a text with a length suffix has
   the id [key_pid c] (an injective code of the three constraints above KEY_BASE; the harness fills the oracle's tables
   for it with the text Python builds, Schema/SchemaSrcProofs.v states the text) *)
Definition pairN (a b : N) : N := ((a + b) * (a + b + 1) / 2 + b)%N.
Definition encZ (o : option Z) : N :=
  match o with None => 0%N | Some z => (1 + 2 * Z.abs_N z + (if (z <? 0)%Z then 1 else 0))%N end.
Definition encN (o : option N) : N := match o with None => 0%N | Some p => (p + 1)%N end.
Definition KEY_BASE : N := 1000000000%N.
Definition key_pid (c : strc) : N :=
  if nonzero (maxLength c) || nonzero (minLength c)
  then (KEY_BASE + pairN (encN (pattern c)) (pairN (encZ (minLength c)) (encZ (maxLength c))))%N
  else match pattern c with Some p => p | None => 0%N end.

(* ------------------------------------------------------------------ enum classes *)
(* What the schema export needs to know about an enum CLASS: the primitive type it mixes in (enum.IntEnum,
   class E(str, enum.Enum), class E(float, enum.Enum): isinstance(member, (int, str, float)) holds), and whether
   the Enum fields over it are declared with serialization_by_value=True (a per-field flag of typedpy; the
   generator declares it uniformly per class, so it is recorded here). *)
Inductive mixin := MixNone | MixInt | MixStr | MixFloat.
Record eopts := { eo_mixin : mixin; eo_by_value : bool }.
Definition einfo_t := pystr -> eopts.
Definition no_einfo : einfo_t := fun _ => {| eo_mixin := MixNone; eo_by_value := false |}.

(* EnumMapper.to_schema.adjust as a decision over what the isinstance tests report; the same table is
   regenerated from the source on every run (Gen/SchemaGuards.v, bridged in ToSchemaProofs.v) *)
Inductive adj := AdjName | AdjValue | AdjSelf | AdjRaise.
Definition enum_adjust (is_enum is_prim by_value : bool) : adj :=
  if is_enum then (if by_value then AdjValue else AdjName)
  else if is_prim then AdjSelf else AdjRaise.

(* EnumMapper.adjust: isinstance(val, (int, str, float)) on a literal *)
Definition enum_lit_ok (v : pyval) : bool :=
  match v with
  | PBool _ | PStr _ => true
  | PNum (NDec _ _) => false
  | PNum _ => true
  | _ => false
  end.

Definition is_member (v : pyval) : bool := match v with PEnum _ _ _ => true | _ => false end.

Fixpoint mapO {A B} (f : A -> option B) (l : list A) : option (list B) :=
  match l with
  | [] => Some []
  | x :: t => match f x, mapO f t with Some y, Some ys => Some (y :: ys) | _, _ => None end
  end.

Section EI.
  Variable ei : einfo_t.

  Definition is_prim_val (v : pyval) : bool :=
    match v with
    | PEnum c _ _ => match eo_mixin (ei c) with MixNone => false | _ => true end
    | _ => enum_lit_ok v
    end.

  (* one entry of the exported "enum" list, as it reads after JSON encoding (a member of a class that mixes in a
     primitive type encodes as its value) *)
  Definition adjust_val (by_value : bool) (v : pyval) : option pyval :=
    match enum_adjust (is_member v) (is_prim_val v) by_value with
    | AdjName => match v with PEnum _ n _ => Some (PStr n) | _ => None end
    | AdjValue => match v with PEnum _ _ x => Some x | _ => None end
    | AdjSelf => Some (match v with PEnum _ _ x => x | _ => v end)
    | AdjRaise => None
    end.

  Definition members_of (c : pystr) (ms : list (pystr * pyval)) : list pyval :=
    map (fun m => PEnum c (fst m) (snd m)) ms.

  Definition enum_vals (f : field) : option (list pyval) :=
    match f with
    | FEnumLit vs => mapO (adjust_val false) vs
    | FEnumCls c ms => mapO (adjust_val (eo_by_value (ei c))) (members_of c ms)
    | _ => None
    end.

  Definition enum_schema (f : field) : schema :=
    match enum_vals f with Some l => Sch [KEnum l] | None => Sch [] end.
  Definition enum_mappable (f : field) : bool :=
    match enum_vals f with Some _ => true | None => false end.
  Definition enum_clean (f : field) : bool :=
    match enum_vals f with
    | Some l => negb (Nat.eqb (length l) 0) && junique l && forallb is_json l
    | None => false
    end.

(* convert_to_schema on a field *)
Fixpoint fschema (f : field) : schema :=
  match f with
  | FNumber k s c => Sch (num_kws k s c)
  | FString c => Sch (str_kws c)
  | FBoolean => Sch [KType TBoolean]
  | FNone => Sch []
  | FAnything => Sch []
  | FEnumLit _ | FEnumCls _ _ => enum_schema f
  | FSeqAny _ sz u => Sch ([KType TArray] ++ uniq_kws u ++ size_kws sz)
  | FSeqEach _ item sz u => Sch ([KType TArray] ++ uniq_kws u ++ size_kws sz ++ [KItems (fschema item)])
  | FSeqPos _ items sz u add =>
      Sch ([KType TArray] ++ uniq_kws u ++ optl add KAddItems ++ size_kws sz ++ [KItemsL (map fschema items)])
  | FSet _ item sz =>
      Sch ([KType TArray; KUnique true] ++ size_kws sz
           ++ match item with Some g => [KItems (fschema g)] | None => [] end)
  | FTuple items u => Sch ([KType TArray] ++ uniq_kws u ++ [KAddItems false; KItemsL (map fschema items)])
  | FMapAny sz => Sch ([KType TObject] ++ size_kws sz)
  | FMapKV kf vf sz =>
      Sch ([KType TObject]
           ++ match kf with
              | FString c => if key_constrained c then [KPatProps [(key_pid c, fschema vf)]] else [KAddPropsS (fschema vf)]
              | _ => [KAddPropsS (fschema vf)]
              end
           ++ size_kws sz)
  | FAllOf fs => Sch [KAllOf (map fschema fs)]
  | FAnyOf fs =>
      match fs with
      | [g; FNone] => fschema g
      | _ => Sch [KAnyOf (map fschema fs)]
      end
  | FOneOf fs => Sch [KOneOf (map fschema fs)]
  | FNot fs => Sch [KNotL (map fschema fs)]
  | FClassRef c => Sch [KRef c]
  end.

Definition is_list_kind (k : seqkind) : bool := match k with SeqList => true | SeqDeque => false end.

(* the real convert_to_schema returns (rather than raising) *)
Fixpoint mappable (f : field) : bool :=
  match f with
  | FNumber _ _ _ | FString _ | FBoolean => true
  | FNone | FAnything => false
  | FEnumLit _ | FEnumCls _ _ => enum_mappable f
  | FSeqAny k _ _ => is_list_kind k
  | FSeqEach k item _ _ => is_list_kind k && mappable item
  | FSeqPos k items _ _ _ => is_list_kind k && forallb mappable items
  | FSet _ item _ => match item with Some g => mappable g | None => true end
  | FTuple items _ => forallb mappable items
  | FMapAny _ => true
  | FMapKV kf vf _ => match kf with FString _ => mappable vf | _ => false end
  | FAllOf fs | FOneOf fs | FNot fs => forallb mappable fs
  | FAnyOf fs =>
      match fs with
      | [g; FNone] => mappable g
      | _ => forallb mappable fs
      end
  | FClassRef _ => true
  end.

(* parameters in the domain of draft 4 *)
Definition nonneg (o : option Z) : bool := match o with Some z => 0 <=? z | None => true end.
Definition size_sane (sz : sizec) : bool := nonneg (minItems sz) && nonneg (maxItems sz).
Definition bound_json (o : option num) : bool := match o with Some n => num_json n | None => true end.

(* sign-only bound of a non-integer number: rendered with an epsilon (F16) *)
Definition eps_bound (k : numkind) (s : sign) (c : numc) : bool :=
  match k with
  | KInteger => false
  | _ =>
      match s with
      | SPositive => match minimum c with None => true | Some _ => false end
      | SNegative => match maximum c with None => true | Some _ => false end
      | _ => false
      end
  end.

(* the emitted schema is a well-formed draft-4 schema (after the dialect translation) *)
Fixpoint fclean (f : field) : bool :=
  match f with
  | FNumber k s c =>
      match multiplesOf c with Some m => 0 <? m | None => true end
      && bound_json (minimum c) && bound_json (maximum c)
  | FString c => nonneg (minLength c) && nonneg (maxLength c)
  | FBoolean => true
  | FNone | FAnything => false
  | FEnumLit _ | FEnumCls _ _ => enum_clean f
  | FSeqAny k sz _ => is_list_kind k && size_sane sz
  | FSeqEach k item sz _ => is_list_kind k && size_sane sz && fclean item
  | FSeqPos k items sz _ _ =>
      is_list_kind k && size_sane sz && negb (Nat.eqb (length items) 0) && forallb fclean items
  | FSet _ item sz => size_sane sz && match item with Some g => fclean g | None => true end
  | FTuple items _ => negb (Nat.eqb (length items) 0) && forallb fclean items
  | FMapAny sz => size_sane sz
  | FMapKV kf vf sz =>
      size_sane sz &&
      match kf with FString _ => fclean vf | _ => false end
  | FAllOf fs | FOneOf fs | FNot fs => negb (Nat.eqb (length fs) 0) && forallb fclean fs
  | FAnyOf fs =>
      match fs with
      | [g; FNone] => fclean g
      | _ => negb (Nat.eqb (length fs) 0) && forallb fclean fs
      end
  | FClassRef _ => true
  end.

Fixpoint field_refs (f : field) : list pystr :=
  match f with
  | FSeqEach _ g _ _ => field_refs g
  | FSeqPos _ gs _ _ _ | FTuple gs _ | FAllOf gs | FAnyOf gs | FOneOf gs | FNot gs => flat_map field_refs gs
  | FSet _ (Some g) _ => field_refs g
  | FMapKV kf vf _ => field_refs vf
  | FClassRef c => [c]
  | _ => []
  end.

(* ------------------------------------------------------------------ classes *)

Definition renames := list (pystr * pystr).       (* the string-valued entries of the aggregated serialization mapper *)
Definition rename (m : renames) (k : pystr) : pystr :=
  match alist_get m k with Some k' => k' | None => k end.

Fixpoint pystr_leb (a b : pystr) : bool :=
  match a, b with
  | [], _ => true
  | _ :: _, [] => false
  | x :: a', y :: b' => if N.ltb x y then true else if N.ltb y x then false else pystr_leb a' b'
  end.
Fixpoint insert_str (x : pystr) (l : list pystr) : list pystr :=
  match l with
  | [] => [x]
  | y :: t => if pystr_leb x y then x :: l else y :: insert_str x t
  end.
Definition sort_str (l : list pystr) : list pystr := fold_right insert_str [] l.

Definition all_in (a b : list pystr) : bool := forallb (fun x => str_in x b) a.

(* single-field wrapper form *)
Definition wrapper_form (c : classdef) : bool :=
  match c_fields c with
  | [d] => all_in [fd_name d] (c_required c) && all_in (c_required c) [fd_name d] && negb (c_additional c)
  | _ => false
  end.

Definition default_json (v : pyval) : pyval :=
  match v with PEnum _ name _ => PStr name | _ => v end.

Definition prop_schema (d : fdecl) : schema :=
  match fd_default d with
  | None => fschema (fd_field d)
  | Some v => Sch (kws_of (fschema (fd_field d)) ++ [KDefault (default_json v)])
  end.

(* _generate_schema_for_fields_internal: the [required] list after renaming and defaults *)
Definition required_out (m : renames) (c : classdef) : list pystr :=
  let req := map (rename m) (c_required c) in
  let extra := flat_map (fun d => match fd_default d with
                                  | Some _ => if str_in (fd_name d) (c_required c) then [] else [rename m (fd_name d)]
                                  | None => []
                                  end) (c_fields c) in
  sort_str (req ++ extra).

Definition class_schema (m : renames) (c : classdef) : schema :=
  if wrapper_form c then
    match c_fields c with
    | d :: _ => fschema (fd_field d)
    | [] => Sch []
    end
  else
    Sch [KType TObject;
         KProperties (map (fun d => (rename m (fd_name d), prop_schema d)) (c_fields c));
         KRequired (required_out m c);
         KAddProps (c_additional c)].

Definition class_refs (c : classdef) : list pystr := flat_map (fun d => field_refs (fd_field d)) (c_fields c).
Definition class_mappable (c : classdef) : bool := forallb (fun d => mappable (fd_field d)) (c_fields c).

Section Classes.
  Variable e : env.
  Variable smap : pystr -> renames.       (* class name -> its aggregated rename mapper *)

  (* definitions filled by _map_class_reference, transitively *)
  Fixpoint defs_from (fuel : nat) (names : list pystr) : list (pystr * schema) :=
    match fuel with
    | O => []
    | S n =>
        flat_map (fun nm => match find_class e nm with
                            | Some c => (nm, class_schema (smap nm) c) :: defs_from n (class_refs c)
                            | None => []
                            end) names
    end.

  Definition to_schema (fuel : nat) (c : classdef) : schema * list (pystr * schema) :=
    (class_schema (smap (c_name c)) c, defs_from fuel (class_refs c)).

  (* every referenced class exists, is mappable, and the reference graph is explored within the fuel *)
  Fixpoint closed (fuel : nat) (p : classdef -> bool) (names : list pystr) : bool :=
    match fuel with
    | O => match names with [] => true | _ => false end
    | S n =>
        forallb (fun nm => match find_class e nm with
                           | Some c => p c && closed n p (class_refs c)
                           | None => false
                           end) names
    end.

  Definition schema_mappable (fuel : nat) (c : classdef) : bool :=
    class_mappable c && closed fuel class_mappable (class_refs c).

  (* the class is free of the characterised well-formedness defects *)
  Definition class_clean (c : classdef) : bool :=
    forallb (fun d => fclean (fd_field d) &&
                      match fd_default d with Some v => is_json (default_json v) | None => true end) (c_fields c)
    && (wrapper_form c
        || (negb (Nat.eqb (length (required_out (smap (c_name c)) c)) 0)
            && nodup_str (required_out (smap (c_name c)) c))).

  Definition schema_clean (fuel : nat) (c : classdef) : bool :=
    class_clean c && closed fuel class_clean (class_refs c).
End Classes.

(* ------------------------------------------------------------------ a minimal serializer *)

(* values without a field definition (serialize_val(None, ...)): JSON-like values pass through *)
Definition ser_any (v : pyval) : option pyval := if is_json v then Some v else None.

(* identity-serialised scalar fields whose set-chain stores the value unchanged *)
Definition simple (f : field) : bool :=
  match f with
  | FNumber KInteger _ _ | FNumber KNumber _ _ | FString _ => true
  | _ => false
  end.

Section Ser.
  Variable re_match : N -> pystr -> bool.
  Variable e : env.
  Variable ser_struct : pystr -> list (pystr * pyval) -> option pyval.   (* nested Structure instances *)

  (* serialize_val(None, ...): lists/tuples/sets element-wise, structures by their own serializer, anything else
     through json.loads(json.dumps(.)) -- which renders a member of an enum class with a mixed-in primitive type as
     its value and raises for a plain member, a Decimal, a deque (None = raises or not modelled) *)
  Fixpoint ser_untyped (v : pyval) {struct v} : option pyval :=
    let fix all (l : list pyval) {struct l} : option (list pyval) :=
        match l with
        | [] => Some []
        | x :: t => match ser_untyped x, all t with Some y, Some ys => Some (y :: ys) | _, _ => None end
        end in
    match v with
    | PNone | PBool _ | PStr _ => Some v
    | PNum (NDec _ _) => None
    | PNum _ => Some v
    | PList l | PTuple l => match all l with Some r => Some (PList r) | None => None end
    | PSet _ l => match all l with Some r => Some (PList r) | None => None end
    | PEnum c _ x => match eo_mixin (ei c) with MixNone => None | _ => Some x end
    | PStruct cn attrs => ser_struct cn attrs
    | _ => None
    end.

  Fixpoint ser (f : field) (v : pyval) {struct f} : option pyval :=
    match f with
    | FNumber _ _ _ =>
        match v with
        | PNum (NDec _ _) => None          (* str(Decimal): not modelled *)
        | PNum _ => Some v
        | _ => None                        (* bool under a numeric field: not modelled *)
        end
    | FString _ => match v with PStr _ => Some v | _ => None end
    | FBoolean => match v with PBool _ => Some v | _ => None end
    | FNone => match v with PNone => Some v | _ => None end
    | FAnything => match v with PNone | PBool _ | PStr _ | PNum (NInt _) | PNum (NFlt _ _) => Some v | _ => None end
    | FEnumLit _ => match v with PBool _ | PStr _ | PNum (NInt _) | PNum (NFlt _ _) => Some v | _ => None end
    | FEnumCls c _ =>
        match v with
        | PEnum _ name x =>
            if eo_by_value (ei c) then
              match x with PBool _ | PStr _ | PNum (NInt _) | PNum (NFlt _ _) => Some x | _ => None end
            else Some (PStr name)
        | PStr _ => if eo_by_value (ei c) then None else Some v
        | _ => None
        end
    | FSeqAny k _ _ =>
        match seq_items k v with
        | Some l => match mapO ser_any l with Some r => Some (PList r) | None => None end
        | None => None
        end
    | FSeqEach k item _ _ =>
        match seq_items k v with
        | Some l => match mapO (ser item) l with Some r => Some (PList r) | None => None end
        | None => None
        end
    | FSeqPos k items _ _ _ =>
        match seq_items k v with
        | Some l =>
            match (fix pos (fs : list field) (vs : list pyval) {struct fs} : option (list pyval) :=
                     match fs, vs with
                     | _, [] => Some []
                     | [], _ :: _ => mapO ser_untyped vs      (* past the declared positions: no field definition *)
                     | g :: fs', x :: vs' =>
                         match ser g x, pos fs' vs' with Some y, Some ys => Some (y :: ys) | _, _ => None end
                     end) items l with
            | Some r => Some (PList r)
            | None => None
            end
        | None => None
        end
    | FSet _ item _ =>
        match v with
        | PSet _ l =>
            match match item with Some g => mapO (ser g) l | None => mapO ser_any l end with
            | Some r => Some (PList r)
            | None => None
            end
        | _ => None
        end
    | FTuple [g] _ =>
        (* a single item field is the field of every element *)
        match v with
        | PTuple l => match mapO (ser g) l with Some r => Some (PList r) | None => None end
        | _ => None
        end
    | FTuple items _ =>
        (* positional, like Array(items=[...]) *)
        match v with
        | PTuple l =>
            match (fix pos (fs : list field) (vs : list pyval) {struct fs} : option (list pyval) :=
                     match fs, vs with
                     | _, [] => Some []
                     | [], _ :: _ => mapO ser_untyped vs
                     | g :: fs', x :: vs' =>
                         match ser g x, pos fs' vs' with Some y, Some ys => Some (y :: ys) | _, _ => None end
                     end) items l with
            | Some r => Some (PList r)
            | None => None
            end
        | _ => None
        end
    | FMapAny _ =>
        match v with
        | PDict kv =>
            match mapO (fun p => match fst p, ser_any (snd p) with
                                 | PStr _, Some y => Some (fst p, y)
                                 | _, _ => None
                                 end) kv with
            | Some r => Some (PDict r)
            | None => None
            end
        | _ => None
        end
    | FMapKV kf vf _ =>
        match v with
        | PDict kv =>
            match mapO (fun p => match ser kf (fst p), ser vf (snd p) with
                                 | Some (PStr k), Some y => Some (PStr k, y)
                                 | _, _ => None
                                 end) kv with
            | Some r => Some (PDict r)
            | None => None
            end
        | _ => None
        end
    | FAllOf fs | FAnyOf fs | FOneOf fs | FNot fs =>
        (* serialize_multifield_wrapper: the first option that validates (by the documented rules) and serializes.  A None
           under Optional is dropped by the enclosing structure; elsewhere it is not modelled *)
        match v with
        | PNone => None
        | _ =>
            (* a member of an enum class with a mixed-in primitive type also satisfies the Number/String options
               (it IS an int/str/float): which option wins is not modelled *)
            if match v with PEnum c _ _ => match eo_mixin (ei c) with MixNone => false | _ => true end | _ => false end
            then None else
            (fix first (gs : list field) : option pyval :=
               match gs with
               | [] => None
               | g :: gs' =>
                   if match docb re_match e g v with Some _ => true | None => false end then
                     match ser g v with Some j => Some j | None => first gs' end
                   else first gs'
               end) fs
        end
    | FClassRef _ =>
        match v with
        | PStruct cn attrs => ser_struct cn attrs
        | _ => None
        end
    end.
End Ser.

(* serialize_internal on an instance (non-compact): attribute order of the instance, renamed keys;
   None-valued attributes are absent from [attrs] *)
Section SerInst.
  Variable re_match : N -> pystr -> bool.
  Variable e : env.
  Variable smap : pystr -> renames.

  Fixpoint ser_inst (fuel : nat) (cn : pystr) (attrs : list (pystr * pyval)) : option pyval :=
    match fuel with
    | O => None
    | S n =>
        match find_class e cn with
        | None => None
        | Some c =>
            match mapO (fun p => match find_field (c_fields c) (fst p) with
                                 | Some d =>
                                     match ser re_match e (ser_inst n) (fd_field d) (snd p) with
                                     | Some j => Some (PStr (rename (smap cn) (fst p)), j)
                                     | None => None
                                     end
                                 | None => None        (* additional properties: not modelled *)
                                 end) attrs with
            | Some r => Some (PDict r)
            | None => None
            end
        end
    end.

  (* the top-level serialization paired with the exported schema: compact for a field wrapper *)
  Definition ser_top (fuel : nat) (c : classdef) (attrs : list (pystr * pyval)) : option pyval :=
    if wrapper_form c then
      match c_fields c, attrs with
      | [d], [(k, v)] => if pystr_eqb k (fd_name d) then ser re_match e (ser_inst fuel) (fd_field d) v else None
      | _, _ => None
      end
    else ser_inst (S fuel) (c_name c) attrs.
End SerInst.
End EI.

(* ------------------------------------------------------------------ nested mappers of inline structures *)
(* An aggregated serialization mapper is a tree: string renames of the class's own keys, and, under
   "<name>._mapper", the tree for the inline structure (StructureReference / Array of them) held by a field.
   WHICH name the entry is looked up under is a fact of the source, regenerated on every run for the schema
   export (_generate_schema_for_fields_internal) and for the serializer (serialize_internal). *)
Inductive lookup_name := ByAttrName | ByMappedName | LookupOther.

Inductive mtree := MT (ren : renames) (subs : list (pystr * mtree)).
Definition mt_ren (t : mtree) : renames := match t with MT r _ => r end.
Definition mt_subs (t : mtree) : list (pystr * mtree) := match t with MT _ s => s end.

Definition lookup_key (k : lookup_name) (m : renames) (key : pystr) : option pystr :=
  match k with
  | ByAttrName => Some key
  | ByMappedName => Some (rename m key)
  | LookupOther => None
  end.

(* mapper.get(f"{<name>}._mapper", {}) : the renames applied to the keys of the inline structure held by [key] *)
Definition sub_renames (k : lookup_name) (t : mtree) (key : pystr) : renames :=
  match lookup_key k (mt_ren t) key with
  | Some n => match alist_get (mt_subs t) n with Some t' => mt_ren t' | None => [] end
  | None => []
  end.

(* StructureReferenceMapper.to_schema: the schema of the inline class under the sub-mapper found by the export;
   (for a class in object form "type": "object" is already there) *)
Definition inline_schema (ei : einfo_t) (kS : lookup_name) (t : mtree) (key : pystr) (c : classdef) : schema :=
  class_schema ei (sub_renames kS t key) c.

(* serialize_internal on the value of the field: the inline instance under the sub-mapper found by the serializer *)
Definition inline_ser (ei : einfo_t) (re_match : N -> pystr -> bool) (e : env) (kR : lookup_name) (t : mtree)
           (key : pystr) (fuel : nat) (c : classdef) (attrs : list (pystr * pyval)) : option pyval :=
  ser_inst ei re_match e (fun _ => sub_renames kR t key) (S fuel) (c_name c) attrs.
