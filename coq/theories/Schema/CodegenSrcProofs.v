(* The tie between the GENERATED translation of the schema-to-code direction of
   typedpy/json_schema/json_schema_mapping.py (Gen/CodegenSrc.v: what the source of convert_to_field_code,
   _convert_field_to_schema_code_internal, _handle_schema_default_to_code, schema_to_struct_code,
   schema_definitions_to_code and every *Mapper.get_paramlist_from_schema says now) and the hand-written token
   model Schema/CodeGen.v (field_toks, class_toks) / Schema/ModuleGen.v (defs_toks) on which the C09 theorems are
   proved.

   How a model-level description is seen at the Python level: the other way round.  The Python-level argument is
   a JSON schema DOCUMENT (any [pyval]); Schema/CodegenBridge.v reads it as a description ([field_of], [class_of],
   [classes_of]: None outside the modelled fragment).  On the fragment, the generated function returns exactly the
   text of the model's token list, rendered under the GENERATED site table Gen/EmitSites.v:
       class_of O n name sch = Some c -> class_toks c = Some toks ->
       schema_to_struct_code O (2n+2) (PStr name) sch [] = Ok (PStr (render (co_printable O) emit_sites toks)).
   The oracles [O]: str.isprintable and the text of a number, of the running CPython.

   Every lemma is for EVERY document (no sampling): induction on the fuel / on lists. *)
From Coq Require Import ZArith NArith String Bool Lia List.
Import ListNotations.
From TP Require Import Base.PyVal Base.PyOps Base.PyOps2 Base.PyOpsSchema Base.PyOpsCodegen
     Schema.PyLiteral Schema.CodeGen Schema.ModuleGen Gen.EmitSites Gen.SchemaSrc Gen.CodegenSrc Schema.CodegenBridge.
Local Open Scope string_scope.

(* ------------------------------------------------------------------ rendering *)

Lemma rt_app O a b : rt O (a ++ b) = (rt O a ++ rt O b)%list.
Proof. unfold rt, render. apply flat_map_app. Qed.

Lemma rt_raw O s rest : rt O (TRaw s :: rest) = (s ++ rt O rest)%list.
Proof. reflexivity. Qed.

Lemma rt_nil O : rt O [] = [].
Proof. reflexivity. Qed.

Lemma rt_raw1 O s : rt O [TRaw s] = s.
Proof. unfold rt, render. cbn [flat_map render_tok]. apply app_nil_r. Qed.

Lemma rt_join O sep parts : rt O (join sep parts) = join_strs (rt O sep) (map (rt O) parts).
Proof.
  induction parts as [|p rest IH]; [reflexivity|].
  destruct rest as [|q rest']; [reflexivity|].
  change (join sep (p :: q :: rest')) with (p ++ sep ++ join sep (q :: rest'))%list.
  rewrite !rt_app, IH. reflexivity.
Qed.

Lemma rt_call O ctor params :
  rt O (call ctor params) = (ctor ++ s2p "(" ++ join_strs comma (map (rt O) params) ++ s2p ")")%list.
Proof.
  unfold call. rewrite rt_raw. unfold raw. rewrite rt_raw, rt_app, rt_join, !rt_raw1. reflexivity.
Qed.

Lemma rt_kv O name v : rt O (kv name v) = (rt O name ++ s2p "=" ++ rt O v)%list.
Proof. unfold kv. rewrite rt_app. unfold raw. rewrite rt_raw. reflexivity. Qed.

Definition repr_site (site : pystr) : Prop := site_disc emit_sites site = Repr.
Definition name_site (site : pystr) : Prop := site_disc emit_sites site = Identifier.

Lemma rt_str_repr O site s rest : repr_site site -> rt O (TStr site s :: rest) = (str_repr O s ++ rt O rest)%list.
Proof. intro H. unfold rt, render. cbn [flat_map render_tok]. rewrite H. reflexivity. Qed.

Lemma rt_str_name O site s rest : name_site site -> rt O (TStr site s :: rest) = (s ++ rt O rest)%list.
Proof. intro H. unfold rt, render. cbn [flat_map render_tok]. rewrite H. reflexivity. Qed.

Lemma sites_repr :
  repr_site (s2p "description") /\ repr_site (s2p "required") /\ repr_site (s2p "default")
  /\ repr_site (s2p "default_container") /\ repr_site (s2p "pattern") /\ repr_site (s2p "enum")
  /\ repr_site (s2p "nested_required").
Proof. repeat split; vm_compute; reflexivity. Qed.

Lemma sites_name :
  name_site (s2p "struct_name") /\ name_site (s2p "property_name") /\ name_site (s2p "nested_property_name")
  /\ name_site (s2p "ref").
Proof. repeat split; vm_compute; reflexivity. Qed.

(* ------------------------------------------------------------------ repr / str of literals *)

Definition reprs_of (O : cg_oracle) :=
  fix reprs (l : list pyval) {struct l} : res (list pystr) :=
    match l with
    | [] => Ok []
    | x :: t => y <- cg_repr O x ;; ys <- reprs t ;; Ok (y :: ys)
    end.

Definition dict_reprs_of (O : cg_oracle) :=
  fix go (l : list (pyval * pyval)) : res (list pystr) :=
    match l with
    | [] => Ok []
    | (a, b) :: t => k <- cg_repr O a ;; x <- cg_repr O b ;; r <- go t ;; Ok ((k ++ s2p ": " ++ x)%list :: r)
    end.

Lemma cg_repr_list O l :
  cg_repr O (PList l) = (xs <- reprs_of O l ;; Ok (s2p "[" ++ join_strs comma xs ++ s2p "]")%list).
Proof. reflexivity. Qed.

Lemma cg_repr_dict O kv :
  cg_repr O (PDict kv) = (xs <- dict_reprs_of O kv ;; Ok (s2p "{" ++ join_strs comma xs ++ s2p "}")%list).
Proof. reflexivity. Qed.

Lemma lit_repr O site v l : repr_site site -> lit_of O v = Some l -> cg_repr O v = Ok (rt O (lit_toks site l)).
Proof.
  intros Hs H. destruct v; try discriminate; cbn in H.
  - injection H as <-. cbn [lit_toks]. rewrite rt_raw1. destruct b; reflexivity.
  - injection H as <-. cbn [lit_toks]. rewrite rt_raw1. reflexivity.
  - injection H as <-. cbn [lit_toks]. rewrite (rt_str_repr O site s [] Hs), rt_nil, app_nil_r. reflexivity.
Qed.

Lemma lits_reprs O site : repr_site site -> forall l ls,
  mapO (lit_of O) l = Some ls -> reprs_of O l = Ok (map (fun x => rt O (lit_toks site x)) ls).
Proof.
  intros Hs. induction l as [|v l IH]; intros ls H.
  - injection H as <-. reflexivity.
  - cbn [mapO] in H. destruct (lit_of O v) as [x|] eqn:E; [|discriminate].
    destruct (mapO (lit_of O) l) as [xs|]; [|discriminate]. injection H as <-.
    cbn [reprs_of]. rewrite (lit_repr O site v x Hs E). cbn [bind].
    change ((fix reprs (l0 : list pyval) : res (list pystr) :=
               match l0 with
               | [] => Ok []
               | x0 :: t => y <- cg_repr O x0;; ys <- reprs t;; Ok (y :: ys)
               end) l) with (reprs_of O l).
    rewrite (IH xs eq_refl). reflexivity.
Qed.

Lemma rt_list_toks O site ls :
  rt O (list_toks site ls)
  = (s2p "[" ++ join_strs comma (map (fun x => rt O (lit_toks site x)) ls) ++ s2p "]")%list.
Proof.
  unfold list_toks, raw. rewrite rt_raw, rt_app, rt_join, !rt_raw1, map_map. reflexivity.
Qed.

Lemma lits_list_repr O site l ls : repr_site site ->
  mapO (lit_of O) l = Some ls -> cg_repr O (PList l) = Ok (rt O (list_toks site ls)).
Proof.
  intros Hs H. rewrite cg_repr_list, (lits_reprs O site Hs l ls H). cbn [bind]. rewrite rt_list_toks. reflexivity.
Qed.

Lemma dict_lits_reprs O site : repr_site site -> forall kv ls,
  mapO (dict_lit_of O) kv = Some ls ->
  dict_reprs_of O kv
  = Ok (map (fun p => (str_repr O (fst p) ++ s2p ": " ++ rt O (lit_toks site (snd p)))%list) ls).
Proof.
  intros Hs. induction kv as [|[a b] kv IH]; intros ls H.
  - injection H as <-. reflexivity.
  - cbn [mapO] in H. unfold dict_lit_of in H at 1. cbn [fst snd] in H.
    destruct a; try discriminate. destruct (lit_of O b) as [x|] eqn:E; [|discriminate].
    destruct (mapO (dict_lit_of O) kv) as [xs|]; [|discriminate]. injection H as <-.
    cbn [dict_reprs_of]. cbn [cg_repr bind]. rewrite (lit_repr O site b x Hs E). cbn [bind].
    change ((fix go (l : list (pyval * pyval)) : res (list pystr) :=
               match l with
               | [] => Ok []
               | (a, b0) :: t => k <- cg_repr O a;; x0 <- cg_repr O b0;; r <- go t;; Ok ((k ++ s2p ": " ++ x0)%list :: r)
               end) kv) with (dict_reprs_of O kv).
    rewrite (IH xs eq_refl). reflexivity.
Qed.

Lemma rt_dict_toks O site kvs : repr_site site ->
  rt O (dict_toks site kvs)
  = (s2p "{" ++ join_strs comma (map (fun p => (str_repr O (fst p) ++ s2p ": " ++ rt O (lit_toks site (snd p)))%list) kvs)
     ++ s2p "}")%list.
Proof.
  intro Hs. unfold dict_toks, raw. rewrite rt_raw, rt_app, rt_join, !rt_raw1, map_map.
  f_equal. f_equal. f_equal. apply map_ext. intros [k l]. cbn [fst snd].
  rewrite (rt_str_repr O site k _ Hs), rt_raw. reflexivity.
Qed.

(* ------------------------------------------------------------------ parameter lists *)

Lemma ptexts_app O a b ta tb : ptexts O a = Ok ta -> ptexts O b = Ok tb -> ptexts O (a ++ b) = Ok (ta ++ tb)%list.
Proof.
  unfold ptexts. revert ta. induction a as [|x a IH]; intros ta Ha Hb.
  - injection Ha as <-. exact Hb.
  - cbn [mapM app] in *. destruct (ptext O x) as [y|]; [|discriminate]. cbn [bind] in *.
    destruct (mapM (ptext O) a) as [ys|]; [|discriminate]. cbn [bind] in Ha. injection Ha as <-.
    rewrite (IH ys eq_refl Hb). reflexivity.
Qed.

Lemma ptexts_cons O p ps t ts : ptext O p = Ok t -> ptexts O ps = Ok ts -> ptexts O (p :: ps) = Ok (t :: ts).
Proof. intros H1 H2. unfold ptexts in *. cbn [mapM]. rewrite H1. cbn [bind]. rewrite H2. reflexivity. Qed.

Ltac sx :=
  cbn [bind py_in_dyn py_hashable' py_getitem_dyn py_dict_getitem py_isinstance_any isinstance_i
       isinstance1 py_not py_and py_or py_is_none py_is_not_none py_eqv py_index nth_error pair_fst
       pair_snd fst snd py_unpack2 py_list_append cg_repr_val cg_format py_list py_class_name
       cg_list_concat].

(* _handle_schema_default_to_code appends the model's `default=` parameter *)
Lemma handle_default_ok O rec ps kv d :
  default_of O kv = Some d ->
  exists dps, handle_schema_default_to_code O rec (PList ps) (PDict kv) = Ok (PTuple [PList (ps ++ dps)])
              /\ ptexts O dps = Ok (map (rt O) (default_param d)).
Proof.
  destruct sites_repr as (_ & _ & Hd & Hc & _).
  intro H. unfold default_of in H. unfold handle_schema_default_to_code. sx. unfold dict_has.
  destruct (sget kv "default") as [v|] eqn:E.
  - sx. destruct v; cbn [option_map lit_of num_of] in H; try discriminate.
    + (* bool *) injection H as <-. sx. eexists; split; [reflexivity|]. cbn [ptexts mapM ptext cg_format cg_repr bind default_param map].
      rewrite rt_kv. unfold raw. rewrite !rt_raw1. cbn [lit_toks]. rewrite rt_raw1. destruct b; reflexivity.
    + injection H as <-. sx. eexists; split; [reflexivity|]. cbn [ptexts mapM ptext cg_format cg_repr bind default_param map].
      rewrite rt_kv. unfold raw. rewrite !rt_raw1. cbn [lit_toks]. rewrite rt_raw1. reflexivity.
    + injection H as <-. sx. eexists; split; [reflexivity|]. cbn [ptexts mapM ptext cg_format cg_repr bind default_param map].
      rewrite rt_kv. unfold raw. rewrite !rt_raw1. cbn [lit_toks]. rewrite (rt_str_repr O _ s [] Hd), rt_nil, app_nil_r. reflexivity.
    + destruct (mapO (lit_of O) l) as [ls|] eqn:El; [|discriminate]. injection H as <-. sx.
      rewrite (lits_list_repr O _ l ls Hc El). sx.
      eexists; split; [reflexivity|]. cbn [ptexts mapM ptext cg_format cg_repr bind default_param map].
      rewrite rt_kv. unfold raw. rewrite !rt_raw1, rt_raw. reflexivity.
    + destruct (mapO (dict_lit_of O) kv0) as [ls|] eqn:El; [|discriminate]. injection H as <-. sx.
      rewrite cg_repr_dict, (dict_lits_reprs O _ Hc kv0 ls El). sx.
      eexists; split; [reflexivity|]. cbn [ptexts mapM ptext cg_format cg_repr bind default_param map].
      rewrite rt_kv. unfold raw. rewrite !rt_raw1, rt_raw, (rt_dict_toks O _ ls Hc). reflexivity.
  - injection H as <-. sx. exists []. rewrite app_nil_r. split; reflexivity.
Qed.

Lemma get_def_dict kv k d : py_dict_get_def (PDict kv) (PStr k) d = Ok (getdef kv k d).
Proof. reflexivity. Qed.

Lemma in_dict kv k : py_in_dyn (PStr k) (PDict kv) = Ok (dict_has kv (PStr k)).
Proof. reflexivity. Qed.

Lemma getitem_dict kv k :
  py_getitem_dyn (PDict kv) (PStr k) = match dict_get kv (PStr k) with Some v => Ok v | None => Raise KeyError end.
Proof. reflexivity. Qed.

Definition mk (p : pyval * pyval) : pyval := PTuple [fst p; snd p].

Lemma dict_items_mk kv : py_dict_items (PDict kv) = Ok (PList (map mk kv)).
Proof. reflexivity. Qed.

Lemma comp_fmt O ps ts :
  ptexts O ps = Ok ts ->
  cg_comp (fun x => p <- py_unpack2 x ;; s1 <- cg_format O (pair_fst p) ;; s2 <- cg_format O (pair_snd p) ;;
                    Ok (Some (PStr (s1 ++ s2p "=" ++ s2)%list))) (PList ps) = Ok (PList (map PStr ts)).
Proof.
  unfold cg_comp. cbn [cg_iter bind]. unfold ptexts. revert ts.
  induction ps as [|x ps IH]; intros ts H.
  - injection H as <-. reflexivity.
  - cbn [mapM] in H. cbn [filter_mapM].
    destruct x; try discriminate. destruct l as [|k [|v [|? ?]]]; try discriminate.
    cbn [ptext] in H. cbn [py_unpack2 bind pair_fst pair_snd fst snd].
    destruct (cg_format O k) as [a|]; [|discriminate]. cbn [bind] in *.
    destruct (cg_format O v) as [b|]; [|discriminate]. cbn [bind] in *.
    destruct (mapM (ptext O) ps) as [ys|]; [|discriminate]. cbn [bind] in H. injection H as <-.
    specialize (IH ys eq_refl).
    destruct (filter_mapM _ ps) as [rs|]; [|discriminate]. cbn [bind] in *. injection IH as ->. reflexivity.
Qed.

Lemma as_strs_map ts : as_strs (map PStr ts) = Some ts.
Proof. induction ts as [|t ts IH]; [reflexivity|]. cbn [map as_strs]. rewrite IH. reflexivity. Qed.

Lemma join_map sep ts : cg_str_join (PStr sep) (PList (map PStr ts)) = Ok (PStr (join_strs sep ts)).
Proof. cbn [cg_str_join]. rewrite as_strs_map. reflexivity. Qed.

(* the common tail of _convert_field_to_schema_code_internal: default, `name=value` texts, `Cls(...)` *)
Lemma code_tail_ok O rec cls ps kv ts d :
  ptexts O ps = Ok ts -> default_of O kv = Some d ->
  (t13 <- handle_schema_default_to_code O rec (PList ps) (PDict kv) ;; o14 <- py_index t13 0%nat ;;
   let v_params_list_15 := o14 in
   (t20 <- cg_comp (fun x_item_16 => (p17 <- py_unpack2 x_item_16 ;; (s18 <- cg_format O (pair_fst p17) ;;
                    s19 <- cg_format O (pair_snd p17) ;; Ok (Some (PStr (s18 ++ (s2p "=") ++ s19)%list)))))
                   v_params_list_15 ;;
    t21 <- cg_str_join (PStr (s2p ", ")) t20 ;; let v_params_as_string_22 := t21 in
    (t23 <- py_class_name (cls_val cls) ;; s24 <- cg_format O t23 ;; s25 <- cg_format O v_params_as_string_22 ;;
     Ok (PStr (s24 ++ (s2p "(") ++ s25 ++ (s2p ")"))%list))))
  = Ok (PStr (cls ++ s2p "(" ++ join_strs comma (ts ++ map (rt O) (default_param d)) ++ s2p ")")%list).
Proof.
  intros Hp Hd. destruct (handle_default_ok O rec ps kv d Hd) as (dps & -> & Hdp). sx.
  rewrite (comp_fmt O _ _ (ptexts_app O _ _ _ _ Hp Hdp)). sx. rewrite join_map. sx.
  unfold cls_val. sx. rewrite pystr_eqb_refl. sx. reflexivity.
Qed.

Definition dropf : pyval -> res (option pyval) :=
  fun x => p <- py_unpack2 x ;; c <- Ok (py_is_not_none (pair_snd p)) ;;
           if c then Ok (Some (PTuple [pair_fst p; pair_snd p])) else Ok None.

Lemma drop_none_ok' l :
  cg_comp dropf (PList (map mk l)) = Ok (PList (map mk (filter (fun p => py_is_not_none (snd p)) l))).
Proof.
  unfold cg_comp. cbn [cg_iter bind].
  assert (H : filter_mapM dropf (map mk l) = Ok (map mk (filter (fun p => py_is_not_none (snd p)) l))).
  { induction l as [|[k v] l IH]; [reflexivity|].
    cbn [map filter filter_mapM]. rewrite IH. unfold dropf at 1. unfold mk at 1.
    cbn [py_unpack2 bind pair_fst pair_snd fst snd]. destruct (py_is_not_none v); reflexivity. }
  rewrite H. reflexivity.
Qed.

Lemma drop_none_ok l :
  cg_comp (fun x => p <- py_unpack2 x ;;
                    if py_is_not_none (pair_snd p) then Ok (Some (PTuple [pair_fst p; pair_snd p])) else Ok None)
          (PList (map mk l))
  = Ok (PList (map mk (filter (fun p => py_is_not_none (snd p)) l))).
Proof. exact (drop_none_ok' l). Qed.

Definition kvget (kv : list (pyval * pyval)) (k : pystr) : pyval * pyval := (PStr k, getdef kv k PNone).
Definition notnone (p : pyval * pyval) : bool := py_is_not_none (snd p).

Lemma nums_ptexts O kv keys : forall nums,
  nums_of O kv keys = Some nums ->
  ptexts O (map mk (filter notnone (map (kvget kv) keys))) = Ok (map (rt O) (num_params nums)).
Proof.
  induction keys as [|k keys IH]; intros nums H.
  - injection H as <-. reflexivity.
  - cbn [nums_of] in H. destruct (nums_of O kv keys) as [r|]; [|discriminate]. specialize (IH r eq_refl).
    cbn [map filter].
    change (notnone (kvget kv k)) with (py_is_not_none (getdef kv k PNone)).
    change (kvget kv k) with (PStr k, getdef kv k PNone).
    assert (Hone : forall v tx, num_of O v = Some tx -> cg_format O v = Ok tx).
    { intros v tx Hv. destruct v; try discriminate; cbn in Hv; injection Hv as <-; [destruct b|]; reflexivity. }
    assert (Hstep : forall v tx, py_is_not_none v = true -> num_of O v = Some tx ->
              ptexts O (map mk ((PStr k, v) :: filter notnone (map (kvget kv) keys)))
              = Ok (map (rt O) (num_params ((k, tx) :: r)))).
    { intros v tx _ Hv. cbn [map]. unfold ptexts in *. cbn [mapM]. unfold mk at 1. cbn [fst snd ptext cg_format bind].
      replace (match v with PStr s => Ok s | _ => cg_repr O v end) with (cg_format O v) by reflexivity.
      rewrite (Hone v tx Hv). cbn [bind]. rewrite IH. cbn [bind]. unfold num_params. cbn [map fst snd].
      rewrite rt_kv, !rt_raw1. reflexivity. }
    revert H. destruct (getdef kv k PNone) as [| b | n | | | | | | | | |] eqn:E; intro H; cbn [num_of] in H; try discriminate.
    + injection H as <-. cbn [py_is_not_none py_is_none negb]. exact IH.
    + injection H as <-. cbn [py_is_not_none py_is_none negb]. apply Hstep; reflexivity.
    + injection H as <-. cbn [py_is_not_none py_is_none negb]. apply Hstep; reflexivity.
Qed.

(* ------------------------------------------------------------------ what the recursion is assumed to do *)

Definition rec_fields (O : cg_oracle) (n : nat) (rec : pyval -> pyval -> res pyval) : Prop :=
  forall sch f, field_of O n sch = Some f -> rec sch (PList []) = Ok (PStr (rt O (field_toks f))).
Definition rec_lists (O : cg_oracle) (n : nat) (rec : pyval -> pyval -> res pyval) : Prop :=
  forall l fs, mapO (field_of O n) l = Some fs ->
    rec (PList l) (PList [])
    = Ok (PStr (s2p "[" ++ join_strs comma (map (fun f => rt O (field_toks f)) fs) ++ s2p "]")%list).
Definition rec_none (rec : pyval -> pyval -> res pyval) : Prop := rec PNone (PList []) = Ok PNone.
Definition rec_spec (O : cg_oracle) (n : nat) (rec : pyval -> pyval -> res pyval) : Prop :=
  rec_fields O n rec /\ rec_lists O n rec /\ rec_none rec.

Lemma items_rec O n rec v k fs :
  rec_spec O n rec -> items_of (field_of O n) v = Some (k, fs) ->
  rec v (PList []) = Ok (match items_toks k (map field_toks fs) with Some c => PStr (rt O c) | None => PNone end).
Proof.
  intros (Hf & Hl & Hn) H. destruct v; try discriminate; cbn [items_of option_map] in H.
  - injection H as <- <-. exact Hn.
  - destruct (mapO (field_of O n) l) as [gs|] eqn:E; [|discriminate]. injection H as <- <-.
    rewrite (Hl l gs E). cbn [items_toks]. unfold raw. rewrite rt_raw, rt_app, rt_join, !rt_raw1, map_map. reflexivity.
  - destruct (field_of O n (PDict kv)) as [g|] eqn:E; [|discriminate]. injection H as <- <-.
    rewrite (Hf _ g E). reflexivity.
Qed.

(* ------------------------------------------------------------------ every mapper's get_paramlist_from_schema *)

Theorem StringMapper_paramlist O rec kv nums pat :
  nums_of O kv string_keys = Some nums -> pat_of kv = Some pat ->
  exists ps, StringMapper__get_paramlist_from_schema O rec (PDict kv) = Ok (PList ps)
             /\ ptexts O ps = Ok (map (rt O) (model_params (FString nums pat None))).
Proof.
  destruct sites_repr as (_ & _ & _ & _ & Hp & _).
  intros Hn Hpat. unfold StringMapper__get_paramlist_from_schema. rewrite !get_def_dict, in_dict. sx.
  unfold pat_of, dict_has in *.
  assert (Hgo : forall t5, 
     ptexts O (map mk (filter notnone [(PStr (s2p "pattern"), t5)]))
       = Ok (map (rt O) match pat with Some p => [CodeGen.kv [raw "pattern"] [TStr (s2p "pattern") p]] | None => [] end) ->
     exists ps,
       (t7 <- py_dict_items (PDict [(PStr (s2p "minLength"), getdef kv (s2p "minLength") PNone);
                                     (PStr (s2p "maxLength"), getdef kv (s2p "maxLength") PNone);
                                     (PStr (s2p "pattern"), t5)]) ;;
        cg_comp (fun x_item_8 => (p9 <- py_unpack2 x_item_8 ;; (c <- (Ok (py_is_not_none (pair_snd p9))) ;;
                  if c then (Ok (Some (PTuple [(pair_fst p9); (pair_snd p9)]))) else Ok None))) t7) = Ok (PList ps)
       /\ ptexts O ps = Ok (map (rt O) (model_params (FString nums pat None)))).
  { intros t5 H5. rewrite dict_items_mk. sx.
    change [(PStr (s2p "minLength"), getdef kv (s2p "minLength") PNone);
            (PStr (s2p "maxLength"), getdef kv (s2p "maxLength") PNone); (PStr (s2p "pattern"), t5)]
      with (map (kvget kv) string_keys ++ [(PStr (s2p "pattern"), t5)])%list.
    rewrite (drop_none_ok (map (kvget kv) string_keys ++ [(PStr (s2p "pattern"), t5)])).
    eexists; split; [reflexivity|]. rewrite filter_app, map_app. cbn [model_params]. rewrite map_app.
    apply ptexts_app; [exact (nums_ptexts O kv string_keys nums Hn) | exact H5]. }
  destruct (sget kv "pattern") as [v|] eqn:E.
  - destruct v; try discriminate. injection Hpat as <-. sx. unfold cg_repr_val. cbn [cg_repr bind].
    apply Hgo. cbn [filter notnone snd py_is_not_none py_is_none negb map]. unfold mk. cbn [fst snd ptexts mapM ptext cg_format bind].
    rewrite rt_kv. unfold raw. rewrite rt_raw1, (rt_str_repr O _ s [] Hp), rt_nil, app_nil_r. reflexivity.
  - injection Hpat as <-. sx. apply Hgo. reflexivity.
Qed.

Theorem NumberMapper_paramlist O rec kv nums ctor :
  nums_of O kv number_keys = Some nums ->
  exists ps, NumberMapper__get_paramlist_from_schema O rec (PDict kv) = Ok (PList ps)
             /\ ptexts O ps = Ok (map (rt O) (model_params (FNumeric ctor nums None))).
Proof.
  intros Hn. unfold NumberMapper__get_paramlist_from_schema. rewrite !get_def_dict. sx. rewrite dict_items_mk. sx.
  rewrite drop_none_ok.
  eexists; split; [reflexivity|]. exact (nums_ptexts O kv number_keys nums Hn).
Qed.

Theorem BooleanMapper_paramlist O rec kv :
  exists ps, BooleanMapper__get_paramlist_from_schema O rec (PDict kv) = Ok (PList ps)
             /\ ptexts O ps = Ok (map (rt O) (model_params (FBoolean None))).
Proof. exists []. split; reflexivity. Qed.

Theorem EnumMapper_paramlist O rec kv l ls :
  sget kv "enum" = Some (PList l) -> mapO (lit_of O) l = Some ls ->
  exists ps, EnumMapper__get_paramlist_from_schema O rec (PDict kv) = Ok (PList ps)
             /\ ptexts O ps = Ok (map (rt O) (model_params (FEnum ls None))).
Proof.
  destruct sites_repr as (_ & _ & _ & _ & _ & He & _).
  intros E Hl. unfold EnumMapper__get_paramlist_from_schema. rewrite get_def_dict. unfold getdef. rewrite E. sx.
  rewrite dict_items_mk. sx.
  eexists; split; [reflexivity|]. unfold mk. cbn [map ptexts mapM ptext fst snd cg_format bind model_params].
  rewrite (lits_list_repr O _ l ls He Hl). cbn [bind]. rewrite rt_kv. unfold raw. rewrite rt_raw1. reflexivity.
Qed.

Theorem ArrayMapper_paramlist O n rec kv flags k fs :
  rec_spec O n rec ->
  nums_of O kv array_keys = Some flags -> items_of (field_of O n) (getdef kv (s2p "items") PNone) = Some (k, fs) ->
  exists ps, ArrayMapper__get_paramlist_from_schema O rec (PDict kv) = Ok (PList ps)
             /\ ptexts O ps = Ok (map (rt O) (model_params (FArray flags k fs None))).
Proof.
  intros Hr Hn Hi. unfold ArrayMapper__get_paramlist_from_schema. rewrite !get_def_dict. sx.
  rewrite (items_rec O n rec _ k fs Hr Hi). sx. rewrite dict_items_mk. sx.
  match goal with |- context [ (PStr (s2p "items"), ?t) ] =>
    change [(PStr (s2p "uniqueItems"), getdef kv (s2p "uniqueItems") PNone);
            (PStr (s2p "additionalItems"), getdef kv (s2p "additionalItems") PNone);
            (PStr (s2p "minItems"), getdef kv (s2p "minItems") PNone);
            (PStr (s2p "maxItems"), getdef kv (s2p "maxItems") PNone); (PStr (s2p "items"), t)]
      with (map (kvget kv) array_keys ++ [(PStr (s2p "items"), t)])%list
  end.
  rewrite drop_none_ok.
  eexists; split; [reflexivity|]. rewrite filter_app, map_app. cbn [model_params]. rewrite map_app.
  apply ptexts_app; [exact (nums_ptexts O kv array_keys flags Hn)|].
  destruct (items_toks k (map field_toks fs)) as [c|]; cbn [filter snd py_is_not_none py_is_none negb map].
  - unfold mk. cbn [fst snd ptexts mapM ptext cg_format bind]. rewrite rt_kv. unfold raw. rewrite rt_raw1. reflexivity.
  - reflexivity.
Qed.

Theorem MultiFieldMapper_paramlist O n rec k0 v0 kv' k fs ctor :
  rec_spec O n rec -> items_of (field_of O n) v0 = Some (k, fs) ->
  exists ps, MultiFieldMapper__get_paramlist_from_schema O rec (PDict ((k0, v0) :: kv')) = Ok (PList ps)
             /\ ptexts O ps = Ok (map (rt O) (model_params (FMulti ctor k fs None))).
Proof.
  intros Hr Hi. pose proof Hr as (Hf & Hl & Hn). unfold MultiFieldMapper__get_paramlist_from_schema.
  cbn [cg_dict_values map snd]. sx.
  destruct v0; try discriminate; cbn [items_of option_map] in Hi.
  - injection Hi as <- <-. sx. rewrite Hn. sx. rewrite dict_items_mk. sx.
    eexists; split; [reflexivity|]. unfold mk. cbn [map fst snd ptexts mapM ptext cg_format cg_repr bind model_params items_toks].
    rewrite rt_kv. unfold raw. rewrite !rt_raw1. reflexivity.
  - destruct (mapO (field_of O n) l) as [gs|] eqn:E; [|discriminate]. injection Hi as <- <-. sx.
    rewrite (Hl l gs E). sx. rewrite dict_items_mk. sx.
    eexists; split; [reflexivity|]. unfold mk. cbn [map fst snd ptexts mapM ptext cg_format bind model_params items_toks].
    rewrite rt_kv. unfold raw. rewrite rt_raw1, rt_raw, rt_app, rt_join, !rt_raw1, map_map. reflexivity.
  - destruct (field_of O n (PDict kv)) as [g|] eqn:E; [|discriminate]. injection Hi as <- <-. sx.
    rewrite (Hl [PDict kv] [g]); [|cbn [mapO]; rewrite E; reflexivity]. sx. rewrite dict_items_mk. sx.
    eexists; split; [reflexivity|]. unfold mk. cbn [map fst snd ptexts mapM ptext cg_format bind model_params items_toks].
    rewrite rt_kv. unfold raw. rewrite rt_raw1, rt_raw, rt_app. cbn [join_strs map join]. rewrite !rt_raw1. reflexivity.
Qed.

Lemma as_strs_lits O l : forall r, as_strs l = Some r -> mapO (lit_of O) l = Some (map LStr r).
Proof.
  induction l as [|v l IH]; intros r H.
  - injection H as <-. reflexivity.
  - cbn [as_strs] in H. destruct v; try discriminate. destruct (as_strs l) as [r'|]; [|discriminate].
    injection H as <-. cbn [mapO lit_of map]. rewrite (IH r' eq_refl). reflexivity.
Qed.

Lemma props_comp O n rec : rec_fields O n rec -> forall pkv props,
  mapO (prop_of (field_of O n)) pkv = Some props ->
  exists qs,
    cg_comp (fun x => p <- py_unpack2 x ;; t <- rec (pair_snd p) (PList []) ;; Ok (Some (PTuple [pair_fst p; t])))
            (PList (map mk pkv)) = Ok (PList qs)
    /\ ptexts O qs
       = Ok (map (rt O) (map (fun p => CodeGen.kv [TStr (s2p "nested_property_name") (fst p)] (field_toks (snd p))) props)).
Proof.
  destruct sites_name as (_ & _ & Hnp & _).
  intros Hf. unfold cg_comp. cbn [cg_iter bind].
  induction pkv as [|[a b] pkv IH]; intros props H.
  - injection H as <-. exists []. split; reflexivity.
  - cbn [mapO] in H. unfold prop_of in H at 1. cbn [fst snd] in H.
    destruct a; try discriminate. destruct (field_of O n b) as [f|] eqn:E; [|discriminate].
    destruct (mapO (prop_of (field_of O n)) pkv) as [ps'|]; [|discriminate]. injection H as <-.
    destruct (IH ps' eq_refl) as (qs & Hq & Ht).
    cbn [map filter_mapM]. unfold mk at 1. cbn [py_unpack2 bind pair_fst pair_snd fst snd].
    rewrite (Hf b f E). cbn [bind].
    destruct (filter_mapM _ (map mk pkv)) as [rs|]; [|discriminate]. cbn [bind] in *. injection Hq as <-.
    eexists; split; [reflexivity|]. unfold ptexts in *. cbn [mapM ptext cg_format bind]. rewrite Ht. cbn [bind].
    rewrite rt_kv, (rt_str_name O _ s [] Hnp), rt_nil, app_nil_r. reflexivity.
Qed.

Theorem StructureReferenceMapper_paramlist O n rec kv pkv req props :
  rec_spec O n rec ->
  sget kv "properties" = Some (PDict pkv) -> required_of (sget kv "required") = Some req ->
  mapO (prop_of (field_of O n)) pkv = Some props ->
  exists ps, StructureReferenceMapper__get_paramlist_from_schema O rec (PDict kv) = Ok (PList ps)
             /\ ptexts O ps = Ok (map (rt O) (model_params (FObject (closed_of kv) req props None))).
Proof.
  destruct sites_repr as (_ & _ & _ & _ & _ & _ & Hnr).
  intros (Hf & _ & _) Hp Hreq Hprops. unfold StructureReferenceMapper__get_paramlist_from_schema.
  rewrite !get_def_dict. sx.
  destruct (props_comp O n rec Hf pkv props Hprops) as (qs & Hq & Hqt).
  assert (Eprops : getdef kv (s2p "properties") (PDict []) = PDict pkv) by (unfold getdef; rewrite Hp; reflexivity).
  rewrite Eprops, dict_items_mk. sx.
  assert (Hreqpart : exists rp,
            (if py_is_not_none (getdef kv (s2p "required") PNone)
             then Ok (PList [PTuple [PStr (s2p "_required"); getdef kv (s2p "required") PNone]]) else Ok (PList []))
            = Ok (PList rp)
            /\ ptexts O rp = Ok (map (rt O) match req with
                                           | Some r => [CodeGen.kv [raw "_required"] (list_toks (s2p "nested_required") (map LStr r))]
                                           | None => []
                                           end)).
  { unfold getdef. destruct (sget kv "required") as [v|]; [destruct v; try discriminate|]; cbn [required_of option_map] in Hreq.
    - injection Hreq as <-. exists []. split; reflexivity.
    - destruct (as_strs l) as [r|] eqn:El; [|discriminate]. injection Hreq as <-.
      eexists; split; [reflexivity|]. cbn [ptexts mapM ptext cg_format bind].
      rewrite (lits_list_repr O _ l (map LStr r) Hnr (as_strs_lits O l r El)). cbn [bind map].
      rewrite rt_kv. unfold raw. rewrite rt_raw1. reflexivity.
    - injection Hreq as <-. exists []. split; reflexivity. }
  destruct Hreqpart as (rp & Erp & Hrp).
  unfold closed_of. cbn [model_params].
  destruct (py_truthy (getdef kv (s2p "additionalProperties") (PBool true))); cbn [negb]; sx;
    rewrite Erp; sx; rewrite Hq; sx; (eexists; split; [reflexivity|]); cbn [app map].
  - rewrite map_app. apply ptexts_app; assumption.
  - apply ptexts_cons; [|rewrite map_app; apply ptexts_app; assumption].
    cbn [ptext cg_format cg_repr bind]. rewrite rt_kv. unfold raw. rewrite !rt_raw1. reflexivity.
Qed.

Theorem MapMapper_paramlist O n rec kv value :
  rec_spec O n rec ->
  py_truthy (getdef kv (s2p "patternProperties") PNone) = false ->
  map_value_of (field_of O n) kv = Some value ->
  exists ps, MapMapper__get_paramlist_from_schema O rec (PDict kv) = Ok (PList ps)
             /\ ptexts O ps = Ok (map (rt O) (model_params (FMap value None))).
Proof.
  intros (Hf & _ & _) Hpp Hv. unfold MapMapper__get_paramlist_from_schema. rewrite !get_def_dict. sx.
  assert (Hpn : py_truthy (getdef kv (s2p "patternProperties") (PDict [])) = false).
  { revert Hpp. unfold getdef. destruct (sget kv "patternProperties"); [trivial | reflexivity]. }
  rewrite Hpp. sx. cbn [cg_any cg_iter any_cond bind]. rewrite Hpp, Hpn. unfold map_value_of in Hv.
  destruct (py_truthy (getdef kv (s2p "additionalProperties") PNone)) eqn:Eap; sx.
  - destruct (getdef kv (s2p "maxItems") PNone); try discriminate.
    destruct (getdef kv (s2p "minItems") PNone); try discriminate.
    destruct (field_of O n (getdef kv (s2p "additionalProperties") PNone)) as [v|] eqn:E; [|discriminate].
    injection Hv as <-. rewrite (Hf _ v E). sx. rewrite dict_items_mk. sx. rewrite drop_none_ok.
    cbn [filter snd py_is_not_none py_is_none negb map]. eexists; split; [reflexivity|].
    unfold mk. cbn [fst snd ptexts mapM ptext cg_format bind model_params map].
    rewrite rt_kv. unfold raw. rewrite rt_raw1, rt_raw, rt_app, rt_raw1. reflexivity.
  - injection Hv as <-. exists []. split; reflexivity.
Qed.

(* ------------------------------------------------------------------ the dispatch tables (closed computations) *)

Lemma get_mapper_table :
  get_mapper (cls_val (s2p "Enum")) = Ok (cls_val (s2p "EnumMapper"))
  /\ get_mapper (cls_val (s2p "StructureReference")) = Ok (cls_val (s2p "StructureReferenceMapper"))
  /\ get_mapper (cls_val (s2p "Map")) = Ok (cls_val (s2p "MapMapper"))
  /\ get_mapper (cls_val (s2p "String")) = Ok (cls_val (s2p "StringMapper"))
  /\ get_mapper (cls_val (s2p "Integer")) = Ok (cls_val (s2p "IntegerMapper"))
  /\ get_mapper (cls_val (s2p "Number")) = Ok (cls_val (s2p "NumberMapper"))
  /\ get_mapper (cls_val (s2p "Boolean")) = Ok (cls_val (s2p "BooleanMapper"))
  /\ get_mapper (cls_val (s2p "Array")) = Ok (cls_val (s2p "ArrayMapper")).
Proof. repeat split; vm_compute; reflexivity. Qed.

Definition resolves (c d : string) : Prop :=
  py_resolve_method class_mro class_defs (cls_val (s2p c)) (s2p "get_paramlist_from_schema") = Ok (s2p d).

Lemma resolve_table :
  resolves "EnumMapper" "EnumMapper" /\ resolves "StructureReferenceMapper" "StructureReferenceMapper"
  /\ resolves "MapMapper" "MapMapper" /\ resolves "StringMapper" "StringMapper"
  /\ resolves "IntegerMapper" "NumberMapper" /\ resolves "NumberMapper" "NumberMapper"
  /\ resolves "BooleanMapper" "BooleanMapper" /\ resolves "ArrayMapper" "ArrayMapper"
  /\ resolves "MultiFieldMapper" "MultiFieldMapper".
Proof. unfold resolves. repeat split; vm_compute; reflexivity. Qed.

Ltac method_by H :=
  unfold METHOD_get_paramlist_from_schema; unfold resolves in H; rewrite H; cbn [bind]; reflexivity.

Lemma METHOD_enum O rec s :
  METHOD_get_paramlist_from_schema O rec (cls_val (s2p "EnumMapper")) s = EnumMapper__get_paramlist_from_schema O rec s.
Proof. destruct resolve_table as (H & _). method_by H. Qed.
Lemma METHOD_sref O rec s :
  METHOD_get_paramlist_from_schema O rec (cls_val (s2p "StructureReferenceMapper")) s
  = StructureReferenceMapper__get_paramlist_from_schema O rec s.
Proof. destruct resolve_table as (_ & H & _). method_by H. Qed.
Lemma METHOD_map O rec s :
  METHOD_get_paramlist_from_schema O rec (cls_val (s2p "MapMapper")) s = MapMapper__get_paramlist_from_schema O rec s.
Proof. destruct resolve_table as (_ & _ & H & _). method_by H. Qed.
Lemma METHOD_string O rec s :
  METHOD_get_paramlist_from_schema O rec (cls_val (s2p "StringMapper")) s = StringMapper__get_paramlist_from_schema O rec s.
Proof. destruct resolve_table as (_ & _ & _ & H & _). method_by H. Qed.
Lemma METHOD_integer O rec s :
  METHOD_get_paramlist_from_schema O rec (cls_val (s2p "IntegerMapper")) s = NumberMapper__get_paramlist_from_schema O rec s.
Proof. destruct resolve_table as (_ & _ & _ & _ & H & _). method_by H. Qed.
Lemma METHOD_number O rec s :
  METHOD_get_paramlist_from_schema O rec (cls_val (s2p "NumberMapper")) s = NumberMapper__get_paramlist_from_schema O rec s.
Proof. destruct resolve_table as (_ & _ & _ & _ & _ & H & _). method_by H. Qed.
Lemma METHOD_boolean O rec s :
  METHOD_get_paramlist_from_schema O rec (cls_val (s2p "BooleanMapper")) s = BooleanMapper__get_paramlist_from_schema O rec s.
Proof. destruct resolve_table as (_ & _ & _ & _ & _ & _ & H & _). method_by H. Qed.
Lemma METHOD_array O rec s :
  METHOD_get_paramlist_from_schema O rec (cls_val (s2p "ArrayMapper")) s = ArrayMapper__get_paramlist_from_schema O rec s.
Proof. destruct resolve_table as (_ & _ & _ & _ & _ & _ & _ & H & _). method_by H. Qed.
Lemma METHOD_multi O rec s :
  METHOD_get_paramlist_from_schema O rec (cls_val (s2p "MultiFieldMapper")) s = MultiFieldMapper__get_paramlist_from_schema O rec s.
Proof. destruct resolve_table as (_ & _ & _ & _ & _ & _ & _ & _ & H). method_by H. Qed.

Lemma type_table :
  py_getitem_dyn MODULE_type_name_to_field (PStr (s2p "string")) = Ok (cls_val (s2p "String"))
  /\ py_getitem_dyn MODULE_type_name_to_field (PStr (s2p "integer")) = Ok (cls_val (s2p "Integer"))
  /\ py_getitem_dyn MODULE_type_name_to_field (PStr (s2p "number")) = Ok (cls_val (s2p "Number"))
  /\ py_getitem_dyn MODULE_type_name_to_field (PStr (s2p "boolean")) = Ok (cls_val (s2p "Boolean"))
  /\ py_getitem_dyn MODULE_type_name_to_field (PStr (s2p "array")) = Ok (cls_val (s2p "Array")).
Proof. repeat split; vm_compute; reflexivity. Qed.

Lemma multi_any kv : cg_any (fun x => py_in_dyn x (PDict kv)) MODULE_multivals = Ok (is_multi kv).
Proof.
  unfold MODULE_multivals, is_multi. cbn [cg_any cg_iter map fst any_cond bind py_in_dyn py_hashable'].
  destruct (shas kv "allOf"), (shas kv "anyOf"), (shas kv "oneOf"), (shas kv "not"); reflexivity.
Qed.

Lemma multi_loop kv :
  is_multi kv = true ->
  (t3 <- py_dict_items MODULE_multivals ;;
   py_for_state t3 (fun x_item_4 s_cls_6 => (p5 <- py_unpack2 x_item_4 ;; (c <- (py_in_dyn (pair_fst p5) (PDict kv)) ;;
     if c then (let v_cls_7 := (pair_snd p5) in (Ok v_cls_7)) else (Ok s_cls_6)))) cg_unbound)
  = Ok (cls_val (multi_ctor kv)).
Proof.
  unfold MODULE_multivals, is_multi, multi_ctor.
  cbn [py_dict_items map fst snd bind py_for_state for_state py_unpack2 pair_fst pair_snd py_in_dyn py_hashable'].
  destruct (shas kv "allOf"), (shas kv "anyOf"), (shas kv "oneOf"), (shas kv "not"); intro H; try discriminate; reflexivity.
Qed.

Lemma field_toks_call f :
  match f with FRef _ => True
  | _ => field_toks f = call (model_ctor f) (model_params f ++ default_param (field_default f)) end.
Proof.
  destruct f; try exact I; cbn [field_toks model_ctor model_params field_default]; try reflexivity.
  - rewrite app_assoc. reflexivity.
  - rewrite app_assoc. reflexivity.
  - rewrite !app_assoc. reflexivity.
Qed.

Lemma ref_len : py_len (PStr (s2p "#/definitions/")) = Ok (zint 14).
Proof. vm_compute. reflexivity. Qed.
Lemma ref_slice r : cg_slice_from (PStr r) (zint 14) = Ok (PStr (skipn 14 r)).
Proof. reflexivity. Qed.

Lemma multi_loop_ok kv (F : pyval -> pyval -> res pyval) :
  is_multi kv = true ->
  (forall x s, F x s = (p <- py_unpack2 x ;; c <- py_in_dyn (pair_fst p) (PDict kv) ;;
                        if c then Ok (pair_snd p) else Ok s)) ->
  (t3 <- py_dict_items MODULE_multivals ;; py_for_state t3 F cg_unbound) = Ok (cls_val (multi_ctor kv)).
Proof.
  intros H HF. unfold MODULE_multivals, is_multi, multi_ctor in *.
  cbn [py_dict_items map fst snd bind py_for_state for_state].
  rewrite !HF. cbn [py_unpack2 bind pair_fst pair_snd fst snd py_in_dyn py_hashable'].
  destruct (shas kv "allOf") eqn:E1; cbn [bind]; rewrite !HF; cbn [py_unpack2 bind pair_fst pair_snd fst snd py_in_dyn py_hashable'];
  destruct (shas kv "anyOf") eqn:E2; cbn [bind]; rewrite !HF; cbn [py_unpack2 bind pair_fst pair_snd fst snd py_in_dyn py_hashable'];
  destruct (shas kv "oneOf") eqn:E3; cbn [bind]; rewrite !HF; cbn [py_unpack2 bind pair_fst pair_snd fst snd py_in_dyn py_hashable'];
  destruct (shas kv "not") eqn:E4; cbn [bind]; try discriminate; reflexivity.
Qed.

Ltac close_branch Hps Hd :=
  refine (eq_trans (code_tail_ok _ _ _ _ _ _ _ Hps Hd) _);
  match goal with |- _ = Ok (PStr (rt ?O (field_toks ?f))) =>
    let H := fresh in pose proof (field_toks_call f) as H; cbn beta iota in H; rewrite H;
    rewrite rt_call, map_app; reflexivity
  end.

(* one level of convert_to_field_code on a schema document that is a dict *)
Theorem convert_body_ok O n rec kv f :
  rec_spec O n rec -> field_of_dict O (field_of O n) kv = Some f ->
  convert_to_field_code_body O rec (PDict kv) (PList []) = Ok (PStr (rt O (field_toks f))).
Proof.
  intros Hr H. unfold convert_to_field_code_body. sx.
  unfold field_of_dict in H. unfold dict_has in H |- *.
  destruct (sget kv "$ref") as [r|] eqn:Eref.
  - destruct (sget kv "default"); [discriminate|]. destruct r; try discriminate. injection H as <-.
    sx. rewrite ref_len. sx. rewrite ref_slice. destruct sites_name as (_ & _ & _ & Hn).
    cbn [field_toks]. rewrite (rt_str_name O _ _ [] Hn), rt_nil, app_nil_r. reflexivity.
  - sx. unfold convert_field_to_schema_code_internal. rewrite multi_any. sx.
    destruct (is_multi kv) eqn:Em.
    + (* allOf / anyOf / oneOf / not *)
      match goal with |- context [py_for_state _ ?F cg_unbound] =>
        pose proof (multi_loop_ok kv F Em (fun x s => eq_refl)) as Hloop end.
      match type of Hloop with bind ?A ?G = _ => destruct A as [t3|]; [|discriminate]; cbn [bind] in Hloop |- * end.
      rewrite Hloop. sx. rewrite METHOD_multi.
      destruct kv as [|[k0 v0] kv']; [discriminate|].
      destruct (items_of (field_of O n) v0) as [[k fs]|] eqn:Ei; [|discriminate].
      destruct (default_of O ((k0, v0) :: kv')) as [d|] eqn:Ed; [|discriminate]. injection H as <-.
      destruct (MultiFieldMapper_paramlist O n rec k0 v0 kv' k fs (multi_ctor ((k0, v0) :: kv')) Hr Ei) as (ps & Eps & Hps).
      rewrite Eps. cbn [bind]. close_branch Hps Ed.
    + sx. unfold dict_has. destruct (sget kv "enum") as [e|] eqn:Ee.
      * (* enum *)
        destruct e; try discriminate. destruct (default_of O kv) as [d|] eqn:Ed; [|discriminate].
        destruct (mapO (lit_of O) l) as [ls|] eqn:El; [|discriminate]. injection H as <-.
        sx. destruct get_mapper_table as (-> & _). sx. rewrite METHOD_enum.
        destruct (EnumMapper_paramlist O rec kv l ls Ee El) as (ps & Eps & Hps).
        rewrite Eps. cbn [bind]. close_branch Hps Ed.
      * sx. rewrite get_def_dict. sx.
        assert (Hcase : (py_eq (getdef kv (s2p "type") (PStr (s2p "object"))) (PStr (s2p "object")) = true
                         /\ object_of O (field_of O n) kv = Some f)
                        \/ (exists t, getdef kv (s2p "type") (PStr (s2p "object")) = PStr t
                                      /\ pystr_eqb t (s2p "object") = false /\ typed_of O (field_of O n) kv t = Some f)).
        { unfold getdef. destruct (sget kv "type") as [t|].
          - destruct t; try discriminate. unfold typed_of in H |- *. cbn [py_eq].
            destruct (pystr_eqb s (s2p "object")) eqn:Eo.
            + left. split; [reflexivity | exact H].
            + right. exists s. rewrite Eo. repeat split; exact H.
          - left. split; [cbn [py_eq]; apply pystr_eqb_refl | exact H]. }
        clear H. destruct Hcase as [(-> & H) | (t & Et & Eo & H)].
        -- (* object / map *)
           sx. unfold dict_has. unfold object_of in H. unfold dict_has in H.
           destruct (sget kv "properties") as [pv|] eqn:Ep.
           ++ destruct pv; try discriminate.
              destruct (required_of (sget kv "required")) as [req|] eqn:Ereq; [|discriminate].
              destruct (default_of O kv) as [d|] eqn:Ed; [|discriminate].
              destruct (mapO (prop_of (field_of O n)) kv0) as [props|] eqn:Eprops; [|discriminate]. injection H as <-.
              sx. destruct get_mapper_table as (_ & -> & _). sx. rewrite METHOD_sref.
              destruct (StructureReferenceMapper_paramlist O n rec kv kv0 req props Hr Ep Ereq Eprops) as (ps & Eps & Hps).
              rewrite Eps. cbn [bind]. close_branch Hps Ed.
           ++ destruct (py_truthy (getdef kv (s2p "patternProperties") PNone)) eqn:Epp; [discriminate|].
              destruct (map_value_of (field_of O n) kv) as [value|] eqn:Ev; [|discriminate].
              destruct (default_of O kv) as [d|] eqn:Ed; [|discriminate]. injection H as <-.
              sx. destruct get_mapper_table as (_ & _ & -> & _). sx. rewrite METHOD_map.
              destruct (MapMapper_paramlist O n rec kv value Hr Epp Ev) as (ps & Eps & Hps).
              rewrite Eps. cbn [bind]. close_branch Hps Ed.
        -- (* the table type_name_to_field *)
           rewrite Et. cbn [py_eq]. rewrite Eo. cbn [py_for_return for_return]. sx.
           destruct type_table as (Ts & Ti & Tn & Tb & Ta).
           unfold typed_of in H. rewrite Eo in H.
           destruct (pystr_eqb t (s2p "string")) eqn:Es.
           { apply pystr_eqb_spec in Es. subst t. rewrite Ts. sx.
             destruct (nums_of O kv string_keys) as [nums|] eqn:En; [|discriminate].
             destruct (pat_of kv) as [pat|] eqn:Epat; [|discriminate].
             destruct (default_of O kv) as [d|] eqn:Ed; [|discriminate]. injection H as <-.
             destruct get_mapper_table as (_ & _ & _ & -> & _). sx. rewrite METHOD_string.
             destruct (StringMapper_paramlist O rec kv nums pat En Epat) as (ps & Eps & Hps).
             rewrite Eps. cbn [bind]. close_branch Hps Ed. }
           destruct (pystr_eqb t (s2p "integer")) eqn:Ei.
           { apply pystr_eqb_spec in Ei. subst t. rewrite Ti. sx. cbn [orb] in H.
             destruct (nums_of O kv number_keys) as [nums|] eqn:En; [|discriminate].
             destruct (default_of O kv) as [d|] eqn:Ed; [|discriminate]. injection H as <-.
             destruct get_mapper_table as (_ & _ & _ & _ & -> & _). sx. rewrite METHOD_integer.
             destruct (NumberMapper_paramlist O rec kv nums (s2p "Integer") En) as (ps & Eps & Hps).
             rewrite Eps. cbn [bind]. close_branch Hps Ed. }
           destruct (pystr_eqb t (s2p "number")) eqn:Enu.
           { apply pystr_eqb_spec in Enu. subst t. rewrite Tn. sx. cbn [orb] in H.
             destruct (nums_of O kv number_keys) as [nums|] eqn:En; [|discriminate].
             destruct (default_of O kv) as [d|] eqn:Ed; [|discriminate]. injection H as <-.
             destruct get_mapper_table as (_ & _ & _ & _ & _ & -> & _). sx. rewrite METHOD_number.
             destruct (NumberMapper_paramlist O rec kv nums (s2p "Number") En) as (ps & Eps & Hps).
             rewrite Eps. cbn [bind]. close_branch Hps Ed. }
           cbn [orb] in H.
           destruct (pystr_eqb t (s2p "boolean")) eqn:Eb.
           { apply pystr_eqb_spec in Eb. subst t. rewrite Tb. sx.
             destruct (default_of O kv) as [d|] eqn:Ed; [|discriminate]. injection H as <-.
             destruct get_mapper_table as (_ & _ & _ & _ & _ & _ & -> & _). sx. rewrite METHOD_boolean.
             destruct (BooleanMapper_paramlist O rec kv) as (ps & Eps & Hps).
             rewrite Eps. cbn [bind]. close_branch Hps Ed. }
           destruct (pystr_eqb t (s2p "array")) eqn:Ear; [|discriminate].
           apply pystr_eqb_spec in Ear. subst t. rewrite Ta. sx.
           destruct (nums_of O kv array_keys) as [flags|] eqn:En; [|discriminate].
           destruct (items_of (field_of O n) (getdef kv (s2p "items") PNone)) as [[k fs]|] eqn:Eit; [|discriminate].
           destruct (default_of O kv) as [d|] eqn:Ed; [|discriminate]. injection H as <-.
           destruct get_mapper_table as (_ & _ & _ & _ & _ & _ & _ & ->). sx. rewrite METHOD_array.
           destruct (ArrayMapper_paramlist O n rec kv flags k fs Hr En Eit) as (ps & Eps & Hps).
           rewrite Eps. cbn [bind]. close_branch Hps Ed.
Qed.

(* ------------------------------------------------------------------ the recursion *)

Lemma comp_rec O n rec : rec_fields O n rec -> forall l fs,
  mapO (field_of O n) l = Some fs ->
  cg_comp (fun x => t <- rec x (PList []) ;; Ok (Some t)) (PList l)
  = Ok (PList (map PStr (map (fun f => rt O (field_toks f)) fs))).
Proof.
  intros Hf. unfold cg_comp. cbn [cg_iter bind]. induction l as [|x l IH]; intros fs H.
  - injection H as <-. reflexivity.
  - cbn [mapO] in H. destruct (field_of O n x) as [f|] eqn:E; [|discriminate].
    destruct (mapO (field_of O n) l) as [gs|]; [|discriminate]. injection H as <-.
    specialize (IH gs eq_refl). cbn [filter_mapM]. rewrite (Hf x f E). cbn [bind].
    destruct (filter_mapM _ l) as [rs|]; [|discriminate]. cbn [bind] in *. injection IH as ->. reflexivity.
Qed.

Lemma convert_body_list O n rec l fs :
  rec_fields O n rec -> mapO (field_of O n) l = Some fs ->
  convert_to_field_code_body O rec (PList l) (PList [])
  = Ok (PStr (s2p "[" ++ join_strs comma (map (fun f => rt O (field_toks f)) fs) ++ s2p "]")%list).
Proof.
  intros Hf H. unfold convert_to_field_code_body. sx. rewrite (comp_rec O n rec Hf l fs H). sx.
  rewrite join_map. sx. reflexivity.
Qed.

Theorem convert_spec O : forall n,
  (forall m, (2 * n + 1 <= m)%nat -> rec_fields O n (convert_to_field_code O m))
  /\ (forall m, (2 * n + 2 <= m)%nat -> rec_lists O n (convert_to_field_code O m)).
Proof.
  assert (Hlists : forall n m, rec_fields O n (convert_to_field_code O m) -> rec_lists O n (convert_to_field_code O (S m))).
  { intros n m Hf l fs H. cbn [convert_to_field_code]. exact (convert_body_list O n _ l fs Hf H). }
  induction n as [|n [IH1 IH2]].
  - split.
    + intros m _ sch f H. discriminate.
    + intros m Hm. destruct m as [|m]; [lia|]. apply Hlists. intros sch f H. discriminate.
  - assert (H1 : forall m, (2 * S n + 1 <= m)%nat -> rec_fields O (S n) (convert_to_field_code O m)).
    { intros m Hm sch f H. destruct m as [|m]; [lia|]. cbn [field_of] in H. destruct sch; try discriminate.
      cbn [convert_to_field_code]. apply (convert_body_ok O n); [|exact H].
      split; [apply IH1; lia|]. split; [apply IH2; lia|]. destruct m as [|m]; [lia|]. reflexivity. }
    split; [exact H1|]. intros m Hm. destruct m as [|m]; [lia|]. apply Hlists. apply H1. lia.
Qed.

(* convert_to_field_code emits exactly the text of the model's field_toks *)
Theorem convert_to_field_code_bridge O n sch f :
  field_of O n sch = Some f ->
  convert_to_field_code O (2 * n + 1) sch (PList []) = Ok (PStr (rt O (field_toks f))).
Proof. intro H. exact (proj1 (convert_spec O n) _ (le_n _) sch f H). Qed.

(* ------------------------------------------------------------------ schema_to_struct_code *)

Lemma default_of_has O kv d :
  default_of O kv = Some d -> shas kv "default" = match d with Some _ => true | None => false end.
Proof.
  unfold default_of, dict_has. destruct (sget kv "default") as [v|]; intro H.
  - destruct v; cbn [option_map lit_of num_of] in H; try discriminate;
      try (injection H as <-; reflexivity);
      match type of H with option_map _ ?x = _ => destruct x; [injection H as <-; reflexivity | discriminate] end.
  - injection H as <-. reflexivity.
Qed.

Ltac split_hyp H :=
  repeat match type of H with
         | match ?x with _ => _ end = Some _ => let E := fresh "E" in destruct x eqn:E; try discriminate
         | (if ?x then _ else _) = Some _ => let E := fresh "E" in destruct x eqn:E; try discriminate
         | option_map _ ?x = Some _ => let E := fresh "E" in destruct x eqn:E; try discriminate; cbn [option_map] in H
         end.

Lemma field_default_has O sub kv f :
  field_of_dict O sub kv = Some f ->
  shas kv "default" = match field_default f with Some _ => true | None => false end.
Proof.
  intro H. unfold field_of_dict, typed_of, object_of in H.
  split_hyp H; injection H as <-; cbn [field_default];
    solve [ reflexivity | assumption | eapply default_of_has; eassumption ].
Qed.

Definition req_val (r : option (list pystr)) : pyval :=
  match r with Some l => PList (map PStr l) | None => PNone end.
Definition prop_line (O : cg_oracle) (p : pystr * jfield) : pystr :=
  rt O (raw "    " :: TStr (s2p "property_name") (fst p) :: raw ": " :: field_toks (snd p)).

Lemma pystr_eqb_sym a b : pystr_eqb a b = pystr_eqb b a.
Proof.
  destruct (pystr_eqb a b) eqn:E1, (pystr_eqb b a) eqn:E2; try reflexivity.
  - apply pystr_eqb_spec in E1. subst. rewrite pystr_eqb_refl in E2. discriminate.
  - apply pystr_eqb_spec in E2. subst. rewrite pystr_eqb_refl in E1. discriminate.
Qed.

Lemma py_in_strs k r : py_in (PStr k) (map PStr r) = str_in k r.
Proof. unfold py_in, str_in. induction r as [|y r IH]; [reflexivity|]. cbn [map existsb]. rewrite IH. reflexivity. Qed.

Lemma remove_strs k r :
  str_in k r = true -> remove_first_eq (PStr k) (map PStr r) = Some (map PStr (remove_first k r)).
Proof.
  unfold str_in. induction r as [|y r IH]; [discriminate|]. cbn [map existsb remove_first_eq remove_first py_eq].
  rewrite (pystr_eqb_sym y k). destruct (pystr_eqb k y); [reflexivity|]. cbn [orb]. intro H. rewrite (IH H). reflexivity.
Qed.

Lemma props_loop O n rec (F : pyval -> pyval * pyval -> res (pyval * pyval)) :
  rec_fields O n rec ->
  (forall x s_body s_required, F x (s_body, s_required) =
     (p26 <- py_unpack2 x ;; (c <- (py_and (py_in_dyn (PStr (s2p "default")) (pair_snd p26)) (fun _ => (py_and (Ok (py_is_not_none s_required)) (fun _ => (py_in_dyn (pair_fst p26) s_required))))) ;;
      if c then (t29 <- cg_list_remove s_required (pair_fst p26) ;; let v_required_30 := t29 in (s31 <- cg_format O (pair_fst p26) ;; t32 <- rec (pair_snd p26) (PList []) ;; s33 <- cg_format O t32 ;; t34 <- cg_list_concat s_body (PList [(PStr ((s2p "    ") ++ s31 ++ (s2p ": ") ++ s33)%list)]) ;; let v_body_35 := t34 in (Ok (v_body_35, v_required_30))))
      else (s36 <- cg_format O (pair_fst p26) ;; t37 <- rec (pair_snd p26) (PList []) ;; s38 <- cg_format O t37 ;; t39 <- cg_list_concat s_body (PList [(PStr ((s2p "    ") ++ s36 ++ (s2p ": ") ++ s38)%list)]) ;; let v_body_40 := t39 in (Ok (v_body_40, s_required)))))) ->
  forall pkv props, mapO (prop_of (field_of O n)) pkv = Some props ->
  forall lines req req', final_required req props = Some req' ->
  for_state (map mk pkv) F (PList (map PStr lines), req_val req)
  = Ok (PList (map PStr (lines ++ map (prop_line O) props)), req_val req').
Proof.
  destruct sites_name as (_ & Hpn & _).
  intros Hf HF. induction pkv as [|[a b] pkv IH]; intros props H lines req req' Hfin.
  - injection H as <-. cbn [final_required] in Hfin. injection Hfin as <-. cbn [map for_state]. rewrite app_nil_r. reflexivity.
  - cbn [mapO] in H. unfold prop_of in H at 1. cbn [fst snd] in H.
    destruct a; try discriminate. destruct (field_of O n b) as [f|] eqn:E; [|discriminate].
    destruct (mapO (prop_of (field_of O n)) pkv) as [props'|] eqn:Ep; [|discriminate]. injection H as <-.
    cbn [final_required] in Hfin.
    assert (Hline : forall R : pyval,
       (s36 <- cg_format O (PStr s) ;; t37 <- rec b (PList []) ;; s38 <- cg_format O t37 ;;
        t39 <- cg_list_concat (PList (map PStr lines)) (PList [(PStr ((s2p "    ") ++ s36 ++ (s2p ": ") ++ s38)%list)]) ;;
        Ok (t39, R))
       = Ok (PList (map PStr (lines ++ [prop_line O (s, f)])), R)).
    { intro R. cbn [cg_format bind]. rewrite (Hf b f E). cbn [cg_format bind cg_list_concat].
      rewrite map_app. unfold prop_line. cbn [fst snd map]. unfold raw. rewrite rt_raw, (rt_str_name O _ _ _ Hpn), rt_raw. reflexivity. }
    assert (Hd : py_in_dyn (PStr (s2p "default")) b = Ok (match field_default f with Some _ => true | None => false end)).
    { destruct n as [|n']; [discriminate|]. cbn [field_of] in E. destruct b; try discriminate.
      cbn [py_in_dyn py_hashable']. rewrite (field_default_has O _ _ f E). reflexivity. }
    cbn [map for_state]. rewrite HF. unfold mk at 1. cbn [py_unpack2 bind pair_fst pair_snd fst snd]. rewrite Hd.
    cbn [map].
    destruct (field_default f) as [dv|]; [destruct req as [r|]|]; cbn [py_and bind req_val py_is_not_none py_is_none negb].
    + cbn [py_in_dyn]. unfold py_in_lit. rewrite py_in_strs. cbn [bind]. destruct (str_in s r) eqn:Es.
      * cbn [cg_list_remove]. rewrite (remove_strs s r Es). cbn [bind]. rewrite Hline. cbn [bind].
        etransitivity; [exact (IH props' eq_refl (lines ++ [prop_line O (s, f)])%list (Some (remove_first s r)) req' Hfin)|].
        rewrite <- app_assoc. reflexivity.
      * rewrite Hline. cbn [bind]. etransitivity; [exact (IH props' eq_refl (lines ++ [prop_line O (s, f)])%list (Some r) req' Hfin)|].
        rewrite <- app_assoc. reflexivity.
    + rewrite Hline. cbn [bind]. etransitivity; [exact (IH props' eq_refl (lines ++ [prop_line O (s, f)])%list None req' Hfin)|].
        rewrite <- app_assoc. reflexivity.
    + rewrite Hline. cbn [bind]. etransitivity; [exact (IH props' eq_refl (lines ++ [prop_line O (s, f)])%list req req' Hfin)|].
        rewrite <- app_assoc. reflexivity.
Qed.

Definition desc_of (kv : list (pyval * pyval)) : option (option pystr) :=
  if shas kv "description" then match sget kv "description" with Some (PStr d) => Some (Some d) | _ => None end
  else Some None.
Definition type_ok (kv : list (pyval * pyval)) : bool :=
  match sget kv "type" with
  | None => shas kv "properties"
  | Some (PStr t) => pystr_eqb t (s2p "object")
  | Some _ => false
  end.
Definition props_kv (kv : list (pyval * pyval)) : option (list (pyval * pyval)) :=
  match sget kv "properties" with
  | None => Some []
  | Some (PDict pkv) => Some pkv
  | Some _ => None
  end.

Definition lines_val (O : cg_oracle) (parts : list (list tok)) : pyval := PList (map PStr (map (rt O) parts)).

Lemma piece_desc O kv d :
  desc_of kv = Some d ->
  (c <- (py_in_dyn (PStr (s2p "description")) (PDict kv)) ;;
   if c then (t3 <- py_dict_get_def (PDict kv) (PStr (s2p "description")) PNone ;; s4 <- cg_repr O t3 ;;
              Ok (PList [(PStr ((s2p "    ") ++ s4 ++ [10]%N)%list)])) else (Ok (PList [])))
  = Ok (lines_val O match d with Some x => [[raw "    "; TStr (s2p "description") x; nl]] | None => [] end).
Proof.
  destruct sites_repr as (Hd & _).
  unfold desc_of. rewrite get_def_dict. sx. unfold dict_has, getdef. destruct (sget kv "description") as [v|]; intro H.
  - destruct v; try discriminate. injection H as <-. sx. cbn [cg_repr bind]. unfold lines_val. cbn [map].
    unfold raw, nl, raw. rewrite rt_raw, (rt_str_repr O _ _ _ Hd), rt_raw1. reflexivity.
  - injection H as <-. reflexivity.
Qed.

Lemma piece_closed O kv :
  (c <- (py_not (t8 <- py_dict_get_def (PDict kv) (PStr (s2p "additionalProperties")) (PBool true) ;; Ok (py_truthy t8))) ;;
   if c then (Ok (PList [(PStr (s2p "    _additional_properties = False"))])) else (Ok (PList [])))
  = Ok (lines_val O (if closed_of kv then [[raw "    _additional_properties = False"]] else [])).
Proof.
  rewrite get_def_dict. sx. unfold closed_of.
  destruct (py_truthy (getdef kv (s2p "additionalProperties") (PBool true))); cbn [negb]; [reflexivity|].
  unfold lines_val. cbn [map]. unfold raw. rewrite rt_raw1. reflexivity.
Qed.

Lemma piece_required kv req :
  type_ok kv = true -> required_of (sget kv "required") = Some req ->
  (t14 <- (c <- (t12 <- py_dict_get_def (PDict kv) (PStr (s2p "type")) (PStr (s2p "object")) ;; py_eqv t12 (PStr (s2p "object"))) ;;
           if c then (t13 <- py_dict_get_def (PDict kv) (PStr (s2p "required")) PNone ;; Ok t13)
           else (Ok (PList [(PStr (s2p "wrapped"))]))) ;;
   (c <- (Ok (py_is_not_none t14)) ;; if c then (t16 <- py_list t14 ;; Ok t16) else (Ok PNone)))
  = Ok (req_val req).
Proof.
  unfold type_ok. rewrite !get_def_dict. sx. unfold getdef. intros Ht Hr.
  assert (E : py_eq (match sget kv "type" with Some v => v | None => PStr (s2p "object") end) (PStr (s2p "object")) = true).
  { destruct (sget kv "type") as [t|]; [destruct t; try discriminate; exact Ht | apply pystr_eqb_refl]. }
  rewrite E. sx.
  destruct (sget kv "required") as [v|]; [destruct v; try discriminate|]; cbn [required_of option_map] in Hr.
  - injection Hr as <-. reflexivity.
  - destruct (as_strs l) as [r|] eqn:El; [|discriminate]. injection Hr as <-. sx.
    assert (l = map PStr r) as ->; [|reflexivity].
    revert r El. induction l as [|x l IH]; intros r El.
    + injection El as <-. reflexivity.
    + cbn [as_strs] in El. destruct x; try discriminate. destruct (as_strs l) as [r'|]; [|discriminate].
      injection El as <-. cbn [map]. rewrite <- (IH r' eq_refl). reflexivity.
  - injection Hr as <-. reflexivity.
Qed.

Lemma piece_type kv :
  type_ok kv = true ->
  (t19 <- (c <- (py_in_dyn (PStr (s2p "properties")) (PDict kv)) ;; if c then (Ok (PStr (s2p "object"))) else (Ok PNone)) ;;
   t20 <- py_dict_get_def (PDict kv) (PStr (s2p "type")) t19 ;; py_eqv t20 (PStr (s2p "object")))
  = Ok true.
Proof.
  unfold type_ok. sx. unfold dict_has. intro H.
  destruct (sget kv "type") as [t|] eqn:Et.
  - destruct t; try discriminate. destruct (sget kv "properties"); sx; rewrite get_def_dict; unfold getdef; rewrite Et; sx;
      unfold py_eqv; cbn [py_eq]; rewrite H; reflexivity.
  - unfold dict_has in H. destruct (sget kv "properties"); [|discriminate]. sx. rewrite get_def_dict. unfold getdef. rewrite Et. sx.
    unfold py_eqv. cbn [py_eq]. rewrite pystr_eqb_refl. reflexivity.
Qed.

Lemma piece_final O body r :
  (t45 <- (c <- (Ok (py_is_not_none (req_val r))) ;;
           if c then (s44 <- cg_format O (req_val r) ;; Ok (PList [(PStr (@nil N)); (PStr ((s2p "    _required = ") ++ s44)%list)]))
           else (Ok (PList []))) ;;
   t46 <- cg_list_concat (lines_val O body) t45 ;; let v_body_47 := t46 in (cg_str_join (PStr [10]%N) v_body_47))
  = Ok (PStr (rt O (join [nl] (body ++ match r with
                                        | Some r => [[]; raw "    _required = " :: list_toks (s2p "required") (map LStr r)]
                                        | None => []
                                        end)))).
Proof.
  destruct sites_repr as (_ & Hr & _).
  assert (Hnl : rt O [nl] = [10]%N) by (unfold nl, raw; rewrite rt_raw1; reflexivity).
  destruct r as [r|]; cbn [req_val py_is_not_none py_is_none negb bind].
  - cbn [cg_format]. 
    assert (El : mapO (lit_of O) (map PStr r) = Some (map LStr r)).
    { apply as_strs_lits. apply as_strs_map. }
    rewrite (lits_list_repr O _ _ _ Hr El). cbn [bind]. unfold lines_val. cbn [cg_list_concat bind].
    change [PStr []; PStr (s2p "    _required = " ++ rt O (list_toks (s2p "required") (map LStr r)))%list]
      with (map PStr [ @nil N; (s2p "    _required = " ++ rt O (list_toks (s2p "required") (map LStr r)))%list]).
    rewrite <- map_app, join_map, rt_join, Hnl, map_app. cbn [map]. unfold raw. rewrite rt_raw, rt_nil. reflexivity.
  - unfold lines_val. cbn [cg_list_concat bind]. rewrite !app_nil_r, join_map, rt_join, Hnl. reflexivity.
Qed.

Lemma bind_step {A B} (X : res A) (v : A) (F : A -> res B) (R : res B) : X = Ok v -> F v = R -> bind X F = R.
Proof. intros -> H. exact H. Qed.

Lemma concat_lines O a b : cg_list_concat (lines_val O a) (lines_val O b) = Ok (lines_val O (a ++ b)).
Proof. unfold lines_val. cbn [cg_list_concat]. rewrite !map_app. reflexivity. Qed.

Lemma class_of_parts O n name kv c :
  class_of O n name (PDict kv) = Some c ->
  type_ok kv = true /\
  exists d req pkv ps,
    desc_of kv = Some d /\ required_of (sget kv "required") = Some req /\ props_kv kv = Some pkv
    /\ mapO (prop_of (field_of O n)) pkv = Some ps
    /\ c = {| c_name := name; c_description := d; c_closed := closed_of kv; c_required := req; c_props := ps |}.
Proof.
  unfold class_of. fold (type_ok kv). fold (desc_of kv). intro H.
  destruct (type_ok kv); [|discriminate]. split; [reflexivity|].
  destruct (desc_of kv) as [d|]; [|discriminate].
  destruct (required_of (sget kv "required")) as [req|]; [|discriminate].
  unfold props_kv. destruct (sget kv "properties") as [pv|].
  - destruct pv; try discriminate. destruct (mapO (prop_of (field_of O n)) kv0) as [ps|] eqn:E; [|discriminate].
    injection H as <-. exists d, req, kv0, ps. repeat split; assumption.
  - injection H as <-. exists d, req, [], []. repeat split; reflexivity.
Qed.

Lemma piece_req1 kv :
  type_ok kv = true ->
  (c <- (t12 <- py_dict_get_def (PDict kv) (PStr (s2p "type")) (PStr (s2p "object")) ;; py_eqv t12 (PStr (s2p "object"))) ;;
   if c then (t13 <- py_dict_get_def (PDict kv) (PStr (s2p "required")) PNone ;; Ok t13)
   else (Ok (PList [(PStr (s2p "wrapped"))])))
  = Ok (getdef kv (s2p "required") PNone).
Proof.
  unfold type_ok. rewrite !get_def_dict. sx. unfold getdef at 1. intros Ht.
  assert (E : py_eq (match sget kv "type" with Some v => v | None => PStr (s2p "object") end) (PStr (s2p "object")) = true).
  { destruct (sget kv "type") as [t|]; [destruct t; try discriminate; exact Ht | apply pystr_eqb_refl]. }
  rewrite E. reflexivity.
Qed.

Lemma piece_req2 kv req :
  required_of (sget kv "required") = Some req ->
  (c <- (Ok (py_is_not_none (getdef kv (s2p "required") PNone))) ;;
   if c then (t16 <- py_list (getdef kv (s2p "required") PNone) ;; Ok t16) else (Ok PNone))
  = Ok (req_val req).
Proof.
  unfold getdef. intros Hr.
  destruct (sget kv "required") as [v|]; [destruct v; try discriminate|]; cbn [required_of option_map] in Hr.
  - injection Hr as <-. reflexivity.
  - destruct (as_strs l) as [r|] eqn:El; [|discriminate]. injection Hr as <-. sx.
    assert (l = map PStr r) as ->; [|reflexivity].
    revert r El. induction l as [|x l IH]; intros r El.
    + injection El as <-. reflexivity.
    + cbn [as_strs] in El. destruct x; try discriminate. destruct (as_strs l) as [r'|]; [|discriminate].
      injection El as <-. cbn [map]. rewrite <- (IH r' eq_refl). reflexivity.
  - injection Hr as <-. reflexivity.
Qed.

Lemma piece_type2 kv :
  type_ok kv = true ->
  py_eq (getdef kv (s2p "type") (if shas kv "properties" then PStr (s2p "object") else PNone)) (PStr (s2p "object")) = true.
Proof.
  unfold type_ok, getdef. destruct (sget kv "type") as [t|].
  - destruct t; try discriminate. trivial.
  - intros ->. apply pystr_eqb_refl.
Qed.

Lemma piece_type1 kv :
  (c <- (py_in_dyn (PStr (s2p "properties")) (PDict kv)) ;; if c then (Ok (PStr (s2p "object"))) else (Ok PNone))
  = Ok (if shas kv "properties" then PStr (s2p "object") else PNone).
Proof. sx. destruct (shas kv "properties"); reflexivity. Qed.

Lemma props_kv_get kv pkv : props_kv kv = Some pkv -> getdef kv (s2p "properties") (PDict []) = PDict pkv.
Proof.
  unfold props_kv, getdef. destruct (sget kv "properties") as [v|]; [destruct v; try discriminate|]; intro H; injection H as <-; reflexivity.
Qed.

Definition prop_parts (p : pystr * jfield) : list tok :=
  raw "    " :: TStr (s2p "property_name") (fst p) :: raw ": " :: field_toks (snd p).

(* schema_to_struct_code emits exactly the text of the model's class_toks *)
Theorem schema_to_struct_code_bridge O n name sch c toks :
  class_of O n name sch = Some c -> class_toks c = Some toks ->
  schema_to_struct_code O (2 * n + 1) (PStr name) sch (PList []) = Ok (PStr (rt O toks)).
Proof.
  destruct sites_name as (Hsn & _).
  intros H Ht. destruct sch; try discriminate.
  destruct (class_of_parts O n name kv c H) as (Hty & d & req & pkv & ps & Hd & Hreq & Hpk & Hps & ->).
  unfold class_toks in Ht. cbn [c_name c_description c_closed c_required c_props] in Ht.
  destruct (final_required req ps) as [req'|] eqn:Hfin; [|discriminate]. injection Ht as <-.
  unfold schema_to_struct_code, schema_to_struct_code_body.
  set (rec := convert_to_field_code O (2 * n + 1)).
  assert (Hf : rec_fields O n rec) by (apply (proj1 (convert_spec O n)); lia).
  cbn [cg_format bind].
  assert (Hhead : PList [PStr (s2p "class " ++ name ++ s2p "(Structure):")%list]
                  = lines_val O [[raw "class "; TStr (s2p "struct_name") name; raw "(Structure):"]]).
  { unfold lines_val. cbn [map]. unfold raw. rewrite rt_raw, (rt_str_name O _ _ _ Hsn), rt_raw1. reflexivity. }
  rewrite Hhead.
  eapply bind_step; [exact (piece_desc O kv d Hd)|]. cbv beta zeta.
  eapply bind_step; [exact (concat_lines O _ _)|]. cbv beta zeta.
  eapply bind_step; [exact (piece_closed O kv)|]. cbv beta zeta.
  eapply bind_step; [exact (concat_lines O _ _)|]. cbv beta zeta.
  eapply bind_step; [exact (piece_req1 kv Hty)|]. cbv beta zeta.
  eapply bind_step; [exact (piece_req2 kv req Hreq)|]. cbv beta zeta.
  eapply bind_step; [exact (piece_type1 kv)|]. cbv beta zeta.
  eapply bind_step; [exact (get_def_dict _ _ _)|]. cbv beta zeta.
  eapply bind_step; [exact (f_equal Ok (piece_type2 kv Hty))|]. cbv beta iota zeta.
  eapply bind_step; [exact (get_def_dict _ _ _)|]. cbv beta zeta. rewrite (props_kv_get kv pkv Hpk).
  eapply bind_step; [exact (dict_items_mk pkv)|]. cbv beta zeta.
  eapply bind_step.
  { cbn [py_for_state]. unfold lines_val.
    exact (props_loop O n rec _ Hf (fun x b r => eq_refl) pkv ps Hps _ req req' Hfin). }
  cbv beta iota zeta.
  match goal with |- context [PList (map PStr (map (rt O) ?parts ++ map (prop_line O) ps))] =>
    replace (PList (map PStr (map (rt O) parts ++ map (prop_line O) ps)))
      with (lines_val O (parts ++ map prop_parts ps))
      by (unfold lines_val; rewrite map_app, map_map; reflexivity)
  end.
  etransitivity; [exact (piece_final O _ req')|].
  rewrite <- !app_assoc. reflexivity.
Qed.

(* ------------------------------------------------------------------ schema_definitions_to_code *)

Lemma defs_loop O n (F : pyval -> pyval -> res pyval) :
  (forall x s_code, F x s_code =
     (p4 <- py_unpack2 x ;; (t6 <- schema_to_struct_code_body O (convert_to_field_code O (2 * n + 1)) (pair_fst p4) (pair_snd p4) (PList []) ;;
                             t7 <- py_list_append s_code t6 ;; let v_code_8 := t7 in (Ok v_code_8)))) ->
  forall kv cs, mapO (def_of O n) kv = Some cs -> forall tss, all_class_toks cs = Some tss -> forall acc,
  for_state (map mk kv) F (PList (map PStr acc)) = Ok (PList (map PStr (acc ++ map (rt O) tss))).
Proof.
  intros HF. induction kv as [|[a b] kv IH]; intros cs H tss Ht acc.
  - injection H as <-. injection Ht as <-. cbn [map for_state]. rewrite app_nil_r. reflexivity.
  - cbn [mapO] in H. unfold def_of in H at 1. cbn [fst snd] in H. destruct a; try discriminate.
    destruct (class_of O n s b) as [c|] eqn:Ec; [|discriminate].
    destruct (mapO (def_of O n) kv) as [cs'|]; [|discriminate]. injection H as <-.
    cbn [all_class_toks] in Ht. destruct (class_toks c) as [t|] eqn:Etc; [|discriminate].
    destruct (all_class_toks cs') as [ts|] eqn:Ets; [|discriminate]. injection Ht as <-.
    cbn [map for_state]. rewrite HF. unfold mk at 1. cbn [py_unpack2 bind pair_fst pair_snd fst snd].
    pose proof (schema_to_struct_code_bridge O n s b c t Ec Etc) as Hb. unfold schema_to_struct_code in Hb.
    rewrite Hb. cbn [bind py_list_append].
    change (map PStr acc ++ [PStr (rt O t)])%list with (map PStr acc ++ map PStr [rt O t])%list. rewrite <- map_app.
    etransitivity; [exact (IH cs' eq_refl ts Ets (acc ++ [rt O t])%list) |].
    rewrite <- app_assoc. reflexivity.
Qed.

(* schema_definitions_to_code emits one class per definition, in the document's order (none is pruned), joined by
   the model's separator *)
Theorem schema_definitions_to_code_bridge O n defs cs toks :
  classes_of O n defs = Some cs -> defs_toks joiner_v1 cs = Some toks ->
  schema_definitions_to_code O (2 * n + 1) defs (PList []) = Ok (PStr (rt O toks)).
Proof.
  intros H Ht. destruct defs; try discriminate. cbn [classes_of] in H.
  unfold defs_toks, joiner_v1 in Ht. destruct (all_class_toks cs) as [tss|] eqn:Ea; [|discriminate]. injection Ht as <-.
  unfold schema_definitions_to_code, schema_definitions_to_code_body.
  eapply bind_step; [exact (dict_items_mk kv)|]. cbv beta zeta.
  eapply bind_step.
  { cbn [py_for_state]. exact (defs_loop O n _ (fun x s => eq_refl) kv cs H tss Ea []). }
  cbv beta zeta. cbn [app]. rewrite join_map, rt_join, rt_raw1. reflexivity.
Qed.

(* ------------------------------------------------------------------ the fragment is inhabited; one differential sample *)

(* an oracle for the samples: every non-ASCII character printable, the text of an int *)
Definition O_sample : cg_oracle :=
  mk_cgo (fun _ => true) (fun n => match n with NInt z => Z_dec z | _ => s2p "?" end).

Definition sample_schema : pyval := (PDict [((PStr (s2p "type")), (PStr (s2p "object"))); ((PStr (s2p "description")), (PStr [100;39;113;32;233]%N)); ((PStr (s2p "properties")), (PDict [((PStr (s2p "n")), (PDict [((PStr (s2p "type")), (PStr (s2p "integer"))); ((PStr (s2p "minimum")), (PNum (NInt (0)%Z))); ((PStr (s2p "default")), (PNum (NInt (3)%Z)))])); ((PStr (s2p "s")), (PDict [((PStr (s2p "type")), (PStr (s2p "string"))); ((PStr (s2p "pattern")), (PStr [94;97;92;100]%N)); ((PStr (s2p "maxLength")), (PNum (NInt (5)%Z))); ((PStr (s2p "default")), (PStr (s2p "x")))])); ((PStr (s2p "a")), (PDict [((PStr (s2p "type")), (PStr (s2p "array"))); ((PStr (s2p "items")), (PDict [((PStr (s2p "$ref")), (PStr (s2p "#/definitions/B")))])); ((PStr (s2p "minItems")), (PNum (NInt (0)%Z))); ((PStr (s2p "uniqueItems")), (PBool true))])); ((PStr (s2p "t")), (PDict [((PStr (s2p "type")), (PStr (s2p "array"))); ((PStr (s2p "items")), (PList [(PDict [((PStr (s2p "type")), (PStr (s2p "boolean")))]); (PDict [((PStr (s2p "type")), (PStr (s2p "number")))])])); ((PStr (s2p "default")), (PList [(PNum (NInt (1)%Z)); (PStr (s2p "z"))]))])); ((PStr (s2p "u")), (PDict [((PStr (s2p "anyOf")), (PList [(PDict [((PStr (s2p "type")), (PStr (s2p "boolean")))]); (PDict [((PStr (s2p "enum")), (PList [(PStr (s2p "x")); (PNum (NInt (1)%Z))]))])]))])); ((PStr (s2p "w")), (PDict [((PStr (s2p "not")), (PDict [((PStr (s2p "type")), (PStr (s2p "string")))]))])); ((PStr (s2p "m")), (PDict [((PStr (s2p "type")), (PStr (s2p "object"))); ((PStr (s2p "additionalProperties")), (PDict [((PStr (s2p "type")), (PStr (s2p "number")))])); ((PStr (s2p "default")), (PDict [((PStr (s2p "k")), (PNum (NInt (1)%Z)))]))])); ((PStr (s2p "o")), (PDict [((PStr (s2p "type")), (PStr (s2p "object"))); ((PStr (s2p "properties")), (PDict [((PStr (s2p "k")), (PDict [((PStr (s2p "type")), (PStr (s2p "string")))]))])); ((PStr (s2p "required")), (PList [(PStr (s2p "k"))])); ((PStr (s2p "additionalProperties")), (PBool false))]))])); ((PStr (s2p "required")), (PList [(PStr (s2p "n")); (PStr (s2p "s")); (PStr (s2p "a"))])); ((PStr (s2p "additionalProperties")), (PBool false))]).
Definition sample_defs : pyval := (PDict [((PStr (s2p "B")), (PDict [((PStr (s2p "type")), (PStr (s2p "object"))); ((PStr (s2p "properties")), (PDict [((PStr (s2p "v")), (PDict [((PStr (s2p "type")), (PStr (s2p "integer")))]))])); ((PStr (s2p "required")), (PList [(PStr (s2p "v"))]))])); ((PStr (s2p "C")), (PDict [((PStr (s2p "properties")), (PDict [((PStr (s2p "b")), (PDict [((PStr (s2p "$ref")), (PStr (s2p "#/definitions/B")))]))]))]))]).
(* what typedpy's schema_to_struct_code("A", sample_schema, sample_defs) / schema_definitions_to_code(sample_defs)
   returned when this file was written *)
Definition sample_text : pystr := [99;108;97;115;115;32;65;40;83;116;114;117;99;116;117;114;101;41;58;10;32;32;32;32;34;100;39;113;32;233;34;10;10;32;32;32;32;95;97;100;100;105;116;105;111;110;97;108;95;112;114;111;112;101;114;116;105;101;115;32;61;32;70;97;108;115;101;10;32;32;32;32;110;58;32;73;110;116;101;103;101;114;40;109;105;110;105;109;117;109;61;48;44;32;100;101;102;97;117;108;116;61;51;41;10;32;32;32;32;115;58;32;83;116;114;105;110;103;40;109;97;120;76;101;110;103;116;104;61;53;44;32;112;97;116;116;101;114;110;61;39;94;97;92;92;100;39;44;32;100;101;102;97;117;108;116;61;39;120;39;41;10;32;32;32;32;97;58;32;65;114;114;97;121;40;117;110;105;113;117;101;73;116;101;109;115;61;84;114;117;101;44;32;109;105;110;73;116;101;109;115;61;48;44;32;105;116;101;109;115;61;66;41;10;32;32;32;32;116;58;32;65;114;114;97;121;40;105;116;101;109;115;61;91;66;111;111;108;101;97;110;40;41;44;32;78;117;109;98;101;114;40;41;93;44;32;100;101;102;97;117;108;116;61;108;97;109;98;100;97;58;32;91;49;44;32;39;122;39;93;41;10;32;32;32;32;117;58;32;65;110;121;79;102;40;102;105;101;108;100;115;61;91;66;111;111;108;101;97;110;40;41;44;32;69;110;117;109;40;118;97;108;117;101;115;61;91;39;120;39;44;32;49;93;41;93;41;10;32;32;32;32;119;58;32;78;111;116;70;105;101;108;100;40;102;105;101;108;100;115;61;91;83;116;114;105;110;103;40;41;93;41;10;32;32;32;32;109;58;32;77;97;112;40;105;116;101;109;115;61;91;83;116;114;105;110;103;40;41;44;32;78;117;109;98;101;114;40;41;93;44;32;100;101;102;97;117;108;116;61;108;97;109;98;100;97;58;32;123;39;107;39;58;32;49;125;41;10;32;32;32;32;111;58;32;83;116;114;117;99;116;117;114;101;82;101;102;101;114;101;110;99;101;40;95;97;100;100;105;116;105;111;110;97;108;95;112;114;111;112;101;114;116;105;101;115;61;70;97;108;115;101;44;32;95;114;101;113;117;105;114;101;100;61;91;39;107;39;93;44;32;107;61;83;116;114;105;110;103;40;41;41;10;10;32;32;32;32;95;114;101;113;117;105;114;101;100;32;61;32;91;39;97;39;93]%N.
Definition sample_defs_text : pystr := [99;108;97;115;115;32;66;40;83;116;114;117;99;116;117;114;101;41;58;10;32;32;32;32;118;58;32;73;110;116;101;103;101;114;40;41;10;10;32;32;32;32;95;114;101;113;117;105;114;101;100;32;61;32;91;39;118;39;93;10;10;10;99;108;97;115;115;32;67;40;83;116;114;117;99;116;117;114;101;41;58;10;32;32;32;32;98;58;32;66]%N.

Example fragment_inhabited :
  exists c toks, class_of O_sample 3 (s2p "A") sample_schema = Some c /\ class_toks c = Some toks
                 /\ rt O_sample toks = sample_text.
Proof. eexists. eexists. split; [vm_compute; reflexivity|]. split; vm_compute; reflexivity. Qed.

Example sample_runs :
  schema_to_struct_code O_sample 7 (PStr (s2p "A")) sample_schema (PList []) = Ok (PStr sample_text).
Proof. vm_compute. reflexivity. Qed.

Example defs_fragment_inhabited :
  exists cs toks, classes_of O_sample 2 sample_defs = Some cs /\ defs_toks joiner_v1 cs = Some toks
                  /\ rt O_sample toks = sample_defs_text.
Proof. eexists. eexists. split; [vm_compute; reflexivity|]. split; vm_compute; reflexivity. Qed.

Example sample_defs_run :
  schema_definitions_to_code O_sample 5 sample_defs (PList []) = Ok (PStr sample_defs_text).
Proof. vm_compute. reflexivity. Qed.

Print Assumptions handle_default_ok.
Print Assumptions StringMapper_paramlist.
Print Assumptions NumberMapper_paramlist.
Print Assumptions BooleanMapper_paramlist.
Print Assumptions EnumMapper_paramlist.
Print Assumptions ArrayMapper_paramlist.
Print Assumptions MultiFieldMapper_paramlist.
Print Assumptions StructureReferenceMapper_paramlist.
Print Assumptions MapMapper_paramlist.
Print Assumptions convert_body_ok.
Print Assumptions convert_spec.
Print Assumptions convert_to_field_code_bridge.
Print Assumptions schema_to_struct_code_bridge.
Print Assumptions schema_definitions_to_code_bridge.
Print Assumptions fragment_inhabited.
Print Assumptions sample_runs.
Print Assumptions defs_fragment_inhabited.
Print Assumptions sample_defs_run.
