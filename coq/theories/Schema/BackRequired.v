(* C09 — the `required` list across the round trip schema -> code -> schema.
   schema_to_struct_code takes every property that has a default out of the required list it writes
   (final_required, Schema/CodeGen.v); structure_to_schema starts from the class's _required and appends
   every field that has a default and is not in it (_generate_schema_for_fields_internal), then sorts.
   No proofs in this file (Schema/BackRequiredProofs.v). *)
From Coq Require Import NArith List Bool.
Import ListNotations.
From TP Require Import Base.PyVal Schema.PyLiteral Schema.CodeGen.

Definition has_default (p : pystr * jfield) : bool :=
  match field_default (snd p) with Some _ => true | None => false end.

(* _generate_schema_for_fields_internal, the part that edits `required` (fields in declaration order) *)
Fixpoint back_required (req : list pystr) (props : list (pystr * jfield)) : list pystr :=
  match props with
  | [] => req
  | p :: rest =>
      back_required (if has_default p then (if str_in (fst p) req then req else req ++ [fst p]) else req) rest
  end.

Definition defaulted (props : list (pystr * jfield)) : list pystr := map fst (filter has_default props).

(* the required list that comes back for a class (None: the generator raised, or wrote no _required:
   typedpy then requires every field) *)
Definition roundtrip_required (c : jclass) : option (list pystr) :=
  match final_required (c_required c) (c_props c) with
  | Some (Some r) => Some (back_required r (c_props c))
  | Some None => Some (back_required (map fst (c_props c)) (c_props c))
  | None => None
  end.

(* equality of required lists up to order (they are compared sorted) *)
Definition same_members (a b : list pystr) : bool :=
  forallb (fun x => str_in x b) a && forallb (fun x => str_in x a) b
  && Nat.eqb (List.length a) (List.length b).
