(* Class-level proofs about the model of structure_to_schema (property C08):
   A. every $ref of the exported document (top-level schema and every definition) resolves inside the returned
      definitions -- for EVERY class whose reference graph is explored (also the ones with other defects);
   B. for classes free of the characterised defects the whole document is a well-formed draft-4 document;
   C. object-form completeness: the serialization of an instance whose attributes hold normal forms of their
      fields validates against the class schema (properties under renamed keys, required incl. defaults,
      additionalProperties). *)
From Coq Require Import ZArith QArith NArith String Ascii Bool Lia List.
Import ListNotations.
From TP Require Import Base.PyVal Fields.FieldAst Fields.SetChain Fields.Doc Fields.SetChainProofs
  Schema.Draft4 Schema.ToSchema Schema.ToSchemaProofs.
Local Open Scope Z_scope.

(* ------------------------------------------------------------------ association lists *)

Lemma alist_has_exists {A} (l : list (pystr * A)) k : alist_has l k = true <-> exists v, In (k, v) l.
Proof.
  split.
  - unfold alist_has. destruct (alist_get l k) as [v|] eqn:E; [|discriminate].
    intros _. exists v. apply alist_get_in. exact E.
  - intros [v H]. apply (alist_has_in _ _ _ H).
Qed.

Lemma alist_has_map {A B} (g : A -> B) (l : list (pystr * A)) k :
  alist_has (map (fun p => (fst p, g (snd p))) l) k = alist_has l k.
Proof.
  unfold alist_has. induction l as [|[k' v] l IH]; [reflexivity|].
  cbn [map alist_get fst snd]. destruct (pystr_eqb k' k); [reflexivity | exact IH].
Qed.

Lemma alist_has_incl {A} (l m : list (pystr * A)) k :
  incl l m -> alist_has l k = true -> alist_has m k = true.
Proof.
  intros Hi H. apply alist_has_exists in H as [v Hv]. apply alist_has_exists. exists v. apply Hi. exact Hv.
Qed.

(* ------------------------------------------------------------------ $refs of emitted schemas *)

Definition krefs (kws : list kw) : list pystr := flat_map kw_refs (map fix_kw kws).

Lemma schema_refs_fix_Sch kws : schema_refs (fix_dialect (Sch kws)) = krefs kws.
Proof. reflexivity. Qed.

Lemma krefs_app a b : krefs (a ++ b) = krefs a ++ krefs b.
Proof. unfold krefs. rewrite map_app, flat_map_app. reflexivity. Qed.

Lemma krefs_size sz : krefs (size_kws sz) = [].
Proof. unfold size_kws. destruct (maxItems sz), (minItems sz); reflexivity. Qed.
Lemma krefs_uniq u : krefs (uniq_kws u) = [].
Proof. destruct u; reflexivity. Qed.
Lemma krefs_num k s c : krefs (num_kws k s c) = [].
Proof.
  unfold num_kws.
  destruct (multiplesOf c), (get_min k s c), (get_max k s c),
    (exclusiveMaximum c && match maximum c with Some _ => true | None => false end); reflexivity.
Qed.
Lemma krefs_str c : krefs (str_kws c) = [].
Proof. unfold str_kws. destruct (minLength c), (maxLength c), (pattern c); reflexivity. Qed.
Lemma krefs_additems a : krefs (optl a KAddItems) = [].
Proof. destruct a; reflexivity. Qed.

Section EI.
  Variable ei : einfo_t.

  Definition frefs (f : field) : list pystr := schema_refs (fix_dialect (fschema ei f)).

  Lemma list_refs_incl (fs : list field) :
    Forall (fun f => incl (frefs f) (field_refs f)) fs ->
    incl (flat_map schema_refs (map fix_dialect (map (fschema ei) fs))) (flat_map field_refs fs).
  Proof.
    induction 1 as [|f fs Hf _ IH]; cbn [map flat_map]; [apply incl_refl|].
    apply incl_app; [apply incl_appl; exact Hf | apply incl_appr; exact IH].
  Qed.

  Ltac open_refs := cbn [fschema]; rewrite schema_refs_fix_Sch;
                    rewrite ?krefs_app, ?krefs_size, ?krefs_uniq, ?krefs_num, ?krefs_str, ?krefs_additems;
                    cbn [app].
  Ltac fin := unfold krefs; cbn [map fix_kw flat_map kw_refs field_refs app schema_refs];
              repeat rewrite app_nil_r; cbn [app].

  (* the $refs of an emitted field schema are references the declaration makes *)
  Lemma fschema_refs : forall f, incl (frefs f) (field_refs f).
  Proof.
    unfold frefs.
    induction f using field_ind'; try (open_refs; cbn; solve [apply incl_refl | apply incl_nil_l]).
    - (* FEnumLit *) cbn [fschema]. unfold enum_schema. destruct (enum_vals ei (FEnumLit vs)); apply incl_nil_l.
    - (* FEnumCls *) cbn [fschema]. unfold enum_schema. destruct (enum_vals ei (FEnumCls c ms)); apply incl_nil_l.
    - (* FSeqEach *) open_refs. fin. exact IHf.
    - (* FSeqPos *) open_refs. fin.
      apply list_refs_incl. exact H.
    - (* FSet Some *) open_refs. fin. exact IHf.
    - (* FTuple *) open_refs. fin.
      apply list_refs_incl. exact H.
    - (* FMapKV *)
      cbn [fschema field_refs]. rewrite schema_refs_fix_Sch, !krefs_app, krefs_size, app_nil_r.
      destruct f1 as [| c | | | | | | | | | | | | | | | | | ]; try destruct (key_constrained c);
        unfold krefs; cbn [map fix_kw flat_map kw_refs app fst snd]; rewrite ?app_nil_r; exact IHf2.
    - (* FAllOf *) open_refs. fin.
      apply list_refs_incl. exact H.
    - (* FAnyOf *)
      assert (G : incl (schema_refs (fix_dialect (Sch [KAnyOf (map (fschema ei) fs)]))) (flat_map field_refs fs)).
      { rewrite schema_refs_fix_Sch. unfold krefs. cbn [map fix_kw flat_map kw_refs app]. rewrite app_nil_r.
        apply list_refs_incl. exact H. }
      destruct fs as [|g [|h t]]; try exact G.
      destruct h; destruct t as [|k' fs']; try exact G.
      cbn [fschema field_refs flat_map app]. rewrite !app_nil_r.
      inversion H as [|? ? Hg _]; subst. exact Hg.
    - (* FOneOf *) open_refs. fin.
      apply list_refs_incl. exact H.
    - (* FNot: "not": {"anyOf": [...]} *)
      open_refs. fin.
      apply list_refs_incl. exact H.
  Qed.

  Lemma krefs_snoc_default kws v : krefs (kws ++ [KDefault v]) = krefs kws.
  Proof. rewrite krefs_app. unfold krefs at 2. cbn. apply app_nil_r. Qed.

  Lemma prop_schema_refs d : incl (schema_refs (fix_dialect (prop_schema ei d))) (field_refs (fd_field d)).
  Proof.
    unfold prop_schema. destruct (fd_default d) as [v|]; [|apply fschema_refs].
    rewrite schema_refs_fix_Sch, krefs_snoc_default.
    pose proof (fschema_refs (fd_field d)) as H. unfold frefs in H.
    destruct (fschema ei (fd_field d)) as [kws]. exact H.
  Qed.

  Lemma props_refs m (ds : list fdecl) :
    incl (flat_map (fun p : pystr * schema => schema_refs (snd p))
            (map (fun p : pystr * schema => (fst p, fix_dialect (snd p)))
               (map (fun d => (rename m (fd_name d), prop_schema ei d)) ds)))
         (flat_map (fun d => field_refs (fd_field d)) ds).
  Proof.
    induction ds as [|d ds IH]; cbn [map flat_map fst snd]; [apply incl_refl|].
    apply incl_app; [apply incl_appl; apply prop_schema_refs | apply incl_appr; exact IH].
  Qed.

  (* the $refs of a class schema are references of the class *)
  Lemma class_schema_refs m c : incl (schema_refs (fix_dialect (class_schema ei m c))) (class_refs c).
  Proof.
    unfold class_schema, class_refs. destruct (wrapper_form c).
    - destruct (c_fields c) as [|d ds]; [apply incl_nil_l|].
      cbn [flat_map]. apply incl_appl. apply fschema_refs.
    - rewrite schema_refs_fix_Sch. unfold krefs. cbn [map fix_kw flat_map kw_refs app]. rewrite app_nil_r.
      apply props_refs.
  Qed.

  (* ---------------------------------------------------------------- definitions closure *)
  Section Defs.
    Variable e : env.
    Variable smap : pystr -> renames.

    Lemma defs_from_S n names :
      defs_from ei e smap (S n) names =
      flat_map (fun nm => match find_class e nm with
                          | Some c => (nm, class_schema ei (smap nm) c) :: defs_from ei e smap n (class_refs c)
                          | None => []
                          end) names.
    Proof. reflexivity. Qed.

    (* a referenced name whose graph is explored has an entry *)
    Lemma closed_has p : forall fuel names r,
        closed e fuel p names = true -> In r names ->
        exists c, find_class e r = Some c /\ In (r, class_schema ei (smap r) c) (defs_from ei e smap fuel names).
    Proof.
      intros [|n] names r Hc Hr.
      - cbn [closed] in Hc. destruct names; [contradiction | discriminate].
      - cbn [closed] in Hc. rewrite forallb_forall in Hc. specialize (Hc r Hr).
        destruct (find_class e r) as [c|] eqn:E; [|discriminate].
        exists c. split; [reflexivity|]. rewrite defs_from_S. apply in_flat_map. exists r. split; [exact Hr|].
        rewrite E. left. reflexivity.
    Qed.

    (* every entry is the schema of a class that satisfies p, and all references of that class have entries *)
    Lemma defs_from_inv p : forall fuel names nm s,
        closed e fuel p names = true -> In (nm, s) (defs_from ei e smap fuel names) ->
        exists c, find_class e nm = Some c /\ s = class_schema ei (smap nm) c /\ p c = true /\
                  forall r, In r (class_refs c) -> exists s', In (r, s') (defs_from ei e smap fuel names).
    Proof.
      induction fuel as [|n IH]; intros names nm s Hc Hin; [contradiction Hin|].
      rewrite defs_from_S in Hin. apply in_flat_map in Hin as (x & Hx & Hin).
      cbn [closed] in Hc. rewrite forallb_forall in Hc. specialize (Hc x Hx).
      destruct (find_class e x) as [c|] eqn:E; [|contradiction Hin].
      apply andb_true_iff in Hc as [Hp Hcl].
      assert (Sub : incl (defs_from ei e smap n (class_refs c)) (defs_from ei e smap (S n) names)).
      { intros q Hq. rewrite defs_from_S. apply in_flat_map. exists x. split; [exact Hx|]. rewrite E. right. exact Hq. }
      destruct Hin as [Hh|Ht].
      - inversion Hh; subst. exists c. repeat split; auto.
        intros r Hr. destruct (closed_has p n (class_refs c) r Hcl Hr) as (c' & _ & Hin').
        eexists. apply Sub. exact Hin'.
      - destruct (IH (class_refs c) nm s Hcl Ht) as (c' & Hf & Hs & Hp' & Hrefs).
        exists c'. repeat split; auto.
        intros r Hr. destruct (Hrefs r Hr) as [s' Hs']. exists s'. apply Sub. exact Hs'.
    Qed.

    Definition any_class (_ : classdef) : bool := true.

    (* A. every $ref of the exported document resolves inside the returned definitions *)
    Theorem refs_resolve fuel c :
      closed e fuel any_class (class_refs c) = true ->
      doc_refs_resolve (fix_doc (to_schema ei e smap fuel c)) = true.
    Proof.
      intro Hc. unfold doc_refs_resolve, doc_refs, fix_doc, to_schema. cbn [fst snd].
      rewrite forallb_app. apply andb_true_iff. split; apply forallb_forall; intros r Hr.
      - apply class_schema_refs in Hr.
        destruct (closed_has any_class fuel (class_refs c) r Hc Hr) as (c' & _ & Hin).
        rewrite alist_has_map. apply alist_has_exists. eexists. exact Hin.
      - apply in_flat_map in Hr as ([nm s] & Hin & Hr). cbn [snd] in Hr.
        apply in_map_iff in Hin as ([nm0 s0] & Heq & Hin). cbn [fst snd] in Heq. inversion Heq; subst; clear Heq.
        destruct (defs_from_inv any_class fuel (class_refs c) nm s0 Hc Hin) as (c' & _ & -> & _ & Hrefs).
        apply class_schema_refs in Hr. destruct (Hrefs r Hr) as [s' Hs'].
        rewrite alist_has_map. apply alist_has_exists. exists s'. exact Hs'.
    Qed.
  End Defs.
End EI.

(* ------------------------------------------------------------------ B. well-formedness of the whole document *)

Lemma wf_kw_sibs_app D sibs extra k : wf_kw D sibs k = true -> wf_kw D (sibs ++ extra) k = true.
Proof.
  destruct k; try (intro H; exact H).
  cbn [wf_kw]. unfold has_maximum. rewrite existsb_app. intros ->. reflexivity.
Qed.

Lemma wf4_snoc_default D kws v :
  wf4 D (Sch kws) = true -> is_json v = true -> wf4 D (Sch (kws ++ [KDefault v])) = true.
Proof.
  rewrite !wf4_Sch. intros H Hv. rewrite forallb_app. apply andb_true_iff. split.
  - apply forallb_forall. intros k Hk. apply wf_kw_sibs_app.
    rewrite forallb_forall in H. apply H. exact Hk.
  - cbn [forallb wf_kw]. rewrite Hv. reflexivity.
Qed.

Lemma find_class_name e nm c : find_class e nm = Some c -> c_name c = nm.
Proof.
  induction e as [|c' e IH]; [discriminate|]. cbn [find_class].
  destruct (pystr_eqb (c_name c') nm) eqn:E.
  - intro H. inversion H; subst. apply pystr_eqb_spec. exact E.
  - exact IH.
Qed.

Section EIwf.
  Variable ei : einfo_t.
  Variable D : list (pystr * schema).

  Lemma prop_schema_wf d :
    fclean ei (fd_field d) = true ->
    match fd_default d with Some v => is_json (default_json v) | None => true end = true ->
    (forall nm, In nm (field_refs (fd_field d)) -> alist_has D nm = true) ->
    wf4 D (fix_dialect (prop_schema ei d)) = true.
  Proof.
    intros Hc Hd Hr. pose proof (fschema_wf ei D (fd_field d) Hc Hr) as W.
    unfold prop_schema. destruct (fd_default d) as [v|]; [|exact W].
    destruct (fschema ei (fd_field d)) as [kws] eqn:E. cbn [kws_of].
    rewrite fix_dialect_Sch, map_app. cbn [map fix_kw].
    apply wf4_snoc_default; [|exact Hd]. rewrite fix_dialect_Sch in W. exact W.
  Qed.

  (* a class free of the characterised defects, whose references have entries in D: its schema is well formed *)
  Lemma class_schema_wf m c :
    forallb (fun d => fclean ei (fd_field d) &&
                      match fd_default d with Some v => is_json (default_json v) | None => true end) (c_fields c) = true ->
    (wrapper_form c || (negb (Nat.eqb (length (required_out m c)) 0) && nodup_str (required_out m c))) = true ->
    (forall nm, In nm (class_refs c) -> alist_has D nm = true) ->
    wf4 D (fix_dialect (class_schema ei m c)) = true.
  Proof.
    intros Hf Hw Hr. unfold class_schema.
    assert (Hfield : forall d, In d (c_fields c) ->
                               wf4 D (fix_dialect (prop_schema ei d)) = true /\
                               wf4 D (fix_dialect (fschema ei (fd_field d))) = true).
    { intros d Hd. rewrite forallb_forall in Hf. specialize (Hf d Hd). apply andb_true_iff in Hf as [H1 H2].
      assert (R : forall nm, In nm (field_refs (fd_field d)) -> alist_has D nm = true).
      { intros nm Hn. apply Hr. unfold class_refs. apply in_flat_map. exists d. split; assumption. }
      split; [apply prop_schema_wf; assumption | apply fschema_wf; assumption]. }
    destruct (wrapper_form c) eqn:Ew.
    - destruct (c_fields c) as [|d ds] eqn:Ec; [reflexivity|].
      apply (Hfield d). left. reflexivity.
    - cbn [orb] in Hw. rewrite fix_dialect_Sch, wf4_Sch.
      cbn [map fix_kw forallb wf_kw]. rewrite Hw. rewrite !andb_true_r.
      rewrite !forallb_map. apply forallb_forall. intros d Hd. cbn [snd]. apply (Hfield d Hd).
  Qed.
End EIwf.

Section EIdoc.
  Variable ei : einfo_t.
  Variable e : env.
  Variable smap : pystr -> renames.

  Definition fixpair (p : pystr * schema) : pystr * schema := (fst p, fix_dialect (snd p)).

  (* B. a class free of the characterised defects (transitively): the exported document, after the dialect
     translation, is a well-formed draft-4 document whose every $ref resolves in its definitions *)
  Theorem clean_doc_wf fuel c :
    schema_clean ei e smap fuel c = true ->
    wf_doc (fix_doc (to_schema ei e smap fuel c)) = true.
  Proof.
    unfold schema_clean. intro H. apply andb_true_iff in H as [Hc Hcl].
    unfold wf_doc, fix_doc, to_schema. cbn [fst snd].
    set (D := map (fun p : pystr * schema => (fst p, fix_dialect (snd p))) (defs_from ei e smap fuel (class_refs c))).
    assert (Has : forall r s, In (r, s) (defs_from ei e smap fuel (class_refs c)) -> alist_has D r = true).
    { intros r s Hin. unfold D. rewrite alist_has_map. apply alist_has_exists. exists s. exact Hin. }
    apply andb_true_iff. split.
    - unfold class_clean in Hc. apply andb_true_iff in Hc as [Hf Hw].
      apply class_schema_wf; auto.
      intros r Hr. destruct (closed_has ei e smap (class_clean ei smap) fuel (class_refs c) r Hcl Hr) as (c' & _ & Hin).
      apply (Has _ _ Hin).
    - apply forallb_forall. intros [nm s] Hin. cbn [snd].
      unfold D in Hin. apply in_map_iff in Hin as ([nm0 s0] & Heq & Hin). cbn [fst snd] in Heq.
      inversion Heq; subst; clear Heq.
      destruct (defs_from_inv ei e smap (class_clean ei smap) fuel (class_refs c) nm s0 Hcl Hin)
        as (c' & Hfind & -> & Hc' & Hrefs).
      unfold class_clean in Hc'. apply andb_true_iff in Hc' as [Hf Hw].
      rewrite (find_class_name _ _ _ Hfind) in Hw.
      apply class_schema_wf; auto.
      intros r Hr. destruct (Hrefs r Hr) as [s' Hs']. apply (Has _ _ Hs').
  Qed.
End EIdoc.

(* ------------------------------------------------------------------ C. object-form completeness *)

Lemma forallb_eq {A} (f g : A -> bool) l : (forall x, f x = g x) -> forallb f l = forallb g l.
Proof. intro H. induction l as [|x l IH]; cbn [forallb]; [reflexivity | rewrite H, IH; reflexivity]. Qed.

Lemma find_ref_snoc_default kws v : find_ref (kws ++ [KDefault v]) = find_ref kws.
Proof. induction kws as [|k kws IH]; [reflexivity|]. destruct k; cbn; try exact IH; reflexivity. Qed.
Lemma props_of_snoc_default kws v : props_of (kws ++ [KDefault v]) = props_of kws.
Proof. unfold props_of. rewrite flat_map_app. cbn. apply app_nil_r. Qed.
Lemma patprops_of_snoc_default kws v : patprops_of (kws ++ [KDefault v]) = patprops_of kws.
Proof. unfold patprops_of. rewrite flat_map_app. cbn. apply app_nil_r. Qed.
Lemma excl_max_snoc_default kws v : excl_max (kws ++ [KDefault v]) = excl_max kws.
Proof. unfold excl_max. rewrite existsb_app. cbn. apply orb_false_r. Qed.
Lemma items_list_of_snoc_default kws v : items_list_of (kws ++ [KDefault v]) = items_list_of kws.
Proof. induction kws as [|k kws IH]; [reflexivity|]. destruct k; cbn; try exact IH; reflexivity. Qed.

Lemma valid_kw_snoc_default re rec kws v j k :
  valid_kw re rec (kws ++ [KDefault v]) j k = valid_kw re rec kws j k.
Proof.
  destruct k; cbn [valid_kw];
    rewrite ?props_of_snoc_default, ?patprops_of_snoc_default, ?excl_max_snoc_default, ?items_list_of_snoc_default;
    reflexivity.
Qed.

(* "default" is an annotation: it does not change what a schema admits *)
Lemma valid4_snoc_default re D n kws v j :
  valid4 re D n (Sch (kws ++ [KDefault v])) j = valid4 re D n (Sch kws) j.
Proof.
  destruct n as [|n]; [reflexivity|]. cbn [valid4 kws_of]. rewrite find_ref_snoc_default.
  destruct (find_ref kws); [reflexivity|].
  rewrite forallb_app. cbn [forallb]. rewrite valid_kw_snoc_default. cbn [valid_kw]. rewrite !andb_true_r.
  apply forallb_eq. intro k. apply valid_kw_snoc_default.
Qed.

Lemma str_in_In s l : str_in s l = true <-> In s l.
Proof.
  unfold str_in. rewrite existsb_exists. split.
  - intros (x & Hx & E). apply pystr_eqb_spec in E. subst. exact Hx.
  - intro H. exists s. split; [exact H | apply pystr_eqb_refl].
Qed.

Lemma alist_get_nodup {A} (l : list (pystr * A)) k v :
  nodup_str (map fst l) = true -> In (k, v) l -> alist_get l k = Some v.
Proof.
  induction l as [|[k' v'] l IH]; [contradiction|]. cbn [map fst nodup_str alist_get].
  intros Hn Hin. apply andb_true_iff in Hn as [Hk Hn]. apply negb_true_iff in Hk.
  destruct Hin as [Hh|Ht].
  - inversion Hh; subst. rewrite pystr_eqb_refl. reflexivity.
  - destruct (pystr_eqb k' k) eqn:E.
    + apply pystr_eqb_spec in E. subst k'. exfalso.
      assert (Hin : In k (map fst l)) by (apply in_map_iff; exists (k, v); split; [reflexivity | exact Ht]).
      apply str_in_In in Hin. rewrite Hin in Hk. discriminate.
    + apply IH; assumption.
Qed.

Lemma find_field_in ds k d : find_field ds k = Some d -> In d ds /\ fd_name d = k.
Proof.
  induction ds as [|d' ds IH]; [discriminate|]. cbn [find_field].
  destruct (pystr_eqb (fd_name d') k) eqn:E.
  - intro H. inversion H; subst. split; [left; reflexivity | apply pystr_eqb_spec; exact E].
  - intro H. destruct (IH H) as [H1 H2]. split; [right; exact H1 | exact H2].
Qed.

Lemma insert_str_in x y l : In x (insert_str y l) -> x = y \/ In x l.
Proof.
  induction l as [|z l IH]; cbn [insert_str].
  - intros [H|[]]; left; symmetry; exact H.
  - destruct (pystr_leb y z).
    + intros [H|H]; [left; symmetry; exact H | right; exact H].
    + intros [H|H]; [right; left; exact H|]. destruct (IH H) as [E|Hl]; [left; exact E | right; right; exact Hl].
Qed.

Lemma sort_str_in x l : In x (sort_str l) -> In x l.
Proof.
  unfold sort_str. induction l as [|y l IH]; cbn [fold_right]; [auto|].
  intro H. apply insert_str_in in H as [E|H]; [left; symmetry; exact E | right; apply IH; exact H].
Qed.

Lemma Forall2_in_r {A B} (P : A -> B -> Prop) l r y : Forall2 P l r -> In y r -> exists x, In x l /\ P x y.
Proof.
  induction 1 as [|a b l r Hab _ IH]; [contradiction|].
  intros [E|H]; [subst; exists a; split; [left; reflexivity | exact Hab]|].
  destruct (IH H) as (x & Hx & Hp). exists x. split; [right; exact Hx | exact Hp].
Qed.

Lemma Forall2_in_l {A B} (P : A -> B -> Prop) l r x : Forall2 P l r -> In x l -> exists y, In y r /\ P x y.
Proof.
  induction 1 as [|a b l r Hab _ IH]; [contradiction|].
  intros [E|H]; [subst; exists b; split; [left; reflexivity | exact Hab]|].
  destruct (IH H) as (y & Hy & Hp). exists y. split; [right; exact Hy | exact Hp].
Qed.

Section ClassComplete.
  Variable ei : einfo_t.
  Variable re_match re_search : N -> pystr -> bool.
  Hypothesis Hre : forall p s, re_match p s = true -> re_search p s = true.
  Variable e : env.
  Variable D : list (pystr * schema).
  Variable smap : pystr -> renames.

  (* the attribute holds a documented normal form of its field *)
  Definition attr_ok (c : classdef) (p : pystr * pyval) : Prop :=
    exists d v0, find_field (c_fields c) (fst p) = Some d /\ docb re_match e (fd_field d) v0 = Some (snd p).

  Definition ser_attr (fuel : nat) (c : classdef) (p : pystr * pyval) : option (pyval * pyval) :=
    match find_field (c_fields c) (fst p) with
    | Some d =>
        match ser ei re_match e (ser_inst ei re_match e smap fuel) (fd_field d) (snd p) with
        | Some j => Some (PStr (rename (smap (c_name c)) (fst p)), j)
        | None => None
        end
    | None => None
    end.

  Lemma ser_inst_S fuel c attrs :
    find_class e (c_name c) = Some c ->
    ser_inst ei re_match e smap (S fuel) (c_name c) attrs =
    match mapO (ser_attr fuel c) attrs with Some r => Some (PDict r) | None => None end.
  Proof. intro H. cbn [ser_inst]. rewrite H. reflexivity. Qed.

  Definition props_fixed (c : classdef) : list (pystr * schema) :=
    map (fun p : pystr * schema => (fst p, fix_dialect (snd p)))
        (map (fun d => (rename (smap (c_name c)) (fd_name d), prop_schema ei d)) (c_fields c)).

  Lemma props_fixed_get c d :
    nodup_str (map (fun d => rename (smap (c_name c)) (fd_name d)) (c_fields c)) = true ->
    In d (c_fields c) ->
    alist_get (props_fixed c) (rename (smap (c_name c)) (fd_name d)) = Some (fix_dialect (prop_schema ei d)).
  Proof.
    intros Hn Hd. apply alist_get_nodup.
    - unfold props_fixed. rewrite !map_map. cbn [fst]. exact Hn.
    - unfold props_fixed. rewrite map_map. apply in_map_iff. exists d. split; [reflexivity | exact Hd].
  Qed.

  Lemma prop_schema_valid d v0 v j n :
    cfrag ei (fd_field d) = true ->
    docb re_match e (fd_field d) v0 = Some v ->
    forall ss, ser ei re_match e ss (fd_field d) v = Some j ->
    (fdepth (fd_field d) <= n)%nat ->
    valid4 re_search D n (fix_dialect (prop_schema ei d)) j = true.
  Proof.
    intros Hc Hd ss Hs Hn.
    pose proof (fschema_complete ei re_match re_search Hre e D ss (fd_field d) Hc v0 v j n Hd Hs Hn) as V.
    unfold prop_schema. destruct (fd_default d) as [dv|]; [|exact V].
    destruct (fschema ei (fd_field d)) as [kws]. cbn [kws_of].
    rewrite fix_dialect_Sch, map_app. cbn [map fix_kw]. rewrite valid4_snoc_default.
    rewrite fix_dialect_Sch in V. exact V.
  Qed.

  (* C. the serialization of an instance of an object-form class validates against the class schema *)
  Theorem class_complete : forall c attrs j fuel n,
      find_class e (c_name c) = Some c ->
      wrapper_form c = false ->
      forallb (fun d => cfrag ei (fd_field d)) (c_fields c) = true ->
      nodup_str (map (fun d => rename (smap (c_name c)) (fd_name d)) (c_fields c)) = true ->
      Forall (attr_ok c) attrs ->
      (forall r, In r (c_required c) -> alist_has attrs r = true) ->
      (forall d, In d (c_fields c) -> fd_default d <> None -> alist_has attrs (fd_name d) = true) ->
      (forall d, In d (c_fields c) -> (fdepth (fd_field d) <= n)%nat) ->
      ser_inst ei re_match e smap (S fuel) (c_name c) attrs = Some j ->
      valid4 re_search D (S n) (fix_dialect (class_schema ei (smap (c_name c)) c)) j = true.
  Proof.
    intros c attrs j fuel n Hfind Hw Hfrag Hnd Hattrs Hreq Hdef Hdep Hser.
    rewrite (ser_inst_S _ _ _ Hfind) in Hser.
    destruct (mapO (ser_attr fuel c) attrs) as [r|] eqn:Er; [|discriminate Hser].
    inversion Hser; subst j; clear Hser.
    pose proof (mapO_Forall2 _ _ _ Er) as F2.
    (* every output pair comes from an attribute of a declared field *)
    assert (Out : forall q, In q r -> exists p d j', In p attrs /\ find_field (c_fields c) (fst p) = Some d /\
                                       ser ei re_match e (ser_inst ei re_match e smap fuel) (fd_field d) (snd p) = Some j' /\
                                       q = (PStr (rename (smap (c_name c)) (fd_name d)), j')).
    { intros q Hq. destruct (Forall2_in_r _ _ _ _ F2 Hq) as (p & Hp & Hpq).
      unfold ser_attr in Hpq. destruct (find_field (c_fields c) (fst p)) as [d|] eqn:Ef; [|discriminate Hpq].
      destruct (ser ei re_match e (ser_inst ei re_match e smap fuel) (fd_field d) (snd p)) as [j'|] eqn:Es; [|discriminate Hpq].
      inversion Hpq; subst q. exists p, d, j'. repeat split; auto.
      destruct (find_field_in _ _ _ Ef) as [_ Hname]. rewrite Hname. reflexivity. }
    (* every attribute present in the instance has its renamed key in the output *)
    assert (Present : forall k, alist_has attrs k = true ->
                                existsb (fun q : pyval * pyval => pystr_eqb (str_key q) (rename (smap (c_name c)) k)) r = true).
    { intros k Hk. apply alist_has_exists in Hk as [v Hv].
      destruct (Forall2_in_l _ _ _ _ F2 Hv) as (q & Hq & Hpq).
      unfold ser_attr in Hpq. cbn [fst snd] in Hpq.
      destruct (find_field (c_fields c) k) as [d|]; [|discriminate Hpq].
      destruct (ser ei re_match e (ser_inst ei re_match e smap fuel) (fd_field d) v) as [j'|]; [|discriminate Hpq].
      inversion Hpq; subst q. apply existsb_exists. eexists. split; [exact Hq|].
      unfold str_key. cbn [fst]. apply pystr_eqb_refl. }
    unfold class_schema. rewrite Hw. rewrite fix_dialect_Sch, valid4_S by reflexivity.
    cbn [map fix_kw forallb valid_kw type_ok andb]. fold (props_fixed c). rewrite andb_true_r.
    apply andb_true_iff. split; [|apply andb_true_iff; split].
    - (* properties *)
      apply forallb_forall. intros q Hq. destruct (Out q Hq) as (p & d & j' & Hp & Hf & Hs & ->).
      destruct (find_field_in _ _ _ Hf) as [Hd _].
      unfold str_key. cbn [fst snd]. rewrite (props_fixed_get c d Hnd Hd).
      rewrite Forall_forall in Hattrs. destruct (Hattrs p Hp) as (d' & v0 & Hf' & Hdoc).
      rewrite Hf in Hf'. inversion Hf'; subst d'.
      rewrite forallb_forall in Hfrag.
      apply (prop_schema_valid d v0 (snd p) j' n (Hfrag d Hd) Hdoc _ Hs (Hdep d Hd)).
    - (* required, including the fields with a default *)
      apply forallb_forall. intros x Hx. unfold required_out in Hx. apply sort_str_in in Hx.
      apply in_app_or in Hx as [Hx|Hx].
      + apply in_map_iff in Hx as (r0 & <- & Hr0). apply Present. apply Hreq. exact Hr0.
      + apply in_flat_map in Hx as (d & Hd & Hx).
        destruct (fd_default d) as [dv|] eqn:Ed; [|contradiction Hx].
        destruct (str_in (fd_name d) (c_required c)); [contradiction Hx|].
        destruct Hx as [<-|[]]. apply Present. apply Hdef; [exact Hd | rewrite Ed; discriminate].
    - (* additionalProperties: every serialized key is a declared property *)
      apply orb_true_iff. right. apply forallb_forall. intros q Hq.
      destruct (Out q Hq) as (p & d & j' & Hp & Hf & Hs & ->).
      destruct (find_field_in _ _ _ Hf) as [Hd _].
      unfold str_key. cbn [fst]. apply orb_true_iff. left.
      unfold props_of. cbn [flat_map app]. rewrite app_nil_r. unfold alist_has. fold (props_fixed c).
      rewrite (props_fixed_get c d Hnd Hd). reflexivity.
  Qed.
End ClassComplete.

(* ------------------------------------------------------------------ D. inline structures under nested mappers *)
Section InlineComplete.
  Variable ei : einfo_t.
  Variable re_match re_search : N -> pystr -> bool.
  Hypothesis Hre : forall p s, re_match p s = true -> re_search p s = true.
  Variable e : env.
  Variable D : list (pystr * schema).

  (* If the export and the serializer read "<name>._mapper" under the SAME name, then -- whatever the mapper tree,
     whether or not the holder field is itself renamed -- the serialization of an inline structure validates against
     the inline schema (same hypotheses on the inline class and instance as C: object form, completeness fragment,
     distinct renamed keys, normal forms, required and defaulted attributes present). *)
  Theorem inline_complete : forall kS kR t key c attrs j fuel n,
      kS = kR ->
      find_class e (c_name c) = Some c ->
      wrapper_form c = false ->
      forallb (fun d => cfrag ei (fd_field d)) (c_fields c) = true ->
      nodup_str (map (fun d => rename (sub_renames kR t key) (fd_name d)) (c_fields c)) = true ->
      Forall (attr_ok re_match e c) attrs ->
      (forall r, In r (c_required c) -> alist_has attrs r = true) ->
      (forall d, In d (c_fields c) -> fd_default d <> None -> alist_has attrs (fd_name d) = true) ->
      (forall d, In d (c_fields c) -> (fdepth (fd_field d) <= n)%nat) ->
      inline_ser ei re_match e kR t key fuel c attrs = Some j ->
      valid4 re_search D (S n) (fix_dialect (inline_schema ei kS t key c)) j = true.
  Proof.
    intros kS kR t key c attrs j fuel n -> Hfind Hw Hfrag Hnd Hattrs Hreq Hdef Hdep Hser.
    unfold inline_schema, inline_ser in *.
    exact (class_complete ei re_match re_search Hre e D (fun _ => sub_renames kR t key)
                          c attrs j fuel n Hfind Hw Hfrag Hnd Hattrs Hreq Hdef Hdep Hser).
  Qed.
End InlineComplete.
