(* JSON-Schema draft 4: the fragment typedpy emits or consumes.
   Syntax [schema] (a JSON object = list of keywords), semantics [valid4 re_search defs fuel s j]
   over JSON values (the JSON-like subset of pyval: PNone/PBool/PNum/PStr/PList/PDict with
   string keys; numbers exact through num_to_Q), well-formedness [wf4 defs s] (the draft-4
   meta-schema restricted to these keywords + every $ref resolves in [defs]), the two dialect
   translations [fix_dialect], and the rendering [sch_json] used by the correspondence.
   Executable; no proofs here. *)
From Coq Require Import ZArith QArith NArith String Ascii Bool Lia List.
Import ListNotations.
From TP Require Import Base.PyVal.
Local Open Scope Z_scope.

Inductive jtype := TObject | TArray | TString | TNumber | TInteger | TBoolean | TNull.

Inductive schema :=
| Sch (kws : list kw)
with kw :=
| KType (t : jtype)
| KProperties (ps : list (pystr * schema))
| KRequired (rs : list pystr)
| KAddProps (b : bool)
| KAddPropsS (s : schema)
| KPatProps (ps : list (N * schema))            (* keys: pattern ids of the regex oracle *)
| KItems (s : schema)
| KItemsL (ss : list schema)
| KAddItems (b : bool)
| KUnique (b : bool)
| KMinItems (n : Z) | KMaxItems (n : Z)
| KMinLength (n : Z) | KMaxLength (n : Z)
| KPattern (p : N)
| KMinimum (n : num) | KMaximum (n : num) | KExclMax (b : bool)
| KMultipleOf (n : num)
| KEnum (vs : list pyval)
| KAllOf (ss : list schema) | KAnyOf (ss : list schema) | KOneOf (ss : list schema)
| KNot (s : schema)
| KRef (name : pystr)                            (* "$ref": "#/definitions/<name>" *)
| KDefault (v : pyval)
(* typedpy's two dialect spellings *)
| KMultiplesOf (n : num)                         (* "multiplesOf" *)
| KNotL (ss : list schema)                       (* "not": [ ... ] *)
(* a keyword whose value has the wrong JSON shape: "patternProperties": <a schema> *)
| KBadPatProps (s : schema).

Definition kws_of (s : schema) : list kw := match s with Sch k => k end.

(* ------------------------------------------------------------------ JSON values *)

(* JSON equality (draft 4 enum / uniqueItems): numbers by value, booleans are not numbers,
   objects order-free *)
Fixpoint jeq (a b : pyval) {struct a} : bool :=
  let fix eq_list (l m : list pyval) {struct l} : bool :=
      match l, m with
      | [], [] => true
      | x :: l', y :: m' => jeq x y && eq_list l' m'
      | _, _ => false
      end in
  match a with
  | PNone => match b with PNone => true | _ => false end
  | PBool x => match b with PBool y => Bool.eqb x y | _ => false end
  | PNum x => match b with PNum y => num_eqb x y | _ => false end
  | PStr s => match b with PStr t => pystr_eqb s t | _ => false end
  | PList l => match b with PList m => eq_list l m | _ => false end
  | PDict kv =>
      match b with
      | PDict kw =>
          Nat.eqb (length kv) (length kw) &&
          (fix all_kv (l : list (pyval * pyval)) : bool :=
             match l with
             | [] => true
             | (k, x) :: l' =>
                 existsb (fun p => match k, fst p with
                                   | PStr s, PStr t => pystr_eqb s t
                                   | _, _ => false
                                   end && jeq x (snd p)) kw && all_kv l'
             end) kv
      | _ => false
      end
  | _ => false
  end.

Fixpoint junique (l : list pyval) : bool :=
  match l with
  | [] => true
  | x :: t => negb (existsb (jeq x) t) && junique t
  end.

Fixpoint is_json (v : pyval) : bool :=
  match v with
  | PNone | PBool _ | PStr _ => true
  | PNum (NDec _ _) => false
  | PNum _ => true
  | PList l => forallb is_json l
  | PDict kv => forallb (fun p => match fst p with PStr _ => is_json (snd p) | _ => false end) kv
  | _ => false
  end.

Definition type_ok (t : jtype) (j : pyval) : bool :=
  match t, j with
  | TObject, PDict _ => true
  | TArray, PList _ => true
  | TString, PStr _ => true
  | TNumber, PNum _ => true
  | TInteger, PNum (NInt _) => true          (* draft 4: 2.0 is not an integer *)
  | TBoolean, PBool _ => true
  | TNull, PNone => true
  | _, _ => false
  end.

Fixpoint nodup_str (l : list pystr) : bool :=
  match l with
  | [] => true
  | x :: t => negb (str_in x t) && nodup_str t
  end.

Definition lenZ' {A} (l : list A) : Z := Z.of_nat (length l).

(* ------------------------------------------------------------------ sibling look-ups *)

Definition find_ref (kws : list kw) : option pystr :=
  (fix go (l : list kw) : option pystr :=
     match l with
     | [] => None
     | KRef n :: _ => Some n
     | _ :: t => go t
     end) kws.

Definition excl_max (kws : list kw) : bool :=
  existsb (fun k => match k with KExclMax true => true | _ => false end) kws.
Definition has_maximum (kws : list kw) : bool :=
  existsb (fun k => match k with KMaximum _ => true | _ => false end) kws.
Definition props_of (kws : list kw) : list (pystr * schema) :=
  flat_map (fun k => match k with KProperties ps => ps | _ => [] end) kws.
Definition patprops_of (kws : list kw) : list (N * schema) :=
  flat_map (fun k => match k with KPatProps ps => ps | _ => [] end) kws.
Definition items_list_of (kws : list kw) : option (list schema) :=
  (fix go (l : list kw) : option (list schema) :=
     match l with
     | [] => None
     | KItemsL ss :: _ => Some ss
     | _ :: t => go t
     end) kws.

Definition str_key (p : pyval * pyval) : pystr := match fst p with PStr s => s | _ => [] end.

(* ------------------------------------------------------------------ semantics *)

Section Valid.
  Variable re_search : N -> pystr -> bool.      (* oracle: re.search(pattern id, string) is not None *)
  Variable defs : list (pystr * schema).

  (* one keyword against a document; [rec] validates sub-documents against sub-schemas *)
  Definition valid_kw (rec : schema -> pyval -> bool) (kws : list kw) (j : pyval) (k : kw) : bool :=
    match k with
    | KType t => type_ok t j
    | KProperties ps =>
        match j with
        | PDict kv =>
            forallb (fun p => match alist_get ps (str_key p) with
                              | Some s' => rec s' (snd p)
                              | None => true
                              end) kv
        | _ => true
        end
    | KRequired rs =>
        match j with
        | PDict kv => forallb (fun r => existsb (fun p => pystr_eqb (str_key p) r) kv) rs
        | _ => true
        end
    | KAddProps b =>
        match j with
        | PDict kv =>
            b || forallb (fun p => alist_has (props_of kws) (str_key p)
                                   || existsb (fun q => re_search (fst q) (str_key p)) (patprops_of kws)) kv
        | _ => true
        end
    | KAddPropsS s' =>
        match j with
        | PDict kv =>
            forallb (fun p => alist_has (props_of kws) (str_key p)
                              || existsb (fun q => re_search (fst q) (str_key p)) (patprops_of kws)
                              || rec s' (snd p)) kv
        | _ => true
        end
    | KPatProps ps =>
        match j with
        | PDict kv =>
            forallb (fun p => forallb (fun q => negb (re_search (fst q) (str_key p))
                                                || rec (snd q) (snd p)) ps) kv
        | _ => true
        end
    | KItems s' =>
        match j with
        | PList l => forallb (rec s') l
        | _ => true
        end
    | KItemsL ss =>
        match j with
        | PList l =>
            (fix pos (ss : list schema) (l : list pyval) {struct ss} : bool :=
               match ss, l with
               | s' :: ss', x :: l' => rec s' x && pos ss' l'
               | _, _ => true
               end) ss l
        | _ => true
        end
    | KAddItems b =>
        match j, items_list_of kws with
        | PList l, Some ss => b || (length l <=? length ss)%nat
        | _, _ => true
        end
    | KUnique b => match j with PList l => negb b || junique l | _ => true end
    | KMinItems m => match j with PList l => m <=? lenZ' l | _ => true end
    | KMaxItems m => match j with PList l => lenZ' l <=? m | _ => true end
    | KMinLength m => match j with PStr s' => m <=? lenZ' s' | _ => true end
    | KMaxLength m => match j with PStr s' => lenZ' s' <=? m | _ => true end
    | KPattern p => match j with PStr s' => re_search p s' | _ => true end
    | KMinimum m => match j with PNum x => num_leb m x | _ => true end
    | KMaximum m =>
        match j with
        | PNum x => if excl_max kws then num_ltb x m else num_leb x m
        | _ => true
        end
    | KExclMax _ => true
    | KMultipleOf m => match j with PNum x => num_multiple_of x m | _ => true end
    | KEnum vs => existsb (jeq j) vs
    | KAllOf ss => forallb (fun s' => rec s' j) ss
    | KAnyOf ss => existsb (fun s' => rec s' j) ss
    | KOneOf ss => Nat.eqb (length (filter (fun s' => rec s' j) ss)) 1
    | KNot s' => negb (rec s' j)
    | KRef _ => true
    | KDefault _ => true
    (* unknown keyword: ignored by a draft-4 validator *)
    | KMultiplesOf _ => true
    (* ill-shaped values: no verdict is defined; the model says invalid *)
    | KNotL _ => false
    | KBadPatProps _ => false
    end.

  (* out of fuel = false; callers supply fuel above the nesting depth of schema + definitions *)
  Fixpoint valid4 (fuel : nat) (s : schema) (j : pyval) {struct fuel} : bool :=
    match fuel with
    | O => false
    | S n =>
        let kws := kws_of s in
        match find_ref kws with
        | Some name =>               (* draft 4: "$ref" replaces its siblings *)
            match alist_get defs name with
            | Some s' => valid4 n s' j
            | None => false
            end
        | None => forallb (valid_kw (valid4 n) kws j) kws
        end
    end.
End Valid.

(* ------------------------------------------------------------------ well-formedness *)

Definition num_pos (n : num) : bool := negb (Qle_bool (num_to_Q n) 0).
Definition num_json (n : num) : bool := match n with NDec _ _ => false | _ => true end.

Section Wf.
  Variable defs : list (pystr * schema).

  Fixpoint wf4 (s : schema) : bool :=
    match s with
    | Sch kws => forallb (wf_kw kws) kws
    end
  with wf_kw (sibs : list kw) (k : kw) : bool :=
    match k with
    | KType _ => true
    | KProperties ps => forallb (fun p => wf4 (snd p)) ps
    | KRequired rs => negb (Nat.eqb (length rs) 0) && nodup_str rs     (* stringArray: minItems 1, unique *)
    | KAddProps _ => true
    | KAddPropsS s' => wf4 s'
    | KPatProps ps => forallb (fun p => wf4 (snd p)) ps
    | KItems s' => wf4 s'
    | KItemsL ss => negb (Nat.eqb (length ss) 0) && forallb wf4 ss    (* schemaArray: minItems 1 *)
    | KAddItems _ => true
    | KUnique _ => true
    | KMinItems n | KMaxItems n | KMinLength n | KMaxLength n => 0 <=? n
    | KPattern _ => true
    | KMinimum n => num_json n
    | KMaximum n => num_json n
    | KExclMax _ => has_maximum sibs                                   (* dependencies *)
    | KMultipleOf n => num_json n && num_pos n
    | KEnum vs => negb (Nat.eqb (length vs) 0) && junique vs && forallb is_json vs
    | KAllOf ss | KAnyOf ss | KOneOf ss => negb (Nat.eqb (length ss) 0) && forallb wf4 ss
    | KNot s' => wf4 s'
    | KRef name => alist_has defs name
    | KDefault v => is_json v
    | KMultiplesOf _ => false      (* not a draft-4 keyword: must have been translated *)
    | KNotL _ => false
    | KBadPatProps _ => false
    end.
End Wf.

(* a document: top-level schema + its definitions; every $ref anywhere resolves in the definitions *)
Definition wf_doc (d : schema * list (pystr * schema)) : bool :=
  wf4 (snd d) (fst d) && forallb (fun p => wf4 (snd d) (snd p)) (snd d).

(* every "$ref" target occurring anywhere in a schema *)
Fixpoint schema_refs (s : schema) : list pystr :=
  match s with
  | Sch kws => flat_map kw_refs kws
  end
with kw_refs (k : kw) : list pystr :=
  match k with
  | KProperties ps => flat_map (fun p => schema_refs (snd p)) ps
  | KPatProps ps => flat_map (fun p => schema_refs (snd p)) ps
  | KAddPropsS s' | KItems s' | KNot s' | KBadPatProps s' => schema_refs s'
  | KItemsL ss | KAllOf ss | KAnyOf ss | KOneOf ss | KNotL ss => flat_map schema_refs ss
  | KRef name => [name]
  | _ => []
  end.

(* the "$ref resolves inside the returned definitions" clause on its own (independent of the other
   well-formedness conditions): every $ref of the top-level schema and of every definition has a target *)
Definition doc_refs (d : schema * list (pystr * schema)) : list pystr :=
  schema_refs (fst d) ++ flat_map (fun p => schema_refs (snd p)) (snd d).
Definition doc_refs_resolve (d : schema * list (pystr * schema)) : bool :=
  forallb (alist_has (snd d)) (doc_refs d).

(* ------------------------------------------------------------------ dialect translation *)

Fixpoint fix_dialect (s : schema) : schema :=
  match s with
  | Sch kws => Sch (map fix_kw kws)
  end
with fix_kw (k : kw) : kw :=
  match k with
  | KProperties ps => KProperties (map (fun p => (fst p, fix_dialect (snd p))) ps)
  | KAddPropsS s' => KAddPropsS (fix_dialect s')
  | KPatProps ps => KPatProps (map (fun p => (fst p, fix_dialect (snd p))) ps)
  | KItems s' => KItems (fix_dialect s')
  | KItemsL ss => KItemsL (map fix_dialect ss)
  | KAllOf ss => KAllOf (map fix_dialect ss)
  | KAnyOf ss => KAnyOf (map fix_dialect ss)
  | KOneOf ss => KOneOf (map fix_dialect ss)
  | KNot s' => KNot (fix_dialect s')
  | KMultiplesOf n => KMultipleOf n
  | KNotL ss => KNot (Sch [KAnyOf (map fix_dialect ss)])
  | KBadPatProps s' => KBadPatProps (fix_dialect s')
  | other => other
  end.

Definition fix_doc (d : schema * list (pystr * schema)) : schema * list (pystr * schema) :=
  (fix_dialect (fst d), map (fun p => (fst p, fix_dialect (snd p))) (snd d)).

(* nesting depth (fuel needed by valid4 when no $ref is followed) *)
Fixpoint sdepth (s : schema) : nat :=
  match s with
  | Sch kws => S (fold_right Nat.max 0%nat (map kdepth kws))
  end
with kdepth (k : kw) : nat :=
  match k with
  | KProperties ps => fold_right Nat.max 0%nat (map (fun p => sdepth (snd p)) ps)
  | KPatProps ps => fold_right Nat.max 0%nat (map (fun p => sdepth (snd p)) ps)
  | KAddPropsS s' | KItems s' | KNot s' | KBadPatProps s' => sdepth s'
  | KItemsL ss | KAllOf ss | KAnyOf ss | KOneOf ss | KNotL ss => fold_right Nat.max 0%nat (map sdepth ss)
  | _ => 0%nat
  end.

(* ------------------------------------------------------------------ rendering as JSON *)

Definition jtype_name (t : jtype) : pystr :=
  match t with
  | TObject => s2p "object" | TArray => s2p "array" | TString => s2p "string"
  | TNumber => s2p "number" | TInteger => s2p "integer" | TBoolean => s2p "boolean"
  | TNull => s2p "null"
  end.

Definition zval (z : Z) : pyval := PNum (NInt z).
Definition kv (k : string) (v : pyval) : pyval * pyval := (PStr (s2p k), v).

Section Render.
  Variable pat_text : N -> pystr.

  Fixpoint sch_json (s : schema) : pyval :=
    match s with
    | Sch kws => PDict (map kw_json kws)
    end
  with kw_json (k : kw) : pyval * pyval :=
    match k with
    | KType t => kv "type" (PStr (jtype_name t))
    | KProperties ps => kv "properties" (PDict (map (fun p => (PStr (fst p), sch_json (snd p))) ps))
    | KRequired rs => kv "required" (PList (map PStr rs))
    | KAddProps b => kv "additionalProperties" (PBool b)
    | KAddPropsS s' => kv "additionalProperties" (sch_json s')
    | KPatProps ps => kv "patternProperties" (PDict (map (fun p => (PStr (pat_text (fst p)), sch_json (snd p))) ps))
    | KItems s' => kv "items" (sch_json s')
    | KItemsL ss => kv "items" (PList (map sch_json ss))
    | KAddItems b => kv "additionalItems" (PBool b)
    | KUnique b => kv "uniqueItems" (PBool b)
    | KMinItems n => kv "minItems" (zval n)
    | KMaxItems n => kv "maxItems" (zval n)
    | KMinLength n => kv "minLength" (zval n)
    | KMaxLength n => kv "maxLength" (zval n)
    | KPattern p => kv "pattern" (PStr (pat_text p))
    | KMinimum n => kv "minimum" (PNum n)
    | KMaximum n => kv "maximum" (PNum n)
    | KExclMax b => kv "exclusiveMaximum" (PBool b)
    | KMultipleOf n => kv "multipleOf" (PNum n)
    | KEnum vs => kv "enum" (PList vs)
    | KAllOf ss => kv "allOf" (PList (map sch_json ss))
    | KAnyOf ss => kv "anyOf" (PList (map sch_json ss))
    | KOneOf ss => kv "oneOf" (PList (map sch_json ss))
    | KNot s' => kv "not" (sch_json s')
    | KRef name => kv "$ref" (PStr (s2p "#/definitions/" ++ name))
    | KDefault v => kv "default" v
    | KMultiplesOf n => kv "multiplesOf" (PNum n)
    | KNotL ss => kv "not" (PList (map sch_json ss))
    | KBadPatProps s' => kv "patternProperties" (sch_json s')
    end.

  Definition defs_json (d : list (pystr * schema)) : pyval :=
    PDict (fold_left (fun acc p => dict_set acc (PStr (fst p)) (sch_json (snd p))) (rev d) []).
End Render.
