(* What the GENERATED layout of write_code_from_schema (Gen/ModuleLayout.v, re-derived from the source
   on every run) guarantees: the written module contains a class statement for EVERY definition, in
   declaration order, followed by the main class.  These lemmas stop compiling when the source of
   write_code_from_schema / schema_definitions_to_code is edited into a shape whose layout differs
   (or that the recogniser does not understand). *)
From Coq Require Import NArith List Bool.
Import ListNotations.
From TP Require Import Base.PyVal Schema.PyLiteral Schema.CodeGen Schema.ModuleGen Schema.ModuleGenProofs
     Schema.BackRequired Schema.BackRequiredProofs Gen.ModuleLayout.
Local Open Scope N_scope.

Lemma layout_classes_complete defs main : module_classes module_layout defs main = defs ++ [main].
Proof. destruct defs as [|d defs]; reflexivity. Qed.

Lemma joiner_recognised : exists j, defs_joiner = Some j.
Proof. eexists. reflexivity. Qed.

(* ordered definitions + a main class that refers to definitions only => no NameError *)
Theorem generated_module_executes base defs main :
  names_ok base defs = true ->
  forallb (fun r => str_in r base || str_in r (map c_name defs)) (class_refs main) = true ->
  module_names_ok base module_layout defs main = true.
Proof.
  intros Hd Hm. unfold module_names_ok. rewrite layout_classes_complete.
  apply ordered_module_ok; assumption.
Qed.

Lemma all_class_toks_total cs : exists ts, all_class_toks cs = Some ts.
Proof.
  induction cs as [|c cs [ts IH]]; [eexists; reflexivity|].
  cbn [all_class_toks]. destruct (class_toks_total c) as [t E]. rewrite E, IH. eexists. reflexivity.
Qed.

(* the generated layout produces text for every input on which both generators produce text *)
Theorem generated_module_total defs main dt mt :
  defs_toks defs_joiner defs = Some dt -> class_toks main = Some mt ->
  exists toks, module_toks module_layout defs_joiner defs main = Some toks.
Proof.
  intros Ed Em. unfold module_toks. rewrite Ed, Em.
  destruct defs; cbn; eexists; reflexivity.
Qed.

(* ... and, no class description making schema_to_struct_code raise, for EVERY input *)
Theorem generated_module_always defs main :
  exists toks, module_toks module_layout defs_joiner defs main = Some toks.
Proof.
  destruct (all_class_toks_total defs) as [ts Ets]. destruct (class_toks_total main) as [mt Em].
  apply (generated_module_total defs main (join [TRaw [10; 10; 10]] ts) mt); [|exact Em].
  unfold defs_toks, defs_joiner. rewrite Ets. reflexivity.
Qed.
