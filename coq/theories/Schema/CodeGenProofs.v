(* Proofs about Schema/CodeGen.v: if every schema string of a generated token list is within what
   its site's discipline emits correctly, the rendered source is read back by the Python lexer as
   exactly those strings (the output means what the schema says); per-site witnesses otherwise. *)
From Coq Require Import NArith List Bool Lia.
Import ListNotations.
From TP Require Import Base.PyVal Schema.PyLiteral Schema.PyLiteralProofs Schema.CodeGen.
Local Open Scope N_scope.

Lemma strip_prefix_app p r : strip_prefix p (p ++ r) = Some r.
Proof. induction p as [|a p IH]; [reflexivity|]. cbn. rewrite N.eqb_refl. exact IH. Qed.

Definition sep_next (rest : list N) : Prop :=
  match rest with c :: _ => sep_char c = true | [] => True end.

Lemma sep_char_facts c :
  sep_char c = true -> ident_char c = false /\ (c =? SQ) || (c =? DQ) = false.
Proof.
  unfold sep_char. intro H. apply negb_true_iff in H.
  apply orb_false_iff in H as [H H2]. apply orb_false_iff in H as [H H1].
  split; [exact H|]. rewrite H1, H2. reflexivity.
Qed.

Lemma lex_tok_rest printable kw q s rest :
  valid_str s = true -> quote_ok kw q s = true -> sep_next rest ->
  lex_tok kw q (emit printable q s ++ rest) = Some (s, rest).
Proof.
  intros Hv Hok Hr.
  assert (Hq : no_quote_next rest).
  { destruct rest as [|c rest']; [exact I|]. cbn in Hr |- *. apply sep_char_facts in Hr as [_ Hr]. exact Hr. }
  destruct q; cbn [quote_ok lex_tok emit] in *.
  - apply lex_repr; [exact Hv | exact Hq].
  - apply lex_wrapval; [exact Hok | exact Hq].
  - apply lex_wrapval; [exact Hok | exact Hq].
  - apply lex_triple; exact Hok.
  - apply lex_ident_ok; [exact Hok|].
    destruct rest as [|c rest']; [exact I|]. cbn in Hr. apply sep_char_facts in Hr as [Hr _]. exact Hr.
  - discriminate.
Qed.

Lemma follows_ok_sep printable tbl t : follows_ok t = true -> sep_next (render printable tbl t).
Proof.
  destruct t as [|[x|site s] t']; cbn; intro H; try exact I; try discriminate.
  destruct x as [|c x']; [discriminate|]. cbn. exact H.
Qed.

Theorem relex_render printable kw tbl : forall toks,
    all_sites_ok kw tbl toks = true -> well_sep toks = true ->
    relex kw tbl (map shape_of toks) (render printable tbl toks) = Some (leaves toks).
Proof.
  induction toks as [|t toks IH]; intros Hok Hsep; [reflexivity|].
  cbn [all_sites_ok forallb] in Hok. apply andb_true_iff in Hok as [Ht Hok].
  destruct t as [x|site s].
  - cbn [well_sep] in Hsep. cbn [map shape_of relex render flat_map render_tok leaves].
    rewrite strip_prefix_app. exact (IH Hok Hsep).
  - cbn [well_sep] in Hsep. apply andb_true_iff in Hsep as [Hf Hsep].
    cbn [tok_ok] in Ht. apply andb_true_iff in Ht as [Hv Hq].
    cbn [map shape_of relex render flat_map render_tok leaves].
    change (flat_map (render_tok printable tbl) toks) with (render printable tbl toks).
    rewrite (lex_tok_rest printable kw _ s _ Hv Hq (follows_ok_sep printable tbl toks Hf)).
    rewrite (IH Hok Hsep). reflexivity.
Qed.

(* every site of a table whose discipline is total is safe for every string; every other site
   has a computable witness string that it gets wrong *)
Theorem sites_total_safe printable kw (tbl : site_table) site q :
  In (site, q) tbl -> discipline_total q = true ->
  forall s, valid_str s = true -> lex_tok kw q (emit printable q s) = Some (s, []).
Proof.
  intros _ Ht s Hv. destruct q; try discriminate.
  apply lex_roundtrip; [exact Hv | reflexivity].
Qed.

Lemma witness_bad kw q : discipline_total q = false -> quote_ok kw q (witness q) = false.
Proof. destruct q; intro H; try discriminate; reflexivity. Qed.

Theorem sites_witness printable kw (tbl : site_table) site q :
  In (site, q) tbl -> discipline_total q = false ->
  lex_tok kw q (emit printable q (witness q)) <> Some (witness q, []).
Proof. intros _ Ht. apply lex_break. apply witness_bad. exact Ht. Qed.

Lemma bad_leaves_nil kw tbl toks : bad_leaves kw tbl toks = [] <-> all_sites_ok kw tbl toks = true.
Proof.
  induction toks as [|t toks IH]; [split; reflexivity|].
  cbn [bad_leaves flat_map all_sites_ok forallb].
  destruct t as [x|site s].
  - cbn [tok_ok]. cbn [app andb]. exact IH.
  - destruct (tok_ok kw tbl (TStr site s)) eqn:E.
    + cbn [app andb]. exact IH.
    + cbn [app andb]. split; discriminate.
Qed.

(* when every literal site of the table goes through repr() and every name site pastes an identifier,
   the only strings a token list can get wrong are its NAMES *)
Lemma site_forall_disc tbl q sites site :
  forallb (fun x => quoting_eqb (site_disc tbl x) q) sites = true ->
  str_in site sites = true -> site_disc tbl site = q.
Proof.
  intros H Hin. unfold str_in in Hin. apply existsb_exists in Hin as [x [Hx E]].
  apply pystr_eqb_spec in E. subst x. rewrite forallb_forall in H. specialize (H site Hx).
  destruct (site_disc tbl site), q; try discriminate; reflexivity.
Qed.

Theorem names_only_sites_ok kw tbl lits names toks :
  forallb (fun x => quoting_eqb (site_disc tbl x) Repr) lits = true ->
  forallb (fun x => quoting_eqb (site_disc tbl x) Identifier) names = true ->
  names_only kw lits names toks = true -> all_sites_ok kw tbl toks = true.
Proof.
  intros Hl Hn. unfold names_only, all_sites_ok. induction toks as [|t toks IH]; [reflexivity|].
  cbn [forallb]. intro H. apply andb_true_iff in H as [Ht H]. rewrite (IH H), andb_true_r.
  destruct t as [x|site s]; [reflexivity|]. cbn [tok_ok].
  apply andb_true_iff in Ht as [Hv Ht]. rewrite Hv. cbn [andb].
  destruct (str_in site names) eqn:E.
  - rewrite (site_forall_disc tbl Identifier names site Hn E). exact Ht.
  - rewrite (site_forall_disc tbl Repr lits site Hl Ht). reflexivity.
Qed.
