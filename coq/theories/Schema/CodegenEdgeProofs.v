(* C09 — two inputs the token model Schema/CodeGen.v cannot express, stated directly about the GENERATED translation
   of the generator (Gen/CodegenSrc.v):
     * a property {"$ref": ..., "default": ...}: the field expression is the bare definition name (the default is not
       written), yet schema_to_struct_code takes the property out of `_required` (the model's FRef carries no
       default, so its final_required would keep it);
     * a map (object without properties) with maxItems / minItems: MapMapper writes them after `items=` (the model's
       FMap has no such parameters). *)
From Coq Require Import ZArith NArith String Bool Lia List.
Import ListNotations.
From TP Require Import Base.PyVal Base.PyOps Base.PyOps2 Base.PyOpsSchema Base.PyOpsCodegen
     Schema.PyLiteral Schema.CodeGen Gen.EmitSites Gen.SchemaSrc Gen.CodegenSrc Schema.CodegenBridge Schema.CodegenSrcProofs.
Local Open Scope string_scope.

(* a $ref wins over everything else in the schema: the field expression is the definition's name *)
Theorem ref_ignores_siblings O rec kv r :
  sget kv "$ref" = Some (PStr r) ->
  convert_to_field_code_body O rec (PDict kv) (PList []) = Ok (PStr (skipn 14 r)).
Proof.
  intro E. unfold convert_to_field_code_body. sx. unfold dict_has. rewrite E. sx.
  rewrite ref_len. sx. apply ref_slice.
Qed.

Definition map_size_keys : list pystr := [s2p "maxItems"; s2p "minItems"].

(* a map with a value schema: `items=[String(), <value>]`, then maxItems / minItems when present *)
Theorem map_items_emitted O n rec kv v nums :
  rec_spec O n rec ->
  py_truthy (getdef kv (s2p "patternProperties") PNone) = false ->
  py_truthy (getdef kv (s2p "additionalProperties") PNone) = true ->
  field_of O n (getdef kv (s2p "additionalProperties") PNone) = Some v ->
  nums_of O kv map_size_keys = Some nums ->
  exists ps, MapMapper__get_paramlist_from_schema O rec (PDict kv) = Ok (PList ps)
             /\ ptexts O ps = Ok (map (rt O) (model_params (FMap (Some v) None) ++ num_params nums)).
Proof.
  intros (Hf & _ & _) Hpp Hap Hv Hn. unfold MapMapper__get_paramlist_from_schema. rewrite !get_def_dict. sx.
  assert (Hpn : py_truthy (getdef kv (s2p "patternProperties") (PDict [])) = false).
  { revert Hpp. unfold getdef. destruct (sget kv "patternProperties"); [trivial | reflexivity]. }
  rewrite Hpp. sx. cbn [cg_any cg_iter any_cond bind]. rewrite Hpp, Hpn, Hap. sx.
  rewrite (Hf _ v Hv). sx. rewrite dict_items_mk. sx.
  match goal with |- context [ (PStr (s2p "items"), ?t) ] =>
    change [(PStr (s2p "items"), t); (PStr (s2p "maxItems"), getdef kv (s2p "maxItems") PNone);
            (PStr (s2p "minItems"), getdef kv (s2p "minItems") PNone)]
      with ([(PStr (s2p "items"), t)] ++ map (kvget kv) map_size_keys)%list
  end.
  rewrite drop_none_ok. eexists; split; [reflexivity|]. rewrite filter_app, !map_app.
  apply ptexts_app; [|exact (nums_ptexts O kv map_size_keys nums Hn)].
  cbn [filter snd py_is_not_none py_is_none negb map]. unfold mk. cbn [fst snd ptexts mapM ptext cg_format bind model_params map].
  rewrite rt_kv. unfold raw. rewrite rt_raw1, rt_raw, rt_app, rt_raw1. reflexivity.
Qed.

(* ------------------------------------------------------------------ {"$ref": ..., "default": ...} under required *)

Definition ref_default_prop (r : pystr) (dv : pyval) : pyval :=
  PDict [(PStr (s2p "$ref"), PStr r); (PStr (s2p "default"), dv)].

Definition ref_default_schema (p r : pystr) (dv : pyval) : list (pyval * pyval) :=
  [(PStr (s2p "type"), PStr (s2p "object"));
   (PStr (s2p "properties"), PDict [(PStr p, ref_default_prop r dv)]);
   (PStr (s2p "required"), PList (map PStr [p]))].

Lemma str_in_self p : str_in p [p] = true.
Proof. unfold str_in. cbn [existsb]. rewrite pystr_eqb_refl. reflexivity. Qed.

(* the class written for {"type": "object", "properties": {p: {"$ref": r, "default": dv}}, "required": [p]}:
   the property is the bare name, no default is written, and `_required` is EMPTY *)
Theorem ref_default_drops_required O name p r dv :
  schema_to_struct_code O 1 (PStr name) (PDict (ref_default_schema p r dv)) (PList [])
  = Ok (PStr (rt O (join [nl] [[raw "class "; TStr (s2p "struct_name") name; raw "(Structure):"];
                               [raw "    "; TStr (s2p "property_name") p; raw ": "; TStr (s2p "ref") (skipn 14 r)];
                               [];
                               raw "    _required = " :: list_toks (s2p "required") []]))).
Proof.
  destruct sites_name as (Hsn & Hpn & _ & Hrf).
  set (kv := ref_default_schema p r dv).
  assert (Hty : type_ok kv = true) by reflexivity.
  assert (Hd : desc_of kv = Some None) by reflexivity.
  assert (Hreq : required_of (sget kv "required") = Some (Some [p])) by reflexivity.
  unfold schema_to_struct_code, schema_to_struct_code_body. cbn [cg_format bind].
  assert (Hhead : PList [PStr (s2p "class " ++ name ++ s2p "(Structure):")%list]
                  = lines_val O [[raw "class "; TStr (s2p "struct_name") name; raw "(Structure):"]]).
  { unfold lines_val. cbn [map]. unfold raw. rewrite rt_raw, (rt_str_name O _ _ _ Hsn), rt_raw1. reflexivity. }
  rewrite Hhead.
  eapply bind_step; [exact (piece_desc O kv None Hd)|]. cbv beta zeta.
  eapply bind_step; [exact (concat_lines O _ _)|]. cbv beta zeta.
  eapply bind_step; [exact (piece_closed O kv)|]. cbv beta zeta.
  eapply bind_step; [exact (concat_lines O _ _)|]. cbv beta zeta.
  eapply bind_step; [exact (piece_req1 kv Hty)|]. cbv beta zeta.
  eapply bind_step; [exact (piece_req2 kv _ Hreq)|]. cbv beta zeta.
  eapply bind_step; [exact (piece_type1 kv)|]. cbv beta zeta.
  eapply bind_step; [exact (get_def_dict _ _ _)|]. cbv beta zeta.
  eapply bind_step; [exact (f_equal Ok (piece_type2 kv Hty))|]. cbv beta iota zeta.
  eapply bind_step; [exact (get_def_dict _ _ _)|]. cbv beta zeta.
  change (getdef kv (s2p "properties") (PDict [])) with (PDict [(PStr p, ref_default_prop r dv)]).
  eapply bind_step; [exact (dict_items_mk _)|]. cbv beta zeta.
  change (closed_of kv) with false. cbn [app].
  eapply bind_step.
  { cbn [py_for_state map for_state]. unfold mk, ref_default_prop. cbv beta iota.
    cbn [py_unpack2 bind pair_fst pair_snd fst snd py_in_dyn py_hashable'].
    change (dict_has [(PStr (s2p "$ref"), PStr r); (PStr (s2p "default"), dv)] (PStr (s2p "default"))) with true.
    cbn [py_and bind req_val py_is_not_none py_is_none negb py_in_dyn]. unfold py_in_lit. rewrite py_in_strs, str_in_self.
    cbn [bind cg_list_remove]. rewrite (remove_strs p [p] (str_in_self p)). cbn [bind remove_first]. rewrite pystr_eqb_refl.
    cbn [cg_format bind].
    change (convert_to_field_code O 1 (PDict [(PStr (s2p "$ref"), PStr r); (PStr (s2p "default"), dv)]) (PList []))
      with (convert_to_field_code_body O (convert_to_field_code O 0) (PDict [(PStr (s2p "$ref"), PStr r); (PStr (s2p "default"), dv)]) (PList [])).
    rewrite (ref_ignores_siblings O (convert_to_field_code O 0) [(PStr (s2p "$ref"), PStr r); (PStr (s2p "default"), dv)] r eq_refl). cbn [bind cg_format]. unfold lines_val. cbn [cg_list_concat bind map app].
    reflexivity. }
  cbv beta iota zeta.
  match goal with |- context [PList [PStr ?a; PStr ?b]] =>
    replace (PList [PStr a; PStr b])
      with (lines_val O [[raw "class "; TStr (s2p "struct_name") name; raw "(Structure):"];
                         [raw "    "; TStr (s2p "property_name") p; raw ": "; TStr (s2p "ref") (skipn 14 r)]])
  end.
  - change (PList (map PStr [])) with (req_val (Some [])).
    etransitivity; [exact (piece_final O _ (Some []))|]. reflexivity.
  - unfold lines_val. cbn [map]. unfold raw.
    rewrite !rt_raw, (rt_str_name O _ _ _ Hsn), rt_raw1, (rt_str_name O _ _ _ Hpn), rt_raw, (rt_str_name O _ _ [] Hrf), rt_nil, app_nil_r.
    reflexivity.
Qed.

(* ... whereas the model, which sees that property as FRef (no default), keeps it required *)
Example model_keeps_ref_required p a :
  final_required (Some [p]) [(p, FRef a)] = Some (Some [p]).
Proof. reflexivity. Qed.

Print Assumptions ref_ignores_siblings.
Print Assumptions map_items_emitted.
Print Assumptions ref_default_drops_required.
