(* C10, fast clause end to end: histories (Ser/FastStateProofs.v) + class-level equality with the regular
   serializer (Ser/FastRegularProofs.v). *)
From Coq Require Import ZArith NArith String List Bool Lia.
Import ListNotations.
From TP Require Import Base.PyVal Base.PyEq Fields.FieldAst Fields.SetChain Ser.Trusted Ser.Fast Ser.FastProofs
     Ser.FastState Ser.FastStateProofs Ser.FastRegularProofs.

Lemma find_tclass_In e n c : find_tclass e n = Some c -> In c e.
Proof.
  induction e as [|d t IH]; cbn [find_tclass]; [discriminate|].
  destruct (pystr_eqb (t_name d) n); intro H; [inversion H; left; reflexivity|right; apply IH, H].
Qed.

Section History.
  Variable re_match : N -> pystr -> bool.
  Variable sser : N -> pyval -> res pyval.
  Variable oser : N -> pyval -> res pyval.
  Variable ofast : N -> pyval -> res pyval.
  Variable e : tenv.
  Variable ps : list (pystr * pystr).

  (* ---------------------------------------------------------------- the flags are all the order-free reading needs *)

  Lemma fast_val_ext fc1 fc2 : (forall c x, fc1 c x = fc2 c x) ->
                               forall tf v, fast_val sser ofast e fc1 tf v = fast_val sser ofast e fc2 tf v.
  Proof.
    intro H. induction tf as [l|item IH|item IH|c|nf f IH|ls|id o]; intro v; cbn [fast_val]; try reflexivity.
    - destruct v; try reflexivity. rewrite (mapM_ext _ _ l IH). reflexivity.
    - destruct v; try reflexivity. rewrite (mapM_ext _ _ l IH). reflexivity.
    - apply H.
    - apply IH.
  Qed.

  Lemma fast_fields_ext fv1 fv2 c a : (forall tf v, fv1 tf v = fv2 tf v) ->
                                      forall fs, fast_fields fv1 c a fs = fast_fields fv2 c a fs.
  Proof.
    intro H. induction fs as [|fd t IH]; cbn [fast_fields]; [reflexivity|]. rewrite IH.
    destruct (is_none (getattr_m c a (f_name fd))); [reflexivity|].
    destruct (f_ty fd) as [[f| | |id b]| | | | | |]; try rewrite H; reflexivity.
  Qed.

  Lemma sfast_ext cf1 cf2 : (forall c, cf1 c = cf2 c) ->
                            forall n cn v, sfast sser ofast e cf1 n cn v = sfast sser ofast e cf2 n cn v.
  Proof.
    intro H. induction n as [|n IH]; intros cn v; cbn [sfast]; [reflexivity|].
    destruct (find_tclass e cn) as [c|]; [|reflexivity]. destruct v; try reflexivity.
    rewrite (fast_fields_ext _ (fast_val sser ofast e
                                  (fun c' x => match find_tclass e c' with
                                               | Some cd => if t_fast cd then sfast sser ofast e cf2 n c' x else Raise TypeError
                                               | None => Raise Unmodelled
                                               end)) c attrs).
    - rewrite H. reflexivity.
    - apply fast_val_ext. intros c' x. destruct (find_tclass e c') as [cd|]; [|reflexivity].
      destruct (t_fast cd); [apply IH|reflexivity].
  Qed.

  (* ---------------------------------------------------------------- a decidable sufficient condition for `closed` *)

  Definition has_own (own : ownmap) (c : pystr) : bool :=
    match alist_get own c with Some _ => true | None => false end.

  (* k and every class any declaration refers to have a serializer of their own; all references are in
     the modelled shapes *)
  Definition closedb (own : ownmap) (k : pystr) : bool :=
    has_own own k && forallb (has_own own) (flat_map class_refs e) &&
    forallb (fun cd => forallb (fun fd => shape_ok (f_ty fd)) (t_fields cd)) e.

  Lemma reach_univ k c : reach e k c -> c = k \/ In c (flat_map class_refs e).
  Proof.
    induction 1 as [c|a b c cd Hf Hin Hr IH]; [left; reflexivity|].
    right. destruct IH as [IH|IH]; [|exact IH]. subst c.
    apply in_flat_map. exists cd. split; [apply (find_tclass_In _ _ _ Hf)|exact Hin].
  Qed.

  Lemma closedb_closed own k : closedb own k = true -> closed e own (conf_of own) k.
  Proof.
    unfold closedb. intro H. apply andb_true_iff in H as [H Hsh]. apply andb_true_iff in H as [Hk Hall].
    rewrite forallb_forall in Hall. rewrite forallb_forall in Hsh.
    intros c Hr. split.
    - assert (Hc : has_own own c = true).
      { destruct (reach_univ k c Hr) as [Heq|Hin]; [subst; exact Hk|apply Hall, Hin]. }
      unfold has_own in Hc. unfold conf_of. destruct (alist_get own c); [reflexivity|discriminate].
    - intros cd fd Hf Hin. specialize (Hsh cd (find_tclass_In _ _ _ Hf)). rewrite forallb_forall in Hsh.
      apply Hsh, Hin.
  Qed.

  (* ---------------------------------------------------------------- end to end *)

  Hypothesis sser_not_none : forall id x w, sser id x = Ok w -> is_none w = false.

  (* Any order of create_serializer calls with the default flags and instantiations (constructors or
     from_trusted_data), over any family with inheritance: if afterwards the class of a safe instance and
     the classes it refers to have serializers of their own, x.serialize() returns exactly the document the
     regular serializer returns for it. *)
  Theorem fast_history_equals_regular ops cn a d :
    forallb (fun op => negb (is_ser op)) ops = true ->
    forallb default_op ops = true ->
    let st1 := fst (run_ops sser ofast e ps st0 ops) in
    closedb (fs_own st1) cn = true ->
    safe_class e HFUEL cn = true ->
    ord_inst e HFUEL cn (PStruct cn a) ->
    ser_regular re_match sser oser e HFUEL [] cn (PStruct cn a) = Ok d ->
    snd (run_ops sser ofast e ps st1 [HSer (PStruct cn a)]) = [Ok d].
  Proof.
    intros Hns Hdef st1 Hcl Hsafe Hord Hreg.
    assert (Hfast : class_is_fast e cn = true).
    { unfold HFUEL in Hsafe. cbn [safe_class] in Hsafe. unfold class_is_fast.
      destruct (find_tclass e cn) as [c|]; [|discriminate].
      repeat (apply andb_true_iff in Hsafe as [Hsafe _]). exact Hsafe. }
    unfold st1 in *. clear st1.
    rewrite (settled_history sser ofast e ps ops [HSer (PStruct cn a)] Hns).
    - cbn [map expected]. f_equal.
      rewrite (sfast_ext (conf_of (fs_own (fst (run_ops sser ofast e ps st0 ops)))) (fun _ => dconf)).
      + apply (fast_equals_regular re_match sser oser ofast e sser_not_none HFUEL cn (PStruct cn a) d Hsafe Hord Hreg).
      + intro c. apply all_default_conf_of. apply default_history_default_confs. exact Hdef.
    - intros op [Hop|[]]. subst op. exists cn, a. split; [reflexivity|]. split; [exact Hfast|].
      apply closedb_closed. exact Hcl.
  Qed.
End History.
