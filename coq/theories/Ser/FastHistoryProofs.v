(* C10, fast clause end to end: histories (Ser/FastStateProofs.v) + class-level equality with the regular
   serializer (Ser/FastRegularProofs.v). *)
From Coq Require Import ZArith NArith String List Bool Lia.
Import ListNotations.
From TP Require Import Base.PyVal Base.PyEq Fields.FieldAst Fields.SetChain Ser.Trusted Ser.Fast Ser.FastProofs
     Ser.FastState Ser.FastStateProofs Ser.FastRegularProofs.

Lemma find_tclass_In e n c : find_tclass e n = Some c -> In c e.
Proof.
  induction e as [|d t IH]; cbn [find_tclass]; [discriminate|].
  destruct (pystr_eqb (t_name d) n); intro H; [inversion H; left; reflexivity|right; apply IH, H].
Qed.

Section History.
  Variable re_match : N -> pystr -> bool.
  Variable sser : N -> pyval -> res pyval.
  Variable oser : N -> pyval -> res pyval.
  Variable ofast : N -> pyval -> res pyval.
  Variable e : tenv.
  Variable ps : list (pystr * pystr).

  (* ---------------------------------------------------------------- the flags are all the order-free reading needs *)

  Lemma fast_val_ext fc1 fc2 : (forall c x, fc1 c x = fc2 c x) ->
                               forall tf v, fast_val sser ofast fc1 tf v = fast_val sser ofast fc2 tf v.
  Proof.
    intro H. induction tf as [l|item IH|item IH|c|nf f IH|ls|id o]; intro v; cbn [fast_val]; try reflexivity.
    - destruct v; try reflexivity. rewrite (mapM_ext _ _ l IH). reflexivity.
    - destruct v; try reflexivity. rewrite (mapM_ext _ _ l IH). reflexivity.
    - apply H.
    - apply IH.
  Qed.

  Lemma fast_fields_ext fv1 fv2 c a : (forall tf v, fv1 tf v = fv2 tf v) ->
                                      forall fs, fast_fields fv1 c a fs = fast_fields fv2 c a fs.
  Proof.
    intro H. induction fs as [|fd t IH]; cbn [fast_fields]; [reflexivity|]. rewrite IH.
    destruct (is_none (getattr_m c a (f_name fd))); [reflexivity|].
    destruct (f_ty fd) as [[f| | |id b]| | | | | |]; try rewrite H; reflexivity.
  Qed.

  Lemma sfast_ext cf1 cf2 : (forall c, cf1 c = cf2 c) ->
                            forall n cn v, sfast sser ofast e cf1 n cn v = sfast sser ofast e cf2 n cn v.
  Proof.
    intro H. induction n as [|n IH]; intros cn v; cbn [sfast]; [reflexivity|].
    destruct (find_tclass e cn) as [c|]; [|reflexivity]. destruct v; try reflexivity.
    rewrite (fast_fields_ext _ (fast_val sser ofast (fun _ x => by_class e (sfast sser ofast e cf2 n) x)) c attrs).
    - rewrite H. reflexivity.
    - apply fast_val_ext. intros c' x. unfold by_class. destruct x; try reflexivity.
      destruct (find_tclass e cls0) as [cd|]; [|reflexivity].
      destruct (t_fast cd); [apply IH|reflexivity].
  Qed.

  (* ---------------------------------------------------------------- end to end *)

  Hypothesis sser_not_none : forall id x w, sser id x = Ok w -> is_none w = false.

  (* Any order of create_serializer calls with the default flags, instantiations (constructors or
     from_trusted_data) AND serializations, over any family with inheritance: if afterwards the FastSerializable
     classes of the family have serializers of their own, x.serialize() of a safe instance - whose fields may hold
     instances of subclasses of the declared classes - returns exactly the document the regular serializer
     returns for it. *)
  Theorem fast_history_equals_regular ops cn a d :
    forallb default_op ops = true ->
    let st1 := fst (run_ops sser ofast e ps st0 ops) in
    all_own e st1 = true ->
    safe_class e HFUEL cn = true ->
    ord_inst e HFUEL cn (PStruct cn a) ->
    ser_regular re_match sser oser e HFUEL [] cn (PStruct cn a) = Ok d ->
    snd (run_ops sser ofast e ps st1 [HSer (PStruct cn a)]) = [Ok d].
  Proof.
    intros Hdef st1 Hcl Hsafe Hord Hreg.
    assert (Hfast : class_is_fast e cn = true).
    { unfold HFUEL in Hsafe. cbn [safe_class] in Hsafe. unfold class_is_fast.
      destruct (find_tclass e cn) as [c|]; [|discriminate].
      repeat (apply andb_true_iff in Hsafe as [Hsafe _]). exact Hsafe. }
    unfold st1 in *. clear st1.
    rewrite (settled_history sser ofast e ps ops [HSer (PStruct cn a)]).
    - cbn [map expected]. f_equal.
      rewrite (sfast_ext (conf_of (fst (run_ops sser ofast e ps st0 ops))) (fun _ => dconf)).
      + apply (fast_equals_regular re_match sser oser ofast e sser_not_none HFUEL cn a d Hsafe Hord Hreg).
      + intro c. apply all_default_conf_of. apply default_history_default_confs. exact Hdef.
    - intros op [Hop|[]]. subst op. exists cn, a. split; [reflexivity|]. split; [exact Hfast|]. split.
      + pose proof (all_own_fast e _ cn Hcl Hfast) as Ho. unfold has_own. rewrite Ho. reflexivity.
      + apply all_own_closed. exact Hcl.
  Qed.
End History.
