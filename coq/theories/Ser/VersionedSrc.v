(* Bridging lemmas between the model of versioned conversion / deserialization and the facts re-read from
   /repo's source on every run (Gen/VersionedShape.v).  Each `gen_*_ok` lemma is closed by computation on the
   CURRENT generated table, so it stops type-checking as soon as the source no longer has the shape the theorems
   need; the `src_*` theorems are the general theorems instantiated at the generated tables. *)
From Coq Require Import ZArith NArith String Bool Lia List.
Import ListNotations.
From TP Require Import Base.PyVal Ser.Versioned Ser.VersionedProofs Ser.VersionedDeser Ser.VersionedDeserProofs
     Gen.VersionedShape.
Local Open Scope Z_scope.

(* convert_dict: slice from version-1, add 1 per step *)
Lemma gen_cd_params_ok : gen_cd_recognised = true /\ cd_params_ok gen_cd_params = true.
Proof. split; vm_compute; reflexivity. Qed.

(* Versioned.__init__ stores len(mapping)+1 under "version" unconditionally *)
Lemma gen_init_shape_ok : init_shape_ok gen_init_shape = true.
Proof. vm_compute. reflexivity. Qed.

(* the Versioned prelude converts the caller's document *)
Lemma gen_prelude_ok : prelude_ok gen_prelude = true.
Proof. vm_compute. reflexivity. Qed.

(* every later read of a document variable in deserialize_structure_internal is of the converted document *)
Lemma gen_deser_sites_ok : sites_ok gen_deser_sites = true.
Proof. vm_compute. reflexivity. Qed.

Lemma gen_shapes_ok :
  cd_params_ok gen_cd_params = true /\ init_shape_ok gen_init_shape = true /\
  prelude_ok gen_prelude = true /\ sites_ok gen_deser_sites = true.
Proof.
  split; [exact (proj2 gen_cd_params_ok)|]. split; [exact gen_init_shape_ok|].
  split; [exact gen_prelude_ok | exact gen_deser_sites_ok].
Qed.

Section Src.
  Variable fn : N -> list pyval -> res pyval.
  Let Hp := proj2 gen_cd_params_ok.

  Lemma src_convert_dict_suffix d maps z :
    has_version d z -> 1 <= z ->
    convert_dict fn gen_cd_params d maps
    = fold_left (step fn gen_cd_params) (skipn (Z.to_nat (z - 1)) maps) (Ok d).
  Proof. exact (convert_dict_suffix fn gen_cd_params Hp d maps z). Qed.

  Lemma src_convert_dict_version d maps z d' :
    forallb keeps_version maps = true ->
    has_version d z -> 1 <= z <= Z.of_nat (length maps) + 1 ->
    convert_dict fn gen_cd_params d maps = Ok d' ->
    has_version d' (Z.of_nat (length maps) + 1).
  Proof. exact (convert_dict_version fn gen_cd_params Hp d maps z d'). Qed.

  Lemma src_convert_dict_compose d maps z k d1 :
    forallb keeps_version maps = true ->
    has_version d z -> 1 <= z ->
    (k <= length maps)%nat ->
    convert_dict fn gen_cd_params d (firstn k maps) = Ok d1 ->
    convert_dict fn gen_cd_params d1 maps = convert_dict fn gen_cd_params d maps.
  Proof. exact (convert_dict_compose fn gen_cd_params Hp d maps z k d1). Qed.

  Lemma src_deser_any_version e c o d maps z d' :
    forallb keeps_version maps = true ->
    has_version d z -> 1 <= z <= Z.of_nat (length maps) + 1 ->
    convert_dict fn gen_cd_params d maps = Ok d' ->
    deser_internal fn gen_cd_params gen_prelude gen_deser_sites gen_init_shape e c o maps d
    = deser_internal fn gen_cd_params gen_prelude gen_deser_sites gen_init_shape e c o maps d'.
  Proof.
    exact (deser_internal_any_version fn gen_cd_params Hp gen_prelude gen_deser_sites gen_init_shape
                                      e c o d maps z d' gen_deser_sites_ok).
  Qed.

  Lemma src_deser_version e c o d maps st :
    deser_internal fn gen_cd_params gen_prelude gen_deser_sites gen_init_shape e c o maps d = Ok st ->
    has_version st (Z.of_nat (length maps) + 1).
  Proof.
    exact (deser_internal_version fn gen_cd_params gen_prelude gen_deser_sites gen_init_shape
                                  e c o d maps st gen_init_shape_ok).
  Qed.

  Lemma src_deser_keys_from_converted e c o d maps z d' st k :
    forallb keeps_version maps = true ->
    has_version d z -> 1 <= z <= Z.of_nat (length maps) + 1 ->
    convert_dict fn gen_cd_params d maps = Ok d' ->
    deser_internal fn gen_cd_params gen_prelude gen_deser_sites gen_init_shape e c o maps d = Ok st ->
    k <> ver -> dict_get d' (PStr k) = None -> dict_get st (PStr k) = None.
  Proof.
    exact (deser_internal_keys_from_converted fn gen_cd_params Hp gen_prelude gen_deser_sites gen_init_shape
                                              e c o d maps z d' st k gen_deser_sites_ok).
  Qed.
End Src.

Lemma src_new_instance_latest maps kw :
  has_version (versioned_init_kwargs_s gen_init_shape maps kw) (Z.of_nat (length maps) + 1).
Proof. unfold has_version. apply init_ok_version. exact gen_init_shape_ok. Qed.
