(* C10, fast serialization as a STATE MACHINE over a family of FastSerializable classes
   (typedpy/serialization/fast_serialization.py: FastSerializable.__init__, _verify_is_fast_serializable,
   _get_serialize, create_serializer, set_compact_wrapper; serialize_internal's fast branch in
   serialization.py; ClassReference.serialize, Array.serialize / Set.serialize in typedpy/fields).

   What `K.serialize` is at a given moment is per-class mutable state:
     * create_serializer(K, compact, serialize_none) installs a generated closure in K's own __dict__
       (explicitly, implicitly at the first instantiation of K - trusted or not, with or without keywords -,
       implicitly for a class a new serializer refers to directly or as Array item when that class resolves to
       the mix-in's stub);
     * a subclass without its own entry INHERITS the closure of the nearest base class that has one
       (attribute lookup through the MRO): that closure knows the base class's fields and mapper only;
     * the closure of a class refers to the classes of the values it meets LATE and BY THE VALUE'S OWN CLASS:
       every nested structure x - held directly, through Optional, as an element of an Array or a Set - is
       serialized by ClassReference.serialize = whatever `type(x).serialize` is at that moment.  (Array.serialize /
       Set.serialize used to freeze `items._ty.serialize` at their first call in a per-field cache, and all of
       them used the DECLARED class: findings C10-fast-stale-collection-serializer and
       C10-fast-subclass-instance-in-base-field, repaired in typedpy; the cache that remains holds the bound
       method of the field, which carries no state.)
   The class AST is that of Ser/Trusted.v, flattened (all fields of a class, base class fields first);
   the inheritance relation is given separately (child -> parent).
   Executable; no proofs here. *)
From Coq Require Import ZArith NArith String List Bool.
Import ListNotations.
From TP Require Import Base.PyVal Base.PyEq Fields.FieldAst Fields.SetChain Ser.Trusted Ser.Fast.

Record sconf := { sc_sn : bool; sc_compact : bool }.       (* flags a serializer was generated with *)
Definition dconf : sconf := {| sc_sn := false; sc_compact := false |}.

(* the function object `K.serialize` evaluates to *)
Inductive sfun :=
| SStub                                (* FastSerializable.serialize: raises NotImplementedError *)
| SGen (k : pystr) (cf : sconf).       (* the closure generated for class k with flags cf *)

Definition ownmap := list (pystr * sconf).        (* classes with "serialize" in their OWN __dict__ (newest first) *)
Definition fstate := ownmap.                      (* the whole state: nothing else is remembered between calls *)
Definition st0 : fstate := [].
Definition fs_own (st : fstate) : ownmap := st.

Definition ores := (ownmap * res unit)%type.

Fixpoint has_ref (tf : tfield) : bool :=
  match tf with
  | TRef _ => true
  | TArray item | TSet item => has_ref item
  | TOpt _ f => has_ref f
  | _ => false
  end.

Definition HFUEL : nat := 6.

Section WithFamily.
  Variable sser : N -> pyval -> res pyval.      (* SerializableField.serialize of field #id *)
  Variable ofast : N -> pyval -> res pyval.     (* field.serialize of an unmodelled field #id *)
  Variable e : tenv.                            (* flattened declarations *)
  Variable ps : list (pystr * pystr).           (* child -> parent *)

  (* ---------------------------------------------------------------- attribute lookup through the MRO *)

  Fixpoint resolve_n (n : nat) (own : ownmap) (cn : pystr) : sfun :=
    match alist_get own cn with
    | Some cf => SGen cn cf
    | None => match n with
              | O => SStub
              | S n' => match alist_get ps cn with
                        | Some p => resolve_n n' own p
                        | None => SStub
                        end
              end
    end.
  Definition resolve (own : ownmap) (cn : pystr) : sfun := resolve_n (length e) own cn.

  (* ---------------------------------------------------------------- create_serializer *)

  (* _verify_is_fast_serializable, then the OneOf / multi-option AnyOf tests of _get_serialize *)
  Fixpoint verify (cr : ownmap -> pystr -> ores) (own : ownmap) (tf : tfield) {struct tf} : ores :=
    match tf with
    | TRef c =>
        match find_tclass e c with
        | Some cd => if t_fast cd
                     then match resolve own c with
                          | SStub => cr own c            (* only a class that resolves to the stub gets a serializer *)
                          | SGen _ _ => (own, Ok tt)
                          end
                     else (own, Raise TypeError)
        | None => (own, Raise Unmodelled)
        end
    | TArray item => match item with
                     | TRef _ | TArray _ => verify cr own item
                     | _ => (own, Ok tt)
                     end
    | TUnion ls => if (1 <? length (non_none ls))%nat then (own, Raise TypeError) else (own, Ok tt)
    | TOther _ oneof => if oneof then (own, Raise TypeError) else (own, Ok tt)
    | _ => (own, Ok tt)
    end.

  Fixpoint create_fields (cr : ownmap -> pystr -> ores) (own : ownmap) (m : mapper) (fs : list tfd) : ores :=
    match fs with
    | [] => (own, Ok tt)
    | fd :: t =>
        match mapped_as_str m (f_name fd) with
        | Raise x => (own, Raise x)
        | Ok _ =>
            let '(own1, r) := match f_ty fd with
                              | TLeaf (LPrim FNone) => verify cr own (f_ty fd)
                              | TLeaf (LPrim _) | TLeaf (LSer _ true) => (own, Ok tt)      (* _get_value *)
                              | tf => verify cr own tf
                              end in
            match r with
            | Ok _ => create_fields cr own1 m t
            | Raise x => (own1, Raise x)          (* serializers created for earlier fields stay installed *)
            end
        end
    end.

  (* create_serializer(cn, compact, serialize_none): the new own-map and Ok / the exception *)
  Fixpoint create (fuel : nat) (own : ownmap) (cn : pystr) (cf : sconf) : ores :=
    match fuel with
    | O => (own, Raise OutOfFuel)
    | S n =>
        match find_tclass e cn with
        | None => (own, Raise Unmodelled)
        | Some c =>
            let '(own1, r) := create_fields (fun o c' => create n o c' dconf) own (t_mapper c) (t_fields c) in
            match r with
            | Ok _ => ((cn, cf) :: own1, Ok tt)
            | Raise x => (own1, Raise x)
            end
        end
    end.

  (* FastSerializable.__init__ *)
  Definition inst_class (own : ownmap) (cn : pystr) : ores :=
    match alist_get own cn with
    | Some _ => (own, Ok tt)
    | None => create HFUEL own cn dconf
    end.

  Fixpoint inst_seq (f : ownmap -> pyval -> ores) (own : ownmap) (l : list pyval) : ores :=
    match l with
    | [] => (own, Ok tt)
    | x :: t => match f own x with
                | (own1, Ok _) => inst_seq f own1 t
                | (own1, Raise ex) => (own1, Raise ex)
                end
    end.

  (* building a value tree: the constructors of the nested instances run first, in argument order *)
  Fixpoint inst_tree (fuel : nat) (own : ownmap) (v : pyval) : ores :=
    match fuel with
    | O => (own, Raise OutOfFuel)
    | S n =>
        match v with
        | PStruct cn a =>
            match inst_seq (inst_tree n) own (map snd a) with
            | (own1, Ok _) => inst_class own1 cn
            | (own1, Raise ex) => (own1, Raise ex)
            end
        | PList l => inst_seq (inst_tree n) own l
        | PSet _ l => inst_seq (inst_tree n) own l
        | _ => (own, Ok tt)
        end
    end.

  (* ---------------------------------------------------------------- serialization in a state *)

  (* ClassReference.serialize(x), x.serialize(): the function `type(x).serialize` resolves to NOW, applied to x *)
  Definition call_obj (run : pystr -> sconf -> pyval -> res pyval) (own : ownmap) (x : pyval) : res pyval :=
    by_class e (fun rn y => match resolve own rn with
                            | SStub => Raise NotImplementedError
                            | SGen k cf => run k cf y
                            end) x.

  (* what the generated closure does with the dict it built: serialize_none, then the compact wrapper,
     which counts the fields of the INSTANCE's class *)
  Definition finish (cf : sconf) (rn : pystr) (c : tclass) (r : list (pystr * pyval)) : pyval :=
    let r' := if sc_sn cf then r else drop_none r in
    let nf := match find_tclass e rn with Some rc => length (t_fields rc) | None => length (t_fields c) end in
    match dict_of r' with
    | PDict [(_, x)] => if sc_compact cf && Nat.eqb nf 1 then x else dict_of r'
    | d => d
    end.

  (* the closure generated for class k with flags cf, applied to v *)
  Fixpoint run_gen (own : ownmap) (fuel : nat) (k : pystr) (cf : sconf) (v : pyval) : res pyval :=
    match fuel with
    | O => Raise OutOfFuel
    | S n =>
        match find_tclass e k, v with
        | Some c, PStruct rn a =>
            match t_mapper c with
            | MapList => Raise Unmodelled
            | _ =>
                r <- fast_fields (fast_val sser ofast (fun _ x => call_obj (run_gen own n) own x)) c a (t_fields c) ;;
                Ok (finish cf rn c r)
            end
        | _, _ => Raise Unmodelled
        end
    end.

  (* ---------------------------------------------------------------- schedules *)

  Inductive hop :=
  | HCreate (cn : pystr) (sn compact : bool)       (* create_serializer(cn, compact, serialize_none) *)
  | HInst (trusted : bool) (v : pyval)             (* the constructor of a class / its from_trusted_data, applied to the value tree *)
  | HSer (v : pyval)                               (* x.serialize() *)
  | HSerVia (compact : bool) (v : pyval).          (* Serializer(x).serialize(compact=...) *)

  Definition unit_res (r : res unit) : res pyval :=
    match r with Ok _ => Ok PNone | Raise ex => Raise ex end.

  (* x.serialize() *)
  Definition ser_now (st : fstate) (v : pyval) : res pyval := call_obj (run_gen st HFUEL) st v.

  Definition run_op (st : fstate) (op : hop) : fstate * res pyval :=
    match op with
    | HCreate cn sn compact =>
        let '(own, r) := create HFUEL st cn {| sc_sn := sn; sc_compact := compact |} in (own, unit_res r)
    | HInst _ v =>
        (* Structure.__init__ of a trusted instance reaches the mix-in's __init__ once, after the keywords have been
           stored - also when there are none: for the serializers a trusted instantiation is an instantiation *)
        let '(own, r) := inst_tree HFUEL st v in (own, unit_res r)
    | HSer v => (st, ser_now st v)
    | HSerVia compact v =>
        match v with
        | PStruct rn _ =>
            match alist_get st rn with
            | Some _ => (st, ser_now st v)
            | None =>
                (* serialize_internal creates the missing serializer with the compact flag of the call *)
                match create HFUEL st rn {| sc_sn := false; sc_compact := compact |} with
                | (own, Ok _) => (own, ser_now own v)
                | (own, Raise _) => (own, Raise Unmodelled)
                end
            end
        | _ => (st, Raise Unmodelled)
        end
    end.

  Fixpoint run_ops (st : fstate) (ops : list hop) : fstate * list (res pyval) :=
    match ops with
    | [] => (st, [])
    | op :: t => let '(st1, r) := run_op st op in
                 let '(st2, rs) := run_ops st1 t in
                 (st2, r :: rs)
    end.

  (* ---------------------------------------------------------------- the order-free reading *)

  (* every structure is serialized by the closure of ITS OWN class, generated with the flags cf gives for that
     class: no state, no inheritance *)
  Fixpoint sfast (cf : pystr -> sconf) (fuel : nat) (cn : pystr) (v : pyval) : res pyval :=
    match fuel with
    | O => Raise OutOfFuel
    | S n =>
        match find_tclass e cn, v with
        | Some c, PStruct rn a =>
            match t_mapper c with
            | MapList => Raise Unmodelled
            | _ =>
                r <- fast_fields (fast_val sser ofast (fun _ x => by_class e (sfast cf n) x)) c a (t_fields c) ;;
                Ok (finish (cf cn) rn c r)
            end
        | _, _ => Raise Unmodelled
        end
    end.

  Definition conf_of (own : ownmap) (cn : pystr) : sconf :=
    match alist_get own cn with Some cf => cf | None => dconf end.
End WithFamily.
