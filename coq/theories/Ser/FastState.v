(* C10, fast serialization as a STATE MACHINE over a family of FastSerializable classes
   (typedpy/serialization/fast_serialization.py: FastSerializable.__init__, _verify_is_fast_serializable,
   _get_serialize, create_serializer, set_compact_wrapper; serialize_internal's fast branch in
   serialization.py; Array.serialize / Set.serialize in typedpy/fields).

   What `K.serialize` is at a given moment is per-class mutable state:
     * create_serializer(K, compact, serialize_none) installs a generated closure in K's own __dict__
       (explicitly, implicitly at the first instantiation of K, implicitly for a class a new serializer
       refers to directly or as Array item when that class resolves to the mix-in's stub);
     * a subclass without its own entry INHERITS the closure of the nearest base class that has one
       (attribute lookup through the MRO): that closure knows the base class's fields and mapper only;
     * the closure of a class refers to the classes of its fields LATE (`obj.serialize(val)`, obj = the class)
       for direct and Optional references, but Array.serialize / Set.serialize FREEZE the function
       `items._ty.serialize` they see at their first call in a per-field cache (`field._serialize`).
   The class AST is that of Ser/Trusted.v, flattened (all fields of a class, base class fields first);
   the inheritance relation is given separately (child -> parent).
   Executable; no proofs here. *)
From Coq Require Import ZArith NArith String List Bool.
Import ListNotations.
From TP Require Import Base.PyVal Base.PyEq Fields.FieldAst Fields.SetChain Ser.Trusted Ser.Fast.

Record sconf := { sc_sn : bool; sc_compact : bool }.       (* flags a serializer was generated with *)
Definition dconf : sconf := {| sc_sn := false; sc_compact := false |}.

(* the function object `K.serialize` evaluates to *)
Inductive sfun :=
| SStub                                (* FastSerializable.serialize: raises NotImplementedError *)
| SGen (k : pystr) (cf : sconf).       (* the closure generated for class k with flags cf *)

(* (class that declares the field, field name, class of the items) identifies an Array/Set field object *)
Definition ckey := (pystr * pystr * pystr)%type.
Definition ckey_eqb (a b : ckey) : bool :=
  match a, b with (a1, a2, a3), (b1, b2, b3) => pystr_eqb a1 b1 && pystr_eqb a2 b2 && pystr_eqb a3 b3 end.
Definition ckey_item (k : ckey) : pystr := snd k.

Definition ownmap := list (pystr * sconf).        (* classes with "serialize" in their OWN __dict__ (newest first) *)
Definition cache := list (ckey * sfun).           (* field._serialize of Array/Set-of-class fields *)
Record fstate := { fs_own : ownmap; fs_cache : cache }.
Definition st0 : fstate := {| fs_own := []; fs_cache := [] |}.

Fixpoint cache_get (ch : cache) (k : ckey) : option sfun :=
  match ch with
  | [] => None
  | (k', f) :: t => if ckey_eqb k' k then Some f else cache_get t k
  end.

Definition ores := (ownmap * res unit)%type.
Definition stres (A : Type) := (cache * res A)%type.

Fixpoint mapM_st {A B} (f : cache -> A -> stres B) (ch : cache) (l : list A) : stres (list B) :=
  match l with
  | [] => (ch, Ok [])
  | x :: t =>
      match f ch x with
      | (ch1, Ok y) => match mapM_st f ch1 t with
                       | (ch2, Ok r) => (ch2, Ok (y :: r))
                       | (ch2, Raise ex) => (ch2, Raise ex)
                       end
      | (ch1, Raise ex) => (ch1, Raise ex)
      end
  end.

Fixpoint has_ref (tf : tfield) : bool :=
  match tf with
  | TRef _ => true
  | TArray item | TSet item => has_ref item
  | TOpt _ f => has_ref f
  | _ => false
  end.

Fixpoint strip_opt (tf : tfield) : tfield :=
  match tf with TOpt _ f => strip_opt f | _ => tf end.

(* the shapes in which a class may be referred to that this model covers *)
Definition shape_ok (tf : tfield) : bool :=
  negb (has_ref tf) ||
  match strip_opt tf with
  | TRef _ | TArray (TRef _) | TSet (TRef _) => true
  | _ => false
  end.

Definition HFUEL : nat := 6.

Section WithFamily.
  Variable sser : N -> pyval -> res pyval.      (* SerializableField.serialize of field #id *)
  Variable ofast : N -> pyval -> res pyval.     (* field.serialize of an unmodelled field #id *)
  Variable e : tenv.                            (* flattened declarations *)
  Variable ps : list (pystr * pystr).           (* child -> parent *)

  (* ---------------------------------------------------------------- attribute lookup through the MRO *)

  Fixpoint resolve_n (n : nat) (own : ownmap) (cn : pystr) : sfun :=
    match alist_get own cn with
    | Some cf => SGen cn cf
    | None => match n with
              | O => SStub
              | S n' => match alist_get ps cn with
                        | Some p => resolve_n n' own p
                        | None => SStub
                        end
              end
    end.
  Definition resolve (own : ownmap) (cn : pystr) : sfun := resolve_n (length e) own cn.

  (* the class whose body declares field f of class cn (Field objects are shared with subclasses) *)
  Fixpoint decl_n (n : nat) (cn f : pystr) : pystr :=
    match n with
    | O => cn
    | S n' => match alist_get ps cn with
              | Some p => match find_tclass e p with
                          | Some pc => if has_field pc f then decl_n n' p f else cn
                          | None => cn
                          end
              | None => cn
              end
    end.
  Definition decl_of (cn f : pystr) : pystr := decl_n (length e) cn f.

  (* ---------------------------------------------------------------- create_serializer *)

  (* _verify_is_fast_serializable, then the OneOf / multi-option AnyOf tests of _get_serialize *)
  Fixpoint verify (cr : ownmap -> pystr -> ores) (own : ownmap) (tf : tfield) {struct tf} : ores :=
    match tf with
    | TRef c =>
        match find_tclass e c with
        | Some cd => if t_fast cd
                     then match resolve own c with
                          | SStub => cr own c            (* only a class that resolves to the stub gets a serializer *)
                          | SGen _ _ => (own, Ok tt)
                          end
                     else (own, Raise TypeError)
        | None => (own, Raise Unmodelled)
        end
    | TArray item => match item with
                     | TRef _ | TArray _ => verify cr own item
                     | _ => (own, Ok tt)
                     end
    | TUnion ls => if (1 <? length (non_none ls))%nat then (own, Raise TypeError) else (own, Ok tt)
    | TOther _ oneof => if oneof then (own, Raise TypeError) else (own, Ok tt)
    | _ => (own, Ok tt)
    end.

  Fixpoint create_fields (cr : ownmap -> pystr -> ores) (own : ownmap) (m : mapper) (fs : list tfd) : ores :=
    match fs with
    | [] => (own, Ok tt)
    | fd :: t =>
        match mapped_as_str m (f_name fd) with
        | Raise x => (own, Raise x)
        | Ok _ =>
            let '(own1, r) := match f_ty fd with
                              | TLeaf (LPrim FNone) => verify cr own (f_ty fd)
                              | TLeaf (LPrim _) | TLeaf (LSer _ true) => (own, Ok tt)      (* _get_value *)
                              | tf => verify cr own tf
                              end in
            match r with
            | Ok _ => create_fields cr own1 m t
            | Raise x => (own1, Raise x)          (* serializers created for earlier fields stay installed *)
            end
        end
    end.

  (* create_serializer(cn, compact, serialize_none): the new own-map and Ok / the exception *)
  Fixpoint create (fuel : nat) (own : ownmap) (cn : pystr) (cf : sconf) : ores :=
    match fuel with
    | O => (own, Raise OutOfFuel)
    | S n =>
        match find_tclass e cn with
        | None => (own, Raise Unmodelled)
        | Some c =>
            let '(own1, r) := create_fields (fun o c' => create n o c' dconf) own (t_mapper c) (t_fields c) in
            match r with
            | Ok _ => ((cn, cf) :: own1, Ok tt)
            | Raise x => (own1, Raise x)
            end
        end
    end.

  (* FastSerializable.__init__ *)
  Definition inst_class (own : ownmap) (cn : pystr) : ores :=
    match alist_get own cn with
    | Some _ => (own, Ok tt)
    | None => create HFUEL own cn dconf
    end.

  Fixpoint inst_seq (f : ownmap -> pyval -> ores) (own : ownmap) (l : list pyval) : ores :=
    match l with
    | [] => (own, Ok tt)
    | x :: t => match f own x with
                | (own1, Ok _) => inst_seq f own1 t
                | (own1, Raise ex) => (own1, Raise ex)
                end
    end.

  (* building a value tree: the constructors of the nested instances run first, in argument order *)
  Fixpoint inst_tree (fuel : nat) (own : ownmap) (v : pyval) : ores :=
    match fuel with
    | O => (own, Raise OutOfFuel)
    | S n =>
        match v with
        | PStruct cn a =>
            match inst_seq (inst_tree n) own (map snd a) with
            | (own1, Ok _) => inst_class own1 cn
            | (own1, Raise ex) => (own1, Raise ex)
            end
        | PList l => inst_seq (inst_tree n) own l
        | PSet _ l => inst_seq (inst_tree n) own l
        | _ => (own, Ok tt)
        end
    end.

  (* ---------------------------------------------------------------- serialization in a state *)

  (* Array.serialize / Set.serialize of a field whose items are class c: the function frozen at the
     first call, else the one `c.serialize` evaluates to now (which is then frozen) *)
  Definition freeze (own : ownmap) (ch : cache) (k : ckey) : cache * sfun :=
    match cache_get ch k with
    | Some f => (ch, f)
    | None => let f := resolve own (ckey_item k) in ((k, f) :: ch, f)
    end.

  Definition call_ref (run : cache -> pystr -> sconf -> pyval -> stres pyval)
             (ch : cache) (c : pystr) (f : sfun) (v : pyval) : stres pyval :=
    match find_tclass e c with
    | Some cd => if t_fast cd
                 then match f with
                      | SStub => (ch, Raise NotImplementedError)
                      | SGen k cf => run ch k cf v
                      end
                 else (ch, Raise TypeError)
    | None => (ch, Raise Unmodelled)
    end.

  Definition wrap_list (r : stres (list pyval)) : stres pyval :=
    match r with
    | (ch, Ok l) => (ch, Ok (PList l))
    | (ch, Raise ex) => (ch, Raise ex)
    end.

  Definition no_class (_ : pystr) (_ : pyval) : res pyval := Raise Unmodelled.

  (* field.serialize(value) for field (dc, fname) of type tf *)
  Definition dyn_val (own : ownmap) (run : cache -> pystr -> sconf -> pyval -> stres pyval)
             (dc fname : pystr) (ch : cache) (tf : tfield) (v : pyval) : stres pyval :=
    if negb (has_ref tf) then (ch, fast_val sser ofast e no_class tf v)
    else match strip_opt tf with
         | TRef c => call_ref run ch c (resolve own c) v            (* late: whatever c.serialize is now *)
         | TArray (TRef c) =>
             match v with
             | PList l => if class_is_fast e c
                          then let '(ch1, f) := freeze own ch (dc, fname, c) in
                               wrap_list (mapM_st (fun ch' x => call_ref run ch' c f x) ch1 l)
                          else (ch, Raise AttributeError)
             | _ => (ch, Raise Unmodelled)
             end
         | TSet (TRef c) =>
             match v with
             | PSet _ l => if class_is_fast e c
                           then let '(ch1, f) := freeze own ch (dc, fname, c) in
                                wrap_list (mapM_st (fun ch' x => call_ref run ch' c f x) ch1 l)
                           else (ch, Raise AttributeError)
             | _ => (ch, Raise Unmodelled)
             end
         | _ => (ch, Raise Unmodelled)
         end.

  Fixpoint dyn_fields (dv : pystr -> cache -> tfield -> pyval -> stres pyval) (c : tclass)
           (a : list (pystr * pyval)) (ch : cache) (fs : list tfd) : stres (list (pystr * pyval)) :=
    match fs with
    | [] => (ch, Ok [])
    | fd :: t =>
        let x := getattr_m c a (f_name fd) in
        match (if is_none x then (ch, Ok PNone)
               else match f_ty fd with
                    | TLeaf (LSer _ true) => (ch, Ok x)
                    | tf => dv (f_name fd) ch tf x
                    end) with
        | (ch1, Ok w) =>
            match dyn_fields dv c a ch1 t with
            | (ch2, Ok r) => (ch2, Ok ((own_key (t_mapper c) (f_name fd), w) :: r))
            | (ch2, Raise ex) => (ch2, Raise ex)
            end
        | (ch1, Raise ex) => (ch1, Raise ex)
        end
    end.

  (* what the generated closure does with the dict it built: serialize_none, then the compact wrapper,
     which counts the fields of the INSTANCE's class *)
  Definition finish (cf : sconf) (rn : pystr) (c : tclass) (r : list (pystr * pyval)) : pyval :=
    let r' := if sc_sn cf then r else drop_none r in
    let nf := match find_tclass e rn with Some rc => length (t_fields rc) | None => length (t_fields c) end in
    match dict_of r' with
    | PDict [(_, x)] => if sc_compact cf && Nat.eqb nf 1 then x else dict_of r'
    | d => d
    end.

  (* the closure generated for class k with flags cf, applied to v *)
  Fixpoint run_gen (own : ownmap) (fuel : nat) (ch : cache) (k : pystr) (cf : sconf) (v : pyval) : stres pyval :=
    match fuel with
    | O => (ch, Raise OutOfFuel)
    | S n =>
        match find_tclass e k, v with
        | Some c, PStruct rn a =>
            match t_mapper c with
            | MapList => (ch, Raise Unmodelled)
            | _ =>
                match dyn_fields (fun fname ch' tf x => dyn_val own (run_gen own n) (decl_of k fname) fname ch' tf x)
                                 c a ch (t_fields c) with
                | (ch1, Ok r) => (ch1, Ok (finish cf rn c r))
                | (ch1, Raise ex) => (ch1, Raise ex)
                end
            end
        | _, _ => (ch, Raise Unmodelled)
        end
    end.

  (* ---------------------------------------------------------------- schedules *)

  Inductive hop :=
  | HCreate (cn : pystr) (sn compact : bool)       (* create_serializer(cn, compact, serialize_none) *)
  | HInst (trusted : bool) (v : pyval)             (* the constructor of a class / its from_trusted_data, applied to the value tree *)
  | HSer (v : pyval)                               (* x.serialize() *)
  | HSerVia (compact : bool) (v : pyval).          (* Serializer(x).serialize(compact=...) *)

  Definition unit_res (r : res unit) : res pyval :=
    match r with Ok _ => Ok PNone | Raise ex => Raise ex end.

  Definition ser_now (st : fstate) (v : pyval) : fstate * res pyval :=
    match v with
    | PStruct rn _ =>
        let '(ch, r) := call_ref (run_gen (fs_own st) HFUEL) (fs_cache st) rn (resolve (fs_own st) rn) v in
        ({| fs_own := fs_own st; fs_cache := ch |}, r)
    | _ => (st, Raise Unmodelled)
    end.

  Definition run_op (st : fstate) (op : hop) : fstate * res pyval :=
    match op with
    | HCreate cn sn compact =>
        let '(own, r) := create HFUEL (fs_own st) cn {| sc_sn := sn; sc_compact := compact |} in
        ({| fs_own := own; fs_cache := fs_cache st |}, unit_res r)
    | HInst trusted v =>
        (* Structure.__init__ of a trusted instance reaches the mix-in's __init__ once per keyword *)
        let '(own, r) := match trusted, v with
                         | true, PStruct _ [] => (fs_own st, Ok tt)
                         | _, _ => inst_tree HFUEL (fs_own st) v
                         end in
        ({| fs_own := own; fs_cache := fs_cache st |}, unit_res r)
    | HSer v => ser_now st v
    | HSerVia compact v =>
        match v with
        | PStruct rn _ =>
            match alist_get (fs_own st) rn with
            | Some _ => ser_now st v
            | None =>
                (* serialize_internal creates the missing serializer with the compact flag of the call *)
                match create HFUEL (fs_own st) rn {| sc_sn := false; sc_compact := compact |} with
                | (own, Ok _) => ser_now {| fs_own := own; fs_cache := fs_cache st |} v
                | (own, Raise _) => ({| fs_own := own; fs_cache := fs_cache st |}, Raise Unmodelled)
                end
            end
        | _ => (st, Raise Unmodelled)
        end
    end.

  Fixpoint run_ops (st : fstate) (ops : list hop) : fstate * list (res pyval) :=
    match ops with
    | [] => (st, [])
    | op :: t => let '(st1, r) := run_op st op in
                 let '(st2, rs) := run_ops st1 t in
                 (st2, r :: rs)
    end.

  (* ---------------------------------------------------------------- the order-free reading *)

  (* every class reference is serialized by the declared class's own closure, generated with the flags
     cf gives for that class: no state, no inheritance, no cache *)
  Fixpoint sfast (cf : pystr -> sconf) (fuel : nat) (cn : pystr) (v : pyval) : res pyval :=
    match fuel with
    | O => Raise OutOfFuel
    | S n =>
        match find_tclass e cn, v with
        | Some c, PStruct rn a =>
            match t_mapper c with
            | MapList => Raise Unmodelled
            | _ =>
                r <- fast_fields (fast_val sser ofast e
                                    (fun c' x => match find_tclass e c' with
                                                 | Some cd => if t_fast cd then sfast cf n c' x else Raise TypeError
                                                 | None => Raise Unmodelled
                                                 end)) c a (t_fields c) ;;
                Ok (finish (cf cn) rn c r)
            end
        | _, _ => Raise Unmodelled
        end
    end.

  Definition conf_of (own : ownmap) (cn : pystr) : sconf :=
    match alist_get own cn with Some cf => cf | None => dconf end.
End WithFamily.
