(* The JSON-like fragment of the Python value universe: what Serializer.serialize() must produce
   (C05) and what Deserializer.deserialize() is handed (C06).  A JSON value is a [pyval] built
   from None / bool / int / float / str / list / dict only; [json_pure] additionally asks that
   dict keys are scalars (what json.dumps accepts as keys); [json_doc] that they are strings
   (what json.loads produces).  Executable; no proofs here. *)
From Coq Require Import ZArith NArith String Bool List.
Import ListNotations.
From TP Require Import Base.PyVal.

Definition json_scalar (v : pyval) : bool :=
  match v with
  | PNone | PBool _ | PStr _ => true
  | PNum (NInt _) | PNum (NFlt _ _) => true
  | _ => false
  end.

Fixpoint json_pure (v : pyval) : bool :=
  match v with
  | PList l => forallb json_pure l
  | PDict kv => forallb (fun p => json_scalar (fst p) && json_pure (snd p)) kv
  | _ => json_scalar v
  end.

Definition is_pstr (v : pyval) : bool := match v with PStr _ => true | _ => false end.

Fixpoint json_doc (v : pyval) : bool :=
  match v with
  | PList l => forallb json_doc l
  | PDict kv => forallb (fun p => is_pstr (fst p) && json_doc (snd p)) kv
  | _ => json_scalar v
  end.

(* mapM with the function outside the fixpoint, so that it can be used for nested recursion on
   the elements of the list *)
Section MapR.
  Context {A B : Type} (f : A -> res B).
  Fixpoint mapR (l : list A) : res (list B) :=
    match l with
    | [] => Ok []
    | x :: t => match f x with
                | Ok y => match mapR t with Ok ys => Ok (y :: ys) | Raise e => Raise e end
                | Raise e => Raise e
                end
    end.
End MapR.

(* exceptions that are artefacts of the model (never raised by Python): they are not caught by the
   model of `except Exception` *)
Definition model_exn (x : exn) : bool :=
  match x with OutOfFuel | Unmodelled => true | _ => false end.
