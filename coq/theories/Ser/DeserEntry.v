(* Deserialization as a validating entry point of C01, with its REAL pre-processing: what
   deserialize_structure_internal (Ser/Deserialize.v, the model of typedpy/serialization/serialization.py
   used by C05/C06) hands to the constructor for a JSON-like document, as a function of the document.
   Struct/Entry.v keeps [EDeser cls kw] parametric in the keyword arguments kw; here they are computed:
   [deser_plan] is deser_struct up to (not including) the final constructor call.
   Executable; no proofs here. *)
From Coq Require Import ZArith NArith String Bool List.
Import ListNotations.
From TP Require Import Base.PyVal Fields.FieldAst Fields.SetChain Fields.Doc Fields.Domain
  Struct.Shapes Struct.Instance Struct.Entry Ser.Json Ser.Serialize Ser.Deserialize.

Section DeserEntry.
  Variable re_match : N -> pystr -> bool.
  Variable e : env.
  Variable ens : enums.
  Variable fl : dflags.

  (* the class and the keyword arguments of the final `cls( **kwargs)` *)
  Definition deser_plan (n : nat) (ku : bool) (cn : pystr) (j : pyval) : res (classdef * kwargs) :=
    match find_class e cn with
    | None => Raise Unmodelled
    | Some c =>
        match j with
        | PDict kv =>
            let extras :=
                if ku && (c_additional c || negb (df_ignore_invalid fl))
                then filter (fun p => negb (is_field_key c (fst p))) kv else [] in
            kw <- deser_fields re_match e ens (deser_struct re_match e ens fl n) ku (c_ignore_none c)
                               (c_fields c) kv false ;;
            match str_keys extras with
            | Some ex => Ok (c, ex ++ kw)
            | None => Raise TypeError
            end
        | _ =>
            match (if df_compact fl then compact_eligible c else None) with
            | Some fd =>
                w <- deser_val re_match e ens (deser_struct re_match e ens fl n) true (c_ignore_none c)
                               (fd_field fd) j ;;
                Ok (c, [(fd_name fd, w)])
            | None => Raise TypeError
            end
        end
    end.

  (* the statement's domain for a document: the keyword arguments that reach the constructor are in
     it (as for every other entry point, Struct/Entry.v entry_dom) *)
  Definition deser_dom (n : nat) (ku : bool) (cn : pystr) (j : pyval) : bool :=
    match deser_plan n ku cn j with
    | Ok (c, kw) => kw_ok re_match e c kw && defaults_ok re_match e c
    | Raise _ => true
    end.
End DeserEntry.

(* deser_struct with the statement's domain checked at EVERY constructor call, the nested ones
   included; outside the domain it declines (Unmodelled).  Ser/DeserDeepProofs.v: whenever it
   returns, deser_struct returns the same instance (deser_checked_agrees), and that instance is
   valid together with every instance nested in it (deser_checked_deep). *)
Section DeserChecked.
  Variable re_match : N -> pystr -> bool.
  Variable e : env.
  Variable ens : enums.
  Variable fl : dflags.

  Definition checked_construct (c : classdef) (kw : kwargs) : res pyval :=
    if kw_ok re_match e c kw && defaults_ok re_match e c then construct re_match e c kw else Raise Unmodelled.

  Fixpoint deser_checked (n : nat) (ku : bool) (cn : pystr) (j : pyval) : res pyval :=
    match n with
    | O => Raise OutOfFuel
    | S n' =>
        match find_class e cn with
        | None => Raise Unmodelled
        | Some c =>
            match j with
            | PDict kv =>
                let extras :=
                    if ku && (c_additional c || negb (df_ignore_invalid fl))
                    then filter (fun p => negb (is_field_key c (fst p))) kv else [] in
                kw <- deser_fields re_match e ens (deser_checked n') ku (c_ignore_none c) (c_fields c) kv false ;;
                match str_keys extras with
                | Some ex => checked_construct c (ex ++ kw)
                | None => Raise TypeError
                end
            | _ =>
                match (if df_compact fl then compact_eligible c else None) with
                | Some fd =>
                    w <- deser_val re_match e ens (deser_checked n') true (c_ignore_none c) (fd_field fd) j ;;
                    checked_construct c [(fd_name fd, w)]
                | None => Raise TypeError
                end
            end
        end
    end.
End DeserChecked.
