(* Model of typedpy/serialization/versioned_mapping.py (_convert, convert_dict, Versioned.__init__)
   and of typedpy/commons.py::deep_get. Executable; no proofs here. *)
From Coq Require Import ZArith QArith NArith String Ascii Bool Lia List.
Import ListNotations.
From TP Require Import Base.PyVal.
Local Open Scope Z_scope.

Definition dict := list (pyval * pyval).

Inductive mval :=
| MConst (v : pyval)                       (* Constant(v) *)
| MSub (m : list (pystr * mval))           (* a nested mapping (the value of a "<field>._mapper" key) *)
| MFunc (fid : N) (args : list pystr)      (* FunctionCall(func=family fid, args=...) ; [] = no args *)
| MKey (path : pystr)                      (* a str: the new key takes deep_get(out, path) *)
| MDeleted                                 (* the class Deleted *)
| MIgnored.                                (* any other object: _convert does nothing with it *)

Definition mapping := list (pystr * mval).

(* ---- deep_get(dictionary, "a.b.c") with default None, no flatten, no undefined ---- *)

Definition dot : N := 46%N.

Fixpoint split_dot_aux (cur : pystr) (s : pystr) : list pystr :=
  match s with
  | [] => [rev cur]
  | c :: t => if N.eqb c dot then rev cur :: split_dot_aux [] t else split_dot_aux (c :: cur) t
  end.
Definition split_dot (s : pystr) : list pystr := split_dot_aux [] s.

Definition is_none (v : pyval) : bool := match v with PNone => true | _ => false end.

Fixpoint get_next_level (d : pyval) (key : pystr) : pyval :=
  let fix go (l : list pyval) : list pyval :=
      match l with
      | [] => []
      | r :: t => if is_none r then go t else get_next_level r key :: go t
      end in
  match d with
  | PDict kv => match dict_get kv (PStr key) with Some v => v | None => PNone end
  | PList l => PList (go l)
  | PTuple l => PList (go l)
  | _ => PNone
  end.

Definition deep_get (d : pyval) (path : pystr) : pyval :=
  fold_left (fun acc key => if py_truthy acc then get_next_level acc key else PNone)
            (split_dot path) d.

(* ---- _convert ---- *)

Definition mapper_suffix : pystr := s2p "._mapper".

Definition ends_with_mapper (k : pystr) : option pystr :=
  let n := length k in
  let m := length mapper_suffix in
  if Nat.leb m n then
    if pystr_eqb (skipn (n - m) k) mapper_suffix then Some (firstn (n - m) k) else None
  else None.

Definition dget (d : dict) (k : pystr) : pyval :=
  match dict_get d (PStr k) with Some v => v | None => PNone end.

(* the integer literals of convert_dict (see below); the values in the pinned source are std_cd_params *)
Record cd_params := { cd_start_default : Z; cd_slice_offset : Z; cd_bump_default : Z; cd_bump_inc : Z }.
Definition std_cd_params : cd_params :=
  {| cd_start_default := 1; cd_slice_offset := 1; cd_bump_default := 0; cd_bump_inc := 1 |}.
(* what the version arithmetic of the statement needs: the slice starts at version-1, each step adds 1 *)
Definition cd_params_ok (p : cd_params) : bool := Z.eqb (cd_slice_offset p) 1 && Z.eqb (cd_bump_inc p) 1.

(* shape of Versioned.__init__ as recognised on the source *)
Inductive init_shape := InitForce (off : Z) | InitSetDefault (off : Z) | InitUnrecognised.
Definition init_shape_ok (s : init_shape) : bool :=
  match s with InitForce off => Z.eqb off 1 | _ => false end.

(* float + small int, exact (None when the sum would need rounding): a float reified as m * 2^e, m odd or 0 *)
Fixpoint pos_tz (q : positive) : Z := match q with xO r => 1 + pos_tz r | _ => 0 end.
Definition flt_norm (m e : Z) : option (Z * Z) :=
  match m with
  | Z0 => Some (0, 0)
  | Zpos q => let t := pos_tz q in
              if Z.abs (m / 2 ^ t) <? 2 ^ 53 then Some (m / 2 ^ t, e + t) else None
  | Zneg q => let t := pos_tz q in
              if Z.abs (m / 2 ^ t) <? 2 ^ 53 then Some (m / 2 ^ t, e + t) else None
  end.
Definition flt_add_int (m e k : Z) : option (Z * Z) :=
  if e <? 0 then flt_norm (m + k * 2 ^ (- e)) e else flt_norm (m * 2 ^ e + k) 0.

Section WithFunctions.
  (* the user's FunctionCall functions: pure, may raise *)
  Variable fn : N -> list pyval -> res pyval.

  (* loops 2 and 3 of _convert do not recurse into nested mappings *)
  Definition loop2 (m : mapping) (out : dict) : dict :=
    fold_left (fun out kv =>
                 match snd kv with
                 | MKey path => dict_set out (PStr (fst kv)) (deep_get (PDict out) path)
                 | _ => out
                 end) m out.

  Definition loop3 (m : mapping) (out : dict) : dict :=
    fold_left (fun out kv =>
                 match snd kv with
                 | MDeleted => dict_del out (PStr (fst kv))
                 | _ => out
                 end) m out.

  Definition finish (m : mapping) (out : dict) : dict := loop3 m (loop2 m out).

  (* loop 1 (constants, nested mappers, function calls). [rec v kv] is the nested call
     _convert(kv, v) for the value v stored under a "<field>._mapper" key. *)
  Definition loop1_gen (rec : mval -> dict -> res dict) : mapping -> dict -> dict -> res dict :=
    fix loop1 (l : mapping) (orig out : dict) {struct l} : res dict :=
    match l with
    | [] => Ok out
    | (k, v) :: t =>
        match v with
        | MConst c => loop1 t orig (dict_set out (PStr k) c)
        | _ =>
            match ends_with_mapper k with
            | Some field =>
                let content := dget orig field in
                if is_none content then loop1 t orig out
                else
                  match content with
                  | PList items =>
                      r <- mapM (fun x => match x with
                                          | PDict kv => r <- rec v kv ;; Ok (PDict r)
                                          | _ => Raise Unmodelled   (* _convert on a non-dict *)
                                          end) items ;;
                      loop1 t orig (dict_set out (PStr field) (PList r))
                  | PDict kv =>
                      r <- rec v kv ;;
                      loop1 t orig (dict_set out (PStr field) (PDict r))
                  | _ => Raise Unmodelled                            (* _convert on a non-dict *)
                  end
            | None =>
                match v with
                | MFunc fid args =>
                    let argv := match args with
                                | [] => [dget out k]
                                | _ => map (dget out) args
                                end in
                    r <- fn fid argv ;;
                    loop1 t orig (dict_set out (PStr k) r)
                | _ => loop1 t orig out
                end
            end
        end
    end.

  (* _convert(kv, v) for a nested mapping value v *)
  Fixpoint sub_convert (v : mval) (kv : dict) {struct v} : res dict :=
    match v with
    | MSub m' => r <- loop1_gen (fun v' kv' => sub_convert v' kv') m' kv kv ;; Ok (finish m' r)
    | _ => Raise AttributeError        (* not a mapping: no .items() *)
    end.

  (* _convert(mapped_dict, mapping) *)
  Definition convert (m : mapping) (orig : dict) : res dict :=
    r <- loop1_gen sub_convert m orig orig ;; Ok (finish m r).

  (* ---- convert_dict ---- *)

  Definition version_key : pyval := PStr (s2p "version").

  Definition py_slice_from {A} (l : list A) (i : Z) : list A :=
    if 0 <=? i then (if Z.of_nat (length l) <=? i then [] else skipn (Z.to_nat i) l)   (* no unary blow-up *)
    else skipn (Z.to_nat (Z.max 0 (Z.of_nat (length l) + i))) l.

  (* The four integer literals of convert_dict, re-read from the source on every run
     (Gen/VersionedShape.v):
        start_version = the_dict.get("version", START_DEFAULT)
        for mapping in versions_mapping[(start_version - SLICE_OFFSET):]:
            ...
            mapped_dict["version"] = mapped_dict.get("version", BUMP_DEFAULT) + BUMP_INC        *)
  Variable p : cd_params.

  Definition bump_version (d : dict) : res dict :=
    match dict_get d version_key with
    | None => Ok (dict_set d version_key (PNum (NInt (cd_bump_default p + cd_bump_inc p))))
    | Some (PNum (NInt z)) => Ok (dict_set d version_key (PNum (NInt (z + cd_bump_inc p))))
    | Some (PBool b) => Ok (dict_set d version_key (PNum (NInt ((if b then 1 else 0) + cd_bump_inc p))))
    | Some (PNum (NFlt m e)) =>                (* a mapping put a float under "version": float + int *)
        match flt_add_int m e (cd_bump_inc p) with
        | Some (m', e') => Ok (dict_set d version_key (PNum (NFlt m' e')))
        | None => Raise Unmodelled
        end
    | Some (PNum (NDec _ _)) => Raise Unmodelled
    | Some _ => Raise TypeError
    end.

  Definition step (acc : res dict) (m : mapping) : res dict :=
    d <- acc ;; d' <- convert m d ;; bump_version d'.

  Definition start_index (d : dict) : res Z :=
    match dict_get d version_key with
    | None => Ok (cd_start_default p - cd_slice_offset p)
    | Some (PNum (NInt z)) => Ok (z - cd_slice_offset p)
    | Some (PBool b) => Ok ((if b then 1 else 0) - cd_slice_offset p)
    | Some _ => Raise TypeError
    end.

  Definition convert_dict (d : dict) (maps : list mapping) : res dict :=
    i <- start_index d ;;
    fold_left step (py_slice_from maps i) (Ok d).

  (* Versioned.__init__: the constructor overrides whatever version was passed *)
  Definition versioned_init_kwargs (maps : list mapping) (kw : dict) : dict :=
    dict_set kw version_key (PNum (NInt (Z.of_nat (length maps) + 1))).

  (* ... as the source spells it now (Gen/VersionedShape.v): kwargs["version"] = len(mapping) + off
     stored unconditionally before Structure.__init__ runs (InitForce), or only when the caller did
     not pass one (InitSetDefault), or something the recogniser does not know *)
  Definition versioned_init_kwargs_s (s : init_shape) (maps : list mapping) (kw : dict) : dict :=
    match s with
    | InitForce off => dict_set kw version_key (PNum (NInt (Z.of_nat (length maps) + off)))
    | InitSetDefault off =>
        match dict_get kw version_key with
        | Some _ => kw
        | None => dict_set kw version_key (PNum (NInt (Z.of_nat (length maps) + off)))
        end
    | InitUnrecognised => kw
    end.

  (* deserialize_structure_internal on a Versioned class: convert first, then the ordinary path *)
  Definition deser_versioned {T} (deser : dict -> res T) (maps : list mapping) (d : dict) : res T :=
    d' <- convert_dict d maps ;; deser d'.
End WithFunctions.

(* the fixed family of pure functions the correspondence harness uses for FunctionCall *)
Definition std_fn (fid : N) (args : list pyval) : res pyval :=
  match fid with
  | 0%N => Ok (hd PNone args)                                   (* lambda *a: a[0] *)
  | 1%N => Ok (PList args)                                      (* lambda *a: list(a) *)
  | 2%N => match hd PNone args with                             (* lambda *a: a[0]+1 if int else None *)
           | PNum (NInt z) => Ok (PNum (NInt (z + 1)))
           | _ => Ok PNone
           end
  | 3%N => Ok (PNum (NInt (Z.of_nat (length args))))            (* lambda *a: len(a) *)
  | 4%N => Raise ValueError                                     (* a function that always raises *)
  | _ => if (100 <=? fid)%N then Ok (hd PNone args)             (* tracer 100+i: identity (logs i on the side) *)
         else Raise ValueError
  end.
