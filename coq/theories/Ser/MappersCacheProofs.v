(* The process-wide memo table of aggregate_serialization_mappers is transparent: whatever the
   history of calls, every answer is the one a fresh aggregation gives.  The memo key must hold the
   class, the explicit mapper and the camel-case flag: with either of the last two left out there is
   a history of two calls whose second answer is wrong. *)
From Coq Require Import ZArith NArith Bool List Lia.
Import ListNotations.
From TP Require Import Base.PyVal Ser.Mappers.
Local Open Scope N_scope.

Lemma mval_seqb_eq : forall a b, mval_seqb a b = true -> a = b.
Proof.
  fix IH 1. intros [s| |l] [t| |m]; cbn [mval_seqb]; try discriminate.
  - intro H. apply pystr_eqb_spec in H. subst. reflexivity.
  - reflexivity.
  - intro H. f_equal. revert m H.
    induction l as [|[k v] l' IHl]; intros [|[k' w] m']; try discriminate; [reflexivity|].
    intro H. apply andb_true_iff in H as [H H3]. apply andb_true_iff in H as [H1 H2].
    apply pystr_eqb_spec in H1. apply IH in H2. subst. f_equal. apply IHl. exact H3.
Qed.

Lemma cache_key_eqb_eq a b : cache_key_eqb a b = true -> a = b.
Proof.
  destruct a as [[c1 o1] f1], b as [[c2 o2] f2]. cbn [cache_key_eqb].
  intro H. apply andb_true_iff in H as [H H3]. apply andb_true_iff in H as [H1 H2].
  apply N.eqb_eq in H1. apply Bool.eqb_prop in H2. subst.
  destruct o1 as [x|], o2 as [y|]; try discriminate; [|reflexivity].
  apply mval_seqb_eq in H3. inversion H3. reflexivity.
Qed.

Lemma aggregate_norm c o f : aggregate true c (norm_override o) f = aggregate true c o f.
Proof. unfold aggregate, used_list. destruct o as [[|e d]|]; reflexivity. Qed.

(* what a fresh aggregation answers to a request *)
Definition fresh (table : N -> classdef) (r : request) : res amap :=
  let '(cid, o, f) := r in aggregate true (table cid) o f.

Definition fresh_of_key (table : N -> classdef) (k : cache_key) : res amap :=
  let '(cid, o, f) := k in aggregate true (table cid) o f.

(* invariant of the memo table: every stored answer is the fresh one for its key *)
Definition coherent (table : N -> classdef) (ch : cache) : Prop :=
  forall k a, In (k, a) ch -> a = fresh_of_key table k.

Lemma cache_get_In ch k a : cache_get ch k = Some a -> In (k, a) ch.
Proof.
  induction ch as [|[k' v] t IH]; [discriminate|]. cbn [cache_get].
  destruct (cache_key_eqb k' k) eqn:E.
  - intro H. inversion H; subst. apply cache_key_eqb_eq in E. subst. left. reflexivity.
  - intro H. right. apply IH. exact H.
Qed.

Lemma fresh_full_key table r : fresh_of_key table (full_key r) = fresh table r.
Proof. destruct r as [[cid o] f]. cbn [full_key fresh_of_key fresh]. apply aggregate_norm. Qed.

Lemma cached_step table ch r a ch' :
  coherent table ch -> aggregate_cached table ch r = (a, ch') ->
  a = fresh table r /\ coherent table ch'.
Proof.
  intros Hc. unfold aggregate_cached, aggregate_cached_with.
  destruct r as [[cid o] f]. destruct (cachable o).
  - destruct (cache_get ch (full_key (cid, o, f))) as [a0|] eqn:G.
    + intro H. inversion H; subst. split; [|exact Hc].
      apply cache_get_In in G. apply Hc in G. rewrite G. apply (fresh_full_key table (cid, o, f)).
    + intro H. inversion H; subst. split; [reflexivity|].
      intros k a [Heq|Hin]; [|apply Hc; exact Hin].
      inversion Heq; subst. symmetry. apply (fresh_full_key table (cid, o, f)).
  - intro H. inversion H; subst. split; [reflexivity|exact Hc].
Qed.

(* for every history of calls, from any coherent memo table *)
Theorem serve_transparent table : forall rs ch,
  coherent table ch -> serve table ch rs = map (fresh table) rs.
Proof.
  induction rs as [|r t IH]; intros ch Hc; [reflexivity|].
  unfold serve in *. cbn [serve_with map].
  destruct (aggregate_cached_with full_key table ch r) as [a ch'] eqn:E.
  destruct (cached_step table ch r a ch' Hc E) as [-> Hc'].
  rewrite (IH ch' Hc'). reflexivity.
Qed.

Theorem serve_transparent_from_empty table rs : serve table [] rs = map (fresh table) rs.
Proof. apply serve_transparent. intros k a []. Qed.

(* the flag and the explicit mapper are both needed in the key *)
Definition s_in_x' : pystr := [105; 110; 95; 120].
Definition cI := Class [(s_in_x', None)] [].
Definition tableI (_ : N) := cI.

Theorem key_without_flag_refuted :
  exists rs, serve_with key_no_flag tableI [] rs <> map (fresh tableI) rs.
Proof. exists [(0, None, false); (0, None, true)]. vm_compute. discriminate. Qed.

Theorem key_without_override_refuted :
  exists rs, serve_with key_no_override tableI [] rs <> map (fresh tableI) rs.
Proof.
  exists [(0, None, false); (0, Some [(s_in_x', Key [107])], false)]. vm_compute. discriminate.
Qed.
