(* Proofs for C05: purity of the serialized form and the round trip deser (ser x) = x, for the
   fragment [frag] of declarations and canonical instances [canon]. *)
From Coq Require Import ZArith QArith NArith String Ascii Bool Lia List.
Import ListNotations.
From TP Require Import Base.PyVal Fields.FieldAst Fields.SetChain Fields.Doc Struct.Instance
  Ser.Json Ser.Serialize Ser.Deserialize.
Local Open Scope Z_scope.

(* ------------------------------------------------------------------ generic lemmas *)

Lemma mapR_rt {A B} (f : A -> res B) (g : B -> res A) (Q : B -> Prop) l :
  Forall (fun x => exists j, f x = Ok j /\ Q j /\ g j = Ok x) l ->
  exists js, mapR f l = Ok js /\ Forall Q js /\ mapR g js = Ok l.
Proof.
  induction 1 as [|x l [j (Hf & HQ & Hg)] _ [js (H1 & H2 & H3)]].
  - exists []. repeat split; constructor.
  - exists (j :: js). cbn [mapR]. rewrite Hf, H1, Hg, H3. repeat split. constructor; assumption.
Qed.

Lemma json_scalar_hashable v : json_scalar v = true -> py_hashable v = true.
Proof. destruct v; simpl; try discriminate; auto. Qed.

Lemma json_scalar_pure v : json_scalar v = true -> json_pure v = true.
Proof. destruct v; simpl; intros; try discriminate; auto. Qed.

Lemma json_value_ok_scalar v : json_value_ok v = true -> json_scalar v = true.
Proof. destruct v as [| | [] | | | | | | | | |]; simpl; intros; try discriminate; auto. Qed.

Lemma json_value_ok_not_none v : json_value_ok v = true -> v <> PNone.
Proof. destruct v; simpl; congruence. Qed.

(* keys that are pairwise different under ==, in the direction dict_set compares them *)
Fixpoint fresh_keys (seen ks : list pyval) : bool :=
  match ks with
  | [] => true
  | k :: t => negb (existsb (fun k' => py_eq k' k) seen) && fresh_keys (seen ++ [k]) t
  end.

Lemma dict_set_fresh acc k v :
  existsb (fun k' => py_eq k' k) (map fst acc) = false -> dict_set acc k v = acc ++ [(k, v)].
Proof.
  induction acc as [|[k' v'] acc IH]; cbn [dict_set map existsb fst app]; intro H; [reflexivity|].
  apply orb_false_iff in H as [H1 H2]. rewrite H1, IH by assumption. reflexivity.
Qed.

Lemma dict_of_pairs_fresh kv : forall acc,
  fresh_keys (map fst acc) (map fst kv) = true -> dict_of_pairs acc kv = acc ++ kv.
Proof.
  induction kv as [|[k v] kv IH]; intros acc H; cbn [dict_of_pairs].
  - now rewrite app_nil_r.
  - cbn [map fst fresh_keys] in H. apply andb_true_iff in H as [H1 H2].
    apply negb_true_iff in H1. rewrite dict_set_fresh by assumption.
    rewrite IH. + now rewrite <- app_assoc. + now rewrite map_app.
Qed.

Lemma find_class_name (e : env) n c : find_class e n = Some c -> c_name c = n.
Proof.
  induction e as [|d e IH]; cbn [find_class]; [discriminate|].
  destruct (pystr_eqb (c_name d) n) eqn:E; intro H.
  - inversion H; subst. now apply pystr_eqb_spec.
  - auto.
Qed.

(* the i-th element exists and satisfies P (a Fixpoint on the list, so that it can carry a nested recursive call) *)
Section NthSat.
  Context {A : Type} (P : A -> Prop).     (* the predicate outside the fixpoint: usable for nested recursion *)
  Fixpoint nth_sat (l : list A) (i : nat) {struct l} : Prop :=
    match l with
    | [] => False
    | x :: t => match i with O => P x | S i' => nth_sat t i' end
    end.
End NthSat.

Lemma nth_sat_spec {A} (P : A -> Prop) l : forall i, nth_sat P l i <-> exists x, nth_error l i = Some x /\ P x.
Proof.
  induction l as [|a l IH]; intros [|i]; cbn [nth_sat nth_error]; split;
    try (intros (x & Hx & _); discriminate); try (intros []; fail).
  - intro H. exists a. auto.
  - intros (x & Hx & HP). inversion Hx; subst. exact HP.
  - intro H. apply IH. exact H.
  - intro H. apply IH. exact H.
Qed.

Lemma firstn_length_app {A} (l1 l2 : list A) : firstn (length l1) (l1 ++ l2) = l1.
Proof. induction l1 as [|a l1 IH]; cbn [length firstn app]; [destruct l2; reflexivity | now rewrite IH]. Qed.

Section RT.
  Variable re_match : N -> pystr -> bool.
  Variable e : env.
  Variable ens : enums.

  (* ---------------------------------------------------------------- the fragment *)

  Definition plain_scalar (f : field) : bool :=
    match f with FNumber _ _ _ | FString _ | FBoolean => true | _ => false end.

  Definition scalar_frag (f : field) : bool :=
    match f with
    | FNumber _ _ _ | FString _ | FBoolean => true
    | FEnumLit vs => forallb json_value_ok vs
    | FEnumCls _ _ => true
    | _ => false
    end.

  (* scalars, enums by name and by value, Array/Deque of the fragment, Map from plain scalars to the
     fragment, Set of the fragment, Tuple of the fragment, nested structures, AnyOf (Optional included) over
     ANY options provided the value distinguishes them ([wfv]) *)
  Fixpoint frag (f : field) : bool :=
    match f with
    | FSeqEach _ g _ _ => frag g
    | FMapKV kf vf _ => plain_scalar kf && frag vf
    | FClassRef _ => true
    | FAnyOf _ => true          (* the conditions on the options are on the VALUE: see [wfv] *)
    | FSet false (Some g) _ => frag g                 (* Set[g]; an ImmutableSet comes back as a plain set *)
    | FTuple items _ => forallb frag items            (* Tuple of the fragment, positional or homogeneous *)
    | _ => scalar_frag f
    end.

  Definition all_members (cls : pystr) (members : list (pystr * pyval)) : list (pystr * pyval) :=
    match find_enum ens cls with Some d => en_members d | None => members end.

  Definition enum_wf (cls : pystr) (members : list (pystr * pyval)) (v : pyval) : Prop :=
    exists n x, v = PEnum cls n x /\ alist_has members n = true /\
                alist_get (all_members cls members) n = Some x /\
                (enum_by_value ens cls = true ->
                 json_value_ok x = true /\
                 find (fun m => py_eq (snd m) x) (all_members cls members) = Some (n, x)).

  Section Fields.
    Variable canon' : pyval -> Prop.          (* canonical nested instances (one level less fuel) *)
    Variable recS : pyval -> res pyval.
    Variable recD : bool -> pystr -> pyval -> res pyval.

    (* the elements of a tuple against its item declarations ([W g x]: x is a stored value of g): a Tuple with ONE item
       declaration holds any number of elements of it (none included); otherwise element i stands against declaration i
       (positions beyond the declared ones have no declaration: they are serialized without one and appended RAW by the
       deserializer, so they must be JSON scalars already) *)
    Definition tuple_pos_wf (W : field -> pyval -> Prop) :=
      fix tw (gs : list field) (xs : list pyval) {struct gs} : Prop :=
        match gs, xs with
        | [], _ => Forall (fun x => json_scalar x = true /\ x <> PNone) xs
        | _ :: _, [] => False
        | g :: gs', x :: xs' => W g x /\ tw gs' xs'
        end.
    Definition tuple_wf (W : field -> pyval -> Prop) (gs : list field) (xs : list pyval) : Prop :=
      match gs with
      | [g] => Forall (W g) xs
      | _ => tuple_pos_wf W gs xs
      end.

    (* "this option does not match, try the next one": any Python exception, of whatever class *)
    Definition rejects {A} (r : res A) : Prop := exists x, r = Raise x /\ model_exn x = false.
    Definition skips_ser (g : field) (v : pyval) : Prop :=
      rejects (_ <- validate_weak re_match e g v ;; ser_val re_match e ens recS g v).
    Definition skips_deser (g : field) (j : pyval) : Prop :=
      forall ku, rejects (deser_val re_match e ens recD ku false g j).

    (* v is a stored value of declaration f, in the shape the constructor leaves it *)
    Fixpoint wfv (f : field) (v : pyval) {struct f} : Prop :=
      match f with
      | FNumber _ _ _ | FString _ | FBoolean =>
          validate_weak re_match e f v = Ok tt /\ json_scalar v = true /\ v <> PNone
      | FEnumLit vs => py_in v vs = true /\ json_value_ok v = true
      | FEnumCls cls members => enum_wf cls members v
      | FSeqEach k g _ _ => exists l, v = seq_make k l /\ Forall (wfv g) l
      | FMapKV kf vf _ =>
          exists kv, v = PDict kv /\ Forall (fun p => wfv kf (fst p) /\ wfv vf (snd p)) kv /\
                     fresh_keys [] (map fst kv) = true
      | FClassRef c => (exists a, v = PStruct c a) /\ canon' v
      | FSet false (Some g) _ =>
          exists l, v = PSet false l /\ Forall (wfv g) l /\ py_dedup l = l /\ forallb py_hashable l = true
      | FTuple items _ => exists l, v = PTuple l /\ tuple_wf wfv items l
      | FAnyOf fs =>
          (* v is a value of one option g (the i-th) of the fragment, and it DISTINGUISHES the options: every option
             listed before g rejects v on the way out and rejects the serialized v on the way in (such an option need
             not be in the fragment, nor raise TypeError/ValueError: IndexError, KeyError, ... count as well) *)
          v <> PNone /\
          exists i,
            nth_sat (fun g => frag g = true /\ wfv g v /\ validate_weak re_match e g v = Ok tt /\
                              forall j, ser_val re_match e ens recS g v = Ok j ->
                                        Forall (fun gk => skips_deser gk j) (firstn i fs)) fs i /\
            Forall (fun gk => skips_ser gk v) (firstn i fs)
      | _ => False
      end.

    Hypothesis Hrec : forall c a, canon' (PStruct c a) ->
      exists kv, recS (PStruct c a) = Ok (PDict kv) /\ json_pure (PDict kv) = true /\
                 forall ku, recD ku c (PDict kv) = Ok (PStruct c a).

    Definition rt_goal (f : field) (v : pyval) : Prop :=
      exists j, ser_val re_match e ens recS f v = Ok j /\ json_pure j = true /\ j <> PNone /\
                forall ku ign, deser_val re_match e ens recD ku ign f j = Ok v.

    Lemma deser_not_none ku ign f j :
      j <> PNone ->
      deser_val re_match e ens recD ku ign f j =
      deser_val re_match e ens recD ku false f j.
    Proof.
      intro H. destruct j; try congruence; destruct f; destruct ign; reflexivity.
    Qed.

    Lemma rt_plain f v : plain_scalar f = true -> wfv f v -> rt_goal f v /\ ser_val re_match e ens recS f v = Ok v.
    Proof.
      intros Hp Hw.
      assert (Hv : validate_weak re_match e f v = Ok tt /\ json_scalar v = true /\ v <> PNone)
        by (destruct f; try discriminate; exact Hw).
      destruct Hv as (Hv & Hs & Hn).
      assert (Hser : ser_val re_match e ens recS f v = Ok v).
      { destruct f; try discriminate; cbn [ser_val];
          destruct v as [| | [] | | | | | | | | |]; try discriminate; reflexivity. }
      split; [|exact Hser].
      exists v. repeat split; auto using json_scalar_pure.
      intros ku ign. rewrite deser_not_none by assumption.
      destruct f; try discriminate; destruct v; try congruence; cbn [deser_val]; cbn beta iota;
        rewrite Hv; reflexivity.
    Qed.

    Lemma rt_val : forall f, frag f = true -> forall v, wfv f v -> rt_goal f v.
    Proof.
      induction f using field_ind'; intros Hf v Hw; try (cbn in Hf; discriminate);
        try (apply rt_plain; [reflexivity | exact Hw]);
        try (destruct i; cbn in Hf; try discriminate).
      - (* FEnumLit *)
        destruct Hw as (Hin & Hok). exists v. cbn [ser_val].
        repeat split; auto using json_scalar_pure, json_value_ok_scalar, json_value_ok_not_none.
        intros ku ign. rewrite deser_not_none by auto using json_value_ok_not_none.
        destruct v; try discriminate; cbn [deser_val validate_weak]; cbn beta iota; rewrite Hin; reflexivity.
      - (* FEnumCls *)
        destruct Hw as (n & x & -> & Hm & Hall & Hbv). unfold all_members in *.
        unfold rt_goal. cbn [ser_val ser_enum_member]. destruct (enum_by_value ens c) eqn:Ebv.
        + destruct (Hbv eq_refl) as (Hx & Hfind). rewrite Hx. exists x.
          repeat split; auto using json_scalar_pure, json_value_ok_scalar, json_value_ok_not_none.
          intros ku ign. rewrite deser_not_none by auto using json_value_ok_not_none.
          assert (Hh : py_hashable x = true) by auto using json_scalar_hashable, json_value_ok_scalar.
          destruct x; try discriminate; cbn [deser_val]; cbn beta iota; unfold deser_enum_cls;
            rewrite Ebv, Hh; cbn [negb]; rewrite Hfind; reflexivity.
        + exists (PStr n). repeat split; try discriminate.
          intros ku ign. destruct ign; cbn [deser_val]; cbn beta iota; unfold deser_enum_cls;
            rewrite Ebv, Hm, Hall; reflexivity.
      - (* FSeqEach *)
        cbn [frag] in Hf. destruct Hw as (l & -> & Hl).
        assert (HF : forall ku, exists js, mapR (ser_val re_match e ens recS f) l = Ok js /\
                       Forall (fun j => json_pure j = true) js /\
                       mapR (fun j => rewrap (deser_val re_match e ens recD ku false f j)) js = Ok l).
        { intro ku. apply mapR_rt. eapply Forall_impl; [|exact Hl]. intros x Hx.
          destruct (IHf Hf x Hx) as (j & H1 & H2 & _ & H4).
          exists j. rewrite H4. split; [exact H1|]. split; [exact H2|reflexivity]. }
        destruct (HF true) as (js & H1 & H2 & H3).
        destruct (HF false) as (js' & H1' & _ & H3').
        rewrite H1 in H1'. inversion H1'; subst js'.
        exists (PList js).
        assert (Hser : ser_val re_match e ens recS (FSeqEach k f sz u) (seq_make k l) = Ok (PList js)).
        { destruct k; cbn [ser_val seq_make unless_none ser_each iter_items]; rewrite H1; reflexivity. }
        split; [exact Hser|]. split.
        { cbn [json_pure]. apply forallb_forall. intros y Hy. rewrite Forall_forall in H2. auto. }
        split; [discriminate|].
        intros ku ign. destruct ku, k, ign; cbn [deser_val list_like]; cbn beta iota;
          rewrite ?H3, ?H3'; reflexivity.
      - (* FSet false (Some f) *)
        cbn [frag] in Hf. cbn [wfv] in Hw. destruct Hw as (l & -> & Hl & Hdd & Hh).
        assert (HF : forall ku, exists js, mapR (ser_val re_match e ens recS f) l = Ok js /\
                       Forall (fun j => json_pure j = true) js /\
                       mapR (fun j => rewrap (deser_val re_match e ens recD ku false f j)) js = Ok l).
        { intro ku. apply mapR_rt. eapply Forall_impl; [|exact Hl]. intros x Hx.
          destruct (IHf Hf x Hx) as (j & H1 & H2 & _ & H4).
          exists j. rewrite H4. split; [exact H1|]. split; [exact H2|reflexivity]. }
        destruct (HF true) as (js & H1 & H2 & H3).
        destruct (HF false) as (js' & H1' & _ & H3').
        rewrite H1 in H1'. inversion H1'; subst js'.
        exists (PList js). unfold rt_goal. cbn [ser_val unless_none ser_each iter_items]. rewrite H1. cbn [bind].
        split; [reflexivity|]. split.
        { cbn [json_pure]. apply forallb_forall. intros y Hy. rewrite Forall_forall in H2. auto. }
        split; [discriminate|].
        intros ku ign. destruct ku, ign; cbn [deser_val list_like]; cbn beta iota zeta;
          rewrite ?H3, ?H3'; cbn [bind build_seq]; rewrite Hh, Hdd; reflexivity.
      - (* FTuple *)
        cbn [frag] in Hf. cbn [wfv] in Hw. destruct Hw as (l & -> & Hl).
        rename H into IHfs.
        (* the elements past the declared positions are JSON scalars: serialized as they are *)
        assert (Hany : forall xs, Forall (fun x => json_scalar x = true /\ x <> PNone) xs -> mapR (ser_any recS) xs = Ok xs).
        { induction 1 as [|x xs (Ha & _) _ IHx]; [reflexivity|]. cbn [mapR]. rewrite IHx.
          destruct x as [| | [] | | | | | | | | |]; try discriminate; reflexivity. }
        assert (Hpure : forall xs, Forall (fun x => json_scalar x = true /\ x <> PNone) xs -> Forall (fun j => json_pure j = true) xs).
        { intros xs Hx. eapply Forall_impl; [|exact Hx]. intros x (Ha & _). apply json_scalar_pure, Ha. }
        (* positional: element i with declaration i, both ways *)
        assert (Hpos : forall gs, Forall (fun g => frag g = true -> forall v, wfv g v -> rt_goal g v) gs ->
                  forallb frag gs = true -> forall xs, tuple_pos_wf wfv gs xs ->
                  exists js, ser_pos recS (ser_val re_match e ens recS) gs xs = Ok js /\
                             Forall (fun j => json_pure j = true) js /\
                             (length js <? length gs)%nat = false /\
                             forall ku,
                             (fix pos (fs0 : list field) (vs : list pyval) {struct fs0} : res (list pyval) :=
                                match fs0 with
                                | [] => Ok vs
                                | g :: fs' =>
                                    match vs with
                                    | [] => Raise IndexError
                                    | x :: vs' =>
                                        y <- rewrap (deser_val re_match e ens recD ku false g x) ;;
                                        ys <- pos fs' vs' ;; Ok (y :: ys)
                                    end
                                end) gs js = Ok xs).
        { induction 1 as [|g gs Hg _ IHg]; intros Hp xs Hw.
          - cbn [tuple_pos_wf] in Hw. exists xs. split; [|split; [exact (Hpure _ Hw)|split; [reflexivity|reflexivity]]].
            destruct xs as [|x xs]; [reflexivity|]. cbn [ser_pos]. exact (Hany _ Hw).
          - cbn [forallb] in Hp. apply andb_true_iff in Hp as [Hp1 Hp2].
            destruct xs as [|x xs]; cbn [tuple_pos_wf] in Hw; [contradiction|]. destruct Hw as (Hx & Hw).
            destruct (Hg Hp1 x Hx) as (j & H1 & H2 & _ & H4).
            destruct (IHg Hp2 xs Hw) as (js & G1 & G2 & G3 & G4).
            exists (j :: js). cbn [ser_pos]. fold (ser_pos recS (ser_val re_match e ens recS)). rewrite H1. cbn [bind].
            rewrite G1. cbn [bind]. split; [reflexivity|]. split; [constructor; assumption|]. split; [exact G3|].
            intro ku. rewrite (H4 ku false). cbn [rewrap bind]. rewrite (G4 ku). reflexivity. }
        destruct fs as [|g0 [|g1 fs']].
        + (* no item declaration *)
          destruct (Hpos [] IHfs Hf l Hl) as (js & G1 & G2 & G3 & G4).
          exists (PList js). unfold rt_goal. cbn [ser_val unless_none iter_items]. rewrite G1. cbn [bind].
          split; [reflexivity|]. split.
          { cbn [json_pure]. apply forallb_forall. intros y Hy. rewrite Forall_forall in G2. auto. }
          split; [discriminate|].
          intros ku ign. destruct ign; cbn [deser_val list_like]; cbn beta iota zeta; rewrite G3, (G4 ku); reflexivity.
        + (* one item declaration: the declaration of every element *)
          cbn [forallb] in Hf. apply andb_true_iff in Hf as [Hf _].
          cbn [tuple_wf] in Hl. inversion IHfs as [|? ? IH0 _]; subst.
          assert (HF : forall ku, exists js, mapR (ser_val re_match e ens recS g0) l = Ok js /\
                         Forall (fun j => json_pure j = true) js /\
                         mapR (fun j => rewrap (deser_val re_match e ens recD ku false g0 j)) js = Ok l).
          { intro ku. apply mapR_rt. eapply Forall_impl; [|exact Hl]. intros x Hx.
            destruct (IH0 Hf x Hx) as (j & H1 & H2 & _ & H4).
            exists j. rewrite H4. split; [exact H1|]. split; [exact H2|reflexivity]. }
          destruct (HF true) as (js & H1 & H2 & H3).
          destruct (HF false) as (js' & H1' & _ & H3').
          rewrite H1 in H1'. inversion H1'; subst js'.
          exists (PList js). unfold rt_goal. cbn [ser_val unless_none ser_each iter_items]. rewrite H1. cbn [bind].
          split; [reflexivity|]. split.
          { cbn [json_pure]. apply forallb_forall. intros y Hy. rewrite Forall_forall in H2. auto. }
          split; [discriminate|].
          intros ku ign. destruct ku, ign; cbn [deser_val list_like]; cbn beta iota zeta;
            rewrite ?H3, ?H3'; reflexivity.
        + (* two or more: positional *)
          destruct (Hpos (g0 :: g1 :: fs') IHfs Hf l Hl) as (js & G1 & G2 & G3 & G4).
          exists (PList js). unfold rt_goal. cbn [ser_val unless_none iter_items]. rewrite G1. cbn [bind].
          split; [reflexivity|]. split.
          { cbn [json_pure]. apply forallb_forall. intros y Hy. rewrite Forall_forall in G2. auto. }
          split; [discriminate|].
          intros ku ign. destruct ign; cbn [deser_val list_like]; cbn beta iota zeta; rewrite G3, (G4 ku); reflexivity.
      - (* FMapKV *)
        cbn [frag] in Hf. apply andb_true_iff in Hf as [Hk Hv].
        destruct Hw as (kv & -> & Hkv & Hfresh).
        set (sf := fun p : pyval * pyval =>
                     k' <- ser_val re_match e ens recS f1 (fst p) ;;
                     v' <- ser_val re_match e ens recS f2 (snd p) ;; Ok (k', v')).
        set (df := fun ku (p : pyval * pyval) =>
                     k' <- deser_val re_match e ens recD ku false f1 (fst p) ;;
                     v' <- deser_val re_match e ens recD ku false f2 (snd p) ;; Ok (k', v')).
        assert (HF : forall ku, exists r, mapR sf kv = Ok r /\
                       Forall (fun q => json_scalar (fst q) = true /\ json_pure (snd q) = true) r /\
                       mapR (df ku) r = Ok kv).
        { intro ku. apply (mapR_rt sf (df ku) (fun q => json_scalar (fst q) = true /\ json_pure (snd q) = true) kv).
          eapply Forall_impl; [|exact Hkv]. intros [k x] [Hwk Hwx]. cbn [fst snd] in *.
          destruct (rt_plain f1 k Hk Hwk) as [(jk & Hs1 & _ & _ & Hd1) Hsk].
          rewrite Hsk in Hs1. inversion Hs1; subst jk.
          destruct (IHf2 Hv x Hwx) as (j & Hs2 & Hp2 & _ & Hd2).
          exists (k, j). unfold sf, df. cbn [fst snd]. rewrite Hsk, Hs2, Hd1, Hd2. cbn [bind].
          repeat split; auto.
          destruct f1; try discriminate; destruct Hwk as (_ & Hs & _); exact Hs. }
        destruct (HF true) as (r & H1 & H2 & H3).
        destruct (HF false) as (r' & H1' & _ & H3').
        rewrite H1 in H1'. inversion H1'; subst r'.
        unfold df in H3, H3'. cbn beta in H3, H3'.
        (* the serialized keys are the original keys *)
        assert (Hkeys0 : forall kv0, Forall (fun p => wfv f1 (fst p) /\ wfv f2 (snd p)) kv0 ->
                                     forall r0, mapR sf kv0 = Ok r0 -> map fst r0 = map fst kv0).
        { induction 1 as [|[k x] kv0 [Hwk _] _ IH]; intros r0 Hr0.
          - cbn in Hr0. inversion Hr0. reflexivity.
          - cbn [mapR] in Hr0. unfold sf at 1 in Hr0. cbn [fst snd] in Hr0.
            destruct (rt_plain f1 k Hk Hwk) as [_ Hsk]. rewrite Hsk in Hr0. cbn [bind] in Hr0.
            destruct (ser_val re_match e ens recS f2 x); [|discriminate]. cbn [bind] in Hr0.
            destruct (mapR sf kv0) eqn:E; [|discriminate]. inversion Hr0; subst. cbn [map fst].
            f_equal. apply IH. reflexivity. }
        assert (Hkeys : map fst r = map fst kv) by (apply Hkeys0; assumption).
        assert (Hhash : forall l : list (pyval * pyval),
                   Forall (fun q => json_scalar (fst q) = true /\ json_pure (snd q) = true) l ->
                   forallb (fun p => py_hashable (fst p)) l = true).
        { intros l Hl. apply forallb_forall. intros q Hq. rewrite Forall_forall in Hl.
          apply json_scalar_hashable, Hl, Hq. }
        assert (Hhash2 : forallb (fun p : pyval * pyval => py_hashable (fst p)) kv = true).
        { apply forallb_forall. intros [k x] Hq. rewrite Forall_forall in Hkv.
          destruct (Hkv _ Hq) as [Hwk _]. cbn [fst] in *.
          apply json_scalar_hashable. destruct f1; try discriminate; destruct Hwk as (_ & Hs & _); exact Hs. }
        exists (PDict r).
        assert (Hser : ser_val re_match e ens recS (FMapKV f1 f2 sz) (PDict kv) = Ok (PDict r)).
        { cbn [ser_val unless_none]. fold sf. rewrite H1. cbn [bind]. rewrite (Hhash r H2).
          rewrite dict_of_pairs_fresh by (cbn [map]; rewrite Hkeys; exact Hfresh). reflexivity. }
        split; [exact Hser|]. split.
        { cbn [json_pure]. apply forallb_forall. intros q Hq. rewrite Forall_forall in H2.
          destruct (H2 _ Hq) as [Ha Hb]. now rewrite Ha, Hb. }
        split; [discriminate|].
        intros ku ign. destruct ku, ign; cbn [deser_val]; cbn beta iota; rewrite ?H3, ?H3'; cbn [bind];
          rewrite Hhash2, dict_of_pairs_fresh by (cbn [map]; exact Hfresh); reflexivity.
      - (* FAnyOf *)
        rename H into IHfs. destruct Hw as (Hnn & i & Hsat & HskS).
        apply nth_sat_spec in Hsat. destruct Hsat as (g & Hn & Hfr & Hwg & Hval & HskD).
        assert (Hg : rt_goal g v).
        { rewrite Forall_forall in IHfs. apply (IHfs g); auto. eapply nth_error_In; exact Hn. }
        destruct Hg as (j & Hs & Hp & Hjn & Hd). specialize (HskD j Hs).
        destruct (nth_error_split fs i Hn) as (l1 & l2 & Hfs & Hlen).
        assert (Hpre : firstn i fs = l1) by (rewrite Hfs, <- Hlen; apply firstn_length_app).
        rewrite Hpre in HskS, HskD. clear Hpre Hn.
        exists j. split; [|split; [exact Hp | split; [exact Hjn|]]].
        + (* serialize_multifield_wrapper: the options before g are skipped, g serializes *)
          cbn [ser_val].
          match goal with |- ?F fs = _ => set (go := F) end.
          assert (Hskip : forall pre rest, Forall (fun gk => skips_ser gk v) pre -> go (pre ++ rest) = go rest).
          { induction pre as [|gk pre IHp]; intros rest HF; [reflexivity|].
            inversion HF as [|? ? (x & Hx & Hm) HF']; subst. cbn [app]. unfold go at 1. cbn fix beta iota. fold go.
            rewrite Hx, Hm. apply IHp. exact HF'. }
          rewrite Hfs, Hskip by exact HskS. unfold go. cbn fix beta iota. rewrite Hval. cbn [bind]. rewrite Hs. reflexivity.
        + (* deserialize_multifield_wrapper: the options before g reject the document, g reads it *)
          intros ku ign. rewrite deser_not_none by exact Hjn.
          assert (Hmulti : forall des found failures,
                     (fix go (gs : list field) (des : pyval) (found : bool) (failures : nat) {struct gs} : res pyval :=
                        match gs with
                        | [] => if Nat.eqb failures (length fs) && negb false then Raise ValueError else Ok des
                        | g0 :: t =>
                            match deser_val re_match e ens recD ku false g0 j with
                            | Ok d => Ok d
                            | Raise x => if model_exn x then Raise x else go t des found (S failures)
                            end
                        end) fs des found failures = Ok v).
          { match goal with |- forall des found failures, ?F fs des found failures = _ => set (go := F) end.
            assert (Hskip : forall pre rest des found failures, Forall (fun gk => skips_deser gk j) pre ->
                              exists n, go (pre ++ rest) des found failures = go rest des found n).
            { induction pre as [|gk pre IHp]; intros rest des found failures HF; [exists failures; reflexivity|].
              inversion HF as [|? ? Hk HF']; subst. destruct (Hk ku) as (x & Hx & Hm).
              cbn [app]. unfold go at 1. cbn fix beta iota. fold go. rewrite Hx, Hm. apply IHp. exact HF'. }
            intros des found failures. rewrite Hfs. destruct (Hskip l1 (g :: l2) des found failures HskD) as (n & ->).
            unfold go. cbn fix beta iota. rewrite Hd. reflexivity. }
          destruct j; try congruence; cbn [deser_val]; cbn beta iota; apply Hmulti.
      - (* FClassRef *)
        destruct Hw as ((a & ->) & Hc). destruct (Hrec c a Hc) as (kv & Hs & Hp & Hd).
        exists (PDict kv). cbn [ser_val unless_none]. repeat split; auto; try discriminate.
        intros ku ign. destruct ign; cbn [deser_val]; cbn beta iota; apply Hd.
    Qed.

    Lemma wfv_not_none f v : frag f = true -> wfv f v -> v <> PNone.
    Proof.
      destruct f; cbn [frag scalar_frag]; intros Hf Hw; try discriminate; cbn [wfv] in Hw.
      - destruct Hw as (_ & _ & H); exact H.
      - destruct Hw as (_ & _ & H); exact H.
      - destruct Hw as (_ & _ & H); exact H.
      - destruct Hw as (_ & H). now apply json_value_ok_not_none.
      - destruct Hw as (n & x & -> & _). discriminate.
      - destruct Hw as (l & -> & _). destruct k; discriminate.
      - destruct immutable_set; [discriminate|]. destruct item; [|discriminate].
        destruct Hw as (l & -> & _). discriminate.
      - destruct Hw as (l & -> & _). discriminate.
      - destruct Hw as (kv & -> & _). discriminate.
      - destruct Hw as (H & _). exact H.
      - destruct Hw as ((a & ->) & _). discriminate.
    Qed.
  End Fields.

  (* ---------------------------------------------------------------- instances *)

  Variable fl : dflags.       (* process-wide deserialization defaults: any *)

  Definition sel (a : attrs) (names : list pystr) : attrs :=
    flat_map (fun n => match alist_get a n with Some v => [(n, v)] | None => [] end) names.

  Definition class_frag (c : classdef) : bool :=
    forallb (fun fd => frag (fd_field fd)) (c_fields c) && negb (has_dup (field_names c)).

  (* A canonical valid instance of a fragment class, nesting depth < n: attributes are exactly some of
     the declared fields, listed in declaration order (the order of instance.__dict__ is not
     observable through ==), every required field and every field with a default is present, every
     value is a well-shaped stored value that the field accepts unchanged, the __validate__ hook holds. *)
  Fixpoint canon (n : nat) (v : pyval) {struct n} : Prop :=
    match n with
    | O => False
    | S n' =>
        match v with
        | PStruct cn a =>
            exists c, find_class e cn = Some c /\ class_frag c = true /\
                      sel a (field_names c) = a /\
                      has_dup (map fst a) = false /\
                      forallb (fun r => alist_has a r) (c_required c) = true /\
                      defaults_of c a = [] /\
                      hook_ok (c_hook c) a = true /\
                      Forall (fun p => exists fd, find_field (c_fields c) (fst p) = Some fd /\
                                                  wfv (canon n') (ser_struct re_match e ens n')
                                                      (deser_struct re_match e ens fl n') (fd_field fd) (snd p) /\
                                                  vset re_match e (fd_field fd) (snd p) = Ok (snd p)) a
        | _ => False
        end
    end.

  Lemma find_field_In l n fd : find_field l n = Some fd -> In fd l /\ fd_name fd = n.
  Proof.
    induction l as [|d l IH]; cbn [find_field]; [discriminate|].
    destruct (pystr_eqb (fd_name d) n) eqn:E; intro H.
    - inversion H; subst. split; [now left | now apply pystr_eqb_spec].
    - destruct (IH H). split; [now right | assumption].
  Qed.

  Lemma str_in_In s l : str_in s l = true <-> In s l.
  Proof.
    unfold str_in. rewrite existsb_exists. split.
    - intros (x & Hx & E). apply pystr_eqb_spec in E. now subst.
    - intro H. exists s. split; [assumption | apply pystr_eqb_refl].
  Qed.

  Lemma find_field_nodup l : has_dup (map fd_name l) = false ->
    forall fd, In fd l -> find_field l (fd_name fd) = Some fd.
  Proof.
    induction l as [|d l IH]; intros Hd fd Hin; [destruct Hin|].
    cbn [map has_dup] in Hd. apply orb_false_iff in Hd as [H1 H2]. cbn [find_field].
    destruct Hin as [->|Hin].
    - now rewrite pystr_eqb_refl.
    - destruct (pystr_eqb (fd_name d) (fd_name fd)) eqn:E.
      + apply pystr_eqb_spec in E. exfalso.
        assert (str_in (fd_name d) (map fd_name l) = true).
        { apply str_in_In. rewrite E. now apply in_map. }
        congruence.
      + auto.
  Qed.

  Lemma has_dup_app_fresh l1 x l2 : has_dup (l1 ++ x :: l2) = false -> str_in x l1 = false.
  Proof.
    induction l1 as [|y l1 IH]; cbn [app has_dup]; intro H; [reflexivity|].
    apply orb_false_iff in H as [H1 H2]. unfold str_in in *. cbn [existsb].
    rewrite (IH H2), orb_false_r.
    rewrite existsb_app in H1. apply orb_false_iff in H1 as [_ H1]. cbn [existsb] in H1.
    apply orb_false_iff in H1 as [H1 _].
    apply pystr_eqb_neq. apply pystr_eqb_neq in H1. congruence.
  Qed.

  Lemma alist_get_fresh {A} (l : list (pystr * A)) n : str_in n (map fst l) = false -> alist_get l n = None.
  Proof.
    induction l as [|[k v] l IH]; cbn [map fst alist_get]; intro H; [reflexivity|].
    unfold str_in in H. cbn [existsb] in H. apply orb_false_iff in H as [H1 H2].
    assert (pystr_eqb k n = false) by (apply pystr_eqb_neq; apply pystr_eqb_neq in H1; congruence).
    rewrite H. now apply IH.
  Qed.

  Lemma alist_set_fresh {A} (l : list (pystr * A)) n v : str_in n (map fst l) = false -> alist_set l n v = l ++ [(n, v)].
  Proof.
    induction l as [|[k x] l IH]; cbn [map fst alist_set app]; intro H; [reflexivity|].
    unfold str_in in H. cbn [existsb] in H. apply orb_false_iff in H as [H1 H2].
    assert (E : pystr_eqb k n = false) by (apply pystr_eqb_neq; apply pystr_eqb_neq in H1; congruence).
    rewrite E. f_equal. now apply IH.
  Qed.

  Lemma set_all_ok c : forall rest acc,
    Forall (fun p => exists fd, find_field (c_fields c) (fst p) = Some fd /\ snd p <> PNone /\
                                vset re_match e (fd_field fd) (snd p) = Ok (snd p)) rest ->
    has_dup (map fst (acc ++ rest)) = false ->
    set_all re_match e c acc rest = Ok (acc ++ rest).
  Proof.
    induction rest as [|[n v] rest IH]; intros acc HF Hd; cbn [set_all].
    - now rewrite app_nil_r.
    - inversion HF as [|? ? (fd & Hfd & Hnn & Hv) HF']; subst. cbn [fst snd] in *.
      rewrite map_app in Hd. cbn [map fst] in Hd.
      pose proof (has_dup_app_fresh _ _ _ Hd) as Hfresh.
      unfold setattr. rewrite andb_false_r, Hfd.
      assert (Hnone : is_none_val v = false) by (destruct v; try reflexivity; congruence).
      rewrite Hnone, andb_false_r. cbn [andb]. rewrite Hv.
      unfold alist_has at 1. rewrite (alist_get_fresh acc n Hfresh), andb_false_r.
      cbn [andb]. rewrite alist_set_fresh by assumption.
      rewrite IH; [now rewrite <- app_assoc | assumption |].
      rewrite <- app_assoc. cbn [app]. rewrite map_app. exact Hd.
  Qed.

  Lemma filter_true {A} (p : A -> bool) l : forallb p l = true -> filter p l = l.
  Proof.
    induction l as [|x l IH]; cbn [forallb filter]; intro H; [reflexivity|].
    apply andb_true_iff in H as [H1 H2]. rewrite H1. f_equal. auto.
  Qed.

  Lemma filter_false {A} (p : A -> bool) l : forallb p l = true -> filter (fun x => negb (p x)) l = [].
  Proof.
    induction l as [|x l IH]; cbn [forallb filter]; intro H; [reflexivity|].
    apply andb_true_iff in H as [H1 H2]. rewrite H1. cbn [negb]. auto.
  Qed.

  Theorem rt_struct : forall n v, canon n v ->
    exists kv, ser_struct re_match e ens n v = Ok (PDict kv) /\ json_pure (PDict kv) = true /\
               forall c a, v = PStruct c a ->
                           forall ku, deser_struct re_match e ens fl n ku c (PDict kv) = Ok v.
  Proof.
    induction n as [|n IH]; intros v Hc; [destruct Hc|].
    destruct v as [| | | | | | | | | |cn a|]; try (destruct Hc; fail).
    destruct Hc as (c & Hfind & Hfrag & Hsel & Hdup & Hreq & Hdef & Hhook & Hattrs).
    unfold class_frag in Hfrag. apply andb_true_iff in Hfrag as [Hfrag Hnd].
    apply negb_true_iff in Hnd.
    set (recS := ser_struct re_match e ens n).
    set (recD := deser_struct re_match e ens fl n).
    assert (Hrec : forall c0 a0, canon n (PStruct c0 a0) ->
              exists kv, recS (PStruct c0 a0) = Ok (PDict kv) /\ json_pure (PDict kv) = true /\
                         forall ku, recD ku c0 (PDict kv) = Ok (PStruct c0 a0)).
    { intros c0 a0 H0. destruct (IH _ H0) as (kv & H1 & H2 & H3). exists kv. repeat split; auto.
      intro ku. exact (H3 c0 a0 eq_refl ku). }
    (* every attribute: declared field of the fragment, non-None, round trip of its value *)
    assert (Hper : Forall (fun p => exists fd, find_field (c_fields c) (fst p) = Some fd /\
                             snd p <> PNone /\ vset re_match e (fd_field fd) (snd p) = Ok (snd p) /\
                             rt_goal recS recD (fd_field fd) (snd p)) a).
    { eapply Forall_impl; [|exact Hattrs]. intros p (fd & Hfd & Hw & Hv). exists fd.
      assert (Hfr : frag (fd_field fd) = true).
      { rewrite forallb_forall in Hfrag. apply Hfrag. now apply (find_field_In _ _ _ Hfd). }
      repeat split; auto.
      - now apply (wfv_not_none (canon n) recS recD (fd_field fd)).
      - now apply (rt_val (canon n) recS recD Hrec). }
    (* serialization of the attributes *)
    set (F := fun p : pystr * pyval =>
                j <- match find_field (c_fields c) (fst p) with
                     | Some fd => ser_val re_match e ens recS (fd_field fd) (snd p)
                     | None => ser_any recS (snd p)
                     end ;; Ok (PStr (fst p), j)).
    set (R := fun (p : pystr * pyval) (q : pyval * pyval) =>
                fst q = PStr (fst p) /\ json_pure (snd q) = true /\ snd q <> PNone /\
                exists fd, find_field (c_fields c) (fst p) = Some fd /\
                           forall ku ign, deser_val re_match e ens recD ku ign (fd_field fd) (snd q) = Ok (snd p)).
    assert (Hser : forall a0, Forall (fun p => exists fd, find_field (c_fields c) (fst p) = Some fd /\
                             snd p <> PNone /\ vset re_match e (fd_field fd) (snd p) = Ok (snd p) /\
                             rt_goal recS recD (fd_field fd) (snd p)) a0 ->
              filter (fun p => negb (match snd p with PNone => true | _ => false end)) a0 = a0 /\
              exists kv, mapR F a0 = Ok kv /\ Forall2 R a0 kv).
    { induction 1 as [|p a0 (fd & Hfd & Hnn & _ & (j & Hs & Hp & Hjn & Hd)) _ [IHa (kv & IHb & IHc)]].
      - split; [reflexivity|]. exists []. split; [reflexivity|constructor].
      - split.
        + cbn [filter]. destruct (snd p) eqn:E; try congruence; cbn [negb]; now rewrite IHa.
        + exists ((PStr (fst p), j) :: kv). split.
          * cbn [mapR]. unfold F at 1. rewrite Hfd, Hs. cbn [bind]. now rewrite IHb.
          * constructor; [|assumption]. unfold R. cbn [fst snd]. repeat split; auto. exists fd. auto. }
    destruct (Hser a Hper) as (Hfilter & kv & HmapR & HR).
    exists kv.
    assert (Hs : ser_struct re_match e ens (S n) (PStruct cn a) = Ok (PDict kv)).
    { cbn [ser_struct]. rewrite Hfind. unfold ser_attrs. rewrite Hfilter. fold recS. fold F.
      now rewrite HmapR. }
    split; [exact Hs|].
    assert (Hpure : json_pure (PDict kv) = true).
    { cbn [json_pure]. apply forallb_forall. intros q Hq.
      clear - HR Hq. induction HR as [|p q' a0 kv0 (H1 & H2 & _) _ IHR]; [destruct Hq|].
      destruct Hq as [->|Hq]; [|auto]. rewrite H1, H2. reflexivity. }
    split; [exact Hpure|].
    intros c0 a0 Heq ku. inversion Heq; subst c0 a0. clear Heq.
    (* lookups in the document mirror lookups in the attributes *)
    assert (Hlook : forall name,
              match alist_get a name with
              | Some v => exists j fd, dict_get kv (PStr name) = Some j /\ j <> PNone /\
                                       find_field (c_fields c) name = Some fd /\
                                       forall ku ign, deser_val re_match e ens recD ku ign (fd_field fd) j = Ok v
              | None => dict_get kv (PStr name) = None
              end).
    { intro name. clear - HR. induction HR as [|[k v] [qk j] a0 kv0 (H1 & _ & Hjn & fd & Hfd & Hd) _ IHR].
      - reflexivity.
      - cbn [fst snd] in *. subst qk. cbn [alist_get dict_get py_eq].
        destruct (pystr_eqb k name) eqn:E.
        + apply pystr_eqb_spec in E. subst k. exists j, fd. auto.
        + exact IHR. }
    assert (Hkeys : forallb (fun p : pystr * pyval => str_in (fst p) (field_names c)) a = true).
    { apply forallb_forall. intros p Hp. rewrite Forall_forall in Hattrs.
      destruct (Hattrs p Hp) as (fd & Hfd & _). destruct (find_field_In _ _ _ Hfd) as [Hin Hn].
      apply str_in_In. unfold field_names. rewrite <- Hn. now apply in_map. }
    assert (Hfields : forall fds, incl fds (c_fields c) ->
              deser_fields re_match e ens recD ku (c_ignore_none c) fds kv false = Ok (sel a (map fd_name fds))).
    { induction fds as [|fd fds IHf]; intro Hincl; cbn [deser_fields map sel flat_map]; [reflexivity|].
      assert (Hfd : find_field (c_fields c) (fd_name fd) = Some fd).
      { apply find_field_nodup; [exact Hnd | apply Hincl; now left]. }
      specialize (Hlook (fd_name fd)).
      assert (IHf' := IHf (fun x Hx => Hincl x (or_intror Hx))).
      destruct (alist_get a (fd_name fd)) as [v|].
      - destruct Hlook as (j & fd' & Hj & Hjn & Hfd' & Hd). rewrite Hfd in Hfd'. inversion Hfd'; subst fd'.
        rewrite Hj. destruct j; try congruence; rewrite Hd, IHf'; reflexivity.
      - rewrite Hlook. exact IHf'. }
    cbn [deser_struct]. rewrite Hfind. fold recD.
    rewrite (Hfields (c_fields c) (incl_refl _)). cbn [bind]. fold (field_names c). rewrite Hsel.
    assert (Hextras : (if ku && (c_additional c || negb (df_ignore_invalid fl))
                       then filter (fun p : pyval * pyval => negb (is_field_key c (fst p))) kv else []) = []).
    { destruct (ku && (c_additional c || negb (df_ignore_invalid fl))); [|reflexivity].
      apply filter_false. apply forallb_forall. intros q Hq.
      clear - HR Hq. induction HR as [|p q' a0 kv0 (H1 & _ & _ & fd & Hfd & _) _ IHR]; [destruct Hq|].
      destruct Hq as [->|Hq]; [|auto]. rewrite H1. cbn [is_field_key].
      destruct (find_field_In _ _ _ Hfd) as [Hin Hn]. apply str_in_In. unfold field_names.
      rewrite <- Hn. now apply in_map. }
    rewrite Hextras. cbn [str_keys app].
    (* the constructor on the attributes themselves *)
    unfold construct. rewrite Hdup. unfold bind_ok. rewrite Hreq, Hkeys, orb_true_r. cbn [andb negb].
    rewrite (filter_false _ _ Hkeys), (filter_true _ _ Hkeys), Hdef. cbn [set_all bind].
    rewrite (set_all_ok c a []).
    - cbn [app bind]. rewrite Hhook. now rewrite (find_class_name _ _ _ Hfind).
    - eapply Forall_impl; [|exact Hper]. intros p (fd & H1 & H2 & H3 & _). exists fd. auto.
    - exact Hdup.
  Qed.
  (* ---------------------------------------------------------------- the constructor on a canonical instance *)

  Lemma construct_canon n cn a c :
    canon (S n) (PStruct cn a) -> find_class e cn = Some c ->
    construct re_match e c a = Ok (PStruct cn a).
  Proof.
    intros Hc Hfind0. destruct Hc as (c' & Hfind & Hfrag & Hsel & Hdup & Hreq & Hdef & Hhook & Hattrs).
    rewrite Hfind0 in Hfind. inversion Hfind; subst c'. clear Hfind. rename Hfind0 into Hfind.
    unfold class_frag in Hfrag. apply andb_true_iff in Hfrag as [Hfrag Hnd].
    assert (Hkeys : forallb (fun p : pystr * pyval => str_in (fst p) (field_names c)) a = true).
    { apply forallb_forall. intros p Hp. rewrite Forall_forall in Hattrs.
      destruct (Hattrs p Hp) as (fd & Hfd & _). destruct (find_field_In _ _ _ Hfd) as [Hin Hn].
      apply str_in_In. unfold field_names. rewrite <- Hn. now apply in_map. }
    unfold construct. rewrite Hdup. unfold bind_ok. rewrite Hreq, Hkeys, orb_true_r. cbn [andb negb].
    rewrite (filter_false _ _ Hkeys), (filter_true _ _ Hkeys), Hdef. cbn [set_all bind].
    rewrite (set_all_ok c a []).
    - cbn [app bind]. rewrite Hhook. now rewrite (find_class_name _ _ _ Hfind).
    - eapply Forall_impl; [|exact Hattrs]. intros p (fd & H1 & H2 & H3). exists fd. repeat split; auto.
      apply (wfv_not_none (canon n) (ser_struct re_match e ens n) (deser_struct re_match e ens fl n) (fd_field fd)); auto.
      rewrite forallb_forall in Hfrag. apply Hfrag. now apply (find_field_In _ _ _ H1).
    - exact Hdup.
  Qed.

  (* ---------------------------------------------------------------- compact single-field wrappers *)

  Lemma compact_eligible_spec c fd :
    compact_eligible c = Some fd ->
    c_fields c = [fd] /\ c_required c = [fd_name fd] /\ c_additional c = false.
  Proof.
    unfold compact_eligible. destruct (c_fields c) as [|fd0 [|? ?]]; try discriminate.
    destruct (c_required c) as [|r [|? ?]]; try discriminate.
    destruct (pystr_eqb r (fd_name fd0)) eqn:E; cbn [andb]; [|discriminate].
    destruct (c_additional c); cbn [negb]; [discriminate|].
    intro H. inversion H; subst. apply pystr_eqb_spec in E. subst. auto.
  Qed.

  (* serialize(x, compact=True) of a wrapper emits the bare serialized field; with compact deserialization switched
     on it is read back as the wrapper -- unless the serialized field is a JSON object (then the document is read as
     the wrapper's own object: F24) *)
  Theorem rt_compact : forall n cn a c fd,
    canon (S n) (PStruct cn a) -> find_class e cn = Some c -> compact_eligible c = Some fd ->
    exists v j,
      a = [(fd_name fd, v)] /\
      ser_val re_match e ens (ser_struct re_match e ens n) (fd_field fd) v = Ok j /\
      serialize re_match e ens (S n) true (PStruct cn a) = Ok j /\ json_pure j = true /\ j <> PNone /\
      (df_compact fl = true -> (forall kv, j <> PDict kv) ->
       forall ku, deserialize re_match e ens fl (S n) ku cn j = Ok (PStruct cn a)).
  Proof.
    intros n cn a c fd Hc Hfind Hce.
    pose proof (construct_canon n cn a c Hc Hfind) as Hcons.
    destruct Hc as (c' & Hfind' & Hfrag & Hsel & Hdup & Hreq & Hdef & Hhook & Hattrs).
    rewrite Hfind in Hfind'. inversion Hfind'; subst c'. clear Hfind'.
    destruct (compact_eligible_spec c fd Hce) as (Hfields & Hrequired & Hadd).
    unfold class_frag in Hfrag. apply andb_true_iff in Hfrag as [Hfrag _].
    rewrite Hfields in Hfrag. cbn [forallb] in Hfrag. rewrite andb_true_r in Hfrag.
    (* the instance has exactly the one attribute *)
    rewrite Hrequired in Hreq. cbn [forallb] in Hreq. rewrite andb_true_r in Hreq.
    unfold alist_has in Hreq. destruct (alist_get a (fd_name fd)) as [v|] eqn:Hget; [|discriminate].
    assert (Ha : a = [(fd_name fd, v)]).
    { rewrite <- Hsel. unfold field_names. rewrite Hfields. cbn [map sel flat_map]. rewrite Hget. reflexivity. }
    subst a. inversion Hattrs as [|? ? (fd' & Hfd' & Hw & Hv) _]; subst. cbn [fst snd] in *.
    rewrite Hfields in Hfd'. cbn [find_field] in Hfd'. rewrite pystr_eqb_refl in Hfd'. inversion Hfd'; subst fd'.
    set (recS := ser_struct re_match e ens n) in *.
    set (recD := deser_struct re_match e ens fl n) in *.
    assert (Hrec : forall c0 a0, canon n (PStruct c0 a0) ->
              exists kv, recS (PStruct c0 a0) = Ok (PDict kv) /\ json_pure (PDict kv) = true /\
                         forall ku, recD ku c0 (PDict kv) = Ok (PStruct c0 a0)).
    { intros c0 a0 H0. destruct (rt_struct _ _ H0) as (kv & H1 & H2 & H3). exists kv. repeat split; auto.
      intro ku. exact (H3 c0 a0 eq_refl ku). }
    destruct (rt_val (canon n) recS recD Hrec (fd_field fd) Hfrag v Hw) as (j & Hs & Hp & Hjn & Hd).
    exists v, j. split; [reflexivity|]. split; [exact Hs|]. split.
    { unfold serialize. rewrite Hfind, Hce. cbn [alist_get]. rewrite pystr_eqb_refl. exact Hs. }
    split; [exact Hp|]. split; [exact Hjn|].
    intros Hcomp Hnd ku. unfold deserialize. rewrite Hfind. cbn [deser_struct]. rewrite Hfind. fold recD.
    destruct j; try (exfalso; eapply Hnd; reflexivity); rewrite Hcomp, Hce, Hd; cbn [bind]; exact Hcons.
  Qed.

  (* ---------------------------------------------------------------- an enum declared by value *)

  (* the serialized form of a member of a by-value enum is the member's VALUE -- also when that value is falsy (0, "",
     False, 0.0) -- never its name, and it is read back as the member *)
  Lemma enum_by_value_rt recS recD cls members n x :
    enum_by_value ens cls = true -> enum_wf cls members (PEnum cls n x) ->
    ser_val re_match e ens recS (FEnumCls cls members) (PEnum cls n x) = Ok x /\
    forall ku ign, deser_val re_match e ens recD ku ign (FEnumCls cls members) x = Ok (PEnum cls n x).
  Proof.
    intros Ebv (n0 & x0 & Heq & Hm & Hall & Hbv). inversion Heq; subst n0 x0. clear Heq.
    destruct (Hbv Ebv) as (Hx & Hfind). unfold all_members in *.
    cbn [ser_val ser_enum_member]. rewrite Ebv, Hx. split; [reflexivity|].
    intros ku ign. rewrite deser_not_none by auto using json_value_ok_not_none.
    assert (Hh : py_hashable x = true) by auto using json_scalar_hashable, json_value_ok_scalar.
    destruct x; try discriminate; cbn [deser_val]; cbn beta iota; unfold deser_enum_cls;
      rewrite Ebv, Hh; cbn [negb]; rewrite Hfind; reflexivity.
  Qed.

  (* ---------------------------------------------------------------- the statements of Props/C05.v *)

  Lemma c05_pure : forall n c a,
      canon n (PStruct c a) ->
      exists j, serialize re_match e ens n false (PStruct c a) = Ok j /\ json_pure j = true.
  Proof.
    intros n c a H. destruct (rt_struct n _ H) as (kv & H1 & H2 & _).
    exists (PDict kv). split; [|exact H2].
    unfold serialize. destruct n; [destruct H|]. destruct H as (cd & Hf & _). rewrite Hf. exact H1.
  Qed.

  Lemma c05_roundtrip : forall n c a,
      canon n (PStruct c a) ->
      exists j, serialize re_match e ens n false (PStruct c a) = Ok j /\
                forall ku, deserialize re_match e ens fl n ku c j = Ok (PStruct c a).
  Proof.
    intros n c a H. destruct (rt_struct n _ H) as (kv & H1 & _ & H3).
    exists (PDict kv). destruct n; [destruct H|]. pose proof H as H'. destruct H' as (cd & Hf & _). split.
    - unfold serialize. rewrite Hf. exact H1.
    - intro ku. unfold deserialize. rewrite Hf. exact (H3 c a eq_refl _).
  Qed.

  Lemma c05_falsy : forall (canon' : pyval -> Prop) recS recD,
      (forall c a, canon' (PStruct c a) ->
         exists kv, recS (PStruct c a) = Ok (PDict kv) /\ json_pure (PDict kv) = true /\
                    forall ku, recD ku c (PDict kv) = Ok (PStruct c a)) ->
      forall f v, frag f = true -> wfv canon' recS recD f v -> py_truthy v = false ->
      exists j, ser_val re_match e ens recS f v = Ok j /\ json_pure j = true /\ j <> PNone /\
                forall ku ign, deser_val re_match e ens recD ku ign f j = Ok v.
  Proof. intros canon' recS recD Hrec f v Hf Hw _. exact (rt_val canon' recS recD Hrec f Hf v Hw). Qed.

  (* AnyOf, stated on its own: a value of the i-th option that every earlier option rejects both ways round-trips *)
  Lemma c05_anyof : forall (canon' : pyval -> Prop) recS recD,
      (forall c a, canon' (PStruct c a) ->
         exists kv, recS (PStruct c a) = Ok (PDict kv) /\ json_pure (PDict kv) = true /\
                    forall ku, recD ku c (PDict kv) = Ok (PStruct c a)) ->
      forall pre g post v,
        frag g = true -> wfv canon' recS recD g v -> validate_weak re_match e g v = Ok tt ->
        Forall (fun gk => skips_ser recS gk v) pre ->
        (forall j, ser_val re_match e ens recS g v = Ok j -> Forall (fun gk => skips_deser recD gk j) pre) ->
        exists j, ser_val re_match e ens recS g v = Ok j /\
                  ser_val re_match e ens recS (FAnyOf (pre ++ g :: post)) v = Ok j /\ json_pure j = true /\
                  forall ku ign, deser_val re_match e ens recD ku ign (FAnyOf (pre ++ g :: post)) j = Ok v.
  Proof.
    intros canon' recS recD Hrec pre g post v Hfr Hw Hval HS HD.
    assert (Hnn : v <> PNone) by (apply (wfv_not_none canon' recS recD g); assumption).
    assert (Hwf : wfv canon' recS recD (FAnyOf (pre ++ g :: post)) v).
    { cbn [wfv]. split; [exact Hnn|]. exists (length pre). rewrite firstn_length_app. split; [|exact HS].
      apply nth_sat_spec. exists g. split.
      - rewrite nth_error_app2 by apply le_n. now rewrite Nat.sub_diag.
      - auto. }
    destruct (rt_val canon' recS recD Hrec g Hfr v Hw) as (j0 & Hs0 & _).
    destruct (rt_val canon' recS recD Hrec (FAnyOf (pre ++ g :: post)) eq_refl v Hwf) as (j & Hs & Hp & _ & Hd).
    exists j0. split; [exact Hs0|].
    (* the serialized form is the one of option g *)
    assert (Hj : j = j0).
    { clear Hd Hp. cbn [ser_val] in Hs. revert Hs.
      match goal with |- ?F (pre ++ g :: post) = _ -> _ => set (go := F) end.
      assert (Hskip : forall p rest, Forall (fun gk => skips_ser recS gk v) p -> go (p ++ rest) = go rest).
      { induction p as [|gk p IHp]; intros rest HF; [reflexivity|].
        inversion HF as [|? ? (x & Hx & Hm) HF']; subst. cbn [app]. unfold go at 1. cbn fix beta iota. fold go.
        rewrite Hx, Hm. apply IHp. exact HF'. }
      rewrite Hskip by exact HS. unfold go. cbn fix beta iota. rewrite Hval. cbn [bind]. rewrite Hs0. congruence. }
    subst j0. auto.
  Qed.
End RT.

(* ---- the full statement (every valid instance of every class over the property's field vocabulary) is false of the
   faithful model: F17 *)
Definition C05_statement : Prop :=
  forall re_match e ens fl n c a cd,
    find_class e c = Some cd -> struct_ok re_match e cd a = true ->
    exists j, serialize re_match e ens n false (PStruct c a) = Ok j /\ json_pure j = true /\
              exists x', deserialize re_match e ens fl n None c j = Ok x' /\ py_eq (PStruct c a) x' = true.

Definition opt_str : field := FAnyOf [FString no_strc; FNone].
Definition cls_A : classdef :=
  {| c_name := s2p "A"; c_ancestors := []; c_fields := [ {| fd_name := s2p "a"; fd_field := opt_str; fd_immutable := false; fd_default := None |} ];
     c_required := [s2p "a"]; c_additional := true; c_ignore_none := false; c_immutable := false; c_hook := HookNone |}.

Lemma c05_refuted_required_none : ~ C05_statement.
Proof.
  intro H.
  destruct (H (fun _ _ => true) [cls_A] [] {| df_ignore_invalid := true; df_compact := false |} 3%nat
              (s2p "A") [(s2p "a", PNone)] cls_A eq_refl eq_refl) as (j & Hs & _ & x' & Hd & _).
  vm_compute in Hs. inversion Hs; subst j. vm_compute in Hd. discriminate.
Qed.

