(* Proofs for C05: purity of the serialized form and the round trip deser (ser x) = x, for the
   fragment [frag] of declarations and canonical instances [canon]. *)
From Coq Require Import ZArith QArith NArith String Ascii Bool Lia List.
Import ListNotations.
From TP Require Import Base.PyVal Fields.FieldAst Fields.SetChain Fields.Doc Struct.Instance
  Ser.Json Ser.Serialize Ser.Deserialize.
Local Open Scope Z_scope.

(* ------------------------------------------------------------------ generic lemmas *)

Lemma mapR_rt {A B} (f : A -> res B) (g : B -> res A) (Q : B -> Prop) l :
  Forall (fun x => exists j, f x = Ok j /\ Q j /\ g j = Ok x) l ->
  exists js, mapR f l = Ok js /\ Forall Q js /\ mapR g js = Ok l.
Proof.
  induction 1 as [|x l [j (Hf & HQ & Hg)] _ [js (H1 & H2 & H3)]].
  - exists []. repeat split; constructor.
  - exists (j :: js). cbn [mapR]. rewrite Hf, H1, Hg, H3. repeat split. constructor; assumption.
Qed.

Lemma json_scalar_hashable v : json_scalar v = true -> py_hashable v = true.
Proof. destruct v; simpl; try discriminate; auto. Qed.

Lemma json_scalar_pure v : json_scalar v = true -> json_pure v = true.
Proof. destruct v; simpl; intros; try discriminate; auto. Qed.

Lemma json_value_ok_scalar v : json_value_ok v = true -> json_scalar v = true.
Proof. destruct v as [| | [] | | | | | | | | |]; simpl; intros; try discriminate; auto. Qed.

Lemma json_value_ok_not_none v : json_value_ok v = true -> v <> PNone.
Proof. destruct v; simpl; congruence. Qed.

(* keys that are pairwise different under ==, in the direction dict_set compares them *)
Fixpoint fresh_keys (seen ks : list pyval) : bool :=
  match ks with
  | [] => true
  | k :: t => negb (existsb (fun k' => py_eq k' k) seen) && fresh_keys (seen ++ [k]) t
  end.

Lemma dict_set_fresh acc k v :
  existsb (fun k' => py_eq k' k) (map fst acc) = false -> dict_set acc k v = acc ++ [(k, v)].
Proof.
  induction acc as [|[k' v'] acc IH]; cbn [dict_set map existsb fst app]; intro H; [reflexivity|].
  apply orb_false_iff in H as [H1 H2]. rewrite H1, IH by assumption. reflexivity.
Qed.

Lemma dict_of_pairs_fresh kv : forall acc,
  fresh_keys (map fst acc) (map fst kv) = true -> dict_of_pairs acc kv = acc ++ kv.
Proof.
  induction kv as [|[k v] kv IH]; intros acc H; cbn [dict_of_pairs].
  - now rewrite app_nil_r.
  - cbn [map fst fresh_keys] in H. apply andb_true_iff in H as [H1 H2].
    apply negb_true_iff in H1. rewrite dict_set_fresh by assumption.
    rewrite IH. + now rewrite <- app_assoc. + now rewrite map_app.
Qed.

Lemma find_class_name (e : env) n c : find_class e n = Some c -> c_name c = n.
Proof.
  induction e as [|d e IH]; cbn [find_class]; [discriminate|].
  destruct (pystr_eqb (c_name d) n) eqn:E; intro H.
  - inversion H; subst. now apply pystr_eqb_spec.
  - auto.
Qed.

Section RT.
  Variable re_match : N -> pystr -> bool.
  Variable e : env.
  Variable ens : enums.

  (* ---------------------------------------------------------------- the fragment *)

  Definition plain_scalar (f : field) : bool :=
    match f with FNumber _ _ _ | FString _ | FBoolean => true | _ => false end.

  Definition scalar_frag (f : field) : bool :=
    match f with
    | FNumber _ _ _ | FString _ | FBoolean => true
    | FEnumLit vs => forallb json_value_ok vs
    | FEnumCls _ _ => true
    | _ => false
    end.

  (* scalars, enums by name and by value, Array/Deque of the fragment, Map from plain scalars to the
     fragment, nested structures *)
  Fixpoint frag (f : field) : bool :=
    match f with
    | FSeqEach _ g _ _ => frag g
    | FMapKV kf vf _ => plain_scalar kf && frag vf
    | FClassRef _ => true
    | _ => scalar_frag f
    end.

  Definition all_members (cls : pystr) (members : list (pystr * pyval)) : list (pystr * pyval) :=
    match find_enum ens cls with Some d => en_members d | None => members end.

  Definition enum_wf (cls : pystr) (members : list (pystr * pyval)) (v : pyval) : Prop :=
    exists n x, v = PEnum cls n x /\ alist_has members n = true /\
                alist_get (all_members cls members) n = Some x /\
                (enum_by_value ens cls = true ->
                 json_value_ok x = true /\
                 find (fun m => py_eq (snd m) x) (all_members cls members) = Some (n, x)).

  Section Fields.
    Variable canon' : pyval -> Prop.          (* canonical nested instances (one level less fuel) *)
    Variable recS : pyval -> res pyval.
    Variable recD : bool -> pystr -> pyval -> res pyval.

    (* v is a stored value of declaration f, in the shape the constructor leaves it *)
    Fixpoint wfv (f : field) (v : pyval) {struct f} : Prop :=
      match f with
      | FNumber _ _ _ | FString _ | FBoolean =>
          validate_weak re_match e f v = Ok tt /\ json_scalar v = true /\ v <> PNone
      | FEnumLit vs => py_in v vs = true /\ json_value_ok v = true
      | FEnumCls cls members => enum_wf cls members v
      | FSeqEach k g _ _ => exists l, v = seq_make k l /\ Forall (wfv g) l
      | FMapKV kf vf _ =>
          exists kv, v = PDict kv /\ Forall (fun p => wfv kf (fst p) /\ wfv vf (snd p)) kv /\
                     fresh_keys [] (map fst kv) = true
      | FClassRef c => (exists a, v = PStruct c a) /\ canon' v
      | _ => False
      end.

    Hypothesis Hrec : forall c a, canon' (PStruct c a) ->
      exists kv, recS (PStruct c a) = Ok (PDict kv) /\ json_pure (PDict kv) = true /\
                 forall ku, recD ku c (PDict kv) = Ok (PStruct c a).

    Definition rt_goal (f : field) (v : pyval) : Prop :=
      exists j, ser_val re_match e ens recS f v = Ok j /\ json_pure j = true /\ j <> PNone /\
                forall ku ign, deser_val re_match e ens recD ku ign f j = Ok v.

    Lemma deser_not_none ku ign f j :
      j <> PNone ->
      deser_val re_match e ens recD ku ign f j =
      deser_val re_match e ens recD ku false f j.
    Proof.
      intro H. destruct j; try congruence; destruct f; destruct ign; reflexivity.
    Qed.

    Lemma rt_plain f v : plain_scalar f = true -> wfv f v -> rt_goal f v /\ ser_val re_match e ens recS f v = Ok v.
    Proof.
      intros Hp Hw.
      assert (Hv : validate_weak re_match e f v = Ok tt /\ json_scalar v = true /\ v <> PNone)
        by (destruct f; try discriminate; exact Hw).
      destruct Hv as (Hv & Hs & Hn).
      assert (Hser : ser_val re_match e ens recS f v = Ok v).
      { destruct f; try discriminate; cbn [ser_val];
          destruct v as [| | [] | | | | | | | | |]; try discriminate; reflexivity. }
      split; [|exact Hser].
      exists v. repeat split; auto using json_scalar_pure.
      intros ku ign. rewrite deser_not_none by assumption.
      destruct f; try discriminate; destruct v; try congruence; cbn [deser_val]; cbn beta iota;
        rewrite Hv; reflexivity.
    Qed.

    Lemma rt_val : forall f, frag f = true -> forall v, wfv f v -> rt_goal f v.
    Proof.
      induction f using field_ind'; intros Hf v Hw; try (cbn in Hf; discriminate);
        try (apply rt_plain; [reflexivity | exact Hw]).
      - (* FEnumLit *)
        destruct Hw as (Hin & Hok). exists v. cbn [ser_val].
        repeat split; auto using json_scalar_pure, json_value_ok_scalar, json_value_ok_not_none.
        intros ku ign. rewrite deser_not_none by auto using json_value_ok_not_none.
        destruct v; try discriminate; cbn [deser_val validate_weak]; cbn beta iota; rewrite Hin; reflexivity.
      - (* FEnumCls *)
        destruct Hw as (n & x & -> & Hm & Hall & Hbv). unfold all_members in *.
        unfold rt_goal. cbn [ser_val ser_enum_member]. destruct (enum_by_value ens c) eqn:Ebv.
        + destruct (Hbv eq_refl) as (Hx & Hfind). rewrite Hx. exists x.
          repeat split; auto using json_scalar_pure, json_value_ok_scalar, json_value_ok_not_none.
          intros ku ign. rewrite deser_not_none by auto using json_value_ok_not_none.
          assert (Hh : py_hashable x = true) by auto using json_scalar_hashable, json_value_ok_scalar.
          destruct x; try discriminate; cbn [deser_val]; cbn beta iota; unfold deser_enum_cls;
            rewrite Ebv, Hh; cbn [negb]; rewrite Hfind; reflexivity.
        + exists (PStr n). repeat split; try discriminate.
          intros ku ign. destruct ign; cbn [deser_val]; cbn beta iota; unfold deser_enum_cls;
            rewrite Ebv, Hm, Hall; reflexivity.
      - (* FSeqEach *)
        cbn [frag] in Hf. destruct Hw as (l & -> & Hl).
        assert (HF : forall ku, exists js, mapR (ser_val re_match e ens recS f) l = Ok js /\
                       Forall (fun j => json_pure j = true) js /\
                       mapR (fun j => rewrap (deser_val re_match e ens recD ku false f j)) js = Ok l).
        { intro ku. apply mapR_rt. eapply Forall_impl; [|exact Hl]. intros x Hx.
          destruct (IHf Hf x Hx) as (j & H1 & H2 & _ & H4).
          exists j. rewrite H4. split; [exact H1|]. split; [exact H2|reflexivity]. }
        destruct (HF true) as (js & H1 & H2 & H3).
        destruct (HF false) as (js' & H1' & _ & H3').
        rewrite H1 in H1'. inversion H1'; subst js'.
        exists (PList js).
        assert (Hser : ser_val re_match e ens recS (FSeqEach k f sz u) (seq_make k l) = Ok (PList js)).
        { destruct k; cbn [ser_val seq_make unless_none ser_each iter_items]; rewrite H1; reflexivity. }
        split; [exact Hser|]. split.
        { cbn [json_pure]. apply forallb_forall. intros y Hy. rewrite Forall_forall in H2. auto. }
        split; [discriminate|].
        intros ku ign. destruct ku, k, ign; cbn [deser_val list_like]; cbn beta iota;
          rewrite ?H3, ?H3'; reflexivity.
      - (* FMapKV *)
        cbn [frag] in Hf. apply andb_true_iff in Hf as [Hk Hv].
        destruct Hw as (kv & -> & Hkv & Hfresh).
        set (sf := fun p : pyval * pyval =>
                     k' <- ser_val re_match e ens recS f1 (fst p) ;;
                     v' <- ser_val re_match e ens recS f2 (snd p) ;; Ok (k', v')).
        set (df := fun p : pyval * pyval =>
                     k' <- deser_val re_match e ens recD true false f1 (fst p) ;;
                     v' <- deser_val re_match e ens recD true false f2 (snd p) ;; Ok (k', v')).
        destruct (mapR_rt sf df (fun q => json_scalar (fst q) = true /\ json_pure (snd q) = true) kv)
          as (r & H1 & H2 & H3).
        { eapply Forall_impl; [|exact Hkv]. intros [k x] [Hwk Hwx]. cbn [fst snd] in *.
          destruct (rt_plain f1 k Hk Hwk) as [(jk & Hs1 & _ & _ & Hd1) Hsk].
          rewrite Hsk in Hs1. inversion Hs1; subst jk.
          destruct (IHf2 Hv x Hwx) as (j & Hs2 & Hp2 & _ & Hd2).
          exists (k, j). unfold sf, df. cbn [fst snd]. rewrite Hsk, Hs2, Hd1, Hd2. cbn [bind].
          repeat split; auto.
          destruct f1; try discriminate; destruct Hwk as (_ & Hs & _); exact Hs. }
        (* the serialized keys are the original keys *)
        assert (Hkeys0 : forall kv0, Forall (fun p => wfv f1 (fst p) /\ wfv f2 (snd p)) kv0 ->
                                     forall r0, mapR sf kv0 = Ok r0 -> map fst r0 = map fst kv0).
        { induction 1 as [|[k x] kv0 [Hwk _] _ IH]; intros r0 Hr0.
          - cbn in Hr0. inversion Hr0. reflexivity.
          - cbn [mapR] in Hr0. unfold sf at 1 in Hr0. cbn [fst snd] in Hr0.
            destruct (rt_plain f1 k Hk Hwk) as [_ Hsk]. rewrite Hsk in Hr0. cbn [bind] in Hr0.
            destruct (ser_val re_match e ens recS f2 x); [|discriminate]. cbn [bind] in Hr0.
            destruct (mapR sf kv0) eqn:E; [|discriminate]. inversion Hr0; subst. cbn [map fst].
            f_equal. apply IH. reflexivity. }
        assert (Hkeys : map fst r = map fst kv) by (apply Hkeys0; assumption).
        assert (Hhash : forall l : list (pyval * pyval),
                   Forall (fun q => json_scalar (fst q) = true /\ json_pure (snd q) = true) l ->
                   forallb (fun p => py_hashable (fst p)) l = true).
        { intros l Hl. apply forallb_forall. intros q Hq. rewrite Forall_forall in Hl.
          apply json_scalar_hashable, Hl, Hq. }
        assert (Hhash2 : forallb (fun p : pyval * pyval => py_hashable (fst p)) kv = true).
        { apply forallb_forall. intros [k x] Hq. rewrite Forall_forall in Hkv.
          destruct (Hkv _ Hq) as [Hwk _]. cbn [fst] in *.
          apply json_scalar_hashable. destruct f1; try discriminate; destruct Hwk as (_ & Hs & _); exact Hs. }
        exists (PDict r).
        assert (Hser : ser_val re_match e ens recS (FMapKV f1 f2 sz) (PDict kv) = Ok (PDict r)).
        { cbn [ser_val unless_none]. fold sf. rewrite H1. cbn [bind]. rewrite (Hhash r H2).
          rewrite dict_of_pairs_fresh by (cbn [map]; rewrite Hkeys; exact Hfresh). reflexivity. }
        split; [exact Hser|]. split.
        { cbn [json_pure]. apply forallb_forall. intros q Hq. rewrite Forall_forall in H2.
          destruct (H2 _ Hq) as [Ha Hb]. now rewrite Ha, Hb. }
        split; [discriminate|].
        intros ku ign. destruct ign; cbn [deser_val]; cbn beta iota; fold df; rewrite H3; cbn [bind];
          rewrite Hhash2, dict_of_pairs_fresh by (cbn [map]; exact Hfresh); reflexivity.
      - (* FClassRef *)
        destruct Hw as ((a & ->) & Hc). destruct (Hrec c a Hc) as (kv & Hs & Hp & Hd).
        exists (PDict kv). cbn [ser_val unless_none]. repeat split; auto; try discriminate.
        intros ku ign. destruct ign; cbn [deser_val]; cbn beta iota; apply Hd.
    Qed.

    Lemma wfv_not_none f v : frag f = true -> wfv f v -> v <> PNone.
    Proof.
      destruct f; cbn [frag scalar_frag]; intros Hf Hw; try discriminate; cbn [wfv] in Hw.
      - destruct Hw as (_ & _ & H); exact H.
      - destruct Hw as (_ & _ & H); exact H.
      - destruct Hw as (_ & _ & H); exact H.
      - destruct Hw as (_ & H). now apply json_value_ok_not_none.
      - destruct Hw as (n & x & -> & _). discriminate.
      - destruct Hw as (l & -> & _). destruct k; discriminate.
      - destruct Hw as (kv & -> & _). discriminate.
      - destruct Hw as ((a & ->) & _). discriminate.
    Qed.
  End Fields.

  (* ---------------------------------------------------------------- instances *)

  Definition sel (a : attrs) (names : list pystr) : attrs :=
    flat_map (fun n => match alist_get a n with Some v => [(n, v)] | None => [] end) names.

  Definition class_frag (c : classdef) : bool :=
    forallb (fun fd => frag (fd_field fd)) (c_fields c) && negb (has_dup (field_names c)).

  (* A canonical valid instance of a fragment class, nesting depth < n: attributes are exactly some of
     the declared fields, listed in declaration order (the order of instance.__dict__ is not
     observable through ==), every required field and every field with a default is present, every
     value is a well-shaped stored value that the field accepts unchanged, the __validate__ hook holds. *)
  Fixpoint canon (n : nat) (v : pyval) {struct n} : Prop :=
    match n with
    | O => False
    | S n' =>
        match v with
        | PStruct cn a =>
            exists c, find_class e cn = Some c /\ class_frag c = true /\
                      sel a (field_names c) = a /\
                      has_dup (map fst a) = false /\
                      forallb (fun r => alist_has a r) (c_required c) = true /\
                      defaults_of c a = [] /\
                      hook_ok (c_hook c) a = true /\
                      Forall (fun p => exists fd, find_field (c_fields c) (fst p) = Some fd /\
                                                  wfv (canon n') (fd_field fd) (snd p) /\
                                                  vset re_match e (fd_field fd) (snd p) = Ok (snd p)) a
        | _ => False
        end
    end.

  Lemma find_field_In l n fd : find_field l n = Some fd -> In fd l /\ fd_name fd = n.
  Proof.
    induction l as [|d l IH]; cbn [find_field]; [discriminate|].
    destruct (pystr_eqb (fd_name d) n) eqn:E; intro H.
    - inversion H; subst. split; [now left | now apply pystr_eqb_spec].
    - destruct (IH H). split; [now right | assumption].
  Qed.

  Lemma str_in_In s l : str_in s l = true <-> In s l.
  Proof.
    unfold str_in. rewrite existsb_exists. split.
    - intros (x & Hx & E). apply pystr_eqb_spec in E. now subst.
    - intro H. exists s. split; [assumption | apply pystr_eqb_refl].
  Qed.

  Lemma find_field_nodup l : has_dup (map fd_name l) = false ->
    forall fd, In fd l -> find_field l (fd_name fd) = Some fd.
  Proof.
    induction l as [|d l IH]; intros Hd fd Hin; [destruct Hin|].
    cbn [map has_dup] in Hd. apply orb_false_iff in Hd as [H1 H2]. cbn [find_field].
    destruct Hin as [->|Hin].
    - now rewrite pystr_eqb_refl.
    - destruct (pystr_eqb (fd_name d) (fd_name fd)) eqn:E.
      + apply pystr_eqb_spec in E. exfalso.
        assert (str_in (fd_name d) (map fd_name l) = true).
        { apply str_in_In. rewrite E. now apply in_map. }
        congruence.
      + auto.
  Qed.

  Lemma has_dup_app_fresh l1 x l2 : has_dup (l1 ++ x :: l2) = false -> str_in x l1 = false.
  Proof.
    induction l1 as [|y l1 IH]; cbn [app has_dup]; intro H; [reflexivity|].
    apply orb_false_iff in H as [H1 H2]. unfold str_in in *. cbn [existsb].
    rewrite (IH H2), orb_false_r.
    rewrite existsb_app in H1. apply orb_false_iff in H1 as [_ H1]. cbn [existsb] in H1.
    apply orb_false_iff in H1 as [H1 _].
    apply pystr_eqb_neq. apply pystr_eqb_neq in H1. congruence.
  Qed.

  Lemma alist_get_fresh {A} (l : list (pystr * A)) n : str_in n (map fst l) = false -> alist_get l n = None.
  Proof.
    induction l as [|[k v] l IH]; cbn [map fst alist_get]; intro H; [reflexivity|].
    unfold str_in in H. cbn [existsb] in H. apply orb_false_iff in H as [H1 H2].
    assert (pystr_eqb k n = false) by (apply pystr_eqb_neq; apply pystr_eqb_neq in H1; congruence).
    rewrite H. now apply IH.
  Qed.

  Lemma alist_set_fresh {A} (l : list (pystr * A)) n v : str_in n (map fst l) = false -> alist_set l n v = l ++ [(n, v)].
  Proof.
    induction l as [|[k x] l IH]; cbn [map fst alist_set app]; intro H; [reflexivity|].
    unfold str_in in H. cbn [existsb] in H. apply orb_false_iff in H as [H1 H2].
    assert (E : pystr_eqb k n = false) by (apply pystr_eqb_neq; apply pystr_eqb_neq in H1; congruence).
    rewrite E. f_equal. now apply IH.
  Qed.

  Lemma set_all_ok c : forall rest acc,
    Forall (fun p => exists fd, find_field (c_fields c) (fst p) = Some fd /\ snd p <> PNone /\
                                vset re_match e (fd_field fd) (snd p) = Ok (snd p)) rest ->
    has_dup (map fst (acc ++ rest)) = false ->
    set_all re_match e c acc rest = Ok (acc ++ rest).
  Proof.
    induction rest as [|[n v] rest IH]; intros acc HF Hd; cbn [set_all].
    - now rewrite app_nil_r.
    - inversion HF as [|? ? (fd & Hfd & Hnn & Hv) HF']; subst. cbn [fst snd] in *.
      rewrite map_app in Hd. cbn [map fst] in Hd.
      pose proof (has_dup_app_fresh _ _ _ Hd) as Hfresh.
      unfold setattr. rewrite andb_false_r, Hfd.
      assert (Hnone : is_none_val v = false) by (destruct v; try reflexivity; congruence).
      rewrite Hnone, andb_false_r. cbn [andb]. rewrite Hv.
      unfold alist_has at 1. rewrite (alist_get_fresh acc n Hfresh), andb_false_r.
      cbn [andb]. rewrite alist_set_fresh by assumption.
      rewrite IH; [now rewrite <- app_assoc | assumption |].
      rewrite <- app_assoc. cbn [app]. rewrite map_app. exact Hd.
  Qed.

  Lemma filter_true {A} (p : A -> bool) l : forallb p l = true -> filter p l = l.
  Proof.
    induction l as [|x l IH]; cbn [forallb filter]; intro H; [reflexivity|].
    apply andb_true_iff in H as [H1 H2]. rewrite H1. f_equal. auto.
  Qed.

  Lemma filter_false {A} (p : A -> bool) l : forallb p l = true -> filter (fun x => negb (p x)) l = [].
  Proof.
    induction l as [|x l IH]; cbn [forallb filter]; intro H; [reflexivity|].
    apply andb_true_iff in H as [H1 H2]. rewrite H1. cbn [negb]. auto.
  Qed.

  Variable fl : dflags.

  Theorem rt_struct : forall n v, canon n v ->
    exists kv, ser_struct re_match e ens n v = Ok (PDict kv) /\ json_pure (PDict kv) = true /\
               forall c a, v = PStruct c a ->
                           forall ku, deser_struct re_match e ens fl n ku c (PDict kv) = Ok v.
  Proof.
    induction n as [|n IH]; intros v Hc; [destruct Hc|].
    destruct v as [| | | | | | | | | |cn a|]; try (destruct Hc; fail).
    destruct Hc as (c & Hfind & Hfrag & Hsel & Hdup & Hreq & Hdef & Hhook & Hattrs).
    unfold class_frag in Hfrag. apply andb_true_iff in Hfrag as [Hfrag Hnd].
    apply negb_true_iff in Hnd.
    set (recS := ser_struct re_match e ens n).
    set (recD := deser_struct re_match e ens fl n).
    assert (Hrec : forall c0 a0, canon n (PStruct c0 a0) ->
              exists kv, recS (PStruct c0 a0) = Ok (PDict kv) /\ json_pure (PDict kv) = true /\
                         forall ku, recD ku c0 (PDict kv) = Ok (PStruct c0 a0)).
    { intros c0 a0 H0. destruct (IH _ H0) as (kv & H1 & H2 & H3). exists kv. repeat split; auto.
      intro ku. exact (H3 c0 a0 eq_refl ku). }
    (* every attribute: declared field of the fragment, non-None, round trip of its value *)
    assert (Hper : Forall (fun p => exists fd, find_field (c_fields c) (fst p) = Some fd /\
                             snd p <> PNone /\ vset re_match e (fd_field fd) (snd p) = Ok (snd p) /\
                             rt_goal recS recD (fd_field fd) (snd p)) a).
    { eapply Forall_impl; [|exact Hattrs]. intros p (fd & Hfd & Hw & Hv). exists fd.
      assert (Hfr : frag (fd_field fd) = true).
      { rewrite forallb_forall in Hfrag. apply Hfrag. now apply (find_field_In _ _ _ Hfd). }
      repeat split; auto.
      - now apply (wfv_not_none (canon n) (fd_field fd)).
      - now apply (rt_val (canon n) recS recD Hrec). }
    (* serialization of the attributes *)
    set (F := fun p : pystr * pyval =>
                j <- match find_field (c_fields c) (fst p) with
                     | Some fd => ser_val re_match e ens recS (fd_field fd) (snd p)
                     | None => ser_any recS (snd p)
                     end ;; Ok (PStr (fst p), j)).
    set (R := fun (p : pystr * pyval) (q : pyval * pyval) =>
                fst q = PStr (fst p) /\ json_pure (snd q) = true /\ snd q <> PNone /\
                exists fd, find_field (c_fields c) (fst p) = Some fd /\
                           forall ku ign, deser_val re_match e ens recD ku ign (fd_field fd) (snd q) = Ok (snd p)).
    assert (Hser : forall a0, Forall (fun p => exists fd, find_field (c_fields c) (fst p) = Some fd /\
                             snd p <> PNone /\ vset re_match e (fd_field fd) (snd p) = Ok (snd p) /\
                             rt_goal recS recD (fd_field fd) (snd p)) a0 ->
              filter (fun p => negb (match snd p with PNone => true | _ => false end)) a0 = a0 /\
              exists kv, mapR F a0 = Ok kv /\ Forall2 R a0 kv).
    { induction 1 as [|p a0 (fd & Hfd & Hnn & _ & (j & Hs & Hp & Hjn & Hd)) _ [IHa (kv & IHb & IHc)]].
      - split; [reflexivity|]. exists []. split; [reflexivity|constructor].
      - split.
        + cbn [filter]. destruct (snd p) eqn:E; try congruence; cbn [negb]; now rewrite IHa.
        + exists ((PStr (fst p), j) :: kv). split.
          * cbn [mapR]. unfold F at 1. rewrite Hfd, Hs. cbn [bind]. now rewrite IHb.
          * constructor; [|assumption]. unfold R. cbn [fst snd]. repeat split; auto. exists fd. auto. }
    destruct (Hser a Hper) as (Hfilter & kv & HmapR & HR).
    exists kv.
    assert (Hs : ser_struct re_match e ens (S n) (PStruct cn a) = Ok (PDict kv)).
    { cbn [ser_struct]. rewrite Hfind. unfold ser_attrs. rewrite Hfilter. fold recS. fold F.
      now rewrite HmapR. }
    split; [exact Hs|].
    assert (Hpure : json_pure (PDict kv) = true).
    { cbn [json_pure]. apply forallb_forall. intros q Hq.
      clear - HR Hq. induction HR as [|p q' a0 kv0 (H1 & H2 & _) _ IHR]; [destruct Hq|].
      destruct Hq as [->|Hq]; [|auto]. rewrite H1, H2. reflexivity. }
    split; [exact Hpure|].
    intros c0 a0 Heq ku. inversion Heq; subst c0 a0. clear Heq.
    (* lookups in the document mirror lookups in the attributes *)
    assert (Hlook : forall name,
              match alist_get a name with
              | Some v => exists j fd, dict_get kv (PStr name) = Some j /\ j <> PNone /\
                                       find_field (c_fields c) name = Some fd /\
                                       forall ku ign, deser_val re_match e ens recD ku ign (fd_field fd) j = Ok v
              | None => dict_get kv (PStr name) = None
              end).
    { intro name. clear - HR. induction HR as [|[k v] [qk j] a0 kv0 (H1 & _ & Hjn & fd & Hfd & Hd) _ IHR].
      - reflexivity.
      - cbn [fst snd] in *. subst qk. cbn [alist_get dict_get py_eq].
        destruct (pystr_eqb k name) eqn:E.
        + apply pystr_eqb_spec in E. subst k. exists j, fd. auto.
        + exact IHR. }
    assert (Hkeys : forallb (fun p : pystr * pyval => str_in (fst p) (field_names c)) a = true).
    { apply forallb_forall. intros p Hp. rewrite Forall_forall in Hattrs.
      destruct (Hattrs p Hp) as (fd & Hfd & _). destruct (find_field_In _ _ _ Hfd) as [Hin Hn].
      apply str_in_In. unfold field_names. rewrite <- Hn. now apply in_map. }
    assert (Hfields : forall fds, incl fds (c_fields c) ->
              deser_fields re_match e ens recD ku (c_ignore_none c) fds kv false = Ok (sel a (map fd_name fds))).
    { induction fds as [|fd fds IHf]; intro Hincl; cbn [deser_fields map sel flat_map]; [reflexivity|].
      assert (Hfd : find_field (c_fields c) (fd_name fd) = Some fd).
      { apply find_field_nodup; [exact Hnd | apply Hincl; now left]. }
      specialize (Hlook (fd_name fd)).
      assert (IHf' := IHf (fun x Hx => Hincl x (or_intror Hx))).
      destruct (alist_get a (fd_name fd)) as [v|].
      - destruct Hlook as (j & fd' & Hj & Hjn & Hfd' & Hd). rewrite Hfd in Hfd'. inversion Hfd'; subst fd'.
        rewrite Hj. destruct j; try congruence; rewrite Hd, IHf'; reflexivity.
      - rewrite Hlook. exact IHf'. }
    cbn [deser_struct]. rewrite Hfind. fold recD.
    rewrite (Hfields (c_fields c) (incl_refl _)). cbn [bind]. fold (field_names c). rewrite Hsel.
    assert (Hextras : (if ku && (c_additional c || negb (df_ignore_invalid fl))
                       then filter (fun p : pyval * pyval => negb (is_field_key c (fst p))) kv else []) = []).
    { destruct (ku && (c_additional c || negb (df_ignore_invalid fl))); [|reflexivity].
      apply filter_false. apply forallb_forall. intros q Hq.
      clear - HR Hq. induction HR as [|p q' a0 kv0 (H1 & _ & _ & fd & Hfd & _) _ IHR]; [destruct Hq|].
      destruct Hq as [->|Hq]; [|auto]. rewrite H1. cbn [is_field_key].
      destruct (find_field_In _ _ _ Hfd) as [Hin Hn]. apply str_in_In. unfold field_names.
      rewrite <- Hn. now apply in_map. }
    rewrite Hextras. cbn [str_keys app].
    (* the constructor on the attributes themselves *)
    unfold construct. rewrite Hdup. unfold bind_ok. rewrite Hreq, Hkeys, orb_true_r. cbn [andb negb].
    rewrite (filter_false _ _ Hkeys), (filter_true _ _ Hkeys), Hdef. cbn [set_all bind].
    rewrite (set_all_ok c a []).
    - cbn [app bind]. rewrite Hhook. now rewrite (find_class_name _ _ _ Hfind).
    - eapply Forall_impl; [|exact Hper]. intros p (fd & H1 & H2 & H3 & _). exists fd. auto.
    - exact Hdup.
  Qed.
End RT.
