(* Code-side model of typedpy/serialization/serialization.py: serialize / serialize_internal /
   serialize_val / serialize_multifield_wrapper, in their dispatch order, without mappers,
   camel-case conversion, FastSerializable and Undefined (outside the fragment of C05/C06).
   An instance is [PStruct cls attrs] (instance.__dict__ without the internal keys, in its order).
   Enum classes are described by [enum_decl] (all members; whether fields over that class are
   declared with serialization_by_value=True).  Nesting of structures is bounded by fuel; running
   out of it is the distinct result [Raise OutOfFuel].  Executable; no proofs here. *)
From Coq Require Import ZArith QArith NArith String Ascii Bool Lia List.
Import ListNotations.
From TP Require Import Base.PyVal Fields.FieldAst Fields.SetChain Ser.Json.
Local Open Scope Z_scope.

Record enum_decl := { en_name : pystr; en_by_value : bool; en_members : list (pystr * pyval) }.
Definition enums := list enum_decl.

Fixpoint find_enum (es : enums) (n : pystr) : option enum_decl :=
  match es with
  | [] => None
  | d :: t => if pystr_eqb (en_name d) n then Some d else find_enum t n
  end.

Definition enum_by_value (es : enums) (cls : pystr) : bool :=
  match find_enum es cls with Some d => en_by_value d | None => false end.

(* what a for-loop over the value sees *)
Definition iter_items (v : pyval) : option (list pyval) :=
  match v with
  | PList l | PTuple l | PDeque l | PSet _ l => Some l
  | _ => None
  end.

Definition json_value_ok (x : pyval) : bool :=
  match x with
  | PBool _ | PStr _ | PNum (NInt _) | PNum (NFlt _ _) => true
  | _ => false
  end.

Section Ser.
  Variable re_match : N -> pystr -> bool.
  Variable e : env.
  Variable ens : enums.

  (* field._validate(value), for the field classes that have one (None = no such method) *)
  Definition validate_weak (f : field) (v : pyval) : res unit :=
    match f with
    | FNumber KNumber _ c => number_static c v
    | FNumber KInteger _ c => if is_py_int v then number_static c v else Raise TypeError
    | FNumber KFloat _ c =>
        conv <- match v with
                | PNum (NInt z) => if float_exact z then Ok (PNum (int_to_flt z)) else Raise Unmodelled
                | _ => Ok v
                end ;;
        if is_py_float conv then number_static c conv else Raise TypeError
    | FString c => _ <- string_chain re_match c v ;; Ok tt
    | FBoolean =>
        match v with
        | PBool _ => Ok tt
        | PStr s => if pystr_eqb s str_True || pystr_eqb s str_False then Ok tt else Raise TypeError
        | _ => Raise TypeError
        end
    | FNone => match v with PNone => Ok tt | _ => Raise TypeError end
    | FAnything => Ok tt
    | FEnumLit values => if py_in v values then Ok tt else Raise ValueError
    | FEnumCls cls members =>
        match v with
        | PStr name => if alist_has members name then Ok tt else Raise ValueError
        | PEnum cls' name _ =>
            if pystr_eqb cls' cls && alist_has members name then Ok tt else Raise ValueError
        | _ => Raise ValueError
        end
    | FSeqAny k _ _ | FSeqEach k _ _ _ | FSeqPos k _ _ _ _ =>
        match seq_items k v with Some _ => Ok tt | None => Raise TypeError end
    | FSet imm _ _ =>
        match v with
        | PSet frozen _ => if frozen || negb imm then Ok tt else Raise TypeError
        | _ => Raise TypeError
        end
    | FTuple _ _ => match v with PTuple _ => Ok tt | _ => Raise TypeError end
    | FMapAny _ | FMapKV _ _ _ => match v with PDict _ => Ok tt | _ => Raise TypeError end
    | FAllOf _ | FAnyOf _ | FOneOf _ | FNot _ => Ok tt
    | FClassRef c =>
        match v with
        | PStruct c' _ => if is_instance_of e c' c then Ok tt else Raise TypeError
        | _ => Raise TypeError
        end
    end.

  (* Enum.serialize *)
  Definition ser_enum_member (by_value : bool) (v : pyval) : res pyval :=
    match v with
    | PEnum _ name x =>
        if by_value then (if json_value_ok x then Ok x else Raise TypeError) else Ok (PStr name)
    | _ => Raise AttributeError
    end.

  Section WithRec.
    (* serialize_internal on a nested Structure instance *)
    Variable rec : pyval -> res pyval.

    (* serialize_val(None, name, val): no field definition is known *)
    Fixpoint ser_any (v : pyval) : res pyval :=
      match v with
      | PNone | PBool _ | PStr _ => Ok v
      | PNum (NDec _ _) => Raise ValueError
      | PNum _ => Ok v
      | PList l | PTuple l | PSet false l => r <- mapR ser_any l ;; Ok (PList r)
      | PStruct _ _ => rec v
      | PDict kv =>
          (* json.loads(json.dumps(val)) *)
          if json_doc v then Ok v else Raise Unmodelled
      | PEnum _ _ _ | PDeque _ | PSet true _ => Raise ValueError
      | POther _ _ => Raise Unmodelled
      end.

    Definition ser_each (g : pyval -> res pyval) (v : pyval) : res pyval :=
      match iter_items v with
      | Some l => r <- mapR g l ;; Ok (PList r)
      | None => Raise Unmodelled
      end.

    Definition scalar_py (v : pyval) : bool :=
      match v with PNone | PBool _ | PStr _ => true | PNum (NDec _ _) => false | PNum _ => true | _ => false end.

    Definition unless_none (v : pyval) (k : res pyval) : res pyval :=
      match v with PNone => Ok PNone | _ => k end.

    Definition ser_plain_seq (v : pyval) : res pyval :=
      match v with
      | PList _ | PTuple _ | PSet false _ => ser_each ser_any v
      | _ => Raise Unmodelled
      end.

    (* positional items (Array/Deque(items=[...]), Tuple): element i is serialized with items[i]; the elements past
       the declared positions have no field definition *)
    Definition ser_pos (sv : field -> pyval -> res pyval) :=
      fix pos (fs : list field) (vs : list pyval) {struct fs} : res (list pyval) :=
        match fs, vs with
        | _, [] => Ok []
        | [], _ :: _ => mapR ser_any vs
        | g :: fs', x :: vs' => y <- sv g x ;; ys <- pos fs' vs' ;; Ok (y :: ys)
        end.

    Fixpoint ser_val (f : field) (v : pyval) {struct f} : res pyval :=
      match f with
      | FEnumLit _ => Ok v                                  (* SerializableField: Enum.serialize *)
      | FEnumCls cls _ => ser_enum_member (enum_by_value ens cls) v
      | FAllOf fs | FAnyOf fs | FOneOf fs | FNot fs =>
          (* serialize_multifield_wrapper: first option that validates and serializes *)
          (fix go (gs : list field) : res pyval :=
             match gs with
             | [] => Raise ValueError
             | g :: t =>
                 match (_ <- validate_weak g v ;; ser_val g v) with
                 | Ok j => Ok j
                 | Raise x => if model_exn x then Raise x else go t
                 end
             end) fs
      | FNumber _ _ _ | FString _ | FBoolean =>
          match v with PNum (NDec _ _) => Raise Unmodelled (* str(Decimal) *) | _ => Ok v end
      | FAnything =>
          if scalar_py v then Ok v
          else match v with
               | PList _ | PTuple _ | PSet false _ => ser_each ser_any v
               | PStruct _ _ => rec v
               | PDict kv =>
                   (* serialize_internal on a dict: None values are skipped *)
                   r <- mapR (fun p => j <- ser_any (snd p) ;; Ok (fst p, j))
                          (filter (fun p => negb (match snd p with PNone => true | _ => false end)) kv) ;;
                   Ok (PDict r)
               | _ => Raise Unmodelled
               end
      | FMapKV kf vf _ =>
          unless_none v
            match v with
            | PDict kv =>
                r <- mapR (fun p => k' <- ser_val kf (fst p) ;; v' <- ser_val vf (snd p) ;; Ok (k', v')) kv ;;
                if forallb (fun p => py_hashable (fst p)) r then Ok (PDict (dict_of_pairs [] r))
                else Raise TypeError
            | _ => Raise Unmodelled
            end
      | FMapAny _ =>
          unless_none v
            match v with
            | PDict kv =>
                r <- mapR (fun p => k' <- ser_any (fst p) ;; v' <- ser_any (snd p) ;; Ok (k', v')) kv ;;
                if forallb (fun p => py_hashable (fst p)) r then Ok (PDict (dict_of_pairs [] r))
                else Raise TypeError
            | _ => Raise Unmodelled
            end
      | FSeqPos _ items _ _ _ =>
          unless_none v
            match iter_items v with
            | Some l =>
                r <- ser_pos ser_val items l ;;
                Ok (PList r)
            | None => Raise Unmodelled
            end
      | FSeqEach _ g _ _ => unless_none v (ser_each (ser_val g) v)
      | FSet _ (Some g) _ => unless_none v (ser_each (ser_val g) v)
      | FSeqAny _ _ _ | FSet _ None _ => unless_none v (ser_each ser_any v)
      | FTuple [g] _ =>
          (* a single item declaration is the declaration of every element *)
          unless_none v (ser_each (ser_val g) v)
      | FTuple items _ =>
          (* positional, like Array(items=[...]) *)
          unless_none v
            match iter_items v with
            | Some l =>
                r <- ser_pos ser_val items l ;;
                Ok (PList r)
            | None => Raise Unmodelled
            end
      | FClassRef _ =>
          unless_none v match v with PStruct _ _ => rec v | _ => ser_plain_seq v end
      | FNone => unless_none v (Raise Unmodelled)
      end.

    (* the loop of serialize_internal over instance.__dict__ *)
    Definition ser_attrs (c : classdef) (a : list (pystr * pyval)) : res (list (pyval * pyval)) :=
      mapR (fun p =>
              j <- match find_field (c_fields c) (fst p) with
                   | Some fd => ser_val (fd_field fd) (snd p)
                   | None => ser_any (snd p)
                   end ;;
              Ok (PStr (fst p), j))
           (filter (fun p => negb (match snd p with PNone => true | _ => false end)) a).
  End WithRec.

  Fixpoint ser_struct (n : nat) (v : pyval) : res pyval :=
    match n with
    | O => Raise OutOfFuel
    | S n' =>
        match v with
        | PStruct cn a =>
            match find_class e cn with
            | Some c => kv <- ser_attrs (ser_struct n') c a ;; Ok (PDict kv)
            | None => Raise Unmodelled
            end
        | _ => Raise Unmodelled
        end
    end.

  (* a class that is a wrapper around a single required field and forbids additional properties *)
  Definition compact_eligible (c : classdef) : option fdecl :=
    match c_fields c with
    | [fd] =>
        match c_required c with
        | [r] => if pystr_eqb r (fd_name fd) && negb (c_additional c) then Some fd else None
        | _ => None
        end
    | _ => None
    end.

  (* serialize(x, compact=...) = Serializer(x).serialize(compact=...) *)
  Definition serialize (n : nat) (compact : bool) (v : pyval) : res pyval :=
    match v with
    | PStruct cn a =>
        match find_class e cn with
        | Some c =>
            match (if compact then compact_eligible c else None) with
            | Some fd =>
                match n with
                | O => Raise OutOfFuel
                | S n' =>
                    let cur := match alist_get a (fd_name fd) with
                               | Some x => x
                               | None => match fd_default fd with Some d => d | None => PNone end
                               end in
                    ser_val (ser_struct n') (fd_field fd) cur
                end
            | None => ser_struct n v
            end
        | None => Raise Unmodelled
        end
    | _ => Raise Unmodelled
    end.
End Ser.
