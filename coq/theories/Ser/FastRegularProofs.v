(* C10, fourth clause at class level: on the safe fragment the order-free fast serialization (Ser/FastState.v
   sfast with the default flags) returns the document the regular serializer (Ser/Fast.v ser_regular) returns. *)
From Coq Require Import ZArith NArith String List Bool Lia.
Import ListNotations.
From TP Require Import Base.PyVal Base.PyEq Fields.FieldAst Fields.SetChain Ser.Trusted Ser.Fast Ser.FastProofs
     Ser.FastState Ser.FastStateProofs.

(* ------------------------------------------------------------------ the safe fragment of declarations *)

Definition leaf_ok (l : leaf) : bool :=
  negb (is_none_leaf l) && match l with LSer _ true => false | _ => true end.

(* leaves other than NoneField and DecimalNumber, Array / Set / Optional of them, class references *)
Fixpoint safe_tf (tf : tfield) : bool :=
  match tf with
  | TLeaf l => leaf_ok l
  | TArray i | TSet i => safe_tf i
  | TRef _ => true
  | TOpt _ f => safe_tf f
  | _ => false
  end.

Fixpoint nodup_names (l : list pystr) : bool :=
  match l with
  | [] => true
  | x :: t => negb (existsb (pystr_eqb x) t) && nodup_names t
  end.

Section Safe.
  Variable e : tenv.

  (* a FastSerializable class with a simple mapper, distinct field names, no defaults, safe field types, whose
     referenced classes are safe; a class that refers to other classes has no TO_CAMELCASE / TO_LOWERCASE
     mapper (the regular serializer would push it into the nested documents) *)
  Fixpoint safe_class (fuel : nat) (cn : pystr) : bool :=
    match fuel with
    | O => false
    | S n =>
        match find_tclass e cn with
        | None => false
        | Some c =>
            t_fast c && mapper_simple (t_mapper c) &&
            nodup_names (map f_name (t_fields c)) &&
            forallb (fun fd => safe_tf (f_ty fd) &&
                               match f_default fd with None => true | Some _ => false end &&
                               forallb (safe_class n) (refs (f_ty fd)) &&
                               (negb (has_ref (f_ty fd)) || negb (is_special (t_mapper c)))) (t_fields c)
        end
    end.
End Safe.

(* ------------------------------------------------------------------ instances listed in declaration order *)

(* the attribute list follows the declaration order of the fields, holds no None and nothing but fields
   (an absent field is simply not listed).  The document is a dict, so the order is not observable: this
   fixes one representative per instance. *)
Inductive aligned (ov : tfield -> pyval -> Prop) : list tfd -> list (pystr * pyval) -> Prop :=
| al_nil fs : aligned ov fs []
| al_skip fd fs a : aligned ov fs a -> aligned ov (fd :: fs) a
| al_take fd fs x a : is_none x = false -> ov (f_ty fd) x -> aligned ov fs a ->
                      aligned ov (fd :: fs) ((f_name fd, x) :: a).

Fixpoint ord_val (oi : pystr -> pyval -> Prop) (tf : tfield) (v : pyval) : Prop :=
  match tf with
  | TArray i => match v with PList l => Forall (ord_val oi i) l | _ => True end
  | TSet i => match v with PSet _ l => Forall (ord_val oi i) l | _ => True end
  | TRef c => oi c v
  | TOpt _ f => ord_val oi f v
  | _ => True
  end.

(* v is an instance of class cn - or of any other safe class of the family, a subclass of cn for instance: the fast
   serializer, like the regular one, serializes a structure as what it is -, hereditarily in declaration order *)
Fixpoint ord_inst (e : tenv) (fuel : nat) (cn : pystr) (v : pyval) : Prop :=
  match fuel with
  | O => False
  | S n => match v with
           | PStruct rn a =>
               match find_tclass e rn with
               | Some c => (rn = cn \/ safe_class e (S n) rn = true) /\ aligned (ord_val (ord_inst e n)) (t_fields c) a
               | None => False
               end
           | _ => False
           end
  end.

Lemma aligned_keys ov fs a : aligned ov fs a -> forall k, In k (map fst a) -> In k (map f_name fs).
Proof.
  induction 1 as [fs|fd fs a H IH|fd fs x a Hn Hov H IH]; intros k Hk; cbn [map] in *.
  - contradiction.
  - right. apply IH, Hk.
  - destruct Hk as [Hk|Hk]; [left; exact Hk|right; apply IH, Hk].
Qed.

Lemma nodup_names_notin x t : existsb (pystr_eqb x) t = false -> ~ In x t.
Proof.
  intros H Hin. assert (existsb (pystr_eqb x) t = true); [|congruence].
  apply existsb_exists. exists x. split; [exact Hin|apply pystr_eqb_refl].
Qed.

Lemma alist_get_notin {A} (l : list (pystr * A)) k : ~ In k (map fst l) -> alist_get l k = None.
Proof.
  induction l as [|[k' v] t IH]; intro H; cbn [alist_get]; [reflexivity|].
  destruct (pystr_eqb k' k) eqn:Hk.
  - apply pystr_eqb_spec in Hk. subst. exfalso. apply H. left. reflexivity.
  - apply IH. intro Hin. apply H. right. exact Hin.
Qed.

Lemma find_tfd_in l fd : nodup_names (map f_name l) = true -> In fd l -> find_tfd l (f_name fd) = Some fd.
Proof.
  induction l as [|d t IH]; intros Hn Hin; [contradiction|].
  cbn [map nodup_names] in Hn. apply andb_true_iff in Hn as [Hx Hn]. apply negb_true_iff in Hx.
  cbn [find_tfd]. destruct Hin as [Hin|Hin].
  - subst. rewrite pystr_eqb_refl. reflexivity.
  - destruct (pystr_eqb (f_name d) (f_name fd)) eqn:Hk.
    + apply pystr_eqb_spec in Hk. exfalso. apply (nodup_names_notin _ _ Hx). rewrite Hk. apply in_map, Hin.
    + apply IH; assumption.
Qed.

Lemma mapM_ok_impl {A B} (f g : A -> res B) (P : A -> Prop) l : forall r,
    (forall x w, P x -> f x = Ok w -> g x = Ok w) -> Forall P l -> mapM f l = Ok r -> mapM g l = Ok r.
Proof.
  induction l as [|x t IH]; intros r H HP Hm; cbn [mapM] in *; [exact Hm|].
  inversion HP as [|x' t' Hx Ht]. subst.
  destruct (f x) as [y|ex] eqn:Hf; cbn [bind] in Hm; [|discriminate].
  rewrite (H x y Hx Hf). cbn [bind].
  destruct (mapM f t) as [ys|ex] eqn:Hmt; cbn [bind] in Hm; [|discriminate].
  rewrite (IH ys H Ht eq_refl). exact Hm.
Qed.

Lemma mapM_ok_all {A B} (f : A -> res B) (Q : B -> Prop) l : forall r,
    (forall x w, In x l -> f x = Ok w -> Q w) -> mapM f l = Ok r -> Forall Q r.
Proof.
  induction l as [|x t IH]; intros r H Hm; cbn [mapM] in Hm.
  - inversion Hm. constructor.
  - destruct (f x) as [y|ex] eqn:Hf; cbn [bind] in Hm; [|discriminate].
    destruct (mapM f t) as [ys|ex] eqn:Hmt; cbn [bind] in Hm; [|discriminate].
    inversion Hm. constructor.
    + apply (H x y (or_introl eq_refl) Hf).
    + apply IH; [|reflexivity]. intros x' w Hin. apply H. right. exact Hin.
Qed.

Section Proofs.
  Variable re_match : N -> pystr -> bool.
  Variable sser : N -> pyval -> res pyval.
  Variable oser : N -> pyval -> res pyval.
  Variable ofast : N -> pyval -> res pyval.
  Variable e : tenv.
  (* a SerializableField never serializes a value to None (the fast serializer drops None entries) *)
  Hypothesis sser_not_none : forall id x w, sser id x = Ok w -> is_none w = false.

  Lemma leaf_ok_not_none l : leaf_ok l = true -> is_none_leaf l = false.
  Proof. unfold leaf_ok. intro H. apply andb_true_iff in H as [H _]. apply negb_true_iff in H. exact H. Qed.

  Lemma ser_leaf_not_none l v w : is_none v = false -> ser_leaf sser l v = Ok w -> is_none w = false.
  Proof.
    intros Hv H. destruct l as [f|cls ms byv|vals|id b]; cbn [ser_leaf] in H.
    - destruct v as [| |nm| | | | | | | | |]; try (inversion H; subst; exact Hv). destruct nm; inversion H; subst; reflexivity.
    - destruct v as [| | | | | | | | |ec en ev| |]; try discriminate. destruct byv.
      + destruct (is_json_prim ev) eqn:Hj; [|discriminate]. inversion H. subst.
        destruct w; try discriminate; reflexivity.
      + inversion H. reflexivity.
    - inversion H. subst. exact Hv.
    - apply (sser_not_none _ _ _ H).
  Qed.

  (* a field value that is not None is not serialized to None by the regular path *)
  Lemma ser_val_not_none : forall tf sc sc0 v w,
      safe_tf tf = true -> is_none v = false ->
      (forall c x d, sc c x = Ok d -> is_none d = false) ->
      (forall c x d, sc0 c x = Ok d -> is_none d = false) ->
      ser_val re_match sser oser sc sc0 tf v = Ok w -> is_none w = false.
  Proof.
    induction tf as [l|item IH|item IH|c|nf f IH|ls|id o]; intros sc sc0 v w Hs Hv Hsc Hsc0 H;
      cbn [safe_tf] in Hs; try discriminate; cbn [ser_val] in H.
    - apply (ser_leaf_not_none l v w Hv H).
    - destruct v; try discriminate. destruct (mapM _ l); cbn [bind] in H; [|discriminate]. inversion H. reflexivity.
    - destruct v; try discriminate. destruct (mapM _ l); cbn [bind] in H; [|discriminate]. inversion H. reflexivity.
    - apply (Hsc c v w H).
    - destruct (ser_val re_match sser oser sc0 sc0 f v) as [d|ex] eqn:Hf.
      + inversion H. subst. apply (IH sc0 sc0 v w Hs Hv Hsc0 Hsc0 Hf).
      + destruct ex; discriminate.
  Qed.

  (* per field: if the regular path succeeds on a value, the fast path returns the same *)
  Lemma ser_fast_val (fc : pystr -> pyval -> res pyval) (oi : pystr -> pyval -> Prop) : forall tf sc sc0 v w,
      safe_tf tf = true ->
      (forall c x d, In c (refs tf) -> oi c x -> sc c x = Ok d -> fc c x = Ok d) ->
      (forall c x d, In c (refs tf) -> oi c x -> sc0 c x = Ok d -> fc c x = Ok d) ->
      ord_val oi tf v ->
      ser_val re_match sser oser sc sc0 tf v = Ok w -> fast_val sser ofast fc tf v = Ok w.
  Proof.
    induction tf as [l|item IH|item IH|c|nf f IH|ls|id o]; intros sc sc0 v w Hs Hsc Hsc0 Hord H;
      cbn [safe_tf] in Hs; try discriminate; cbn [ser_val] in H; cbn [fast_val refs ord_val] in *.
    - rewrite (fast_leaf_same sser l v (leaf_ok_not_none l Hs)). exact H.
    - destruct v; try discriminate.
      destruct (mapM (ser_val re_match sser oser sc sc0 item) l) as [r|ex] eqn:Hm; cbn [bind] in H; [|discriminate].
      assert (Hg : mapM (fast_val sser ofast fc item) l = Ok r).
      { apply (mapM_ok_impl (ser_val re_match sser oser sc sc0 item) (fast_val sser ofast fc item) (ord_val oi item) l r);
          [|exact Hord|exact Hm].
        intros x d Hx Hd. apply (IH sc sc0 x d Hs Hsc Hsc0 Hx Hd). }
      destruct item as [[f| | |id b]| | |c| | |]; cbn [bind]; try (rewrite Hg; exact H).
      destruct b; [cbn [safe_tf leaf_ok] in Hs; apply andb_true_iff in Hs as [_ Hs]; discriminate|rewrite Hg; exact H].
    - destruct v; try discriminate.
      destruct (mapM (ser_val re_match sser oser sc sc0 item) l) as [r|ex] eqn:Hm; cbn [bind] in H; [|discriminate].
      assert (Hg : mapM (fast_val sser ofast fc item) l = Ok r).
      { apply (mapM_ok_impl (ser_val re_match sser oser sc sc0 item) (fast_val sser ofast fc item) (ord_val oi item) l r);
          [|exact Hord|exact Hm].
        intros x d Hx Hd. apply (IH sc sc0 x d Hs Hsc Hsc0 Hx Hd). }
      rewrite Hg. exact H.
    - apply (Hsc c v w (or_introl eq_refl) Hord H).
    - destruct (ser_val re_match sser oser sc0 sc0 f v) as [d|ex] eqn:Hf.
      + inversion H. subst. apply (IH sc0 sc0 v w Hs Hsc0 Hsc0 Hord Hf).
      + destruct ex; discriminate.
  Qed.

  Lemma reg_key_nil c k : reg_key [] c k = own_key (t_mapper c) k.
  Proof. reflexivity. Qed.

  Lemma finish_default rn c r : finish e dconf rn c r = dict_of (drop_none r).
  Proof.
    unfold finish. cbn [dconf sc_sn sc_compact andb].
    destruct (dict_of (drop_none r)) as [| | | | | | | |kv| | |] eqn:Hd; try reflexivity.
    destruct kv as [|[k x] [|p t]]; reflexivity.
  Qed.

  (* all fields absent: the fast serializer produces only None entries *)
  Lemma fast_fields_absent fv c a fs :
    (forall fd, In fd fs -> alist_get a (f_name fd) = None /\ find_tfd (t_fields c) (f_name fd) = Some fd /\
                            f_default fd = None) ->
    exists r, fast_fields fv c a fs = Ok r /\ drop_none r = [].
  Proof.
    induction fs as [|fd t IH]; intro H; cbn [fast_fields].
    - exists []. split; reflexivity.
    - destruct (H fd (or_introl eq_refl)) as [Ha [Hf Hd]].
      unfold getattr_m. rewrite Ha, Hf, Hd. cbn [is_none bind].
      destruct (IH (fun fd' Hin => H fd' (or_intror Hin))) as [r [Er Dr]]. rewrite Er. cbn [bind].
      eexists. split; [reflexivity|]. cbn [drop_none filter snd is_none negb]. exact Dr.
  Qed.

  (* per class, one level: the regular entry list is the fast entry list without its None entries *)
  Lemma ser_fast_fields sv fv c : forall fs a a0 r,
      aligned (fun tf x => forall w, sv tf x = Ok w -> fv tf x = Ok w /\ is_none w = false) fs a ->
      nodup_names (map f_name fs) = true ->
      (forall fd, In fd fs -> find_tfd (t_fields c) (f_name fd) = Some fd /\ f_default fd = None /\
                              match f_ty fd with TLeaf (LSer _ true) => False | _ => True end) ->
      (forall fd, In fd fs -> alist_get a0 (f_name fd) = alist_get a (f_name fd)) ->
      ser_attrs sv [] c a = Ok r ->
      exists r', fast_fields fv c a0 fs = Ok r' /\ drop_none r' = r.
  Proof.
    intros fs a a0 r Hal. revert a0 r.
    induction Hal as [fs|fd fs a Hal IH|fd fs x a Hn Hov Hal IH]; intros a0 r Hnd Hfs Ha0 Hser.
    - cbn [ser_attrs] in Hser. inversion Hser. subst.
      apply fast_fields_absent. intros fd Hin. destruct (Hfs fd Hin) as [H1 [H2 _]].
      rewrite (Ha0 fd Hin). cbn [alist_get]. auto.
    - cbn [map nodup_names] in Hnd. apply andb_true_iff in Hnd as [Hx Hnd]. apply negb_true_iff in Hx.
      destruct (Hfs fd (or_introl eq_refl)) as [Hf [Hd _]].
      assert (Habs : alist_get a0 (f_name fd) = None).
      { rewrite (Ha0 fd (or_introl eq_refl)). apply alist_get_notin. intro Hin.
        apply (nodup_names_notin _ _ Hx). apply (aligned_keys _ _ _ Hal _ Hin). }
      destruct (IH a0 r Hnd (fun fd' Hin => Hfs fd' (or_intror Hin)) (fun fd' Hin => Ha0 fd' (or_intror Hin)) Hser)
        as [r' [Er Dr]].
      cbn [fast_fields]. unfold getattr_m at 1. rewrite Habs, Hf, Hd. cbn [is_none bind]. rewrite Er. cbn [bind].
      eexists. split; [reflexivity|]. cbn [drop_none filter snd is_none negb]. exact Dr.
    - cbn [map nodup_names] in Hnd. apply andb_true_iff in Hnd as [Hx Hnd]. apply negb_true_iff in Hx.
      destruct (Hfs fd (or_introl eq_refl)) as [Hf [Hd Hty]].
      cbn [ser_attrs] in Hser. rewrite Hn, Hf in Hser.
      destruct (sv (f_ty fd) x) as [w|ex] eqn:Hsv; cbn [bind] in Hser; [|discriminate].
      destruct (ser_attrs sv [] c a) as [rt|ex] eqn:Hrt; cbn [bind] in Hser; [|discriminate].
      inversion Hser. subst r. clear Hser.
      destruct (Hov w eq_refl) as [Hfv Hw].
      assert (Hget : alist_get a0 (f_name fd) = Some x).
      { rewrite (Ha0 fd (or_introl eq_refl)). cbn [alist_get]. rewrite pystr_eqb_refl. reflexivity. }
      assert (Ha0' : forall fd', In fd' fs -> alist_get a0 (f_name fd') = alist_get a (f_name fd')).
      { intros fd' Hin. rewrite (Ha0 fd' (or_intror Hin)). cbn [alist_get].
        destruct (pystr_eqb (f_name fd) (f_name fd')) eqn:Hk; [|reflexivity].
        apply pystr_eqb_spec in Hk. exfalso. apply (nodup_names_notin _ _ Hx). rewrite Hk. apply in_map, Hin. }
      destruct (IH a0 rt Hnd (fun fd' Hin => Hfs fd' (or_intror Hin)) Ha0' eq_refl) as [r' [Er Dr]].
      assert (Hgm : getattr_m c a0 (f_name fd) = x) by (unfold getattr_m; rewrite Hget; reflexivity).
      cbn [fast_fields]. rewrite Hgm, Hn.
      assert (Hstep : match f_ty fd with
                      | TLeaf (LSer _ true) => Ok x
                      | tf => fv tf x
                      end = Ok w).
      { destruct (f_ty fd) as [[f| | |id b]| | | | | |]; try exact Hfv. destruct b; [contradiction|exact Hfv]. }
      rewrite Hstep. cbn [bind]. rewrite Er. cbn [bind].
      eexists. split; [reflexivity|]. cbn [drop_none filter snd]. rewrite Hw. cbn [negb].
      rewrite reg_key_nil. f_equal. exact Dr.
  Qed.

  Lemma aligned_weaken (P Q : tfield -> pyval -> Prop) fs a :
    (forall fd x, In fd fs -> P (f_ty fd) x -> Q (f_ty fd) x) -> aligned P fs a -> aligned Q fs a.
  Proof.
    intros H Hal. induction Hal as [fs|fd fs a Hal IH|fd fs x a Hn Hov Hal IH].
    - constructor.
    - apply al_skip. apply IH. intros fd' x' Hin. apply H. right. exact Hin.
    - apply al_take; [exact Hn|apply (H fd x (or_introl eq_refl) Hov)|].
      apply IH. intros fd' x' Hin. apply H. right. exact Hin.
  Qed.

  Lemma forallb_safe_fast n l c : forallb (safe_class e n) l = true -> In c l -> class_is_fast e c = true.
  Proof.
    intros H Hin. rewrite forallb_forall in H. specialize (H c Hin).
    destruct n; cbn [safe_class] in H; [discriminate|]. unfold class_is_fast.
    destruct (find_tclass e c) as [cd|]; [|discriminate].
    repeat (apply andb_true_iff in H as [H _]). exact H.
  Qed.

  Lemma safe_class_fast n cn : safe_class e n cn = true -> exists c, find_tclass e cn = Some c /\ t_fast c = true.
  Proof.
    destruct n; cbn [safe_class]; [discriminate|]. destruct (find_tclass e cn) as [c|]; [|discriminate].
    intro H. exists c. split; [reflexivity|]. repeat (apply andb_true_iff in H as [H _]). exact H.
  Qed.

  (* serialize_val serializes an instance of another class of the family as what it is *)
  Lemma ser_regular_own n c0 rn a :
    find_tclass e rn <> None ->
    ser_regular re_match sser oser e n [] c0 (PStruct rn a) = ser_regular re_match sser oser e n [] rn (PStruct rn a).
  Proof.
    intro Hf. destruct n; [reflexivity|]. cbn [ser_regular]. rewrite pystr_eqb_refl.
    destruct (pystr_eqb rn c0) eqn:E.
    - apply pystr_eqb_spec in E. subst. reflexivity.
    - destruct (find_tclass e rn) eqn:E2; [rewrite E2; reflexivity|contradiction Hf; reflexivity].
  Qed.

  (* C: for a safe class and an instance in declaration order - whose fields may hold instances of subclasses of
     the declared classes -, whatever the regular serializer returns the order-free fast serializer (default flags
     everywhere) returns too *)
  Theorem fast_equals_regular : forall n cn a d,
      safe_class e n cn = true -> ord_inst e n cn (PStruct cn a) ->
      ser_regular re_match sser oser e n [] cn (PStruct cn a) = Ok d ->
      sfast sser ofast e (fun _ => dconf) n cn (PStruct cn a) = Ok d.
  Proof.
    induction n as [|n IH]; intros cn a d Hsafe Hord Hreg; [discriminate|].
    cbn [safe_class] in Hsafe. cbn [ord_inst] in Hord. cbn [ser_regular] in Hreg. cbn [sfast].
    destruct (find_tclass e cn) as [c|] eqn:Hc; [|discriminate].
    destruct Hord as [_ Hal].
    rewrite pystr_eqb_refl in Hreg. rewrite Hc in Hreg.
    apply andb_true_iff in Hsafe as [Hsafe Hfields]. apply andb_true_iff in Hsafe as [Hsafe Hnd].
    apply andb_true_iff in Hsafe as [Hfastc Hms]. rewrite Hms in Hreg. cbn [bind] in Hreg.
    rewrite forallb_forall in Hfields.
    destruct (ser_attrs _ [] c a) as [r|ex] eqn:Hattrs; cbn [bind] in Hreg; [|discriminate].
    inversion Hreg. subst d. clear Hreg.
    set (FCn := fun (_ : pystr) x => by_class e (sfast sser ofast e (fun _ => dconf) n) x).
    set (inh' := special (t_mapper c) ++ []) in *.
    (* the callbacks of the regular path never return None *)
    assert (Hsc_nn : forall inh c' x w, ser_regular re_match sser oser e n inh c' x = Ok w -> is_none w = false).
    { intros inh c' x w H. destruct n; [discriminate|]. cbn [ser_regular] in H. destruct x; try discriminate.
      destruct (if pystr_eqb cls c' then (c', inh) else match find_tclass e cls with Some _ => (cls, []) | None => (c', inh) end)
        as [c2 inh2].
      destruct (find_tclass e c2); [|discriminate].
      destruct (if mapper_simple (t_mapper t) then Ok tt else Raise Unmodelled); cbn [bind] in H; [|discriminate].
      destruct (ser_attrs _ inh2 t attrs); cbn [bind] in H; [|discriminate]. inversion H. reflexivity. }
    assert (Halign : aligned (fun tf x => forall w,
                                  ser_val re_match sser oser (ser_regular re_match sser oser e n inh')
                                          (ser_regular re_match sser oser e n []) tf x = Ok w ->
                                  fast_val sser ofast FCn tf x = Ok w /\ is_none w = false) (t_fields c) a).
    { assert (Hgen : forall fs, (forall fd, In fd fs -> In fd (t_fields c)) ->
                                forall a', aligned (ord_val (ord_inst e n)) fs a' ->
                                aligned (fun tf x => forall w,
                                  ser_val re_match sser oser (ser_regular re_match sser oser e n inh')
                                          (ser_regular re_match sser oser e n []) tf x = Ok w ->
                                  fast_val sser ofast FCn tf x = Ok w /\ is_none w = false) fs a').
      { intros fs Hsub a' Hal'. induction Hal' as [fs|fd fs a' Hal' IHa|fd fs x a' Hn Hov Hal' IHa].
        - constructor.
        - apply al_skip. apply IHa. intros fd' Hin. apply Hsub. right. exact Hin.
        - apply al_take; [exact Hn| |apply IHa; intros fd' Hin; apply Hsub; right; exact Hin].
          intros w Hw. specialize (Hfields fd (Hsub fd (or_introl eq_refl))).
          apply andb_true_iff in Hfields as [Hfields Hspec]. apply andb_true_iff in Hfields as [Hfields Hrefs].
          apply andb_true_iff in Hfields as [Hstf _].
          split.
          + assert (Hcb : forall inh, (inh = [] \/ inh = inh') ->
                                      forall c0 x0 d0, In c0 (refs (f_ty fd)) -> ord_inst e n c0 x0 ->
                                      ser_regular re_match sser oser e n inh c0 x0 = Ok d0 -> FCn c0 x0 = Ok d0).
            { intros inh Hinh c0 x0 d0 Hin Ho Hr.
              assert (inh = []).
              { destruct Hinh as [Hinh|Hinh]; [exact Hinh|]. subst inh inh'.
                assert (Hhr : has_ref (f_ty fd) = true).
                { clear - Hin. induction (f_ty fd); cbn [refs has_ref] in *; try contradiction; auto. }
                rewrite Hhr in Hspec. cbn [negb orb] in Hspec. apply negb_true_iff in Hspec.
                destruct (t_mapper c); cbn [is_special] in Hspec; try discriminate; reflexivity. }
              subst inh. unfold FCn.
              rewrite forallb_forall in Hrefs. pose proof (Hrefs c0 Hin) as Hs0.
              (* the instance held by the field: of the declared class c0, or of another safe class *)
              destruct n as [|n']; [contradiction|]. cbn [ord_inst] in Ho.
              destruct x0 as [| | | | | | | | | |rn0 a0| ]; try contradiction.
              destruct (find_tclass e rn0) as [c1|] eqn:Hf1; [|contradiction].
              destruct Ho as [Hcls Hal0].
              assert (Hs1 : safe_class e (S n') rn0 = true) by (destruct Hcls as [->|Hcls]; assumption).
              destruct (safe_class_fast _ _ Hs1) as [c1' [Hf1' Ht1]]. rewrite Hf1 in Hf1'. inversion Hf1'. subst c1'.
              unfold by_class. rewrite Hf1, Ht1.
              rewrite (ser_regular_own (S n') c0 rn0 a0) in Hr by (rewrite Hf1; discriminate).
              apply (IH rn0 a0 d0 Hs1); [|exact Hr].
              cbn [ord_inst]. rewrite Hf1. split; [left; reflexivity|exact Hal0]. }
            apply (ser_fast_val FCn (ord_inst e n) (f_ty fd) (ser_regular re_match sser oser e n inh')
                                 (ser_regular re_match sser oser e n []) x w Hstf).
            * intros c0 x0 d0. apply (Hcb inh'). right. reflexivity.
            * intros c0 x0 d0. apply (Hcb []). left. reflexivity.
            * exact Hov.
            * exact Hw.
          + apply (ser_val_not_none (f_ty fd) (ser_regular re_match sser oser e n inh')
                                     (ser_regular re_match sser oser e n []) x w Hstf Hn (Hsc_nn inh') (Hsc_nn []) Hw). }
      apply (Hgen (t_fields c) (fun fd H => H) a Hal). }
    assert (Hfs : forall fd, In fd (t_fields c) ->
                             find_tfd (t_fields c) (f_name fd) = Some fd /\ f_default fd = None /\
                             match f_ty fd with TLeaf (LSer _ true) => False | _ => True end).
    { intros fd Hin. split; [apply (find_tfd_in _ _ Hnd Hin)|].
      specialize (Hfields fd Hin). apply andb_true_iff in Hfields as [Hfields _].
      apply andb_true_iff in Hfields as [Hfields _]. apply andb_true_iff in Hfields as [Hstf Hdef].
      split; [destruct (f_default fd); [discriminate|reflexivity]|].
      destruct (f_ty fd) as [[f| | |id b]| | | | | |]; try exact I. destruct b; [|exact I].
      cbn [safe_tf leaf_ok] in Hstf. apply andb_true_iff in Hstf as [_ Hstf]. discriminate. }
    destruct (ser_fast_fields _ (fast_val sser ofast FCn) c (t_fields c) a a r Halign Hnd Hfs
                              (fun fd _ => eq_refl) Hattrs) as [r' [Er Dr]].
    assert (Hml : match t_mapper c with MapList => False | _ => True end)
      by (destruct (t_mapper c); try exact I; discriminate).
    fold FCn. destruct (t_mapper c); try contradiction; rewrite Er; cbn [bind]; rewrite finish_default, Dr; reflexivity.
  Qed.
End Proofs.
