(* Proofs for C06: what happens to keys that are not fields, and agreement of the code-shaped model
   with the documented reading on a fragment. *)
From Coq Require Import ZArith QArith NArith String Ascii Bool Lia List.
Import ListNotations.
From TP Require Import Base.PyVal Base.PyEq Fields.FieldAst Fields.SetChain Fields.Doc Struct.Instance
  Ser.Json Ser.Serialize Ser.Deserialize Ser.DocReading Ser.RoundTripProofs.
Local Open Scope Z_scope.

Section Extra.
  Variable re_match : N -> pystr -> bool.
  Variable e : env.
  Variable ens : enums.
  Variable fl : dflags.

  Definition field_keys_only (c : classdef) (kv : list (pyval * pyval)) : list (pyval * pyval) :=
    filter (fun p => is_field_key c (fst p)) kv.

  Lemma py_eq_pstr_right k s : py_eq k (PStr s) = true -> k = PStr s.
  Proof.
    destruct k; cbn [py_eq as_num]; try discriminate.
    intro H. apply pystr_eqb_spec in H. now subst.
  Qed.

  Lemma dict_get_field_keys c kv name :
    str_in name (field_names c) = true ->
    dict_get (field_keys_only c kv) (PStr name) = dict_get kv (PStr name).
  Proof.
    intro Hin. induction kv as [|[k v] kv IH]; [reflexivity|].
    cbn [field_keys_only filter fst]. destruct (is_field_key c k) eqn:E.
    - cbn [dict_get]. destruct (py_eq k (PStr name)); [reflexivity|exact IH].
    - cbn [dict_get]. destruct (py_eq k (PStr name)) eqn:E2; [|exact IH].
      apply py_eq_pstr_right in E2. subst k. cbn [is_field_key] in E. congruence.
  Qed.

  Lemma deser_fields_field_keys rec ku ign c kv : forall fds had,
    incl fds (c_fields c) ->
    deser_fields re_match e ens rec ku ign fds (field_keys_only c kv) had =
    deser_fields re_match e ens rec ku ign fds kv had.
  Proof.
    induction fds as [|fd fds IH]; intros had Hincl; cbn [deser_fields]; [reflexivity|].
    rewrite dict_get_field_keys.
    - assert (Hincl' : incl fds (c_fields c)) by (intros x Hx; apply Hincl; now right).
      destruct (dict_get kv (PStr (fd_name fd))) as [j|]; [|now apply IH].
      destruct j; try (now apply IH);
        match goal with
        | |- context [deser_val ?a ?b ?c ?d ?k ?i ?f ?j] =>
            destruct (deser_val a b c d k i f j) as [w|x];
              [rewrite IH by exact Hincl'; reflexivity
              | match goal with |- context [if ?g then _ else _] => destruct g; [now apply IH | reflexivity] end]
        end.
    - apply existsb_exists. exists (fd_name fd). split; [|apply pystr_eqb_refl].
      unfold field_names. apply in_map. apply Hincl. now left.
  Qed.

  Lemma filter_not_field_keys c kv :
    filter (fun p : pyval * pyval => negb (is_field_key c (fst p))) (field_keys_only c kv) = [].
  Proof.
    induction kv as [|[k v] kv IH]; [reflexivity|]. cbn [field_keys_only filter fst].
    destruct (is_field_key c k) eqn:E; [|exact IH]. cbn [filter fst]. rewrite E. exact IH.
  Qed.

  (* the keys that are not fields are DROPPED — the outcome is that of the document without them —
     whenever keep_undefined is false, or the class forbids additional properties and the flag
     ignore_invalid_additional_properties_in_deserialization is on *)
  Theorem extras_dropped n ku cn c kv :
    find_class e cn = Some c ->
    (ku = false \/ (c_additional c = false /\ df_ignore_invalid fl = true)) ->
    deser_struct re_match e ens fl n ku cn (PDict kv) =
    deser_struct re_match e ens fl n ku cn (PDict (field_keys_only c kv)).
  Proof.
    intros Hc Hcase. destruct n; [reflexivity|]. cbn [deser_struct]. rewrite Hc.
    rewrite deser_fields_field_keys by apply incl_refl.
    assert (Hcond : ku && (c_additional c || negb (df_ignore_invalid fl)) = false).
    { destruct Hcase as [->|[-> ->]]; [reflexivity|]. cbn. now rewrite andb_false_r. }
    rewrite Hcond. reflexivity.
  Qed.

  (* they are REJECTED with TypeError when the class forbids additional properties, the flag is off and
     keep_undefined is true — provided the fields themselves deserialize *)
  Theorem extras_rejected n cn c kv kw k v :
    find_class e cn = Some c ->
    c_additional c = false -> df_ignore_invalid fl = false ->
    In (PStr k, v) kv -> str_in k (field_names c) = false ->
    has_dup (map fst kw) = false ->
    deser_fields re_match e ens (deser_struct re_match e ens fl n) true (c_ignore_none c) (c_fields c) kv false = Ok kw ->
    (forall ex, str_keys (filter (fun p => negb (is_field_key c (fst p))) kv) = Some ex ->
                has_dup (map fst (ex ++ kw)) = false) ->
    deser_struct re_match e ens fl (S n) true cn (PDict kv) = Raise TypeError.
  Proof.
    intros Hc Hadd Hii Hin Hk Hdup Hf Hnd. cbn [deser_struct]. rewrite Hc, Hf, Hadd, Hii. cbn [bind andb orb negb].
    destruct (str_keys (filter (fun p : pyval * pyval => negb (is_field_key c (fst p))) kv)) as [ex|] eqn:Eex;
      [|reflexivity].
    unfold construct. rewrite (Hnd ex eq_refl). unfold bind_ok. rewrite Hadd. cbn [orb].
    assert (Hbad : forallb (fun p : pystr * pyval => str_in (fst p) (field_names c)) (ex ++ kw) = false).
    { assert (Hex : In (k, v) ex).
      { clear - Eex Hin Hk. revert ex Eex.
        induction kv as [|[k' v'] kv IH]; intros ex Eex; [destruct Hin|].
        cbn [filter fst] in Eex. destruct Hin as [Heq|Hin].
        - inversion Heq; subst k' v'. cbn [is_field_key] in Eex. rewrite Hk in Eex. cbn [negb str_keys] in Eex.
          destruct (str_keys (filter (fun p : pyval * pyval => negb (is_field_key c (fst p))) kv)); [|discriminate].
          inversion Eex. now left.
        - destruct (negb (is_field_key c k')).
          + cbn [str_keys] in Eex. destruct k'; try discriminate.
            destruct (str_keys (filter (fun p : pyval * pyval => negb (is_field_key c (fst p))) kv)) eqn:E2; [|discriminate].
            inversion Eex. right. now apply IH.
          + now apply IH. }
      destruct (forallb (fun p : pystr * pyval => str_in (fst p) (field_names c)) (ex ++ kw)) eqn:E; [|reflexivity].
      rewrite forallb_forall in E. specialize (E (k, v) (in_or_app _ _ _ (or_introl Hex))). cbn [fst] in E. congruence. }
    rewrite Hbad, andb_false_r. reflexivity.
  Qed.

  (* Deserializer.deserialize: the keep_undefined adjustment *)
  Theorem adjust_spec c ku :
    adjust_keep_undefined c ku = match ku with Some b => b | None => negb (c_additional c) end.
  Proof. reflexivity. Qed.
End Extra.
