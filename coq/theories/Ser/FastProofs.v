(* Proofs about Ser/Fast.v (C10, fast serialization). *)
From Coq Require Import ZArith QArith NArith String Ascii Bool Lia List.
Import ListNotations.
From TP Require Import Base.PyVal Base.PyEq Fields.FieldAst Fields.SetChain Ser.Trusted Ser.Fast.
Local Open Scope Z_scope.

Lemma mapM_ext {A B} (f g : A -> res B) l : (forall x, f x = g x) -> mapM f l = mapM g l.
Proof.
  intro H. induction l as [|x l IH]; cbn [mapM]; [reflexivity|]. rewrite H, IH. reflexivity.
Qed.

(* declarations made of leaves, Array and Set only; no NoneField leaf, and no Array of DecimalNumber
   (Array.serialize hands a list of Numbers back as it is) *)
Fixpoint plain_tf (tf : tfield) : bool :=
  match tf with
  | TLeaf l => negb (is_none_leaf l)
  | TArray item => plain_tf item && match item with TLeaf (LSer _ true) => false | _ => true end
  | TSet item => plain_tf item
  | _ => false
  end.

Section Proofs.
  Variable re_match : N -> pystr -> bool.
  Variable sser : N -> pyval -> res pyval.
  Variable oser : N -> pyval -> res pyval.
  Variable ofast : N -> pyval -> res pyval.
  Variable e : tenv.

  Lemma fast_leaf_same l v : is_none_leaf l = false -> fast_leaf sser l v = ser_leaf sser l v.
  Proof.
    destruct l as [f| | |]; try reflexivity. destruct f; try reflexivity. cbn. discriminate.
  Qed.

  (* the per-field serializer of the fast path and of the regular path agree on every value *)
  Lemma fast_val_same fc sc sc0 : forall tf v,
      plain_tf tf = true ->
      fast_val sser ofast fc tf v = ser_val re_match sser oser sc sc0 tf v.
  Proof.
    induction tf as [l|item IH|item IH|c|nf f IH|ls|id o]; intros v Hp; cbn [plain_tf] in Hp; try discriminate.
    - cbn [fast_val ser_val]. apply fast_leaf_same. apply negb_true_iff. exact Hp.
    - apply andb_true_iff in Hp as [Hp1 Hp2]. cbn [fast_val ser_val].
      destruct v; try reflexivity.
      rewrite (mapM_ext _ _ l (fun x => IH x Hp1)).
      destruct item as [[f| | |id isnum]| | | | | |]; try reflexivity; try (cbn [plain_tf] in Hp1; discriminate).
      destruct isnum; [discriminate|reflexivity].
    - cbn [fast_val ser_val]. destruct v; try reflexivity.
      rewrite (mapM_ext _ _ l (fun x => IH x Hp)). reflexivity.
  Qed.
End Proofs.
