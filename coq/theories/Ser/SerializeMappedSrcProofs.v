(* The generated translation of serialize / serialize_internal / serialize_val (Gen/SerializeSrc.v) in the MAPPER-ON
   configuration, against the model of property C07 (Ser/Mappers.v: ser_val / ser_loop / serialize with a resolved
   aggregated mapper): key renaming, DoNotSerialize, the nested "<field>._mapper" lookup for nested structures and
   for Array / Set of structures, camel_case_convert (any flag), an explicit override mapper.

   How the C07 universe is seen as Python objects ([map_world]):
     * the classes reachable from the root class c0 are named by their PATH of field indices: [ref (cname p)];
       each is a Structure class (not FastSerializable, no _additional_serialization, Undefined not enabled);
       get_all_fields_by_name() answers {field name: Field object};
     * the Field object of field i of the class at path p is [iref (0 :: i :: p)]: an Integer for a plain field,
       a ClassReference whose get_type is the nested class, an Array / Set whose items is the ClassReference
       [iref (1 :: i :: p)];
     * an instance [IStruct x] of the class at path p is the value PStruct (cname p) {k: value}; IScal z is the
       int z; IList l the list (Array) / set (Set) of the encoded elements;
     * an aggregated mapper is the dict [enc_amap] of Ser/MappersSrcProofs.v (Key s = the str s, DoNot = the class
       DoNotSerialize, Sub m = the dict);
     * aggregate_serialization_mappers is the ORACLE [agg]: the theorem asks of it exactly what
       MappersSrcProofs.src_aggregate_serialization_mappers proves of the source -- on the root class, the
       override and the flag it answers the model's [aggregate true c0 override flag].
   The statements are refinements ([refines] of Ser/SerializeSrcProofs.v). *)
From Coq Require Import ZArith QArith NArith String Ascii Bool Lia List.
Import ListNotations.
From TP Require Import Base.PyVal Base.PyOps Base.PyOps2 Base.PyObj Base.PyOpsFields Base.PyOpsSerialize
     Ser.Json Ser.Mappers Gen.SerializeSrc Ser.SerializeSrcProofs.
From TP Require Base.PyOpsDerive Base.PyOpsVersioned Base.PyOpsMappers Ser.MappersSrcProofs.
Local Open Scope Z_scope.

Module MS := Ser.MappersSrcProofs.

(* ------------------------------------------------------------------ the C07 universe as Python objects *)

Definition cname (p : list N) : pystr := 37%N :: p.          (* "%" then the path: no class of the package is so named *)
Definition name_path (n : pystr) : option (list N) := match n with 37%N :: p => Some p | _ => None end.

Fixpoint class_at (c : classdef) (p : list N) : option classdef :=
  match p with
  | [] => Some c
  | i :: q => match nth_error (cfields c) (N.to_nat i) with
              | Some (_, Some (_, c')) => class_at c' q
              | _ => None
              end
  end.

Definition fkind := option (ckind * classdef).

Definition field_of (c0 : classdef) (p : list N) (i : N) : option (pystr * fkind) :=
  match class_at c0 p with Some c => nth_error (cfields c) (N.to_nat i) | None => None end.

Definition fclass (fk : fkind) : pystr :=
  match fk with
  | None => s2p "Integer"
  | Some (KRef, _) => s2p "ClassReference"
  | Some (KArr, _) => s2p "Array"
  | Some (KSet, _) => s2p "Set"
  end.

Definition fobj (p : list N) (i : N) : pyval := iref (0%N :: i :: p).
Definition iobj (p : list N) (i : N) : pyval := iref (1%N :: i :: p).

Definition fields_kv' (p : list N) (fs : list (pystr * fkind)) : list (pyval * pyval) :=
  map (fun q => (PStr (fst (snd q)), fobj p (N.of_nat (fst q)))) (combine (seq 0 (length fs)) fs).

Definition cls_dict : pyval :=
  PDict [ (PStr (s2p "_required"), PList []); (PStr (s2p "_additional_properties"), PBool true) ].

Section MapWorld.
  Variable c0 : classdef.
  Variable agg : pyval -> pyval -> pyval -> res pyval.    (* aggregate_serialization_mappers(cls, override, camel) *)
  Variable repr : pyval -> pystr.

  Definition mw_icls (a : pystr) : option pystr :=
    match a with
    | tag :: i :: p =>
        match field_of c0 p i with
        | Some (_, fk) =>
            if N.eqb tag 0 then Some (fclass fk)
            else if N.eqb tag 1 then match fk with Some (KArr, _) | Some (KSet, _) => Some (s2p "ClassReference") | _ => None end
            else None
        | None => None
        end
    | _ => None
    end.

  Definition mw_iattr (a attr : pystr) : option pyval :=
    match a with
    | tag :: i :: p =>
        match field_of c0 p i with
        | Some (_, fk) =>
            if N.eqb tag 0 then
              match fk with
              | Some (KRef, _) => if pystr_eqb attr (s2p "get_type") then Some (ref (cname (p ++ [i]))) else None
              | Some (_, _) => if pystr_eqb attr (s2p "items") then Some (iobj p i) else None
              | None => None
              end
            else if N.eqb tag 1 then
              match fk with
              | Some (KArr, _) | Some (KSet, _) =>
                  if pystr_eqb attr (s2p "get_type") then Some (ref (cname (p ++ [i]))) else None
              | _ => None
              end
            else None
        | None => None
        end
    | _ => None
    end.

  Definition mw_cattr (cn a : pystr) : option pyval :=
    match name_path cn with
    | Some p =>
        match class_at c0 p with
        | Some c =>
            if pystr_eqb a (s2p "get_all_fields_by_name()") then Some (PDict (fields_kv' p (cfields c)))
            else if pystr_eqb a str_dict then Some cls_dict
            else None
        | None => None
        end
    | None =>
        if pystr_eqb cn (s2p "Generator") && pystr_eqb a (s2p "_ty") then Some (bref (s2p "generator"))
        else if pystr_eqb cn (s2p "TypedPyDefaults") && pystr_eqb a (s2p "additional_properties_default") then Some (PBool true)
        else if pystr_eqb cn (s2p "TypedPyDefaults") && pystr_eqb a (s2p "compact_serialization_default") then Some (PBool false)
        else None
    end.

  Definition mw_anc (cn : pystr) : option (list pystr) :=
    match name_path cn with
    | Some p => match class_at c0 p with Some _ => Some [s2p "Structure"] | None => None end
    | None => None
    end.

  Definition mw_ext (f : pystr) (args : list pyval) : res pyval :=
    if pystr_eqb f (s2p "aggregate_serialization_mappers") then
      match args with [a; b; c] => agg a b c | _ => Raise Unmodelled end
    else Raise Unmodelled.

  Definition map_world : world :=
    {| w_cattr := mw_cattr; w_icls := mw_icls; w_iattr := mw_iattr;
       w_sattr := fun _ _ => None; w_anc := mw_anc;
       w_meth := fun _ _ _ => Raise Unmodelled; w_ext := mw_ext; w_repr := repr |}.
End MapWorld.

(* ------------------------------------------------------------------ instances and documents *)

Fixpoint fidx (fs : list (pystr * fkind)) (k : pystr) (i : nat) : option (nat * fkind) :=
  match fs with
  | [] => None
  | (k', fk) :: t => if pystr_eqb k' k then Some (i, fk) else fidx t k (S i)
  end.

Definition no_class : classdef := Class [] [].

(* the value v held by a field whose nested class is c (at path p), reached directly / through Array / Set *)
Fixpoint enc_ival (v : ival) (c : classdef) (p : list N) (kd : ckind) {struct v} : pyval :=
  match v with
  | IScal z => PNum (NInt z)
  | IList l =>
      let items := map (fun e => enc_ival e c p kd) l in
      match kd with KSet => PSet false items | _ => PList items end
  | IStruct x =>
      PStruct (cname p)
        ((fix go (x : list (pystr * ival)) : list (pystr * pyval) :=
            match x with
            | [] => []
            | (k, v') :: t =>
                (k, match fidx (cfields c) k 0 with
                    | Some (i, Some (kd', c')) => enc_ival v' c' (p ++ [N.of_nat i]) kd'
                    | _ => enc_ival v' no_class p KRef
                    end) :: go t
            end) x)
  end.

Definition enc_child (c : classdef) (p : list N) (kv : pystr * ival) : pystr * pyval :=
  (fst kv, match fidx (cfields c) (fst kv) 0 with
           | Some (i, Some (kd', c')) => enc_ival (snd kv) c' (p ++ [N.of_nat i]) kd'
           | _ => enc_ival (snd kv) no_class p KRef
           end).

Definition enc_struct (x : list (pystr * ival)) (c : classdef) (p : list N) : pyval :=
  PStruct (cname p) (map (enc_child c p) x).

Lemma enc_ival_struct x c p kd : enc_ival (IStruct x) c p kd = enc_struct x c p.
Proof.
  unfold enc_struct. cbn [enc_ival]. f_equal.
  induction x as [|[k v] t IH]; [reflexivity|]. cbn [map]. rewrite <- IH. reflexivity.
Qed.

Fixpoint enc_dval (v : dval) : pyval :=
  match v with
  | DScal z => PNum (NInt z)
  | DList l => PList (map enc_dval l)
  | DDict d =>
      PDict ((fix go (d : list (pystr * dval)) : list (pyval * pyval) :=
                match d with [] => [] | (k, y) :: t => (PStr k, enc_dval y) :: go t end) d)
  end.

Definition enc_ditems (d : list (pystr * dval)) : list (pyval * pyval) := map (fun q => (PStr (fst q), enc_dval (snd q))) d.

Lemma enc_dval_dict d : enc_dval (DDict d) = PDict (enc_ditems d).
Proof.
  unfold enc_ditems. cbn [enc_dval]. f_equal.
  induction d as [|[k y] t IH]; [reflexivity|]. cbn [map]. rewrite <- IH. reflexivity.
Qed.

Definition enc_dres (r : res dval) : res pyval := match r with Ok v => Ok (enc_dval v) | Raise e => Raise e end.

(* the mapper argument one level down: mapper.get("<field>._mapper", {}) *)
Definition enc_sub (sub : option mval) : pyval := match sub with Some v => MS.enc_mval v | None => PDict [] end.

Definition enc_override (o : option amap) : pyval := match o with Some d => MS.enc_amap d | None => PNone end.

(* ------------------------------------------------------------------ well-typed instances, admissible classes *)

(* v is a value of a field of kind fk: an int; an instance of the nested class; a list of such instances *)
Fixpoint vtyped (v : ival) (fk : fkind) {struct v} : bool :=
  match v, fk with
  | IScal _, None => true
  | IStruct x, Some (KRef, c) =>
      (fix go (x : list (pystr * ival)) : bool :=
         match x with
         | [] => true
         | (k, v') :: t => match fidx (cfields c) k 0 with Some (_, fk') => vtyped v' fk' | None => false end && go t
         end) x
  | IList l, Some (KArr, c) | IList l, Some (KSet, c) =>
      forallb (fun e => match e with IStruct _ => vtyped e (Some (KRef, c)) | _ => false end) l
  | _, _ => false
  end.

Definition styped (c : classdef) (x : list (pystr * ival)) : bool := vtyped (IStruct x) (Some (KRef, c)).

Lemma styped_cons c k v t :
  styped c ((k, v) :: t) = match fidx (cfields c) k 0 with Some (_, fk') => vtyped v fk' | None => false end && styped c t.
Proof. reflexivity. Qed.

(* field names: ASCII, public (no leading underscore), without dots; at every level *)
Definition fname_ok' (s : pystr) : bool :=
  PyOpsMappers.ascii_str s && public_name s && negb (existsb (N.eqb 46%N) s).

Fixpoint class_names_ok (c : classdef) : bool :=
  match c with
  | Class fields _ =>
      (fix go (fs : list (pystr * fkind)) : bool :=
         match fs with
         | [] => true
         | (k, fk) :: t => fname_ok' k && match fk with Some (_, c') => class_names_ok c' | None => true end && go t
         end) fields
  end.

(* the entries of the aggregated mapper for the populated attributes are keys or DoNotSerialize (what
   C07_agg_is_chain gives), at every level the serialization reaches *)
Definition entry_plain (am : amap) (k : pystr) : bool :=
  match alist_get am k with Some (Key _) | Some DoNot => true | _ => false end.

Fixpoint mapped_ok (sub : option mval) (v : ival) {struct v} : bool :=
  match v with
  | IScal _ => true
  | IList l => forallb (mapped_ok sub) l
  | IStruct x =>
      match sub with
      | Some (Sub am) =>
          (fix go (x : list (pystr * ival)) : bool :=
             match x with
             | [] => true
             | (k, v') :: t => entry_plain am k && mapped_ok (alist_get am (k ++ suffix)) v' && go t
             end) x
      | _ => true
      end
  end.

(* ------------------------------------------------------------------ small facts *)

Lemma cname_unknown p : class_known tbl (cname p) = false.
Proof.
  assert (H : forallb (fun row => match fst row with 37%N :: _ => false | _ => true end) tbl = true) by (vm_compute; reflexivity).
  unfold class_known, alist_has, cname. generalize dependent tbl. intro t.
  induction t as [|[k v] r IH]; intro H; [reflexivity|].
  cbn [forallb fst] in H. apply andb_true_iff in H as [Hk Hr]. cbn [alist_get].
  destruct (pystr_eqb k (37%N :: p)) eqn:E; [|apply IH, Hr].
  apply pystr_eqb_spec in E. subst k. discriminate Hk.
Qed.

Lemma class_at_snoc : forall p c c1 i k kd c',
    class_at c p = Some c1 -> nth_error (cfields c1) (N.to_nat i) = Some (k, Some (kd, c')) ->
    class_at c (p ++ [i]) = Some c'.
Proof.
  induction p as [|j q IH]; intros c c1 i k kd c' H Hn; cbn [class_at app] in *.
  - inversion H; subst. rewrite Hn. reflexivity.
  - destruct (nth_error (cfields c) (N.to_nat j)) as [[k0 [[kd0 c2]|]]|]; try discriminate. exact (IH _ _ _ _ _ _ H Hn).
Qed.

Lemma fidx_spec : forall fs k o,
    match fidx fs k o with
    | Some (i, fk) => (o <= i)%nat /\ nth_error fs (i - o) = Some (match nth_error fs (i - o) with Some (k', _) => k' | None => k end, fk) /\
                      exists k', nth_error fs (i - o) = Some (k', fk) /\ pystr_eqb k' k = true
    | None => True
    end.
Proof.
  induction fs as [|[k' fk] t IH]; intros k o; [exact I|].
  cbn [fidx]. destruct (pystr_eqb k' k) eqn:E.
  - split; [lia|]. rewrite Nat.sub_diag. cbn [nth_error]. split; [reflexivity|]. exists k'. split; [reflexivity|exact E].
  - specialize (IH k (S o)). destruct (fidx t k (S o)) as [[i fk']|]; [|exact I].
    destruct IH as (H1 & _ & (k2 & H3 & H4)). split; [lia|].
    replace (i - o)%nat with (S (i - S o)) by lia. cbn [nth_error]. rewrite H3. split; [reflexivity|].
    exists k2. split; [reflexivity|exact H4].
Qed.

Lemma fidx_nth fs k i fk : fidx fs k 0 = Some (i, fk) -> exists k', nth_error fs i = Some (k', fk) /\ k' = k.
Proof.
  intro H. pose proof (fidx_spec fs k 0) as S. rewrite H in S. destruct S as (_ & _ & (k' & Hn & E)).
  rewrite Nat.sub_0_r in Hn. exists k'. split; [exact Hn|apply pystr_eqb_spec, E].
Qed.

Lemma fields_kv_get' p : forall fs k o,
    dict_get (map (fun q => (PStr (fst (snd q)), fobj p (N.of_nat (fst q)))) (combine (seq o (length fs)) fs)) (PStr k) =
    match fidx fs k o with Some (i, _) => Some (fobj p (N.of_nat i)) | None => None end.
Proof.
  induction fs as [|[k' fk] t IH]; intros k o; [reflexivity|].
  cbn [length seq combine map dict_get fidx fst snd py_eq].
  destruct (pystr_eqb k' k); [reflexivity|]. apply IH.
Qed.

Lemma dict_set_denc acc k y : dict_set (enc_ditems acc) (PStr k) (enc_dval y) = enc_ditems (alist_set acc k y).
Proof.
  induction acc as [|[k' y'] t IH]; [reflexivity|].
  cbn [enc_ditems map fst snd dict_set alist_set py_eq].
  destruct (pystr_eqb k' k); cbn [map fst snd]; [reflexivity|]. f_equal. exact IH.
Qed.

(* the camel-case conversion of serialization.py is the model's [camel] on ASCII text *)
Lemma filterM_title ws :
  forallb PyOpsMappers.ascii_str ws = true ->
  filterM (fun w => t <- PyOpsMappers.m_str_title w ;; Ok (Some t)) (map PStr ws) = Ok (map PStr (map title ws)).
Proof.
  induction ws as [|w t IH]; intros H; [reflexivity|].
  cbn [forallb] in H. apply andb_true_iff in H as [Hw Ht].
  cbn [map filterM]. unfold PyOpsMappers.m_str_title at 1, PyOpsMappers.str_method. rewrite Hw. cbn [bind].
  rewrite (IH Ht). cbn [bind]. rewrite MS.ascii_title_eq. reflexivity.
Qed.

Lemma src_camel x s (flag : bool) :
  PyOpsMappers.ascii_str s = true ->
  src_convert_to_camel_case_if_required x (PStr s) (PBool flag) = Ok (PStr (if flag then camel s else s)).
Proof.
  intros Hs. unfold src_convert_to_camel_case_if_required. cbn [py_truthy bind]. destruct flag; [|reflexivity].
  unfold camel, split_on.
  change (PyOpsVersioned.py_str_split (PStr s) (PStr (s2p "_"))) with (Ok (PList (map PStr (PyOpsVersioned.split_char 95 s)))).
  cbn [bind]. unfold PyOpsVersioned.split_char. rewrite MS.split_char_eq.
  pose proof (MS.split_aux_ascii 95 s [] eq_refl Hs) as Hall.
  destruct (MS.split_aux_cons 95 s []) as [w [ws E]]. unfold us. rewrite E in *.
  cbn [forallb] in Hall. apply andb_true_iff in Hall as [_ Hws].
  cbn [map].
  change (py_subscript (PList (PStr w :: map PStr ws)) (zint 0)) with (Ok (PStr w)).
  cbn [bind PyOpsVersioned.py_slice PyOpsVersioned.slice_index zint].
  rewrite MS.slice_tail. cbn [bind py_iter].
  rewrite (filterM_title ws Hws). cbn [bind].
  unfold PyOpsMappers.m_str_join. rewrite PyOpsMappers.str_items_strs. cbn [bind]. rewrite MS.join_empty.
  reflexivity.
Qed.

Lemma items_refines (F : pyval -> res pyval) (G : ival -> res dval) (E : ival -> pyval) : forall l,
    (forall e, In e l -> refines (F (E e)) (enc_dres (G e))) ->
    refines (filterM (fun y => t <- F y ;; Ok (Some t)) (map E l))
            (match ser_items G l with Ok r => Ok (map enc_dval r) | Raise ex => Raise ex end).
Proof.
  induction l as [|e t IH]; intro H; [apply refines_refl|].
  cbn [map filterM ser_items].
  assert (He : refines (F (E e)) (enc_dres (G e))) by (apply H; left; reflexivity).
  assert (IHt := IH (fun e' He' => H e' (or_intror He'))). clear IH.
  destruct He as [He|[He|He]].
  - rewrite He. left; reflexivity.
  - destruct He as (x & Hx & Hm). destruct (G e) as [y|x']; cbn [enc_dres] in Hx; [discriminate|]. inversion Hx; subst x'.
    right; left. exists x. split; [reflexivity|exact Hm].
  - rewrite He. destruct (G e) as [y|x]; cbn [enc_dres bind]; [|apply refines_refl].
    destruct IHt as [IHt|[IHt|IHt]].
    + rewrite IHt. left; reflexivity.
    + destruct IHt as (x & Hx & Hm). destruct (ser_items G t) as [ys|x']; [discriminate|]. inversion Hx; subst x'.
      right; left. exists x. split; [reflexivity|exact Hm].
    + rewrite IHt. destruct (ser_items G t) as [ys|x]; cbn [bind map]; apply refines_refl.
Qed.

Lemma names_ok_fields c : class_names_ok c = true ->
  forall i k fk, nth_error (cfields c) i = Some (k, fk) ->
    fname_ok' k = true /\ match fk with Some (_, c') => class_names_ok c' = true | None => True end.
Proof.
  destruct c as [fields ms]. cbn [class_names_ok cfields]. intro H.
  induction fields as [|[k0 fk0] t IH]; intros i k fk Hn; [destruct i; discriminate|].
  apply andb_true_iff in H as [H Ht]. apply andb_true_iff in H as [Hk Hc].
  destruct i as [|i]; cbn [nth_error] in Hn.
  - inversion Hn; subst. split; [exact Hk|]. destruct fk as [[kd c']|]; [exact Hc|exact I].
  - exact (IH Ht i k fk Hn).
Qed.

Lemma names_ok_at : forall p c c1, class_names_ok c = true -> class_at c p = Some c1 -> class_names_ok c1 = true.
Proof.
  induction p as [|i q IH]; intros c c1 H Hc; cbn [class_at] in Hc; [inversion Hc; subst; exact H|].
  destruct (nth_error (cfields c) (N.to_nat i)) as [[k [[kd c2]|]]|] eqn:Hn; try discriminate.
  destruct (names_ok_fields c H _ _ _ Hn) as [_ H2]. exact (IH _ _ H2 Hc).
Qed.

(* the keys of a well-typed instance are field names: ASCII, public, without dots *)
Lemma styped_keys c x : class_names_ok c = true -> styped c x = true -> forall k v, In (k, v) x -> fname_ok' k = true.
Proof.
  intros Hc. induction x as [|[k0 v0] t IH]; intros H k v Hin; [destruct Hin|].
  rewrite styped_cons in H. apply andb_true_iff in H as [H0 Ht].
  destruct Hin as [E|Hin]; [inversion E; subst|exact (IH Ht k v Hin)].
  destruct (fidx (cfields c) k 0) as [[i fk]|] eqn:Hf; [|discriminate].
  destruct (fidx_nth _ _ _ _ Hf) as (k' & Hn & ->). exact (proj1 (names_ok_fields c Hc _ _ _ Hn)).
Qed.

Lemma alist_get_enc_child c p x a :
  alist_get (map (enc_child c p) x) a = match alist_get x a with Some v => Some (snd (enc_child c p (a, v))) | None => None end.
Proof.
  induction x as [|[k v] t IH]; [reflexivity|]. cbn [map alist_get enc_child fst snd].
  destruct (pystr_eqb k a) eqn:E; [apply pystr_eqb_spec in E; subst; reflexivity|exact IH].
Qed.

Lemma alist_get_absent {A} (x : list (pystr * A)) a : (forall k v, In (k, v) x -> k <> a) -> alist_get x a = None.
Proof.
  induction x as [|[k v] t IH]; intro H; [reflexivity|]. cbn [alist_get].
  destruct (pystr_eqb k a) eqn:E; [apply pystr_eqb_spec in E; exfalso; exact (H k v (or_introl eq_refl) E)|].
  apply IH. intros k' v' Hin. apply (H k' v'). right; exact Hin.
Qed.

(* ------------------------------------------------------------------ the bridge *)

Section MBridge.
  Variable c0 : classdef.
  Variable agg : pyval -> pyval -> pyval -> res pyval.
  Variable repr : pyval -> pystr.
  Variable flag : bool.                     (* camel_case_convert *)

  Notation W := (map_world c0 agg repr).
  Notation FL := (PBool flag).

  Opaque sv_isinstance.

  Lemma m_isinst_iref a cls ks :
    mw_icls c0 a = Some cls -> class_known tbl cls = true ->
    sv_isinstance tbl W (iref a) ks = Ok (class_in tbl cls ks).
  Proof.
    Transparent sv_isinstance. intros H Hk. unfold sv_isinstance, iref. rewrite tag_inst_inst. cbn [w_icls map_world].
    rewrite H, Hk. reflexivity. Opaque sv_isinstance.
  Qed.

  Lemma m_isinst_plain v ks :
    plain_data v = true -> pure_classes tbl ks = true -> sv_isinstance tbl W v ks = Ok false.
  Proof. Transparent sv_isinstance. intros Hv Hk. destruct v; try discriminate Hv; cbn [sv_isinstance]; rewrite Hk; reflexivity. Opaque sv_isinstance. Qed.

  Lemma isinst_clsobj' n ks :
    sv_isinstance tbl W (ref n) ks = if pure_classes tbl ks then Ok false else Raise Unmodelled.
  Proof. Transparent sv_isinstance. reflexivity. Opaque sv_isinstance. Qed.

  Lemma m_isinst_struct p c a ks :
    class_at c0 p = Some c -> sv_isinstance tbl W (PStruct (cname p) a) ks = Ok (existsb (fun k => str_in k [cname p; s2p "Structure"]) ks).
  Proof.
    Transparent sv_isinstance. intro H. cbn [sv_isinstance w_anc map_world]. unfold mw_anc. cbn [name_path cname]. rewrite H. reflexivity.
    Opaque sv_isinstance.
  Qed.

  Lemma m_getattr_iref a attr :
    mw_icls c0 a <> None ->
    sv_getattr W (iref a) attr = match mw_iattr c0 a attr with Some v => Ok v | None => Raise AttributeError end.
  Proof.
    intro H. unfold sv_getattr, sv_lookup, iref. rewrite tag_inst_ref, tag_inst_inst. cbn [w_icls w_iattr map_world].
    destruct (mw_icls c0 a); [reflexivity|contradiction].
  Qed.

  Lemma m_getattr_def_iref a attr d :
    mw_icls c0 a <> None ->
    sv_getattr_def W (iref a) attr d = Ok (match mw_iattr c0 a attr with Some v => v | None => d end).
  Proof.
    intro H. unfold sv_getattr_def, sv_lookup, iref. rewrite tag_inst_ref, tag_inst_inst. cbn [w_icls w_iattr map_world].
    destruct (mw_icls c0 a); [reflexivity|contradiction].
  Qed.

  Definition PFm : pyval := PBool false.

  (* what the body lemmas assume of the record of recursive calls *)
  Record RM_ok (R : sv_recs) : Prop := {
    mk_val : forall p i k fk v sub nm,
        field_of c0 p i = Some (k, fk) -> vtyped v fk = true -> mapped_ok sub v = true ->
        refines (r_serialize_val R (fobj p i) nm
                   (match fk with Some (kd, c') => enc_ival v c' (p ++ [i]) kd | None => enc_ival v no_class p KRef end)
                   (enc_sub sub) FL PNone)
                (enc_dres (ser_val sub v));
    mk_item : forall p i k kd c' x sub nm,
        field_of c0 p i = Some (k, Some (kd, c')) -> kd <> KRef -> styped c' x = true -> mapped_ok sub (IStruct x) = true ->
        refines (r_serialize_val R (iobj p i) nm (enc_struct x c' (p ++ [i])) (enc_sub sub) FL PNone)
                (enc_dres (ser_val sub (IStruct x)));
    mk_int : forall p c x sub,
        class_at c0 p = Some c -> styped c x = true -> mapped_ok sub (IStruct x) = true ->
        refines (r_serialize_internal R (enc_struct x c p) PNone (enc_sub sub) PFm FL)
                (enc_dres (ser_val sub (IStruct x))) }.

  Hypothesis Hnames : class_names_ok c0 = true.

  Ltac m_plain :=
    cbn [bind py_or py_and py_not py_is_none py_isinstance existsb isinstance1 orb andb negb
         py_in_dyn py_hashable' dict_has dict_get py_iter py_try py_json_roundtrip].

  Section MBodies.
    Variable R : sv_recs.
    Hypothesis HR : RM_ok R.

    (* ---- serialize_val on a ClassReference (the field itself, or the items of an Array / Set) and an instance *)
    Lemma mval_ref a p i c' x sub nm :
      mw_icls c0 a = Some (s2p "ClassReference") ->
      mw_iattr c0 a (s2p "get_type") = Some (ref (cname (p ++ [i]))) ->
      class_at c0 (p ++ [i]) = Some c' -> styped c' x = true -> mapped_ok sub (IStruct x) = true ->
      refines (src_serialize_val W R (iref a) nm (enc_struct x c' (p ++ [i])) (enc_sub sub) FL PNone)
              (enc_dres (ser_val sub (IStruct x))).
    Proof.
      intros Hc Hg Hcl Hx Hm.
      unfold src_serialize_val. cbn [bind py_is_none iref py_in_dyn py_hashable' dict_has dict_get].
      fold (iref a). rewrite !(m_isinst_iref a _ _ Hc) by (vm_compute; reflexivity).
      eval_cls. unfold enc_struct. m_plain.
      rewrite !(m_isinst_struct _ _ _ _ Hcl). cbn [existsb str_in].
      rewrite pystr_eqb_refl, !orb_true_r. cbn [py_or bind].
      assert (Hne : mw_icls c0 a <> None) by (rewrite Hc; discriminate).
      rewrite !(m_getattr_iref _ _ Hne), Hg. cbn [bind].
      assert (Hdyn : sv_isinstance_dyn tbl W (PStruct (cname (p ++ [i])) (map (enc_child c' (p ++ [i])) x)) (ref (cname (p ++ [i]))) = Ok true).
      { unfold sv_isinstance_dyn, ref. rewrite tag_ref_ref, cname_unknown. cbn [w_anc map_world]. unfold mw_anc. cbn [name_path cname].
        fold (cname (p ++ [i])). rewrite Hcl. cbn [str_in existsb]. rewrite pystr_eqb_refl. reflexivity. }
      rewrite Hdyn. cbn [py_and bind sv_class_of]. rewrite sv_is_refs, pystr_eqb_refl. cbn [py_not bind negb].
      apply refines_ret. fold (enc_struct x c' (p ++ [i])). exact (mk_int R HR _ _ _ _ Hcl Hx Hm).
    Qed.

    (* ---- serialize_val on an Array / Set of instances *)
    Lemma mval_coll p i k kd c' l sub nm :
      field_of c0 p i = Some (k, Some (kd, c')) -> kd <> KRef ->
      vtyped (IList l) (Some (kd, c')) = true -> mapped_ok sub (IList l) = true ->
      refines (src_serialize_val W R (fobj p i) nm (enc_ival (IList l) c' (p ++ [i]) kd) (enc_sub sub) FL PNone)
              (enc_dres (ser_val sub (IList l))).
    Proof.
      intros Hf Hkd Hv Hm.
      assert (Hcls : mw_icls c0 (0%N :: i :: p) = Some (fclass (Some (kd, c')))) by (cbn [mw_icls]; rewrite Hf; reflexivity).
      assert (Hicls : mw_icls c0 (1%N :: i :: p) = Some (s2p "ClassReference")).
      { cbn [mw_icls]. rewrite Hf. destruct kd; [contradiction| |]; reflexivity. }
      assert (Hne : mw_icls c0 (0%N :: i :: p) <> None) by (rewrite Hcls; discriminate).
      assert (Hitems : mw_iattr c0 (0%N :: i :: p) (s2p "items") = Some (iobj p i)).
      { cbn [mw_iattr]. rewrite Hf. destruct kd; [contradiction| |]; reflexivity. }
      assert (Hel : forall e, In e l -> exists x, e = IStruct x /\ styped c' x = true /\ mapped_ok sub (IStruct x) = true).
      { intros e He. cbn [mapped_ok] in Hm. rewrite forallb_forall in Hm. specialize (Hm _ He).
        assert (Ht : (match e with IStruct _ => vtyped e (Some (KRef, c')) | _ => false end) = true).
        { destruct kd; [contradiction| |]; cbn [vtyped] in Hv; rewrite forallb_forall in Hv; exact (Hv _ He). }
        destruct e as [z|x|l']; try discriminate Ht. exists x. repeat split; assumption. }
      cbn [ser_val].
      replace (enc_dres (r <- ser_items (fun x => ser_val sub x) l ;; Ok (DList r)))
        with (r <- (match ser_items (fun x => ser_val sub x) l with Ok r => Ok (map enc_dval r) | Raise ex => Raise ex end) ;; Ok (PList r))
        by (destruct (ser_items (fun x => ser_val sub x) l); reflexivity).
      unfold src_serialize_val, fobj. cbn [bind py_is_none iref py_in_dyn py_hashable' dict_has dict_get].
      fold (iref (0%N :: i :: p)). rewrite !(m_isinst_iref _ _ _ Hcls) by (destruct kd; vm_compute; reflexivity).
      rewrite !(m_getattr_iref _ _ Hne), !(m_getattr_def_iref _ _ _ Hne), Hitems.
      destruct kd; [contradiction| |]; cbn [fclass enc_ival]; eval_cls; m_plain.
      all: fold (iobj p i); unfold iobj at 2 3; rewrite !(m_isinst_iref _ _ _ Hicls) by (vm_compute; reflexivity); eval_cls; cbn [bind].
      all: apply refines_bind; [|intros; apply refines_refl].
      all: apply (items_refines (fun y => r_serialize_val R (iobj p i) nm y (enc_sub sub) FL PNone) (fun x => ser_val sub x)).
      all: intros e He; destruct (Hel e He) as (x & -> & Hx & Hmx); rewrite enc_ival_struct.
      all: exact (mk_item R HR p i k _ c' x sub nm Hf Hkd Hx Hmx).
    Qed.

    (* ---- serialize_val, the four kinds of field *)
    Theorem mval_body p i k fk v sub nm :
      field_of c0 p i = Some (k, fk) -> vtyped v fk = true -> mapped_ok sub v = true ->
      refines (src_serialize_val W R (fobj p i) nm
                 (match fk with Some (kd, c') => enc_ival v c' (p ++ [i]) kd | None => enc_ival v no_class p KRef end)
                 (enc_sub sub) FL PNone)
              (enc_dres (ser_val sub v)).
    Proof.
      intros Hf Hv Hm.
      assert (Hcls : mw_icls c0 (0%N :: i :: p) = Some (fclass fk)) by (cbn [mw_icls]; rewrite Hf; reflexivity).
      destruct fk as [[kd c']|].
      - assert (Hcl : class_at c0 (p ++ [i]) = Some c').
        { unfold field_of in Hf. destruct (class_at c0 p) as [c1|] eqn:Hc1; [|discriminate].
          exact (class_at_snoc _ _ _ _ _ _ _ Hc1 Hf). }
        destruct kd.
        + (* ClassReference *)
          destruct v as [z|x|l]; try discriminate Hv. rewrite enc_ival_struct.
          apply (mval_ref (0%N :: i :: p) p i c' x sub nm); try assumption.
          cbn [mw_iattr]. rewrite Hf. reflexivity.
        + (* Array of instances *)
          destruct v as [z|x|l]; try discriminate Hv. apply (mval_coll p i k KArr c' l sub nm); try assumption; discriminate.
        + destruct v as [z|x|l]; try discriminate Hv. apply (mval_coll p i k KSet c' l sub nm); try assumption; discriminate.
      - (* a plain field: an Integer *)
        destruct v as [z|x|l]; try discriminate Hv. cbn [enc_ival ser_val enc_dres enc_dval].
        unfold src_serialize_val, fobj. cbn [bind py_is_none iref py_in_dyn py_hashable' dict_has dict_get].
        fold (iref (0%N :: i :: p)). rewrite !(m_isinst_iref _ _ _ Hcls) by (vm_compute; reflexivity).
        cbn [fclass]. eval_cls. m_plain. apply refines_refl.
    Qed.

    (* ---- serialize_internal with a resolved mapper *)
    Section OneStruct.
      Variables (p : list N) (c : classdef) (x : list (pystr * ival)).
      Hypothesis Hcl : class_at c0 p = Some c.
      Hypothesis Hx : styped c x = true.

      Lemma Hcnames : class_names_ok c = true.
      Proof. exact (names_ok_at _ _ _ Hnames Hcl). Qed.

      Lemma key_ok' k v : In (k, v) x -> fname_ok' k = true.
      Proof. exact (styped_keys c x Hcnames Hx k v). Qed.

      Notation SV := (enc_struct x c p).

      (* a private attribute: the instance does not have it *)
      Lemma m_private_attr a dflt :
        public_name a = false -> pystr_eqb a str_dict = false -> sv_getattr_def W SV a dflt = Ok dflt.
      Proof.
        intros Hpub Hdd. unfold sv_getattr_def, sv_lookup, enc_struct. cbn [w_anc map_world]. unfold mw_anc. cbn [name_path cname].
        rewrite Hcl, Hdd. rewrite alist_get_enc_child.
        rewrite (alist_get_absent x a); [reflexivity|].
        intros k v Hin E. subst k. pose proof (key_ok' _ _ Hin) as H. unfold fname_ok' in H.
        apply andb_true_iff in H as [H _]. apply andb_true_iff in H as [_ H]. congruence.
      Qed.

      Lemma m_strip : strip (map (enc_child c p) x) = map (enc_child c p) x.
      Proof.
        unfold strip. assert (H : forall k v, In (k, v) x -> fname_ok' k = true) by exact key_ok'.
        clear Hx. induction x as [|[k v] t IH]; [reflexivity|]. cbn [map filter enc_child fst].
        pose proof (H k v (or_introl eq_refl)) as Hk. unfold fname_ok' in Hk.
        apply andb_true_iff in Hk as [Hk _]. apply andb_true_iff in Hk as [_ Hk].
        rewrite (public_not_internal _ Hk). cbn [negb]. f_equal. apply IH. intros k' v' Hin. apply (H k' v'). right; exact Hin.
      Qed.

      Lemma m_cattr_fields : sv_getattr W (ref (cname p)) (s2p "get_all_fields_by_name()") = Ok (PDict (fields_kv' p (cfields c))).
      Proof.
        unfold sv_getattr, sv_lookup, ref. rewrite tag_ref_ref. cbn [w_cattr map_world bind]. unfold mw_cattr. cbn [name_path cname].
        rewrite Hcl. reflexivity.
      Qed.

      Lemma m_cattr_dict : sv_getattr W (ref (cname p)) str_dict = Ok cls_dict.
      Proof.
        unfold sv_getattr, sv_lookup, ref. rewrite tag_ref_ref. cbn [w_cattr map_world bind]. unfold mw_cattr. cbn [name_path cname].
        rewrite Hcl. reflexivity.
      Qed.

      Lemma m_inst_dict : sv_getattr W SV str_dict = Ok (PDict (dict_of_attrs (map (enc_child c p) x))).
      Proof.
        unfold sv_getattr, sv_lookup, enc_struct. cbn [w_anc map_world]. unfold mw_anc. cbn [name_path cname].
        rewrite Hcl, pystr_eqb_refl. reflexivity.
      Qed.

      Lemma m_isinst_SV ks : sv_isinstance tbl W SV ks = Ok (existsb (fun k => str_in k [cname p; s2p "Structure"]) ks).
      Proof. unfold enc_struct. exact (m_isinst_struct _ _ _ _ Hcl). Qed.

      Section Loop.
        Variables (am : amap) (im : pyval) (K : pyval -> res pyval).
        Hypothesis HK : forall d, K (PDict d) = Ok (PDict d).

        Notation LOOP := (src_serialize_internal_loop2 W R SV (MS.enc_amap am) FL (PDict (fields_kv' p (cfields c))) im K).

        Lemma enc_not_none v c' q kd : py_is_none (enc_ival v c' q kd) = false.
        Proof. destruct v, kd; reflexivity. Qed.

        Lemma mloop : forall l acc,
            (forall k v, In (k, v) l -> In (k, v) x) ->
            mapped_ok (Some (Sub am)) (IStruct l) = true ->
            refines (LOOP (map tupS (map (enc_child c p) l)) (PDict (enc_ditems acc)))
                    (enc_dres (r <- ser_loop (fun sub' v' => ser_val sub' v') am l acc ;; Ok (DDict r))).
        Proof.
          induction l as [|[k v] t IH]; intros acc Hin Hm.
          - cbn [map src_serialize_internal_loop2 ser_loop bind enc_dres]. rewrite HK, enc_dval_dict. apply refines_refl.
          - cbn [map src_serialize_internal_loop2 tupS enc_child fst snd py_unpack2 bind].
            assert (Hkx : In (k, v) x) by (apply Hin; left; reflexivity).
            pose proof (key_ok' _ _ Hkx) as Hk. unfold fname_ok' in Hk. apply andb_true_iff in Hk as [Hk Hnd].
            apply andb_true_iff in Hk as [Hasc Hpub].
            assert (Hm' := Hm). cbn [mapped_ok] in Hm'. apply andb_true_iff in Hm' as [Hm1 Hmt].
            apply andb_true_iff in Hm1 as [Hent Hmv].
            assert (IHt : forall acc', refines (LOOP (map tupS (map (enc_child c p) t)) (PDict (enc_ditems acc')))
                                               (enc_dres (r <- ser_loop (fun sub' v' => ser_val sub' v') am t acc' ;; Ok (DDict r)))).
            { intro acc'. apply IH; [intros k' v' H'; apply Hin; right; exact H'|exact Hmt]. }
            (* the field of k *)
            assert (Hfx : exists i fk, fidx (cfields c) k 0 = Some (i, fk) /\ vtyped v fk = true).
            { clear -Hx Hkx. induction x as [|[k0 v0] t0 IHx]; [destruct Hkx|].
              rewrite styped_cons in Hx. apply andb_true_iff in Hx as [H0 Ht].
              destruct Hkx as [E|Hkx]; [inversion E; subst|exact (IHx Ht Hkx)].
              destruct (fidx (cfields c) k 0) as [[i fk]|]; [|discriminate]. exists i, fk. split; [reflexivity|exact H0]. }
            destruct Hfx as (i & fk & Hfi & Hvt).
            destruct (fidx_nth _ _ _ _ Hfi) as (k' & Hnth & ->).
            assert (Hfo : field_of c0 p (N.of_nat i) = Some (k, fk)) by (unfold field_of; rewrite Hcl, Nat2N.id; exact Hnth).
            rewrite Hfi.
            set (EV := match fk with Some (kd', c') => enc_ival v c' (p ++ [N.of_nat i]) kd' | None => enc_ival v no_class p KRef end).
            assert (Hnn : py_is_none EV = false) by (unfold EV; destruct fk as [[kd' c']|]; apply enc_not_none).
            rewrite Hnn. cbn [py_and bind].
            unfold src_get_mapped_value.
            unfold MS.enc_amap at 1 2 3 4 5. cbn [py_in_dyn py_hashable' py_subscript py_dict_getitem]. unfold dict_has.
            rewrite !MS.dict_get_enc. rewrite (src_camel W k flag Hasc).
            cbn [ser_loop ser_step].
            unfold entry_plain in Hent.
            destruct (alist_get am k) as [[s| |sm]|] eqn:Hak; try discriminate Hent; cbn [option_map MS.enc_mval bind py_and py_isinstance existsb isinstance1 orb sv_class_of].
            + (* a key *)
              replace (sv_is (bref (s2p "str")) (bref (s2p "str"))) with (@Ok bool true) by reflexivity.
              cbn [bind]. rewrite sv_is_none_ref. cbn [py_not bind negb py_truthy py_or_val py_format py_dict_get py_hashable'].
              unfold fields_kv'. rewrite fields_kv_get', Hfi. cbn [bind].
              rewrite app_nil_r. change (s2p "._mapper") with suffix.
              unfold MS.enc_amap at 1. cbn [py_dict_get py_hashable']. rewrite MS.dict_get_enc. cbn [bind].
              change (match option_map MS.enc_mval (alist_get am (k ++ suffix)) with Some v0 => v0 | None => PDict [] end)
                with (match option_map MS.enc_mval (alist_get am (k ++ suffix)) with Some v0 => v0 | None => PDict [] end).
              replace (match option_map MS.enc_mval (alist_get am (k ++ suffix)) with Some v0 => v0 | None => PDict [] end)
                with (enc_sub (alist_get am (k ++ suffix))) by (destruct (alist_get am (k ++ suffix)); reflexivity).
              pose proof (mk_val R HR p (N.of_nat i) k fk v (alist_get am (k ++ suffix)) (PStr k) Hfo Hvt Hmv) as Hv.
              fold EV in Hv. fold (fobj p (N.of_nat i)).
              destruct Hv as [Hv|[Hv|Hv]].
              * rewrite Hv. left; reflexivity.
              * destruct Hv as (e & He & Hme). destruct (ser_val (alist_get am (k ++ suffix)) v) as [y|e']; [discriminate|].
                inversion He; subst e'. cbn [bind enc_dres]. right; left. exists e. split; [reflexivity|exact Hme].
              * rewrite Hv. destruct (ser_val (alist_get am (k ++ suffix)) v) as [y|e']; cbn [enc_dres bind]; [|apply refines_refl].
                cbn [PyOpsDerive.py_setitem py_hashable' bind]. rewrite dict_set_denc. apply IHt.
            + (* DoNotSerialize *)
              unfold MS.donot_obj. unfold ref at 1 2 3. cbn [orb bind sv_class_of]. rewrite tag_ref_inst, tag_ref_ref. cbn [orb bind].
              fold (ref (s2p "DoNotSerialize")).
              replace (sv_is (POther meta_tag (s2p "DoNotSerialize")) (bref (s2p "str"))) with (@Ok bool false) by reflexivity.
              cbn [bind]. rewrite isinst_clsobj'. eval_cls. cbn [bind]. rewrite sv_is_refs, pystr_eqb_refl. cbn [bind py_not negb]. apply IHt.
        Qed.
      End Loop.

      Lemma mint_body m rm (compact : bool) am0 amt :
        (if py_truthy rm then Ok rm
         else (t9 <- sv_class_of W SV ;; t8 <- sv_ext W (s2p "aggregate_serialization_mappers") [t9; m; FL] ;; Ok t8))
        = Ok (MS.enc_amap (am0 :: amt)) ->
        mapped_ok (Some (Sub (am0 :: amt))) (IStruct x) = true ->
        refines (src_serialize_internal W R SV m rm (PBool compact) FL)
                (enc_dres (ser_val (Some (Sub (am0 :: amt))) (IStruct x))).
      Proof.
        intros Hmap Hm. revert Hmap.
        set (am := am0 :: amt) in *. intro Hmap.
        unfold src_serialize_internal. unfold enc_struct at 1. cbn [sv_class_of bind]. fold SV.
        assert (Hsub : forall ks, sv_issubclass tbl W (ref (cname p)) ks = Ok (existsb (fun k => str_in k [cname p; s2p "Structure"]) ks)).
        { intro ks. unfold sv_issubclass, ref. rewrite tag_ref_ref, cname_unknown. cbn [w_anc map_world]. unfold mw_anc.
          cbn [name_path cname]. rewrite Hcl. reflexivity. }
        rewrite !Hsub. cbn [existsb str_in orb]. change (pystr_eqb (s2p "FastSerializable") (cname p)) with false.
        change (pystr_eqb (s2p "FastSerializable") (s2p "Structure")) with false. cbn [orb py_and bind].
        rewrite pystr_eqb_refl, !orb_true_r. cbn [bind orb].
        rewrite m_cattr_fields. cbn [bind].
        rewrite m_isinst_SV. cbn [existsb str_in]. rewrite pystr_eqb_refl, !orb_true_r. cbn [orb bind].
        rewrite Hmap. cbn [bind]. change (py_is_none (MS.enc_amap am)) with false. cbv iota. cbn [bind].
        replace (sv_getattr_def W (ref (s2p "Generator")) (s2p "_ty") PNone) with (@Ok pyval (bref (s2p "generator"))) by reflexivity.
        cbn [bind]. replace (sv_isinstance_dyn tbl W SV (bref (s2p "generator"))) with (@Ok bool false) by reflexivity.
        cbn [bind]. rewrite m_private_attr by reflexivity. cbn [bind py_iter filterM].
        change (py_isinstance SV [K_dict]) with false. cbv iota. change (s2p "__dict__") with str_dict.
        rewrite m_inst_dict. cbn [bind py_dict_items]. rewrite skip_list_items, m_strip. cbn [bind py_add]. rewrite app_nil_r.
        unfold enc_struct at 1. cbn [sv_class_of bind]. rewrite m_cattr_dict. cbn [bind py_keys_val py_dict_keys py_dict_items py_list_of py_iter].
        replace (sv_getattr W (ref (s2p "TypedPyDefaults")) (s2p "additional_properties_default")) with (@Ok pyval (PBool true)) by reflexivity.
        cbn [bind]. change (py_dict_get cls_dict (PStr (s2p "_additional_properties")) (PBool true)) with (@Ok pyval (PBool true)).
        cbn [bind py_len]. rewrite len_is_1.
        change (py_dict_get cls_dict (PStr (s2p "_required")) (PList (map fst (fields_kv' p (cfields c))))) with (@Ok pyval (PList [])).
        cbn [bind py_eqv py_is_false].
        assert (Hcond : forall b1 b2 : bool, py_and (Ok b1) (fun _ => py_and (Ok b2) (fun _ => Ok false)) = Ok false) by (intros [] []; reflexivity).
        unfold py_eqv. unfold fields_kv' at 1. rewrite !map_length, combine_length, seq_length, Nat.min_id. rewrite Hcond. cbn [bind].
        change (py_or_val (Ok (MS.enc_amap am)) (fun _ => Ok (PDict []))) with (@Ok pyval (MS.enc_amap am)). cbn [bind py_dict_of_val].
        change (map (fun p0 : pystr * pyval => PTuple [PStr (fst p0); snd p0]) (map (enc_child c p) x)) with (map tupS (map (enc_child c p) x)).
        assert (HL : map tupS (map (enc_child c p) x) = map tup (map (fun q => (PStr (fst q), snd q)) (map (enc_child c p) x))).
        { rewrite !map_map. reflexivity. }
        rewrite HL at 1. rewrite unpack_all_tups. cbn [bind]. unfold py_dict_of.
        destruct (dict_build_ok (map (fun q => (PStr (fst q), snd q)) (map (enc_child c p) x)) []) as [im Him].
        { intros q Hq. apply in_map_iff in Hq as (q' & <- & _). reflexivity. }
        rewrite Him. subst am. cbn [bind ser_val].
        refine (mloop (am0 :: amt) (PDict im) _ _ x [] (fun k v H => H) Hm).
        intro d. rewrite m_private_attr by reflexivity. reflexivity.
      Qed.

      (* the aggregation of the mappers raises: so does serialize_internal *)
      Lemma mint_raise m rm (compact : bool) e :
        (if py_truthy rm then Ok rm
         else (t9 <- sv_class_of W SV ;; t8 <- sv_ext W (s2p "aggregate_serialization_mappers") [t9; m; FL] ;; Ok t8))
        = Raise e ->
        src_serialize_internal W R SV m rm (PBool compact) FL = Raise e.
      Proof.
        intro Hmap. unfold src_serialize_internal. unfold enc_struct at 1. cbn [sv_class_of bind]. fold SV.
        assert (Hsub : forall ks, sv_issubclass tbl W (ref (cname p)) ks = Ok (existsb (fun k => str_in k [cname p; s2p "Structure"]) ks)).
        { intro ks. unfold sv_issubclass, ref. rewrite tag_ref_ref, cname_unknown. cbn [w_anc map_world]. unfold mw_anc.
          cbn [name_path cname]. rewrite Hcl. reflexivity. }
        rewrite !Hsub. cbn [existsb str_in orb]. change (pystr_eqb (s2p "FastSerializable") (cname p)) with false.
        change (pystr_eqb (s2p "FastSerializable") (s2p "Structure")) with false. cbn [orb py_and bind].
        rewrite pystr_eqb_refl, !orb_true_r. cbn [bind orb].
        rewrite m_cattr_fields. cbn [bind].
        rewrite m_isinst_SV. cbn [existsb str_in]. rewrite pystr_eqb_refl, !orb_true_r. cbn [orb bind].
        rewrite Hmap. reflexivity.
      Qed.
    End OneStruct.

    Theorem mint_full p c x sub :
      class_at c0 p = Some c -> styped c x = true -> mapped_ok sub (IStruct x) = true ->
      refines (src_serialize_internal W R (enc_struct x c p) PNone (enc_sub sub) PFm FL)
              (enc_dres (ser_val sub (IStruct x))).
    Proof.
      intros Hcl Hx Hm. destruct sub as [[s| |[|am0 amt]]|]; cbn [ser_val enc_dres]; try apply refines_unm.
      cbn [enc_sub]. rewrite MS.enc_mval_sub. apply (mint_body p c x Hcl Hx PNone (MS.enc_amap (am0 :: amt)) false am0 amt); [reflexivity|exact Hm].
    Qed.

    Theorem mitem_body p i k kd c' x sub nm :
      field_of c0 p i = Some (k, Some (kd, c')) -> kd <> KRef -> styped c' x = true -> mapped_ok sub (IStruct x) = true ->
      refines (src_serialize_val W R (iobj p i) nm (enc_struct x c' (p ++ [i])) (enc_sub sub) FL PNone)
              (enc_dres (ser_val sub (IStruct x))).
    Proof.
      intros Hf Hkd Hx Hm.
      assert (Hcl : class_at c0 (p ++ [i]) = Some c').
      { unfold field_of in Hf. destruct (class_at c0 p) as [c1|] eqn:Hc1; [|discriminate].
        exact (class_at_snoc _ _ _ _ _ _ _ Hc1 Hf). }
      apply (mval_ref (1%N :: i :: p) p i c' x sub nm); try assumption.
      - cbn [mw_icls]. rewrite Hf. destruct kd; [contradiction| |]; reflexivity.
      - cbn [mw_iattr]. rewrite Hf. destruct kd; [contradiction| |]; reflexivity.
    Qed.
  End MBodies.

  (* ---------------------------------------------------------------- the recursion *)

  Theorem mknot_ok : forall k, RM_ok (src_knot k W).
  Proof.
    induction k as [|k IH].
    - constructor; intros; cbn [src_knot r_serialize_val r_serialize_internal]; apply refines_oof.
    - constructor; cbn [src_knot r_serialize_val r_serialize_internal].
      + intros p i k0 fk v sub nm Hf Hv Hm. exact (mval_body _ IH p i k0 fk v sub nm Hf Hv Hm).
      + intros p i k0 kd c' x sub nm Hf Hkd Hx Hm. exact (mitem_body _ IH p i k0 kd c' x sub nm Hf Hkd Hx Hm).
      + intros p c x sub Hcl Hx Hm. exact (mint_full _ IH p c x sub Hcl Hx Hm).
  Qed.

  (* ---------------------------------------------------------------- serialize(x, mapper=override, compact=.., camel_case_convert=flag) *)

  Variable override : option amap.
  Hypothesis Hagg : agg (ref (cname [])) (enc_override override) FL = MS.enc_res (aggregate true c0 override flag).

  Theorem src_serialize_mapped : forall k x (compact : pyval),
      compact = PNone \/ (exists b, compact = PBool b) ->
      styped c0 x = true ->
      (forall am, aggregate true c0 override flag = Ok am -> mapped_ok (Some (Sub am)) (IStruct x) = true) ->
      refines (r_serialize (src_knot k W) (enc_struct x c0 []) (enc_override override) compact FL)
              (enc_dres (Mappers.serialize c0 override flag x)).
  Proof.
    intros k x compact Hc Hx Hm.
    destruct k as [|k]; [apply refines_oof|]. cbn [src_knot r_serialize].
    assert (Hcl : class_at c0 [] = Some c0) by reflexivity.
    assert (Hstep : src_serialize W (src_knot k W) (enc_struct x c0 []) (enc_override override) compact FL =
                    (t <- r_serialize_internal (src_knot k W) (enc_struct x c0 []) (enc_override override) PNone
                            (match compact with PNone => PBool false | _ => compact end) FL ;; Ok t)).
    { unfold src_serialize. destruct Hc as [->|[b ->]]; cbn [py_is_none bind].
      - replace (sv_getattr W (ref (s2p "TypedPyDefaults")) (s2p "compact_serialization_default")) with (@Ok pyval (PBool false)) by reflexivity.
        cbn [bind]. unfold enc_struct. rewrite (m_isinst_struct _ _ _ _ Hcl). cbn [existsb str_in]. rewrite pystr_eqb_refl, !orb_true_r.
        cbn [orb py_not bind negb]. reflexivity.
      - unfold enc_struct. rewrite (m_isinst_struct _ _ _ _ Hcl). cbn [existsb str_in]. rewrite pystr_eqb_refl, !orb_true_r.
        cbn [orb py_not bind negb]. reflexivity. }
    rewrite Hstep. apply refines_ret.
    destruct k as [|k]; [apply refines_oof|]. cbn [src_knot r_serialize_internal].
    assert (Hcb : exists cb : bool, (match compact with PNone => PBool false | _ => compact end) = PBool cb)
      by (destruct Hc as [->|[b ->]]; eexists; reflexivity).
    destruct Hcb as [cb ->].
    assert (Hmapper : (if py_truthy PNone then Ok PNone
                       else (t9 <- sv_class_of W (enc_struct x c0 []) ;;
                             t8 <- sv_ext W (s2p "aggregate_serialization_mappers") [t9; enc_override override; FL] ;; Ok t8))
                      = MS.enc_res (aggregate true c0 override flag)).
    { cbn [py_truthy sv_class_of enc_struct bind]. unfold sv_ext. cbn [w_ext map_world]. unfold mw_ext. rewrite pystr_eqb_refl.
      change (cname []) with (cname []). rewrite Hagg. destruct (aggregate true c0 override flag); reflexivity. }
    unfold Mappers.serialize.
    destruct (aggregate true c0 override flag) as [[|am0 amt]|e] eqn:Hag; cbn [bind MS.enc_res] in *.
    - cbn [ser_val enc_dres]. apply refines_unm.
    - apply (mint_body (src_knot k W) (mknot_ok k) [] c0 x Hcl Hx (enc_override override) PNone cb am0 amt Hmapper).
      exact (Hm _ eq_refl).
    - rewrite (mint_raise (src_knot k W) [] c0 x Hcl (enc_override override) PNone cb e Hmapper). apply refines_refl.
  Qed.
End MBridge.

(* ------------------------------------------------------------------ the side condition [mapped_ok] *)

(* for an instance of scalar fields it is what C07_agg_is_chain yields: every populated attribute's entry in the
   aggregated mapper is mval_of (rename chain), i.e. a key or DoNotSerialize *)
Lemma mapped_ok_flat am x :
  (forall k v, In (k, v) x -> (exists z, v = IScal z) /\ exists o, alist_get am k = Some (mval_of o)) ->
  mapped_ok (Some (Sub am)) (IStruct x) = true.
Proof.
  induction x as [|[k v] t IH]; intro H; [reflexivity|].
  change (mapped_ok (Some (Sub am)) (IStruct ((k, v) :: t)))
    with (entry_plain am k && mapped_ok (alist_get am (k ++ suffix)) v && mapped_ok (Some (Sub am)) (IStruct t)).
  destruct (H k v (or_introl eq_refl)) as [[z ->] [o Ho]].
  unfold entry_plain. rewrite Ho. rewrite IH by (intros k' v' Hin; apply (H k' v'); right; exact Hin).
  destruct o; reflexivity.
Qed.

(* ------------------------------------------------------------------ non-vacuity *)

(* class Inner: a_b, c (mapper: c -> "cee");  class Outer: first_name, inner : Inner, items : Array[Inner], secret
   with the mapper {first_name: "fn", secret: DoNotSerialize, "inner._mapper": {a_b: "AB"}}, camel_case_convert=True *)
Definition s (x : string) : pystr := s2p x.
Definition m_Inner : classdef := Class [(s "a_b", None); (s "c", None)] [MDict [(s "c", Key (s "cee"))]].
Definition m_Outer : classdef :=
  Class [(s "first_name", None); (s "inner", Some (KRef, m_Inner)); (s "items", Some (KArr, m_Inner)); (s "secret", None);
         (s "plain_one", None)]
        [MDict [(s "first_name", Key (s "fn")); (s "secret", DoNot); (s "inner._mapper", Sub [(s "a_b", Key (s "AB"))])]].
Definition m_inner1 : list (pystr * ival) := [(s "a_b", IScal 1); (s "c", IScal 2)].
Definition m_x : list (pystr * ival) :=
  [(s "first_name", IScal 7); (s "inner", IStruct m_inner1); (s "items", IList [IStruct m_inner1; IStruct [(s "c", IScal 3)]]);
   (s "secret", IScal 9); (s "plain_one", IScal 5)].
Definition m_agg (flag : bool) : pyval -> pyval -> pyval -> res pyval :=
  fun _ _ _ => MS.enc_res (aggregate true m_Outer None flag).

Example src_mapped_nonvacuous :
  class_names_ok m_Outer = true /\ styped m_Outer m_x = true /\
  (forall am, aggregate true m_Outer None true = Ok am -> mapped_ok (Some (Sub am)) (IStruct m_x) = true) /\
  (* the model's document: renamed keys, camel case after the mapper, the nested mapper, secret dropped *)
  Mappers.serialize m_Outer None true m_x =
    Ok (DDict [(s "fn", DScal 7);
               (s "inner", DDict [(s "AB", DScal 1); (s "cee", DScal 2)]);
               (s "items", DList [DDict [(s "aB", DScal 1); (s "cee", DScal 2)]; DDict [(s "cee", DScal 3)]]);
               (s "plainOne", DScal 5)]) /\
  (* the generated serialize computes exactly it *)
  r_serialize (src_knot 12 (map_world m_Outer (m_agg true) (fun _ => []))) (enc_struct m_x m_Outer []) PNone PNone (PBool true)
    = enc_dres (Mappers.serialize m_Outer None true m_x) /\
  (* ... and without camel case, with compact=True *)
  r_serialize (src_knot 12 (map_world m_Outer (m_agg false) (fun _ => []))) (enc_struct m_x m_Outer []) PNone (PBool true) (PBool false)
    = enc_dres (Mappers.serialize m_Outer None false m_x).
Proof.
  repeat split; try (vm_compute; reflexivity).
  intros am H. vm_compute in H. inversion H; subst am. vm_compute. reflexivity.
Qed.

Print Assumptions src_camel.
Print Assumptions mval_body.
Print Assumptions mint_body.
Print Assumptions mknot_ok.
Print Assumptions src_serialize_mapped.
Print Assumptions mapped_ok_flat.
Print Assumptions src_mapped_nonvacuous.
