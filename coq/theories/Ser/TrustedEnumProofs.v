(* C10, first clause on the ENUM fragment of Ser/Trusted.v: classes whose fields are primitive fields and Enum fields
   over an enum.Enum class - looked up by member name or by member value (serialization_by_value) -, each of them
   plain or wrapped as AnyOf[T, None] / AnyOf[None, T].  On such a class the trusted path (enum mapping,
   _remap_input, from_trusted_data) returns exactly the instance the regular path returns.

   Before the repairs of _get_enum_mapping / _extract_non_nonefield_from_optional in typedpy this statement was false
   of the faithful model for a by-value Enum (KeyError: the value was looked up as a name) and for AnyOf[None, Enum]
   (the raw string was stored): see Props/C10.v C10_trusted_enum_by_value. *)
From Coq Require Import ZArith QArith NArith String Ascii Bool Lia List Permutation.
Import ListNotations.
From TP Require Import Base.PyVal Base.PyEq Fields.FieldAst Fields.SetChain Struct.Instance Ser.Trusted Ser.TrustedProofs.
Local Open Scope Z_scope.

(* ------------------------------------------------------------------ association lists *)

Lemma aget_set_same {A} (l : list (pystr * A)) k v : alist_get (alist_set l k v) k = Some v.
Proof.
  induction l as [|[k0 v0] t IH]; cbn [alist_set alist_get]; [rewrite pystr_eqb_refl; reflexivity|].
  destruct (pystr_eqb k0 k) eqn:E; cbn [alist_get]; rewrite E; [reflexivity|exact IH].
Qed.

Lemma aget_set_other {A} (l : list (pystr * A)) k k' v :
  pystr_eqb k k' = false -> alist_get (alist_set l k v) k' = alist_get l k'.
Proof.
  intro H. induction l as [|[k0 v0] t IH]; cbn [alist_set alist_get]; [rewrite H; reflexivity|].
  destruct (pystr_eqb k0 k) eqn:E; cbn [alist_get].
  - apply pystr_eqb_spec in E. subst k0. rewrite H. reflexivity.
  - destruct (pystr_eqb k0 k'); [reflexivity|exact IH].
Qed.

Lemma aget_notin {A} (l : list (pystr * A)) k : ~ In k (map fst l) -> alist_get l k = None.
Proof.
  induction l as [|[k' v] t IH]; intro H; cbn [alist_get]; [reflexivity|].
  destruct (pystr_eqb k' k) eqn:Hk.
  - apply pystr_eqb_spec in Hk. subst. exfalso. apply H. left. reflexivity.
  - apply IH. intro Hin. apply H. right. exact Hin.
Qed.

Lemma flat_map_ext_In {A B} (f g : A -> list B) l : (forall x, In x l -> f x = g x) -> flat_map f l = flat_map g l.
Proof.
  induction l as [|x t IH]; intro H; cbn [flat_map]; [reflexivity|].
  rewrite (H x (or_introl eq_refl)), (IH (fun y Hy => H y (or_intror Hy))). reflexivity.
Qed.

Lemma find_tfd_In : forall fs k fd, find_tfd fs k = Some fd -> In fd fs /\ f_name fd = k.
Proof.
  induction fs as [|d t IH]; intros k fd H; cbn [find_tfd] in H; [discriminate|].
  destruct (pystr_eqb (f_name d) k) eqn:E.
  - inversion H. subst. split; [left; reflexivity|apply pystr_eqb_spec, E].
  - destruct (IH k fd H) as [H1 H2]. split; [right; exact H1|exact H2].
Qed.

(* ------------------------------------------------------------------ the targets of the enum mapping *)

Lemma enum_order_perm fs : Permutation (enum_order fs) fs.
Proof.
  unfold enum_order. induction fs as [|fd t IH]; [constructor|].
  cbn [filter]. destruct (is_plain_enum (f_ty fd)); cbn [negb app].
  - constructor. exact IH.
  - apply Permutation_sym, Permutation_cons_app, Permutation_sym. exact IH.
Qed.

Lemma targets_sound : forall l k t,
    In (k, t) (enum_targets l) -> exists fd, In fd l /\ f_name fd = k /\ enum_target (f_ty fd) = Some t.
Proof.
  unfold enum_targets. intros l k t H. apply in_flat_map in H as [fd [Hin H]].
  destruct (enum_target (f_ty fd)) as [x|] eqn:E; [|contradiction].
  destruct H as [H|[]]. inversion H. subst. exists fd. auto.
Qed.

Lemma targets_keys_sub l k : In k (map fst (enum_targets l)) -> In k (map f_name l).
Proof.
  intro H. apply in_map_iff in H as [[k' t] [Hk Hin]]. cbn [fst] in Hk. subst k'.
  destruct (targets_sound l k t Hin) as [fd [Hin' [Hn _]]]. rewrite <- Hn. apply in_map, Hin'.
Qed.

Lemma enum_targets_cons fd t :
  enum_targets (fd :: t) = match enum_target (f_ty fd) with Some x => [(f_name fd, x)] | None => [] end ++ enum_targets t.
Proof. reflexivity. Qed.

Lemma targets_nodup l : NoDup (map f_name l) -> NoDup (map fst (enum_targets l)).
Proof.
  induction l as [|fd t IH]; intro H; [constructor|]. rewrite enum_targets_cons.
  cbn [map] in H. inversion H as [|x xs Hn Hd]; subst.
  destruct (enum_target (f_ty fd)) as [x|]; cbn [app map fst]; [|apply IH, Hd].
  constructor; [|apply IH, Hd]. intro Hin. apply Hn. apply (targets_keys_sub t _ Hin).
Qed.

Lemma targets_get : forall l fd,
    NoDup (map f_name l) -> In fd l -> alist_get (enum_targets l) (f_name fd) = enum_target (f_ty fd).
Proof.
  induction l as [|fd0 t IH]; intros fd Hnd Hin; [contradiction|]. rewrite enum_targets_cons.
  cbn [map] in Hnd. inversion Hnd as [|x xs Hn Hd]; subst.
  destruct Hin as [Heq|Hin].
  - subst fd0. destruct (enum_target (f_ty fd)) as [x|]; cbn [app alist_get].
    + rewrite pystr_eqb_refl. reflexivity.
    + apply aget_notin. intro H. apply Hn. apply (targets_keys_sub t _ H).
  - assert (Hne : pystr_eqb (f_name fd0) (f_name fd) = false).
    { apply pystr_eqb_neq. intro E. apply Hn. rewrite E. apply in_map, Hin. }
    destruct (enum_target (f_ty fd0)) as [x|]; cbn [app alist_get]; [rewrite Hne|]; apply (IH fd Hd Hin).
Qed.

(* ------------------------------------------------------------------ the fragment *)

Definition eleaf (l : leaf) : bool := match l with LPrim _ | LEnum _ _ _ => true | _ => false end.

Definition field_leaf (tf : tfield) : option leaf :=
  match tf with
  | TLeaf l => if eleaf l then Some l else None
  | TOpt _ (TLeaf l) => if eleaf l then Some l else None
  | _ => None
  end.

(* what both paths store for the document value v of a field with leaf l *)
Definition conv (l : leaf) (v : pyval) : pyval :=
  match l with
  | LEnum cls ms byv => match enum_member ms byv v with Some (n, x) => PEnum cls n x | None => v end
  | _ => v
  end.

(* what the success of the regular path says about an enum's document value *)
Definition good (l : leaf) (v : pyval) : Prop :=
  match l with
  | LEnum _ ms byv => py_hashable v = true /\ enum_member ms byv v <> None
  | _ => True
  end.

Definition cvt (o : option etarget) (v : pyval) : pyval :=
  match o with
  | Some (cls, ms, byv) => match enum_member ms byv v with Some (n, x) => PEnum cls n x | None => v end
  | None => v
  end.

Lemma field_leaf_eleaf tf l : field_leaf tf = Some l -> eleaf l = true.
Proof.
  destruct tf as [l0|i|i|c'|nf f|ls|id b]; cbn [field_leaf]; try discriminate.
  - destruct (eleaf l0) eqn:E; [|discriminate]. intro H. inversion H. subst. exact E.
  - destruct f as [l0|i|i|c'|nf' f'|ls|id b]; try discriminate.
    destruct (eleaf l0) eqn:E; [|discriminate]. intro H. inversion H. subst. exact E.
Qed.

Lemma enum_target_leaf tf l : field_leaf tf = Some l -> enum_target tf = enum_leaf_target l.
Proof.
  destruct tf as [l0|i|i|c'|nf f|ls|id b]; cbn [field_leaf enum_target]; try discriminate.
  - destruct (eleaf l0); [|discriminate]. intro H. inversion H. reflexivity.
  - destruct f as [l0|i|i|c'|nf' f'|ls|id b]; try discriminate.
    destruct (eleaf l0); [|discriminate]. intro H. inversion H. reflexivity.
Qed.

Lemma cvt_conv l v : eleaf l = true -> cvt (enum_leaf_target l) v = conv l v.
Proof. destruct l; cbn [eleaf]; try discriminate; reflexivity. Qed.

Lemma conv_not_none l v : is_none v = false -> is_none (conv l v) = false.
Proof.
  destruct l; cbn [conv]; try (intro H; exact H).
  intro H. destruct (enum_member members by_value v) as [[n x]|]; [reflexivity|exact H].
Qed.

Section EnumFragment.
  Variable re_match : N -> pystr -> bool.
  Variable sdeser : N -> pyval -> res pyval.
  Variable ostore : N -> pyval -> res pyval.
  Variable e : tenv.

  (* a field of the fragment without default whose document entry, found by the regular key lookup under the
     field's own name, is: for a primitive field already the value its __set__ chain stores; for an Enum field a
     truthy value (the trusted path converts only those: `if input_dict.get(k)`) *)
  Definition enum_field (c : tclass) (kv : list (pyval * pyval)) (doc : list (pystr * pyval)) (fd : tfd) : Prop :=
    exists l, field_leaf (f_ty fd) = Some l /\ f_default fd = None /\
              lookup_reg [] c kv (f_name fd) = alist_get doc (f_name fd) /\
              (forall v, alist_get doc (f_name fd) = Some v ->
                         match l with
                         | LPrim f => vset re_match [] f v = Ok v
                         | _ => py_truthy v = true
                         end).

  Definition leaf_of (fd : tfd) : leaf := match field_leaf (f_ty fd) with Some l => l | None => LPrim FNone end.

  Definition storedE (doc : list (pystr * pyval)) (fd : tfd) : list (pystr * pyval) :=
    match alist_get doc (f_name fd) with Some v => [(f_name fd, conv (leaf_of fd) v)] | None => [] end.

  (* ---------------------------------------------------------------- regular path *)

  Lemma reg_store_leaf dc dc0 tf l v :
    field_leaf tf = Some l -> reg_store re_match sdeser ostore dc dc0 tf v = reg_leaf re_match sdeser l v.
  Proof.
    destruct tf as [l0|i|i|c'|nf f|ls|id b]; cbn [field_leaf]; try discriminate.
    - destruct (eleaf l0); [|discriminate]. intro H. inversion H. reflexivity.
    - destruct f as [l0|i|i|c'|nf' f'|ls|id b]; try discriminate.
      destruct (eleaf l0); [|discriminate]. intro H. inversion H. reflexivity.
  Qed.

  Lemma reg_leaf_conv l v w :
    eleaf l = true ->
    match l with LPrim f => vset re_match [] f v = Ok v | _ => True end ->
    reg_leaf re_match sdeser l v = Ok w -> w = conv l v /\ good l v.
  Proof.
    destruct l as [f|cls ms byv|vals|id b]; cbn [eleaf]; try discriminate; intros _ Hp H.
    - assert (Hr : reg_leaf re_match sdeser (LPrim f) v = Ok v) by (apply reg_leaf_prim_normal; exact Hp).
      rewrite Hr in H. inversion H. split; [reflexivity|exact I].
    - cbn [reg_leaf] in H. cbn [conv good]. unfold enum_member. destruct byv.
      + destruct (py_hashable v) eqn:Hh; cbn [negb] in H; [|discriminate].
        destruct (find (fun p => py_eq (snd p) v) ms) as [[n x]|] eqn:Hf; [|discriminate].
        inversion H. split; [reflexivity|split; [reflexivity|discriminate]].
      + destruct v as [| | |n| | | | | | | | ]; try discriminate.
        destruct (alist_get ms n) as [x|] eqn:Hg; [|discriminate]. inversion H.
        split; [reflexivity|split; [reflexivity|discriminate]].
  Qed.

  Lemma collect_enum dc dc0 c kv doc : forall fs a,
      (forall fd, In fd fs -> enum_field c kv doc fd) ->
      collect_reg (reg_store re_match sdeser ostore dc dc0) [] c kv fs = Ok a ->
      a = flat_map (storedE doc) fs /\
      (forall fd v, In fd fs -> alist_get doc (f_name fd) = Some v -> good (leaf_of fd) v).
  Proof.
    induction fs as [|fd fs IH]; intros a H Hc; cbn [collect_reg flat_map] in *.
    - inversion Hc. split; [reflexivity|intros fd v []].
    - destruct (H fd (or_introl eq_refl)) as [l [Hl [_ [Hlk Hv]]]].
      assert (Hlo : leaf_of fd = l) by (unfold leaf_of; rewrite Hl; reflexivity).
      unfold storedE at 1. rewrite Hlo. rewrite Hlk in Hc.
      destruct (alist_get doc (f_name fd)) as [v|] eqn:E.
      + rewrite (reg_store_leaf dc dc0 (f_ty fd) l v Hl) in Hc.
        destruct (reg_leaf re_match sdeser l v) as [w|ex] eqn:Hr; cbn [bind] in Hc; [|discriminate].
        destruct (collect_reg (reg_store re_match sdeser ostore dc dc0) [] c kv fs) as [r|ex] eqn:Hrest;
          cbn [bind] in Hc; [|discriminate].
        destruct (IH r (fun fd' Hin => H fd' (or_intror Hin)) eq_refl) as [Hr1 Hr2].
        assert (Hp : match l with LPrim f => vset re_match [] f v = Ok v | _ => True end).
        { specialize (Hv v eq_refl). destruct l; try exact I. exact Hv. }
        destruct (reg_leaf_conv l v w (field_leaf_eleaf _ _ Hl) Hp Hr) as [Hw Hg].
        assert (Hnn : is_none w = false).
        { rewrite Hw. apply conv_not_none. apply (lookup_reg_not_none [] c kv (f_name fd) v). exact Hlk. }
        rewrite Hnn in Hc. cbn [andb] in Hc. inversion Hc. subst a w. split.
        * cbn [app]. rewrite Hr1. reflexivity.
        * intros fd' v' [Heq|Hin] Hd.
          -- subst fd'. rewrite E in Hd. inversion Hd. subst v'. rewrite Hlo. exact Hg.
          -- exact (Hr2 fd' v' Hin Hd).
      + destruct (IH a (fun fd' Hin => H fd' (or_intror Hin)) Hc) as [Hr1 Hr2]. split; [exact Hr1|].
        intros fd' v' [Heq|Hin] Hd.
        * subst fd'. rewrite E in Hd. discriminate Hd.
        * exact (Hr2 fd' v' Hin Hd).
  Qed.

  Lemma defaults_enum c kv doc (a : list (pystr * pyval)) : forall fs,
      (forall fd, In fd fs -> enum_field c kv doc fd) ->
      flat_map (fun fd => match f_default fd with
                          | Some d => if alist_has a (f_name fd) then [] else [(f_name fd, d)]
                          | None => []
                          end) fs = [].
  Proof.
    induction fs as [|fd fs IH]; intro H; cbn [flat_map]; [reflexivity|].
    destruct (H fd (or_introl eq_refl)) as [l [_ [Hd _]]]. rewrite Hd.
    rewrite (IH (fun fd' Hin => H fd' (or_intror Hin))). reflexivity.
  Qed.

  (* ---------------------------------------------------------------- trusted path: the enum mapping *)

  Lemma apply_enums_get : forall (ts : list (pystr * etarget)) inp acc,
      NoDup (map fst ts) ->
      (forall k t v, In (k, t) ts -> alist_get inp k = Some v ->
                     py_truthy v = true /\ py_hashable v = true /\ enum_member (snd (fst t)) (snd t) v <> None) ->
      exists acc', apply_enums ts inp acc = Ok acc' /\
                   forall k, alist_get acc' k = match alist_get ts k, alist_get inp k with
                                                | Some t, Some v => Some (cvt (Some t) v)
                                                | _, _ => alist_get acc k
                                                end.
  Proof.
    induction ts as [|[k0 [[cls ms] byv]] t IH]; intros inp acc Hnd Hok.
    - exists acc. split; [reflexivity|]. intro k. reflexivity.
    - cbn [map fst] in Hnd. inversion Hnd as [|x xs Hnotin Hnd']; subst.
      assert (Ht0 : alist_get t k0 = None) by (apply aget_notin; exact Hnotin).
      cbn [apply_enums].
      destruct (alist_get inp k0) as [v|] eqn:Ev.
      + destruct (Hok k0 (cls, ms, byv) v (or_introl eq_refl) Ev) as [Htr [Hh Hm]]. cbn [fst snd] in Hm.
        rewrite Htr, Hh. cbn [negb].
        destruct (enum_member ms byv v) as [[n x]|] eqn:Em; [|contradiction Hm; reflexivity].
        destruct (IH inp (alist_set acc k0 (PEnum cls n x)) Hnd'
                     (fun k t0 v0 Hin => Hok k t0 v0 (or_intror Hin))) as [acc' [Ha Hg]].
        exists acc'. split; [exact Ha|]. intro k. rewrite Hg. cbn [alist_get].
        destruct (pystr_eqb k0 k) eqn:Ek.
        * apply pystr_eqb_spec in Ek. subst k. rewrite Ht0, Ev, aget_set_same. cbn [cvt]. rewrite Em. reflexivity.
        * destruct (alist_get t k) as [t0|]; [destruct (alist_get inp k) as [v0|]|]; try reflexivity;
            apply aget_set_other; exact Ek.
      + destruct (IH inp acc Hnd' (fun k t0 v0 Hin => Hok k t0 v0 (or_intror Hin))) as [acc' [Ha Hg]].
        exists acc'. split; [exact Ha|]. intro k. rewrite Hg. cbn [alist_get].
        destruct (pystr_eqb k0 k) eqn:Ek; [|reflexivity].
        apply pystr_eqb_spec in Ek. subst k. rewrite Ht0, Ev. reflexivity.
  Qed.

  (* ---------------------------------------------------------------- trusted path: _remap_input *)

  Lemma remap_field_leaf tc tf l v : field_leaf tf = Some l -> remap_field re_match sdeser tc tf v = Ok v.
  Proof.
    destruct tf as [l0|i|i|c'|nf f|ls|id b]; cbn [field_leaf]; try discriminate.
    - destruct l0; cbn [eleaf]; try discriminate; intros _; reflexivity.
    - destruct f as [l0|i|i|c'|nf' f'|ls|id b]; try discriminate.
      destruct l0; cbn [eleaf]; try discriminate; intros _; reflexivity.
  Qed.

  Lemma remap_get tc c : forall inp,
      (forall fd, In fd (t_fields c) -> field_leaf (f_ty fd) <> None) ->
      exists m, remap_input re_match sdeser tc c inp = Ok m /\
                forall k, (forall v, alist_get inp k = Some v -> is_none v = false) -> alist_get m k = alist_get inp k.
  Proof.
    induction inp as [|[k0 v0] t IH]; intro Hf.
    - exists []. split; [reflexivity|]. intros k _. reflexivity.
    - destruct (IH Hf) as [r [Hr Hg]]. cbn [remap_input]. rewrite Hr.
      assert (Hother : forall k, pystr_eqb k0 k = false ->
                                 (forall v, alist_get ((k0, v0) :: t) k = Some v -> is_none v = false) ->
                                 alist_get r k = alist_get t k).
      { intros k Ek Hk. apply Hg. intros v Hv. apply Hk. cbn [alist_get]. rewrite Ek. exact Hv. }
      destruct (is_none v0) eqn:En.
      + cbn [bind]. eexists. split; [reflexivity|]. intros k Hk.
        assert (Ek : pystr_eqb k0 k = false).
        { destruct (pystr_eqb k0 k) eqn:Ek; [|reflexivity].
          specialize (Hk v0). cbn [alist_get] in Hk. rewrite Ek in Hk. rewrite (Hk eq_refl) in En. discriminate En. }
        destruct (t_ignore_none c); cbn [alist_get]; rewrite ?Ek; exact (Hother k Ek Hk).
      + destruct (find_tfd (t_fields c) k0) as [fd|] eqn:Ef.
        * destruct (find_tfd_In _ _ _ Ef) as [Hin _].
          destruct (field_leaf (f_ty fd)) as [l|] eqn:El; [|contradiction (Hf fd Hin El)].
          rewrite (remap_field_leaf tc (f_ty fd) l v0 El). cbn [bind]. eexists. split; [reflexivity|].
          intros k Hk. cbn [alist_get]. destruct (pystr_eqb k0 k) eqn:Ek; [reflexivity|exact (Hother k Ek Hk)].
        * cbn [bind]. eexists. split; [reflexivity|].
          intros k Hk. cbn [alist_get]. destruct (pystr_eqb k0 k) eqn:Ek; [reflexivity|exact (Hother k Ek Hk)].
  Qed.

  (* ---------------------------------------------------------------- the two paths *)

  (* C10, first clause, on the enum fragment: the trusted path (whatever level the classifier assigned) returns
     exactly the instance the regular path returns *)
  Theorem trusted_enums n lv ku cn c kv doc x :
    find_tclass e cn = Some c ->
    doc_alist kv = Some doc ->
    t_mapper c <> MapList ->
    NoDup (map f_name (t_fields c)) ->
    (forall fd, In fd (t_fields c) -> enum_field c kv doc fd) ->
    rename_doc c doc = doc ->
    ((ku && negb (is_special (t_mapper c)) && t_additional c) = true -> extras_of c kv = []) ->
    deser_regular re_match sdeser ostore e (S n) ku [] cn (PDict kv) = Ok x ->
    trusted_cls re_match sdeser e (S n) lv cn (PDict kv) = Ok x.
  Proof.
    intros Hc Hdoc Hm Hnd Hfields Hren Hex H.
    cbn [deser_regular] in H. cbn [trusted_cls]. rewrite Hc in *. rewrite Hdoc in *.
    assert (Hm' : forall A (a b : A), match t_mapper c with MapList => a | _ => b end = b)
      by (intros; destruct (t_mapper c); try reflexivity; contradiction Hm; reflexivity).
    rewrite Hm' in H. rewrite Hm'. cbn [bind].
    (* the regular path *)
    destruct (collect_reg _ [] c kv (t_fields c)) as [a|ex] eqn:Hcol; cbn [bind] in H; [|discriminate].
    destruct (collect_enum _ _ c kv doc (t_fields c) a Hfields Hcol) as [Ha Hgood]. subst a.
    unfold defaults_for in H. rewrite (defaults_enum c kv doc _ (t_fields c) Hfields) in H. cbn [app] in H.
    (* the enum mapping *)
    rewrite Hren.
    set (fs := t_fields c) in *. set (ts := enum_targets (enum_order fs)).
    pose proof (enum_order_perm fs) as Hperm.
    assert (Hnd2 : NoDup (map f_name (enum_order fs))).
    { apply (Permutation_NoDup (l := map f_name fs)); [apply Permutation_map, Permutation_sym, Hperm|exact Hnd]. }
    assert (Hts : forall fd, In fd fs -> alist_get ts (f_name fd) = enum_target (f_ty fd)).
    { intros fd Hin. apply targets_get; [exact Hnd2|]. apply (Permutation_in _ (Permutation_sym Hperm) Hin). }
    assert (Hok : forall k t v, In (k, t) ts -> alist_get doc k = Some v ->
                                py_truthy v = true /\ py_hashable v = true /\ enum_member (snd (fst t)) (snd t) v <> None).
    { intros k t v Hin Hd. destruct (targets_sound _ k t Hin) as [fd [Hinfd [Hn Ht]]]. subst k.
      assert (Hinfs : In fd fs) by (apply (Permutation_in _ Hperm Hinfd)).
      destruct (Hfields fd Hinfs) as [l [Hl [_ [_ Hv]]]].
      rewrite (enum_target_leaf _ l Hl) in Ht.
      pose proof (Hgood fd v Hinfs Hd) as Hg. unfold leaf_of in Hg. rewrite Hl in Hg.
      specialize (Hv v Hd).
      destruct l as [f|cls ms byv|vals|id b]; cbn [enum_leaf_target] in Ht; try discriminate Ht.
      inversion Ht. subst t. cbn [fst snd good] in *. destruct Hg as [Hh Hmem]. auto. }
    destruct (apply_enums_get ts doc doc (targets_nodup _ Hnd2) Hok) as [upd [Hupd Hget]].
    fold ts. rewrite Hupd. cbn [bind].
    (* what the updated input holds under a field's name *)
    assert (Hfield : forall fd, In fd fs ->
                                alist_get upd (f_name fd) = match alist_get doc (f_name fd) with
                                                            | Some v => Some (conv (leaf_of fd) v)
                                                            | None => None
                                                            end).
    { intros fd Hin. rewrite Hget, (Hts fd Hin).
      destruct (Hfields fd Hin) as [l [Hl _]]. unfold leaf_of. rewrite Hl, (enum_target_leaf _ l Hl).
      destruct (alist_get doc (f_name fd)) as [v|] eqn:Ed.
      - rewrite <- (cvt_conv l v (field_leaf_eleaf _ _ Hl)).
        destruct (enum_leaf_target l) as [t|]; reflexivity.
      - destruct (enum_leaf_target l); reflexivity. }
    assert (Hnn : forall fd, In fd fs -> forall v, alist_get upd (f_name fd) = Some v -> is_none v = false).
    { intros fd Hin v Hv. rewrite (Hfield fd Hin) in Hv.
      destruct (alist_get doc (f_name fd)) as [v0|] eqn:Ed; [|discriminate Hv]. inversion Hv.
      apply conv_not_none. destruct (Hfields fd Hin) as [l [_ [_ [Hlk _]]]].
      apply (lookup_reg_not_none [] c kv (f_name fd) v0). rewrite Hlk. exact Ed. }
    (* _remap_input leaves the fields' entries as they are *)
    assert (Hmap : exists m, match lv with
                             | Nested => remap_input re_match sdeser (trusted_cls re_match sdeser e n Nested) c upd
                             | NotNested => Ok upd
                             end = Ok m /\
                             forall fd, In fd fs -> alist_get m (f_name fd) = alist_get upd (f_name fd)).
    { destruct lv.
      - exists upd. split; [reflexivity|]. intros; reflexivity.
      - destruct (remap_get (trusted_cls re_match sdeser e n Nested) c upd) as [m [Hm1 Hm2]].
        + intros fd Hin El. destruct (Hfields fd Hin) as [l [Hl _]]. rewrite Hl in El. discriminate El.
        + exists m. split; [exact Hm1|]. intros fd Hin. apply Hm2. exact (Hnn fd Hin). }
    destruct Hmap as [m [Hm1 Hm2]]. rewrite Hm1. cbn [bind].
    unfold from_trusted_map. rewrite (find_tclass_name e cn c Hc). fold fs.
    assert (Hsame : flat_map (fun fd => match alist_get m (f_name fd) with
                                         | Some v => [(f_name fd, v)]
                                         | None => []
                                         end) fs = flat_map (storedE doc) fs).
    { apply flat_map_ext_In. intros fd Hin. rewrite (Hm2 fd Hin), (Hfield fd Hin). unfold storedE.
      destruct (alist_get doc (f_name fd)); reflexivity. }
    rewrite Hsame.
    destruct (negb (forallb (fun r => alist_has (flat_map (storedE doc) fs) r) (t_required c))); [discriminate|].
    destruct (ku && negb (is_special (t_mapper c)) && t_additional c) eqn:Eku.
    - rewrite (Hex eq_refl) in H. cbn [app] in H. exact H.
    - cbn [app] in H. exact H.
  Qed.
End EnumFragment.

(* ------------------------------------------------------------------ non-vacuity *)

Definition color_e : list (pystr * pyval) := [(s2p "RED", PNum (NInt 1)); (s2p "GREEN", PNum (NInt 2))].
Definition fd_e (n : string) (t : tfield) : tfd := {| f_name := s2p n; f_ty := t; f_default := None |}.
Definition cls_e : tclass :=
  {| t_name := s2p "C";
     t_fields := [fd_e "i" (TLeaf (LPrim (FNumber KInteger SAny no_numc)));
                  fd_e "e" (TLeaf (LEnum (s2p "Color") color_e true));
                  fd_e "o" (TOpt false (TLeaf (LEnum (s2p "Color") color_e false)));
                  fd_e "n" (TOpt true (TLeaf (LEnum (s2p "Color") color_e true)))];
     t_required := []; t_additional := true; t_ignore_none := false; t_mapper := MapNone; t_fast := false |}.
Definition doc_e : list (pystr * pyval) :=
  [(s2p "n", PNum (NInt 1)); (s2p "i", PNum (NInt 7)); (s2p "e", PNum (NInt 2)); (s2p "o", PStr (s2p "RED"))].
Definition kv_e : list (pyval * pyval) := map (fun p => (PStr (fst p), snd p)) doc_e.

(* every hypothesis of trusted_enums holds of this class and document (by-value, by-name, None first / last) *)
Example trusted_enums_nonvacuous :
  doc_alist kv_e = Some doc_e /\ rename_doc cls_e doc_e = doc_e /\ NoDup (map f_name (t_fields cls_e)) /\
  (forall fd, In fd (t_fields cls_e) -> enum_field (fun _ _ => true) cls_e kv_e doc_e fd) /\
  deser_regular (fun _ _ => true) (fun _ _ => Raise Unmodelled) (fun _ _ => Raise Unmodelled) [cls_e] 3 false [] (s2p "C") (PDict kv_e) =
  Ok (PStruct (s2p "C") [(s2p "i", PNum (NInt 7)); (s2p "e", PEnum (s2p "Color") (s2p "GREEN") (PNum (NInt 2)));
                         (s2p "o", PEnum (s2p "Color") (s2p "RED") (PNum (NInt 1)));
                         (s2p "n", PEnum (s2p "Color") (s2p "RED") (PNum (NInt 1)))]).
Proof.
  split; [vm_compute; reflexivity|]. split; [vm_compute; reflexivity|]. split.
  - repeat constructor; cbn; intuition discriminate.
  - split; [|vm_compute; reflexivity].
    intros fd [H|[H|[H|[H|[]]]]]; subst fd; eexists; (split; [reflexivity|]); (split; [reflexivity|]);
      (split; [vm_compute; reflexivity|]); intros v Hv; vm_compute in Hv; inversion Hv; vm_compute; reflexivity.
Qed.

Print Assumptions trusted_enums.
Print Assumptions trusted_enums_nonvacuous.
