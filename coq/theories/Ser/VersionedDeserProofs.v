(* Proofs about the model of deserialize_structure_internal on a Versioned class (property C17, second
   sentence): for EVERY table of read sites that passes [sites_ok], every recognised prelude, all histories,
   classes, options and entry points. *)
From Coq Require Import ZArith NArith String Bool Lia List.
Import ListNotations.
From TP Require Import Base.PyVal Ser.Versioned Ser.VersionedProofs Ser.VersionedDeser.
Local Open Scope Z_scope.

(* ------------------------------------------------------------ read sites *)

Lemma sites_ok_reads sites r : sites_ok sites = true -> role_reads_converted sites r = true.
Proof.
  unfold sites_ok, role_reads_converted. intro H.
  apply andb_true_iff in H as [H _]. apply andb_true_iff in H as [H _].
  induction sites as [|s t IH]; [reflexivity|].
  cbn [forallb] in *. apply andb_true_iff in H as [Hs Ht].
  apply andb_true_iff in Hs as [Hc _]. rewrite Hc, orb_true_r. simpl. apply IH. exact Ht.
Qed.

(* ------------------------------------------------------------ dictionaries *)

Lemma dict_get_filter_none (f : pyval * pyval -> bool) (d : dict) k :
  dict_get d k = None -> dict_get (filter f d) k = None.
Proof.
  induction d as [|[k' v'] t IH]; simpl; [reflexivity|].
  destruct (py_eq k' k) eqn:E; [discriminate|]. intro H.
  destruct (f (k', v')); simpl; [rewrite E|]; apply IH; exact H.
Qed.

Lemma dict_get_set_str_none d a b v :
  a <> b -> dict_get d (PStr b) = None -> dict_get (dict_set d (PStr a) v) (PStr b) = None.
Proof. intros Hab H. rewrite dict_get_set_other by exact Hab. exact H. Qed.

(* keys of a document are whatever the caller put there; the keys a later dict_set adds are looked at
   through this predicate *)
Definition str_keys (d : dict) : Prop := forall k v, In (k, v) d -> exists s, k = PStr s.

Lemma dict_get_update_none (a b : dict) k :
  str_keys b ->
  dict_get a (PStr k) = None -> dict_get b (PStr k) = None -> dict_get (dict_update a b) (PStr k) = None.
Proof.
  unfold dict_update. revert a. induction b as [|[k' v'] t IH]; intros a Hs Ha Hb; simpl; [exact Ha|].
  destruct (Hs k' v' (or_introl eq_refl)) as [s ->].
  simpl in Hb. destruct (pystr_eqb s k) eqn:E; [discriminate|].
  apply IH.
  - intros k0 v0 Hin. apply (Hs k0 v0). right. exact Hin.
  - apply dict_get_set_str_none; [|exact Ha]. intro Heq. subst s. rewrite pystr_eqb_refl in E. discriminate.
  - exact Hb.
Qed.

Lemma str_keys_set d s v : str_keys d -> str_keys (dict_set d (PStr s) v).
Proof.
  unfold str_keys. induction d as [|[k' v'] t IH]; intros Hs k0 v0 Hin; simpl in Hin.
  - destruct Hin as [Hin|[]]. inversion Hin; subst. eexists; reflexivity.
  - destruct (py_eq k' (PStr s)) eqn:E.
    + destruct Hin as [Hin|Hin].
      * inversion Hin; subst. eapply Hs. left. reflexivity.
      * apply (Hs k0 v0). right. exact Hin.
    + destruct Hin as [Hin|Hin].
      * inversion Hin; subst. eapply Hs. left. reflexivity.
      * eapply IH; [|exact Hin]. intros k1 v1 H1. apply (Hs k1 v1). right. exact H1.
Qed.

(* ------------------------------------------------------------ construct_fields_map *)

Lemma fields_map_fold_inv (source : dict) (l : list pystr) :
  forall acc,
    str_keys acc ->
    str_keys (fold_left (fun acc k => match dict_get source (PStr k) with
                                      | Some v => if is_none v then acc else dict_set acc (PStr k) v
                                      | None => acc
                                      end) l acc)
    /\ forall k, dict_get source (PStr k) = None -> dict_get acc (PStr k) = None ->
                 dict_get (fold_left (fun acc k => match dict_get source (PStr k) with
                                                   | Some v => if is_none v then acc else dict_set acc (PStr k) v
                                                   | None => acc
                                                   end) l acc) (PStr k) = None.
Proof.
  induction l as [|f t IH]; intros acc Hs; simpl; [split; [exact Hs | intros k _ H; exact H]|].
  destruct (dict_get source (PStr f)) as [v|] eqn:E.
  - destruct (is_none v).
    + apply IH. exact Hs.
    + destruct (IH (dict_set acc (PStr f) v) (str_keys_set _ _ _ Hs)) as [I1 I2].
      split; [exact I1|]. intros k Hk Ha. apply I2; [exact Hk|].
      apply dict_get_set_str_none; [|exact Ha]. intro Heq. subst f. rewrite Hk in E. discriminate.
  - apply IH. exact Hs.
Qed.

Lemma str_keys_nil : str_keys [].
Proof. intros k v []. Qed.

Lemma fields_map_str_keys c source : str_keys (fields_map c source).
Proof. unfold fields_map. apply (fields_map_fold_inv source _ [] str_keys_nil). Qed.

Lemma fields_map_none c source k :
  dict_get source (PStr k) = None -> dict_get (fields_map c source) (PStr k) = None.
Proof.
  intro H. unfold fields_map.
  apply (proj2 (fields_map_fold_inv source _ [] str_keys_nil)); [exact H | reflexivity].
Qed.

Lemma undefined_kwargs_none e c o source k :
  dict_get source k = None -> dict_get (undefined_kwargs e c o source) k = None.
Proof.
  intro H. unfold undefined_kwargs.
  destruct (effective_keep e c o && _); [apply dict_get_filter_none; exact H | reflexivity].
Qed.

(* ------------------------------------------------------------ Versioned.__init__ *)

Lemma init_ok_version ish maps kw :
  init_shape_ok ish = true ->
  dict_get (versioned_init_kwargs_s ish maps kw) version_key = Some (PNum (NInt (Z.of_nat (length maps) + 1))).
Proof.
  destruct ish as [off|off|]; simpl; try discriminate.
  intro H. apply Z.eqb_eq in H. subst off. unfold version_key. apply dict_get_set_same.
Qed.

Lemma init_other_key ish maps kw k :
  k <> ver ->
  dict_get kw (PStr k) = None -> dict_get (versioned_init_kwargs_s ish maps kw) (PStr k) = None.
Proof.
  intros Hk H. destruct ish as [off|off|]; simpl.
  - unfold version_key. apply dict_get_set_str_none; [|exact H]. intro E. apply Hk. symmetry. exact E.
  - destruct (dict_get kw version_key); [exact H|].
    unfold version_key. apply dict_get_set_str_none; [|exact H]. intro E. apply Hk. symmetry. exact E.
  - exact H.
Qed.

Section Proofs.
  Variable fn : N -> list pyval -> res pyval.
  Variable p : cd_params.
  Hypothesis Hp : cd_params_ok p = true.

  Lemma has_version_dict_has d z : has_version d z -> dict_has d version_key = true.
  Proof. unfold has_version, dict_has. intro H. rewrite H. reflexivity. Qed.

  Lemma convert_dict_nil d z : has_version d z -> 1 <= z -> convert_dict fn p d [] = Ok d.
  Proof.
    intros Hv Hz. rewrite (convert_dict_suffix fn p Hp _ _ _ Hv Hz). rewrite skipn_nil. reflexivity.
  Qed.

  (* whatever the guard, the variable the later steps read holds the latest-version document, for the old
     document and for its conversion alike *)
  Lemma prelude_convert_fix pr d maps z d' :
    forallb keeps_version maps = true ->
    has_version d z -> 1 <= z <= Z.of_nat (length maps) + 1 ->
    convert_dict fn p d maps = Ok d' ->
    prelude_convert fn p pr maps d = Ok d' /\ prelude_convert fn p pr maps d' = Ok d'.
  Proof.
    intros Hk Hv Hz H.
    pose proof (convert_dict_idempotent fn p Hp _ _ _ _ Hk Hv Hz H) as Hid.
    unfold prelude_convert. destruct (pre_guard pr); destruct maps as [|m t]; try (split; assumption).
    assert (Hd : d' = d).
    { rewrite (convert_dict_nil d z Hv) in H by lia. inversion H. reflexivity. }
    subst d'. split; reflexivity.
  Qed.

  (* C17, second sentence, over the modelled function: with a table of read sites in which every read after
     the prelude is of the converted document, the old document and its conversion give the same outcome --
     for every entry point, class, option set, history, start version *)
  Theorem deser_internal_any_version pr sites ish e c o d maps z d' :
    sites_ok sites = true ->
    forallb keeps_version maps = true ->
    has_version d z -> 1 <= z <= Z.of_nat (length maps) + 1 ->
    convert_dict fn p d maps = Ok d' ->
    deser_internal fn p pr sites ish e c o maps d = deser_internal fn p pr sites ish e c o maps d'.
  Proof.
    intros Hs Hk Hv Hz H.
    pose proof (convert_dict_version fn p Hp _ _ _ _ Hk Hv Hz H) as Hv'.
    destruct (prelude_convert_fix pr _ _ _ _ Hk Hv Hz H) as [P1 P2].
    unfold deser_internal.
    rewrite (has_version_dict_has _ _ Hv), (has_version_dict_has _ _ Hv'), P1, P2.
    rewrite !(sites_ok_reads _ _ Hs). reflexivity.
  Qed.

  (* ... and the instance carries the latest version whatever the document said *)
  Theorem deser_internal_version pr sites ish e c o d maps st :
    init_shape_ok ish = true ->
    deser_internal fn p pr sites ish e c o maps d = Ok st ->
    has_version st (Z.of_nat (length maps) + 1).
  Proof.
    intros Hi H. unfold deser_internal in H.
    destruct (pre_requires_version pr && _); [discriminate|].
    destruct (prelude_convert fn p pr maps d) as [conv|ex]; simpl in H; [|discriminate].
    destruct (o_trusted o && vc_trusted_eligible c).
    - unfold trusted_construct in H. inversion H; subst st. unfold has_version. apply init_ok_version. exact Hi.
    - unfold construct in H.
      destruct (negb (forallb _ (vc_required c))); [discriminate|].
      destruct (negb (additional_allowed c o) && _); [discriminate|].
      inversion H; subst st. unfold has_version. apply init_ok_version. exact Hi.
  Qed.

  (* ... and no attribute of the instance comes from anywhere but the converted document: a key that the
     history deleted or moved away (absent from the conversion) is absent from the instance *)
  Theorem deser_internal_keys_from_converted pr sites ish e c o d maps z d' st k :
    sites_ok sites = true ->
    forallb keeps_version maps = true ->
    has_version d z -> 1 <= z <= Z.of_nat (length maps) + 1 ->
    convert_dict fn p d maps = Ok d' ->
    deser_internal fn p pr sites ish e c o maps d = Ok st ->
    k <> ver -> dict_get d' (PStr k) = None -> dict_get st (PStr k) = None.
  Proof.
    intros Hs Hk Hv Hz H Hd Hne Hnone.
    destruct (prelude_convert_fix pr _ _ _ _ Hk Hv Hz H) as [P1 _].
    unfold deser_internal in Hd.
    rewrite (has_version_dict_has _ _ Hv), P1 in Hd.
    rewrite andb_false_r in Hd. simpl in Hd.
    rewrite !(sites_ok_reads _ _ Hs) in Hd.
    destruct (o_trusted o && vc_trusted_eligible c).
    - unfold trusted_construct in Hd. inversion Hd; subst st.
      apply init_other_key; [exact Hne|]. apply dict_get_filter_none. exact Hnone.
    - unfold construct in Hd.
      destruct (negb (forallb _ (vc_required c))); [discriminate|].
      destruct (negb (additional_allowed c o) && _); [discriminate|].
      inversion Hd; subst st.
      apply init_other_key; [exact Hne|].
      apply dict_get_update_none.
      + apply fields_map_str_keys.
      + apply undefined_kwargs_none. exact Hnone.
      + apply fields_map_none. exact Hnone.
  Qed.
End Proofs.

(* ------------------------------------------------------------ what goes wrong otherwise (witnesses) *)

(* history: one step that renames "old" to "new"; a class with the single field "new" that allows extras *)
Definition w_maps : list mapping := [ [ (s2p "new", MKey (s2p "old")); (s2p "old", MDeleted) ] ].
Definition w_doc : dict := [ (PStr (s2p "version"), PNum (NInt 1)); (PStr (s2p "old"), PNum (NInt 5)) ].
Definition w_class : vclass :=
  {| vc_fields := [s2p "new"]; vc_required := []; vc_additional := None; vc_trusted_eligible := true |}.
Definition w_opts : dopts :=
  {| o_keep_undefined := Some true; o_trusted := false; o_additional_default := true;
     o_ignore_invalid_additional := true |}.
Definition w_opts_trusted : dopts :=
  {| o_keep_undefined := None; o_trusted := true; o_additional_default := true;
     o_ignore_invalid_additional := true |}.
Definition w_conv : dict := [ (PStr (s2p "version"), PNum (NInt 2)); (PStr (s2p "new"), PNum (NInt 5)) ].

(* the kept "undefined" keys read from the caller's document: the deleted key comes back as an attribute *)
Definition raw_undefined_sites : list site :=
  [ (RTrusted, Converted); (RIsDict, Converted); (RUndefined, Raw); (RFields, Converted) ].
(* the fields read from the caller's document: the renamed field is never populated *)
Definition raw_fields_sites : list site :=
  [ (RTrusted, Converted); (RIsDict, Converted); (RUndefined, Converted); (RFields, Raw) ].

Lemma deser_raw_undefined_refuted :
  convert_dict std_fn std_cd_params w_doc w_maps = Ok w_conv /\
  deser_internal std_fn std_cd_params std_prelude raw_undefined_sites (InitForce 1) EDeserializer
                 w_class w_opts w_maps w_doc
  <> deser_internal std_fn std_cd_params std_prelude raw_undefined_sites (InitForce 1) EDeserializer
                    w_class w_opts w_maps w_conv.
Proof. split; [vm_compute; reflexivity | vm_compute; discriminate]. Qed.

Lemma deser_raw_fields_refuted :
  deser_internal std_fn std_cd_params std_prelude raw_fields_sites (InitForce 1) EDeserializer
                 w_class w_opts w_maps w_doc
  <> deser_internal std_fn std_cd_params std_prelude raw_fields_sites (InitForce 1) EDeserializer
                    w_class w_opts w_maps w_conv.
Proof. vm_compute. discriminate. Qed.

(* the trusted branch handed the caller's document: the renamed field is never populated *)
Definition raw_trusted_sites : list site :=
  [ (RTrusted, Raw); (RIsDict, Converted); (RUndefined, Converted); (RFields, Converted) ].
Lemma deser_raw_trusted_refuted :
  deser_internal std_fn std_cd_params std_prelude raw_trusted_sites (InitForce 1) EDeserializer
                 w_class w_opts_trusted w_maps w_doc
  <> deser_internal std_fn std_cd_params std_prelude raw_trusted_sites (InitForce 1) EDeserializer
                    w_class w_opts_trusted w_maps w_conv.
Proof. vm_compute. discriminate. Qed.

(* a constructor that only fills in a missing version lets a stale one through *)
Lemma init_setdefault_refuted :
  dict_get (versioned_init_kwargs_s (InitSetDefault 1) w_maps [ (PStr (s2p "version"), PNum (NInt 1)) ]) version_key
  <> Some (PNum (NInt 2)).
Proof. vm_compute. discriminate. Qed.
