(* Code-side model of deserialization: Deserializer.deserialize -> deserialize_structure ->
   deserialize_structure_internal -> construct_fields_map -> deserialize_single_field and its
   helpers (deserialize_list_like, deserialize_map, deserialize_multifield_wrapper,
   Enum.deserialize), then the constructor call on the keyword arguments = Struct/Instance.construct.  No mappers, no camel-case
   conversion, no trusted path, no Versioned (outside the fragment of C05/C06).
   Executable; no proofs here. *)
From Coq Require Import ZArith QArith NArith String Ascii Bool Lia List.
Import ListNotations.
From TP Require Import Base.PyVal Fields.FieldAst Fields.SetChain Fields.Doc Struct.Instance Ser.Json Ser.Serialize.
Local Open Scope Z_scope.

(* process-wide configuration that deserialization reads *)
Record dflags := {
  df_ignore_invalid : bool;     (* TypedPyDefaults.ignore_invalid_additional_properties_in_deserialization *)
  df_compact : bool }.          (* TypedPyDefaults.compact_deserialization_default *)

Definition list_like (v : pyval) : option (list pyval) :=
  match v with
  | PList l | PTuple l | PSet _ l => Some l
  | _ => None
  end.

(* `except (ValueError, TypeError) as e: raise ValueError(...)` *)
Definition rewrap {A} (r : res A) : res A :=
  match r with
  | Raise x => if is_te_ve x then Raise ValueError else Raise x
  | _ => r
  end.

(* `except ValueError as e: raise ValueError(...)` (InvalidStructureErr derives from ValueError) *)
Definition is_ve (x : exn) : bool := match x with ValueError | InvalidStructureErr => true | _ => false end.
Definition rewrap_ve {A} (r : res A) : res A :=
  match r with
  | Raise x => if is_ve x then Raise ValueError else Raise x
  | _ => r
  end.

Inductive seqtarget := TList | TDeque | TTuple | TSet.

(* content_type(values) *)
Definition build_seq (t : seqtarget) (l : list pyval) : res pyval :=
  match t with
  | TList => Ok (PList l)
  | TDeque => Ok (PDeque l)
  | TTuple => Ok (PTuple l)
  | TSet => if forallb py_hashable l then Ok (PSet false (py_dedup l)) else Raise TypeError
  end.

Inductive multikind := MAll | MAny | MOne | MNot.

Section Deser.
  Variable re_match : N -> pystr -> bool.
  Variable e : env.
  Variable ens : enums.
  Variable fl : dflags.

  (* Enum.deserialize *)
  Definition deser_enum_cls (f : field) (cls : pystr) (members : list (pystr * pyval)) (j : pyval) : res pyval :=
    let all := match find_enum ens cls with Some d => en_members d | None => members end in
    if enum_by_value ens cls then
      if negb (py_hashable j) then Raise TypeError
      else match find (fun m => py_eq (snd m) j) all with
           | Some m => Ok (PEnum cls (fst m) (snd m))
           | None => Raise ValueError
           end
    else
      match j with
      | PStr s =>
          if alist_has members s then
            match alist_get all s with Some x => Ok (PEnum cls s x) | None => Raise Unmodelled end
          else Raise ValueError
      | _ => _ <- validate_weak re_match e f j ;; Ok j
      end.

  Section WithRec.
    (* deserialize_structure_internal(cls, value, keep_undefined=...) for a nested class reference *)
    Variable rec : bool -> pystr -> pyval -> res pyval.

    Fixpoint deser_val (ku : bool) (ign : bool) (f : field) (j : pyval) {struct f} : res pyval :=
      let positional (t : seqtarget) (items : list field) :=
          match list_like j with
          | None => Raise ValueError
          | Some l =>
              if (length l <? length items)%nat then Raise ValueError   (* len(value) < len(items) *)
              else
              r <- (fix pos (fs : list field) (vs : list pyval) {struct fs} : res (list pyval) :=
                      match fs with
                      | [] => Ok vs                                   (* values += value[len(items):] *)
                      | g :: fs' =>
                          match vs with
                          | [] => Raise IndexError                    (* value[i]: not reached, the length was tested *)
                          | x :: vs' => y <- rewrap (deser_val ku false g x) ;; ys <- pos fs' vs' ;; Ok (y :: ys)
                          end
                      end) items l ;;
              build_seq t r
          end in
      let each (t : seqtarget) (g : field) :=
          match list_like j with
          | None => Raise ValueError
          | Some l => r <- mapR (fun x => rewrap (deser_val ku false g x)) l ;; build_seq t r
          end in
      let plain (t : seqtarget) :=
          match list_like j with
          | None => Raise ValueError
          | Some l => build_seq t l
          end in
      let multi (k : multikind) (fs : list field) :=
          (* deserialize_multifield_wrapper; state: last deserialized, a previous match, failures *)
          (fix go (gs : list field) (des : pyval) (found : bool) (failures : nat) : res pyval :=
             match gs with
             | [] =>
                 if Nat.eqb failures (length fs) && negb (match k with MNot => true | _ => false end)
                 then Raise ValueError else Ok des
             | g :: t =>
                 match deser_val ku false g j with
                 | Ok d =>
                     match k with
                     | MAny => Ok d
                     | MNot => go t d found (S failures)
                     | MOne => if found then go t d found (S failures) else go t d true failures
                     | MAll => go t d true failures
                     end
                 | Raise x =>
                     if model_exn x then Raise x
                     else match k with
                          | MAll => Raise ValueError
                          | _ => go t des found (S failures)
                          end
                 end
             end) fs j false O in
      match j, (ign || match f with FNone => true | _ => false end) with
      | PNone, true => Ok PNone
      | _, _ =>
          match f with
          | FNumber _ _ _ | FString _ | FBoolean => _ <- validate_weak re_match e f j ;; Ok j
          | FSeqAny SeqList _ _ => plain TList
          | FSeqAny SeqDeque _ _ => plain TDeque
          | FSeqEach SeqList g _ _ => each TList g
          | FSeqEach SeqDeque g _ _ => each TDeque g
          | FSeqPos SeqList items _ _ _ => positional TList items
          | FSeqPos SeqDeque items _ _ _ => positional TDeque items
          | FTuple [g] _ => each TTuple g                   (* a Tuple with ONE item field: every element *)
          | FTuple items _ => positional TTuple items
          | FSet _ (Some g) _ => each TSet g
          | FSet _ None _ => plain TSet
          | FAllOf fs => multi MAll fs
          | FAnyOf fs => multi MAny fs
          | FOneOf fs => multi MOne fs
          | FNot fs => multi MNot fs
          | FClassRef c => match j with PStruct _ _ => Ok j | _ => rec ku c j end
          | FMapKV kf vf _ =>
              match j with
              | PDict kv =>
                  r <- mapR (fun p => k' <- deser_val ku false kf (fst p) ;;
                                      v' <- deser_val ku false vf (snd p) ;; Ok (k', v')) kv ;;
                  if forallb (fun p => py_hashable (fst p)) r then Ok (PDict (dict_of_pairs [] r))
                  else Raise TypeError
              | _ => Raise TypeError
              end
          | FMapAny _ => match j with PDict _ => Ok j | _ => Raise TypeError end
          (* a SerializableField: the ValueError of field.deserialize is raised again with the field's name *)
          | FEnumLit _ => rewrap_ve (_ <- validate_weak re_match e f j ;; Ok j)
          | FEnumCls cls members => rewrap_ve (deser_enum_cls f cls members j)
          | FAnything => Ok j
          | FNone => Raise ValueError                         (* anything but None: "Expected None" *)
          end
      end.

    (* construct_fields_map: fields in class order; an input that is falsy has its TypeError/ValueError
       collected (and reported at the end as InvalidStructureErr) instead of raised at once *)
    Fixpoint deser_fields (ku ign : bool) (fds : list fdecl) (kv : list (pyval * pyval)) (had_err : bool)
      : res (list (pystr * pyval)) :=
      match fds with
      | [] => if had_err then Raise InvalidStructureErr else Ok []
      | fd :: t =>
          (* every field goes through the class's no-op mapper and get_processed_input: an explicit
             null is indistinguishable from an absent key *)
          match dict_get kv (PStr (fd_name fd)) with
          | None | Some PNone => deser_fields ku ign t kv had_err
          | Some j =>
              match deser_val ku ign (fd_field fd) j with
              | Ok w => rest <- deser_fields ku ign t kv had_err ;; Ok ((fd_name fd, w) :: rest)
              | Raise x =>
                  if negb (py_truthy j) && is_te_ve x then deser_fields ku ign t kv true else Raise x
              end
          end
      end.
  End WithRec.

  Definition is_field_key (c : classdef) (k : pyval) : bool :=
    match k with PStr s => str_in s (field_names c) | _ => false end.

  Fixpoint str_keys (kv : list (pyval * pyval)) : option (list (pystr * pyval)) :=
    match kv with
    | [] => Some []
    | (PStr s, v) :: t => match str_keys t with Some r => Some ((s, v) :: r) | None => None end
    | _ => None
    end.

  (* deserialize_structure_internal(cls, the_dict, keep_undefined=ku) *)
  Fixpoint deser_struct (n : nat) (ku : bool) (cn : pystr) (j : pyval) : res pyval :=
    match n with
    | O => Raise OutOfFuel
    | S n' =>
        match find_class e cn with
        | None => Raise Unmodelled
        | Some c =>
            match j with
            | PDict kv =>
                let extras :=
                    if ku && (c_additional c || negb (df_ignore_invalid fl))
                    then filter (fun p => negb (is_field_key c (fst p))) kv else [] in
                kw <- deser_fields (deser_struct n') ku (c_ignore_none c) (c_fields c) kv false ;;
                match str_keys extras with
                | Some ex => construct re_match e c (ex ++ kw)
                | None => Raise TypeError                  (* keywords must be strings *)
                end
            | _ =>
                match (if df_compact fl then compact_eligible c else None) with
                | Some fd =>
                    w <- deser_val (deser_struct n') true (c_ignore_none c) (fd_field fd) j ;;   (* keep_undefined is not passed on here *)
                    construct re_match e c [(fd_name fd, w)]
                | None => Raise TypeError
                end
            end
        end
    end.

  (* Deserializer(cls).deserialize(j, keep_undefined=ku) *)
  Definition adjust_keep_undefined (c : classdef) (ku : option bool) : bool :=
    match ku with
    | Some b => b
    | None => negb (c_additional c)     (* None stays None (falsy) when additional properties are allowed *)
    end.

  Definition deserialize (n : nat) (ku : option bool) (cn : pystr) (j : pyval) : res pyval :=
    match find_class e cn with
    | Some c => deser_struct n (adjust_keep_undefined c ku) cn j
    | None => Raise Unmodelled
    end.
End Deser.
