(* The tie between the GENERATED translation of the trusted deserialization PATH
   (Gen/TrustedSrc.v: the trusted branch of serialization.py deserialize_structure_internal, _remap_input,
   _get_class_deserialization_mapping_for_simple_class, and Structure.from_trusted_data of structures.py, as the
   source says them NOW) and the hand-written trusted deserializer of Ser/Trusted.v ([trusted_cls], [deser_trusted]):
   for EVERY class environment, class, fuel and document the generated function returns exactly what the model
   returns -- the same instance or the same exception class.

   The embedding of declarations is the one of Ser/TrustedSrcProofs.v ([class_heap], [tf_py]).  Two things the
   path calls are outside this translation unit and are parameters of the generated definitions:
     [ext name args]      a function that is not translated here (get_flat_resolved_mapper of mappers.py, which
                          Gen/MappersSrc.v translates and Ser/MappersSrcProofs.v ties to its own model),
     [mcall o m args]     a method of a field object (SerializableField.deserialize, Enum.deserialize);
   the hypotheses [ext_ok] / [mcall_ok] say what they return on the embedded objects, in terms of the model's
   flat_mapping and of its oracles. *)
From Coq Require Import ZArith QArith NArith String Ascii Bool Lia List Permutation.
Import ListNotations.
From TP Require Import Base.PyVal Base.PyEq Base.PyOps Base.PyOps2 Base.PyObj Base.PyOpsFields
     Fields.FieldAst Fields.SetChain Ser.Trusted Gen.TrustedSrc Ser.TrustedSrcProofs.
Local Open Scope Z_scope.

(* ------------------------------------------------------------------ documents *)

(* a document: every dict in it has string keys that are pairwise distinct (a Python dict), and it contains no class
   object *)
Fixpoint val_wf (v : pyval) : bool :=
  match v with
  | PList l | PTuple l | PDeque l | PSet _ l =>
      (fix all (l : list pyval) : bool := match l with [] => true | x :: t => val_wf x && all t end) l
  | PDict kv =>
      nodupb (flat_map (fun p => match fst p with PStr k => [k] | _ => [] end) kv) &&
      (fix all (l : list (pyval * pyval)) : bool :=
         match l with [] => true | (_, x) :: t => val_wf x && all t end) kv
  | POther t _ => negb (pystr_eqb t ref_tag)
  | _ => true
  end.

Lemma val_wf_list l : val_wf (PList l) = forallb val_wf l.
Proof. cbn [val_wf]. induction l as [|x t IH]; [reflexivity|]. cbn [forallb]. rewrite IH. reflexivity. Qed.

Lemma val_wf_dict kv doc :
  val_wf (PDict kv) = true -> doc_alist kv = Some doc ->
  kv = kv_py doc /\ nodupb (map fst doc) = true /\ forallb (fun p => val_wf (snd p)) doc = true.
Proof.
  cbn [val_wf]. intro H. apply andb_true_iff in H as [Hn Ha]. revert doc Hn Ha.
  induction kv as [|[k v] t IH]; intros doc Hn Ha Hd; cbn [doc_alist] in Hd.
  - inversion Hd; subst. repeat split.
  - destruct k; try discriminate Hd. destruct (doc_alist t) as [r|] eqn:E; [|discriminate Hd].
    inversion Hd; subst. cbn [flat_map fst app nodupb] in Hn. apply andb_true_iff in Hn as [H1 H2].
    apply andb_true_iff in Ha as [Hv Ht].
    destruct (IH r H2 Ht eq_refl) as (E1 & E2 & E3). subst t.
    split; [reflexivity|]. cbn [map fst nodupb forallb snd]. rewrite E2, E3, Hv.
    assert (EK : flat_map (fun p : pyval * pyval => match fst p with PStr k => [k] | _ => [] end) (kv_py r) = map fst r).
    { clear. induction r as [|[k v] r IH]; [reflexivity|]. cbn [kv_py map flat_map fst app]. f_equal. exact IH. }
    rewrite EK in H1. rewrite H1. repeat split.
Qed.

(* ------------------------------------------------------------------ dicts keyed by names, continued *)

Lemma dict_get_kv l k : dict_get (kv_py l) (PStr k) = alist_get l k.
Proof.
  induction l as [|[k' v] t IH]; [reflexivity|].
  cbn [kv_py map fst snd dict_get alist_get py_eq]. fold (kv_py t). destruct (pystr_eqb k' k); [reflexivity|exact IH].
Qed.

Lemma dict_has_kv l k : dict_has (kv_py l) (PStr k) = alist_has l k.
Proof. unfold dict_has, alist_has. rewrite dict_get_kv. reflexivity. Qed.

Lemma dict_of_kv l :
  py_dict_of (kv_py l) = Ok (PDict (kv_py (fold_left (fun a p => alist_set a (fst p) (snd p)) l []))).
Proof. unfold py_dict_of. change (@nil (pyval * pyval)) with (kv_py []). rewrite dict_build_kv. reflexivity. Qed.

Lemma dict_merge_kv a b :
  py_dict_merge (PDict (kv_py a)) (PDict (kv_py b)) =
  Ok (PDict (kv_py (fold_left (fun acc p => alist_set acc (fst p) (snd p)) b a))).
Proof.
  cbn [py_dict_merge]. do 2 f_equal. revert a. induction b as [|[k v] t IH]; intro a; [reflexivity|].
  cbn [kv_py map fold_left fst snd]. fold (kv_py t). fold (kv_py a). rewrite dict_set_kv. apply IH.
Qed.

Lemma filterM_some {A B} (f : A -> res B) l :
  filterM (fun x => y <- f x ;; Ok (Some y)) l = mapM f l.
Proof.
  induction l as [|x t IH]; [reflexivity|]. cbn [filterM mapM]. destruct (f x); cbn [bind]; [|reflexivity].
  rewrite IH. destruct (mapM f t); reflexivity.
Qed.

(* two functions that agree wherever the second one predicts: so do their mapM *)
Lemma mapM_agree (f g : pyval -> res pyval) (P : pyval -> bool) : forall l,
    (forall x, P x = true -> g x <> Raise Unmodelled -> f x = g x) ->
    forallb P l = true -> mapM g l <> Raise Unmodelled -> mapM f l = mapM g l.
Proof.
  intros l H. induction l as [|x t IH]; intros HP Hm; [reflexivity|].
  cbn [forallb] in HP. apply andb_true_iff in HP as [Hx Ht]. cbn [mapM] in Hm |- *.
  assert (Hg : g x <> Raise Unmodelled). { intro E. apply Hm. rewrite E. reflexivity. }
  rewrite (H x Hx Hg). destruct (g x) as [y|ex]; cbn [bind] in Hm |- *; [|reflexivity].
  assert (Hmt : mapM g t <> Raise Unmodelled). { intro E. apply Hm. rewrite E. reflexivity. }
  rewrite (IH Ht Hmt). reflexivity.
Qed.

Definition nocls (v : pyval) : bool := match v with POther t _ => negb (pystr_eqb t ref_tag) | _ => true end.

Lemma not_undefined v : nocls v = true -> py_is_class v (ref (s2p "Undefined")) = Ok false.
Proof.
  destruct v; try reflexivity. cbn [nocls]. intro H. apply negb_true_iff in H.
  unfold py_is_class, ref. rewrite pystr_eqb_refl, H. reflexivity.
Qed.

Lemma val_wf_nocls v : val_wf v = true -> nocls v = true.
Proof. destruct v; try reflexivity. cbn [val_wf nocls]. exact (fun H => H). Qed.

Section PathBridge.
  Variable other_obj : N -> bool -> pyval.
  Variable chain : list pyval.
  Variable e : tenv.
  Variable re_match : N -> pystr -> bool.
  Variable sdeser : N -> pyval -> res pyval.
  Variable ext : pystr -> list pyval -> res pyval.
  Variable mcall : pyval -> pystr -> list pyval -> res pyval.

  Notation tfpy := (tf_py other_obj).
  Notation heap_e := (class_heap other_obj chain e).

  (* ---------------------------------------------------------------- Structure.from_trusted_data *)

  Definition present (m : list (pystr * pyval)) (fs : list tfd) : list (pystr * pyval) :=
    flat_map (fun fd => match alist_get m (f_name fd) with Some v => [(f_name fd, v)] | None => [] end) fs.

  Lemma present_keys m : forall fs,
      nodupb (map f_name fs) = true ->
      nodupb (map fst (present m fs)) = true /\
      (forall k, str_in k (map f_name fs) = false -> str_in k (map fst (present m fs)) = false).
  Proof.
    induction fs as [|fd t IH]; intro Hn; [split; [reflexivity|intros; reflexivity]|].
    cbn [map nodupb] in Hn. apply andb_true_iff in Hn as [H1 H2]. apply negb_true_iff in H1.
    destruct (IH H2) as [Hr Hk]. unfold present. cbn [flat_map]. fold (present m t).
    assert (Hsub : forall k, str_in k (map f_name (fd :: t)) = false -> str_in k (map fst (present m t)) = false).
    { intros k Hkk. apply Hk. unfold str_in in Hkk |- *. cbn [map existsb] in Hkk. apply orb_false_iff in Hkk as [_ Hkk]. exact Hkk. }
    destruct (alist_get m (f_name fd)) as [v|]; cbn [app]; [|split; assumption].
    split.
    - cbn [map fst nodupb]. rewrite (Hk _ H1), Hr. reflexivity.
    - intros k Hkk. unfold str_in in Hkk |- *. cbn [map existsb fst] in Hkk |- *.
      apply orb_false_iff in Hkk as [Hk1 Hk2]. rewrite Hk1. cbn [orb]. apply Hk. exact Hk2.
  Qed.

  Lemma present_nocls m : forall fs,
      forallb (fun p => nocls (snd p)) m = true -> forallb (fun p => nocls (snd p)) (present m fs) = true.
  Proof.
    intros fs Hm. induction fs as [|fd t IH]; [reflexivity|].
    unfold present. cbn [flat_map]. fold (present m t).
    destruct (alist_get m (f_name fd)) as [v|] eqn:E; cbn [app]; [|exact IH].
    cbn [forallb snd]. rewrite IH, andb_true_r.
    clear - Hm E. induction m as [|[k x] m IHm]; [discriminate E|].
    cbn [alist_get] in E. cbn [forallb snd] in Hm. apply andb_true_iff in Hm as [H1 H2].
    destruct (pystr_eqb k (f_name fd)); [inversion E; subst; exact H1 | exact (IHm H2 E)].
  Qed.

  Lemma heap_misc cn c :
    find_tclass e cn = Some c ->
    heap_e cn (s2p "_constants") = None /\ heap_e cn (s2p "_enable_undefined_value") = None /\
    heap_e cn (s2p "_ignore_none") = (if t_ignore_none c then Some (PBool true) else None) /\
    heap_e cn (s2p "__mro__") = Some (PList [ref cn; ref (s2p "Structure")]) /\
    t_name c = cn.
  Proof.
    intro Hf. unfold class_heap. rewrite Hf. repeat split.
    clear - Hf. induction e as [|c0 t IH]; [discriminate Hf|]. cbn [find_tclass] in Hf.
    destruct (pystr_eqb (t_name c0) cn) eqn:E; [|exact (IH Hf)].
    inversion Hf; subst. apply pystr_eqb_spec. exact E.
  Qed.

  Theorem src_from_trusted_eq : forall cn c m,
      find_tclass e cn = Some c ->
      nodupb (map f_name (t_fields c)) = true ->
      forallb (fun p => nocls (snd p)) m = true ->
      src_from_trusted_data ext mcall heap_e (ref cn) (PDict (kv_py m)) PNone (PDict []) = Ok (from_trusted_map c m).
  Proof.
    intros cn c m Hf Hn Hm. destruct (heap_fields other_obj chain e cn c Hf) as (Hg & _ & _).
    destruct (heap_misc cn c Hf) as (Hc & _ & _ & _ & Hname).
    unfold src_from_trusted_data, from_trusted_map. rewrite Hname. fold (present m (t_fields c)).
    destruct m as [|p0 m0].
    { cbn [kv_py map py_truthy length Nat.eqb negb bind]. cbn [py_trusted_instance ref].
      rewrite pystr_eqb_refl. cbn [andb kwargs_alist].
      assert (HP : forall fs, present [] fs = []) by (induction fs as [|fd t IH]; [reflexivity|exact IH]).
      rewrite HP. reflexivity. }
    set (m := p0 :: m0) in *.
    change (py_truthy (PDict (kv_py m))) with true. cbn [bind py_truthy py_is_mapping].
    rewrite ref_getattr, Hg. cbn [bind]. unfold fields_py. cbn [py_iter bind]. rewrite map_map. cbn [fst].
    match goal with |- context [filterM ?F (map _ (t_fields c))] => set (F1 := F) end.
    assert (HF1 : forall fs, filterM F1 (map (fun fd => PStr (f_name fd)) fs) = Ok (kv_py (present m fs))).
    { induction fs as [|fd t IH]; [reflexivity|].
      cbn [map filterM]. rewrite IH. unfold present. cbn [flat_map]. fold (present m t).
      subst F1. cbv beta.
      change (py_in_dyn (PStr (f_name fd)) (PList [])) with (@Ok bool false).
      change (py_in_dyn (PStr (f_name fd)) (PDict [])) with (@Ok bool false).
      rewrite ref_getattr_def, Hc.
      change (py_in_dyn (PStr (f_name fd)) (PDict [])) with (@Ok bool false).
      cbn [py_not py_and py_or bind negb py_truthy py_in_dyn py_hashable' py_dict_get_method].
      rewrite dict_has_kv, dict_get_kv. unfold alist_has.
      destruct (alist_get m (f_name fd)) as [v|]; reflexivity. }
    rewrite HF1. cbn [bind]. rewrite dict_of_kv.
    destruct (present_keys m (t_fields c) Hn) as [Hpn _].
    rewrite (set_all_fresh (present m (t_fields c)) [] Hpn). cbn [app bind py_dict_items].
    assert (HF2 : forall l, forallb (fun p => nocls (snd p)) l = true ->
              filterM (fun '(k, v) => c0 <- py_not (py_is_class v (ref (s2p "Undefined"))) ;; if c0 then Ok (Some (k, v)) else Ok None)
                      (kv_py l) = Ok (kv_py l)).
    { induction l as [|[k v] l IH]; intro Hl; [reflexivity|].
      cbn [forallb snd] in Hl. apply andb_true_iff in Hl as [H1 H2].
      cbn [kv_py map filterM fst snd]. fold (kv_py l). rewrite (not_undefined v H1). cbn [py_not bind negb].
      rewrite (IH H2). reflexivity. }
    rewrite (HF2 _ (present_nocls m (t_fields c) Hm)). cbn [bind]. rewrite dict_of_kv.
    rewrite (set_all_fresh (present m (t_fields c)) [] Hpn). cbn [app bind].
    change (PDict []) with (PDict (kv_py [])). rewrite dict_merge_kv. cbn [fold_left bind].
    cbn [py_trusted_instance ref]. rewrite pystr_eqb_refl. cbn [andb].
    assert (HK : forall l, kwargs_alist (kv_py l) = Some l).
    { induction l as [|[k v] l IH]; [reflexivity|]. cbn [kv_py map fst snd kwargs_alist]. fold (kv_py l). rewrite IH. reflexivity. }
    rewrite HK. reflexivity.
  Qed.

  (* ---------------------------------------------------------------- the key renaming (get_flat_resolved_mapper) *)

  Definition fm_py (fm : list (pystr * pystr)) : pyval := PDict (kv_py (map (fun p => (fst p, PStr (snd p))) fm)).

  (* what the untranslated get_flat_resolved_mapper returns on a class of the environment: the model's
     flat_mapping (document key -> field name); a list of mappers has no .get: AttributeError *)
  Definition ext_ok : Prop :=
    forall cn c, find_tclass e cn = Some c ->
                 ext (s2p "get_flat_resolved_mapper") [ref cn] =
                 match t_mapper c with MapList => Raise AttributeError | _ => Ok (fm_py (flat_mapping c)) end.

  Lemma alist_get_map {A B} (g : A -> B) (l : list (pystr * A)) k :
    alist_get (map (fun p => (fst p, g (snd p))) l) k = option_map g (alist_get l k).
  Proof.
    induction l as [|[k' v] t IH]; [reflexivity|]. cbn [map fst snd alist_get].
    destruct (pystr_eqb k' k); [reflexivity|exact IH].
  Qed.

  Lemma alist_get_nodup {A} : forall (l : list (pystr * A)) p,
      nodupb (map fst l) = true -> In p l -> alist_get l (fst p) = Some (snd p).
  Proof.
    induction l as [|[k v] t IH]; intros p Hn Hin; [contradiction|].
    cbn [map fst nodupb] in Hn. apply andb_true_iff in Hn as [H1 H2]. apply negb_true_iff in H1.
    cbn [alist_get]. destruct Hin as [E|Hin].
    - subst p. cbn [fst snd]. rewrite pystr_eqb_refl. reflexivity.
    - destruct (pystr_eqb k (fst p)) eqn:E; [|exact (IH p H2 Hin)].
      apply pystr_eqb_spec in E. subst k. exfalso.
      assert (Hs : str_in (fst p) (map fst t) = true) by (apply str_in_In, in_map; exact Hin). congruence.
  Qed.

  Lemma fold_left_map {A B C} (f : A -> B -> A) (g : C -> B) l : forall a,
      fold_left f (map g l) a = fold_left (fun a x => f a (g x)) l a.
  Proof. induction l as [|x t IH]; intro a; [reflexivity|]. cbn [map fold_left]. apply IH. Qed.

  Definition newkey (fm : list (pystr * pystr)) (k : pystr) : pystr :=
    match alist_get fm k with Some k' => k' | None => k end.

  Lemma rename_keys fm doc : forall l,
      (forall p, In p l -> alist_get doc (fst p) = Some (snd p)) ->
      filterM (fun k => t12 <- py_dict_get_method (fm_py fm) k k ;; t13 <- py_subscript (PDict (kv_py doc)) k ;; Ok (Some (t12, t13)))
              (map (fun p => PStr (fst p)) l)
      = Ok (kv_py (map (fun p => (newkey fm (fst p), snd p)) l)).
  Proof.
    induction l as [|p t IH]; intro H; [reflexivity|].
    cbn [map filterM]. rewrite IH by (intros q Hq; apply H; right; exact Hq).
    unfold fm_py. cbn [py_dict_get_method py_hashable' py_subscript]. unfold py_dict_getitem. cbn [py_hashable'].
    rewrite !dict_get_kv, alist_get_map, (H p (or_introl eq_refl)). unfold newkey.
    destruct (alist_get fm (fst p)); reflexivity.
  Qed.

  Lemma rename_eq c doc :
    nodupb (map fst doc) = true ->
    (if py_truthy (fm_py (flat_mapping c))
     then (t10 <- py_iter (PDict (kv_py doc)) ;;
           r14 <- filterM (fun k => t12 <- py_dict_get_method (fm_py (flat_mapping c)) k k ;;
                                    t13 <- py_subscript (PDict (kv_py doc)) k ;; Ok (Some (t12, t13))) t10 ;;
           t15 <- py_dict_of r14 ;; Ok t15)
     else Ok (PDict (kv_py doc))) = Ok (PDict (kv_py (rename_doc c doc))).
  Proof.
    intro Hn. unfold rename_doc.
    destruct (flat_mapping c) as [|q fm0] eqn:Efm.
    - cbn [fm_py map kv_py py_truthy length Nat.eqb negb alist_get].
      rewrite (set_all_fresh doc [] Hn). reflexivity.
    - set (fm := q :: fm0) in *. change (py_truthy (fm_py fm)) with true. cbv iota.
      cbn [py_iter bind].
      replace (map fst (kv_py doc)) with (map (fun p : pystr * pyval => PStr (fst p)) doc)
        by (unfold kv_py; rewrite map_map; reflexivity).
      rewrite (rename_keys fm doc doc) by (intros p Hp; exact (alist_get_nodup doc p Hn Hp)).
      cbn [bind]. rewrite dict_of_kv. cbn [bind]. rewrite fold_left_map. reflexivity.
  Qed.

  (* ---------------------------------------------------------------- the enum re-mapping *)

  Definition enum_step (inp : list (pystr * pyval)) (t : pystr * etarget) : res (option (pystr * pyval)) :=
    let '(k, (cls, ms, byv)) := t in
    match alist_get inp k with
    | Some v =>
        if py_truthy v then
          if negb (py_hashable v) then Raise TypeError
          else match enum_member ms byv v with
               | Some (n, x) => Ok (Some (k, PEnum cls n x))
               | None => Raise KeyError
               end
        else Ok None
    | None => Ok None
    end.

  Lemma apply_enums_steps inp : forall ts acc,
      apply_enums ts inp acc =
      (vals <- filterM (enum_step inp) ts ;; Ok (fold_left (fun a p => alist_set a (fst p) (snd p)) vals acc)).
  Proof.
    induction ts as [|[k [[cls ms] byv]] t IH]; intro acc; [reflexivity|].
    cbn [apply_enums filterM enum_step].
    destruct (alist_get inp k) as [v|]; [|cbn [bind]; rewrite IH; destruct (filterM (enum_step inp) t); reflexivity].
    destruct (py_truthy v); [|cbn [bind]; rewrite IH; destruct (filterM (enum_step inp) t); reflexivity].
    destruct (negb (py_hashable v)); [reflexivity|].
    destruct (enum_member ms byv v) as [[n x]|]; [|reflexivity].
    cbn [bind]. rewrite IH. destruct (filterM (enum_step inp) t); reflexivity.
  Qed.

  Lemma lookup_member cls ms byv v :
    py_subscript (lookup_py (cls, ms, byv)) v =
    if negb (py_hashable v) then Raise TypeError
    else match enum_member ms byv v with Some (n, x) => Ok (PEnum cls n x) | None => Raise KeyError end.
  Proof.
    unfold lookup_py, enum_member.
    change (py_hashable v) with (py_hashable' v).
    destruct byv; unfold enum_byv_py, enum_cls_py; cbn [py_subscript]; unfold py_dict_getitem;
      destruct (py_hashable' v); cbn [negb]; try reflexivity.
    - induction ms as [|[n x] t IH]; [reflexivity|]. cbn [map dict_get find fst snd].
      destruct (py_eq x v); [reflexivity|exact IH].
    - destruct v as [| | |s| | | | | | | |];
        try (induction ms as [|[m0 x0] t IH]; [reflexivity|]; cbn [map dict_get fst snd py_eq as_num]; exact IH).
      induction ms as [|[m0 x0] t IH]; [reflexivity|]. cbn [map dict_get fst snd py_eq alist_get].
      destruct (pystr_eqb m0 s) eqn:E; [apply pystr_eqb_spec in E; subst; reflexivity|exact IH].
  Qed.

  Lemma enum_vals_src inp : forall ts,
      filterM (fun '(k, mapping) =>
                 c0 <- (t24 <- py_dict_get_method (PDict (kv_py inp)) k PNone ;; Ok (py_truthy t24)) ;;
                 if c0 then (t22 <- py_subscript (PDict (kv_py inp)) k ;; t23 <- py_subscript mapping t22 ;; Ok (Some (k, t23)))
                 else Ok None)
              (kv_py (map target_kv ts))
      = (vals <- filterM (enum_step inp) ts ;; Ok (kv_py vals)).
  Proof.
    induction ts as [|[k [[cls ms] byv]] t IH]; [reflexivity|].
    cbn [map kv_py filterM target_kv fst snd enum_step]. fold (kv_py (map target_kv t)). rewrite IH.
    cbn [py_dict_get_method py_hashable' py_subscript bind]. unfold py_dict_getitem at 1. cbn [py_hashable'].
    rewrite !dict_get_kv.
    destruct (alist_get inp k) as [v|]; cbn [py_truthy bind];
      [|destruct (filterM (enum_step inp) t); reflexivity].
    destruct (py_truthy v); cbn [bind]; [|destruct (filterM (enum_step inp) t); reflexivity].
    rewrite (lookup_member cls ms byv v).
    destruct (negb (py_hashable v)); [reflexivity|].
    destruct (enum_member ms byv v) as [[n x]|]; cbn [bind]; [|reflexivity].
    destruct (filterM (enum_step inp) t); reflexivity.
  Qed.

  Lemma enum_vals_keys inp : forall ts vals,
      filterM (enum_step inp) ts = Ok vals -> nodupb (map fst ts) = true ->
      nodupb (map fst vals) = true /\ (forall k, str_in k (map fst ts) = false -> str_in k (map fst vals) = false).
  Proof.
    induction ts as [|[k [[cls ms] byv]] t IH]; intros vals H Hn.
    - inversion H; subst. split; [reflexivity|intros; reflexivity].
    - cbn [map fst nodupb] in Hn. apply andb_true_iff in Hn as [H1 H2]. apply negb_true_iff in H1.
      cbn [filterM] in H.
      match type of H with (bind ?X _) = _ => destruct X as [o|x] eqn:Es end; cbn [bind] in H; [|discriminate H].
      destruct (filterM (enum_step inp) t) as [r|x] eqn:Er; cbn [bind] in H; [|discriminate H].
      inversion H; subst. clear H.
      destruct (IH r eq_refl H2) as [Hr Hk].
      assert (Hsub : forall k', str_in k' (k :: map fst t) = false -> str_in k' (map fst r) = false).
      { intros k' Hkk. apply Hk. unfold str_in in Hkk |- *. cbn [existsb] in Hkk. apply orb_false_iff in Hkk as [_ Hkk]. exact Hkk. }
      destruct o as [[k0 v0]|]; [|split; assumption].
      assert (k0 = k).
      { unfold enum_step in Es. destruct (alist_get inp k); [|discriminate Es]. destruct (py_truthy p); [|discriminate Es].
        destruct (negb (py_hashable p)); [discriminate Es|]. destruct (enum_member ms byv p) as [[n x]|]; [|discriminate Es].
        inversion Es; reflexivity. }
      subst k0. split.
      + cbn [map fst nodupb]. rewrite (Hk _ H1), Hr. reflexivity.
      + intros k' Hkk. unfold str_in in Hkk |- *. cbn [map existsb fst] in Hkk |- *.
        apply orb_false_iff in Hkk as [Hk1 Hk2]. rewrite Hk1. cbn [orb]. apply Hk. exact Hk2.
  Qed.

  (* ---------------------------------------------------------------- _remap_input *)

  Definition prims : list pystr := [s2p "Integer"; s2p "String"; s2p "Float"; s2p "Boolean"; s2p "NoneField"].

  Lemma class_in_incl c ks1 ks2 :
    forallb (fun k => str_in k ks2) ks1 = true -> class_in tbl c ks1 = true -> class_in tbl c ks2 = true.
  Proof.
    unfold class_in. intros Hi Hc. apply existsb_exists in Hc as [k [Hk Hs]]. apply existsb_exists. exists k. split; [|exact Hs].
    rewrite forallb_forall in Hi. apply str_in_In. exact (Hi k Hk).
  Qed.

  Lemma not_valid_facts c :
    class_in tbl c valid = false ->
    class_in tbl c [s2p "Enum"] = false /\ class_in tbl c [s2p "SerializableField"] = false /\ class_in tbl c prims = false.
  Proof.
    intro H. repeat split.
    - destruct (class_in tbl c [s2p "Enum"]) eqn:E; [|reflexivity]. rewrite (class_in_incl c [s2p "Enum"] valid eq_refl E) in H. discriminate H.
    - destruct (class_in tbl c [s2p "SerializableField"]) eqn:E; [|reflexivity]. rewrite (class_in_incl c [s2p "SerializableField"] valid eq_refl E) in H. discriminate H.
    - destruct (class_in tbl c prims) eqn:E; [|reflexivity]. rewrite (class_in_incl c prims valid eq_refl E) in H. discriminate H.
  Qed.

  Lemma leaf_facts2 l :
    leaf_wf l = true ->
    class_in tbl (leaf_cls l) [s2p "Array"] = false /\ class_in tbl (leaf_cls l) [s2p "Set"] = false /\
    (leaf_is_ser l = true -> class_in tbl (leaf_cls l) prims = false).
  Proof.
    destruct l as [f|cls ms byv|vals|id isn]; cbn [leaf_wf leaf_cls leaf_is_ser]; intro H.
    - destruct f as [k s c| | | | | | | | | | | | | | | | | |]; try discriminate H;
        [destruct k, s|..]; vm_compute; repeat split; intro; discriminate.
    - vm_compute; repeat split.
    - vm_compute; repeat split.
    - unfold ser_cls. destruct isn, (N.eqb id 1), (N.eqb id 2); vm_compute; repeat split.
  Qed.

  Lemma set_of_mk_set r : py_set_of r = mk_set r.
  Proof. reflexivity. Qed.

  Lemma filterM_ext {A B} (F G : A -> res (option B)) l : (forall x, F x = G x) -> filterM F l = filterM G l.
  Proof. intro H. induction l as [|x t IH]; [reflexivity|]. cbn [filterM]. rewrite H, IH. reflexivity. Qed.

  Lemma deser_whole_reg l : leaf_is_ser l = true -> leaf_deser_whole re_match sdeser l = reg_leaf re_match sdeser l.
  Proof. destruct l; try discriminate; reflexivity. Qed.

  Lemma nodupb_middle (a : list pystr) k t :
    nodupb (a ++ k :: t) = true ->
    nodupb ((a ++ [k]) ++ t) = true /\ nodupb (a ++ t) = true /\ str_in k a = false.
  Proof.
    intro H. rewrite <- app_assoc. cbn [app]. split; [exact H|].
    apply nodupb_NoDup in H. split.
    - apply nodupb_NoDup. exact (NoDup_remove_1 _ _ _ H).
    - pose proof (NoDup_remove_2 _ _ _ H) as Hn. destruct (str_in k a) eqn:E; [|reflexivity].
      exfalso. apply Hn. apply in_or_app. left. apply str_in_In. exact E.
  Qed.

  (* the Set of an unmodelled field (no such class in the catalogue) is outside what the model describes *)
  Definition tf_noset (tf : tfield) : bool :=
    match tf with
    | TOther id b | TOpt _ (TOther id b) => negb (class_in tbl (cls_of (other_obj id b)) [s2p "Set"])
    | _ => true
    end.

  (* what the untranslated deserialize methods of the field objects return: the model's oracles *)
  Definition mcall_ok : Prop :=
    forall l v, leaf_wf l = true -> leaf_is_ser l = true ->
                mcall (leaf_py l) (s2p "deserialize") [v] = leaf_deser_whole re_match sdeser l v.

  Section Remap.
    Variable n : nat.
    Variable rec : pyval -> pyval -> pyval -> pyval -> pyval -> pyval -> pyval -> pyval -> pyval -> res pyval.
    Variables name usm ccc ku : pyval.
    Variable cn : pystr.
    Variable c : tclass.
    Hypothesis Hf : find_tclass e cn = Some c.
    Hypothesis Hmc : mcall_ok.

    Notation sv := (level_val Nested).
    Notation tc := (trusted_cls re_match sdeser e n Nested).
    Hypothesis Hrec : forall c' v, val_wf v = true -> tc c' v <> Raise Unmodelled ->
                                   rec (ref c') v name usm PNone ku ccc (PBool true) sv = tc c' v.

    Notation loopR := (src_remap_input_loop1 ext mcall heap_e rec (ref cn) name usm sv ccc ku).

    Lemma fields_get k :
      py_dict_get_method (fields_py other_obj (t_fields c)) (PStr k) PNone =
      Ok (match find_tfd (t_fields c) k with Some fd => tfpy (f_ty fd) | None => PNone end).
    Proof.
      unfold fields_py. cbn [py_dict_get_method py_hashable']. f_equal.
      induction (t_fields c) as [|fd t IH]; [reflexivity|]. cbn [map dict_get find_tfd py_eq].
      destruct (pystr_eqb (f_name fd) k); [reflexivity|exact IH].
    Qed.

    Lemma rec_list c' l :
      forallb val_wf l = true -> mapM (tc c') l <> Raise Unmodelled ->
      filterM (fun x => t28 <- fld_getattr heap_e (tfpy (TArray (TRef c'))) (s2p "items") ;;
                        t29 <- fld_getattr heap_e t28 (s2p "get_type") ;;
                        t30 <- rec t29 x name usm PNone ku ccc (PBool true) sv ;; Ok (Some t30)) l = mapM (tc c') l.
    Proof.
      intros Hl Hm.
      rewrite (filterM_ext _ (fun x => y <- rec (ref c') x name usm PNone ku ccc (PBool true) sv ;; Ok (Some y))) by (intro x; reflexivity).
      rewrite filterM_some. apply (mapM_agree _ _ val_wf); [|exact Hl|exact Hm].
      intros x Hx Hg. exact (Hrec c' x Hx Hg).
    Qed.

    Lemma isinst_leaf l ks :
      fld_isinstance tbl (leaf_py l) ks = if class_known tbl (leaf_cls l) then Ok (class_in tbl (leaf_cls l) ks) else Raise Unmodelled.
    Proof. reflexivity. Qed.

    Lemma setitem_kv acc k w : py_setitem (PDict (kv_py acc)) (PStr k) w = Ok (PDict (kv_py (alist_set acc k w))).
    Proof. cbn [py_setitem py_hashable']. rewrite dict_set_kv. reflexivity. Qed.

    Ltac other_facts Ht c0 attrs H1 H2 H3 H4 H5 :=
      unfold other_ok in Ht;
      destruct (other_obj _ _) as [| | | | | | | | | |c0 attrs|]; try discriminate Ht;
      apply andb_true_iff in Ht as [Ht H5]; apply andb_true_iff in Ht as [Ht H4]; apply andb_true_iff in Ht as [Ht H3];
      apply andb_true_iff in Ht as [H1 H2]; apply negb_true_iff in H2, H3, H4.

    (* one entry of the input whose value is not None *)
    Lemma remap_step k v l' acc kaft :
      is_none v = false -> val_wf v = true ->
      fields_wf other_obj (t_fields c) = true -> fields_union_ok (t_fields c) = true ->
      forallb (fun fd => tf_noset (f_ty fd)) (t_fields c) = true ->
      (match find_tfd (t_fields c) k with Some fd => remap_field re_match sdeser tc (f_ty fd) v | None => Ok v end)
        <> Raise Unmodelled ->
      loopR kaft ((PStr k, v) :: l') (PDict (kv_py acc)) =
      (w <- match find_tfd (t_fields c) k with Some fd => remap_field re_match sdeser tc (f_ty fd) v | None => Ok v end ;;
       loopR kaft l' (PDict (kv_py (alist_set acc k w)))).
    Proof.
      intros Hv Hvw Hwf Hun Hns Hm. destruct (heap_fields other_obj chain e cn c Hf) as (Hg & _ & _).
      cbn [src_remap_input_loop1]. rewrite ref_getattr, Hg. cbn [bind]. rewrite fields_get. cbn [bind].
      change (py_is_none v) with (is_none v). unfold py_is_not_none. change (py_is_none v) with (is_none v).
      rewrite Hv. cbn [bind negb].
      match goal with |- bind _ (fun c0 => bind _ ?F) = _ => set (R := F) end.
      (* the chain of tests on the (possibly extracted) field definition *)
      assert (HN : R PNone = loopR kaft l' (PDict (kv_py (alist_set acc k v)))).
      { subst R. cbv beta. cbn [fld_isinstance bind]. rewrite setitem_kv. reflexivity. }
      assert (HR : forall tf, tf_wf other_obj tf = true ->
                              match tf with TOther id b => negb (class_in tbl (cls_of (other_obj id b)) [s2p "Set"]) | _ => true end = true ->
                              remap_plain re_match sdeser tc tf v <> Raise Unmodelled ->
                              R (tfpy tf) = (w <- remap_plain re_match sdeser tc tf v ;; loopR kaft l' (PDict (kv_py (alist_set acc k w))))).
      { intros tf Ht Hs Hp. subst R. cbv beta.
        destruct tf as [l|item|item|c'|nf f|ls|id b].
        - (* a leaf *)
          cbn [tf_wf] in Ht. destruct (leaf_facts l Ht) as (Hk & _ & Hser & _ & Hcr).
          pose proof (leaf_is_enum l Ht) as Hen. destruct (leaf_facts2 l Ht) as (Har & Hset & _).
          cbn [tf_py]. rewrite !isinst_leaf, Hk, Hcr, Hen, Hser, Har, Hset. cbn [bind].
          destruct l as [f|cls ms byv|vals|id isn]; cbn [remap_plain leaf_is_ser bind]; try (rewrite setitem_kv; reflexivity).
          rewrite (Hmc (LSer id isn) v eq_refl eq_refl). cbn [leaf_deser_whole].
          destruct (sdeser id v) as [w|x]; cbn [bind]; [|reflexivity]. rewrite setitem_kv. reflexivity.
        - (* Array *)
          cbn [tf_py]. rewrite !isinst_struct. eval_cls. cbn [bind].
          change (fld_getattr heap_e (PStruct (s2p "Array") [(s2p "items", tfpy item)]) (s2p "items")) with (@Ok pyval (tfpy item)).
          cbn [bind]. cbn [tf_wf] in Ht.
          destruct item as [l0|i2|i2|c'|nf f|ls|id b].
          + destruct (leaf_facts l0 Ht) as (Hk & _ & Hser & _ & Hcr).
            cbn [tf_py]. rewrite !isinst_leaf, Hk, Hcr, Hser. cbn [bind remap_plain].
            destruct (leaf_is_ser l0) eqn:Els.
            * rewrite (Hmc l0 v Ht Els).
              destruct (leaf_deser_whole re_match sdeser l0 v) as [w|x]; cbn [bind]; [|reflexivity]. rewrite setitem_kv. reflexivity.
            * cbn [bind]. rewrite setitem_kv. reflexivity.
          + cbn [tf_py]. rewrite !isinst_struct. eval_cls. cbn [bind remap_plain]. rewrite setitem_kv. reflexivity.
          + cbn [tf_py]. rewrite !isinst_struct. eval_cls. cbn [bind remap_plain]. rewrite setitem_kv. reflexivity.
          + cbn [remap_plain] in Hp |- *.
            replace (fld_isinstance tbl (tfpy (TRef c')) [s2p "ClassReference"]) with (@Ok bool true)
              by (cbn [tf_py]; rewrite isinst_struct; eval_cls; reflexivity).
            cbn [bind]. destruct v as [| | | |lv| | | | | | |]; try (contradiction Hp; reflexivity).
            cbn [py_iter bind]. rewrite val_wf_list in Hvw.
            assert (Hml : mapM (tc c') lv <> Raise Unmodelled).
            { intro E. apply Hp. rewrite E. reflexivity. }
            rewrite (filterM_ext _ (fun x => y <- rec (ref c') x name usm PNone ku ccc (PBool true) sv ;; Ok (Some y))) by (intro x; reflexivity).
            rewrite filterM_some.
            rewrite (mapM_agree _ (tc c') val_wf lv (fun x Hx Hg => Hrec c' x Hx Hg) Hvw Hml).
            destruct (mapM (tc c') lv) as [r|x]; cbn [bind]; [|reflexivity].
            rewrite setitem_kv. reflexivity.
          + cbn [tf_py]. unfold anyof_py. rewrite !isinst_struct. eval_cls. cbn [bind remap_plain]. rewrite setitem_kv. reflexivity.
          + cbn [tf_py]. unfold anyof_py. rewrite !isinst_struct. eval_cls. cbn [bind remap_plain]. rewrite setitem_kv. reflexivity.
          + cbn [tf_wf] in Ht. cbn [tf_py]. other_facts Ht c0 attrs H1 H2 H3 H4 H5.
            destruct (not_valid_facts c0 H2) as (_ & Hse & _).
            rewrite !isinst_struct, H1, H4, Hse. cbn [bind remap_plain]. rewrite setitem_kv. reflexivity.
        - (* Set *)
          cbn [tf_py]. rewrite !isinst_struct. eval_cls. cbn [bind].
          change (fld_getattr heap_e (PStruct (s2p "Set") [(s2p "items", tfpy item)]) (s2p "items")) with (@Ok pyval (tfpy item)).
          cbn [bind app]. fold prims. cbn [tf_wf] in Ht.
          destruct item as [l0|i2|i2|c'|nf f|ls|id b].
          + destruct (leaf_facts l0 Ht) as (Hk & _ & Hser & _ & Hcr). destruct (leaf_facts2 l0 Ht) as (_ & _ & Hpr).
            cbn [tf_py]. rewrite !isinst_leaf, Hk, Hcr, Hser. cbn [bind].
            destruct l0 as [f|cls ms byv|vals|id isn]; cbn [remap_plain leaf_is_ser] in Hp, Hpr |- *.
            * destruct v as [| | | |lv| | | | | | |]; try (contradiction Hp; reflexivity).
              unfold py_set_call. cbn [py_iter bind]. rewrite set_of_mk_set.
              destruct (class_in tbl (leaf_cls (LPrim f)) prims); cbn [bind];
                (destruct (mk_set lv) as [w|x]; cbn [bind]; [|reflexivity]; rewrite setitem_kv; reflexivity).
            * rewrite (Hpr eq_refl). cbn [bind]. destruct v as [| | | |lv| | | | | | |]; try (contradiction Hp; reflexivity).
              cbn [py_iter bind].
              rewrite (filterM_ext _ (fun x => y <- leaf_deser_whole re_match sdeser (LEnum cls ms byv) x ;; Ok (Some y)))
                by (intro x; cbn [bind]; rewrite (Hmc (LEnum cls ms byv) x eq_refl eq_refl); reflexivity).
              rewrite filterM_some, (deser_whole_reg (LEnum cls ms byv) eq_refl).
              destruct (mapM (reg_leaf re_match sdeser (LEnum cls ms byv)) lv) as [r|x]; cbn [bind]; [|reflexivity].
              rewrite set_of_mk_set. destruct (mk_set r) as [w|x]; cbn [bind]; [|reflexivity]. rewrite setitem_kv. reflexivity.
            * rewrite (Hpr eq_refl). cbn [bind]. destruct v as [| | | |lv| | | | | | |]; try (contradiction Hp; reflexivity).
              cbn [py_iter bind].
              rewrite (filterM_ext _ (fun x => y <- leaf_deser_whole re_match sdeser (LEnumLit vals) x ;; Ok (Some y)))
                by (intro x; cbn [bind]; rewrite (Hmc (LEnumLit vals) x eq_refl eq_refl); reflexivity).
              rewrite filterM_some, (deser_whole_reg (LEnumLit vals) eq_refl).
              destruct (mapM (reg_leaf re_match sdeser (LEnumLit vals)) lv) as [r|x]; cbn [bind]; [|reflexivity].
              rewrite set_of_mk_set. destruct (mk_set r) as [w|x]; cbn [bind]; [|reflexivity]. rewrite setitem_kv. reflexivity.
            * rewrite (Hpr eq_refl). cbn [bind]. destruct v as [| | | |lv| | | | | | |]; try (contradiction Hp; reflexivity).
              cbn [py_iter bind].
              rewrite (filterM_ext _ (fun x => y <- leaf_deser_whole re_match sdeser (LSer id isn) x ;; Ok (Some y)))
                by (intro x; cbn [bind]; rewrite (Hmc (LSer id isn) x eq_refl eq_refl); reflexivity).
              rewrite filterM_some, (deser_whole_reg (LSer id isn) eq_refl).
              destruct (mapM (reg_leaf re_match sdeser (LSer id isn)) lv) as [r|x]; cbn [bind]; [|reflexivity].
              rewrite set_of_mk_set. destruct (mk_set r) as [w|x]; cbn [bind]; [|reflexivity]. rewrite setitem_kv. reflexivity.
          + cbn [tf_py]. rewrite !isinst_struct. eval_cls. cbn [bind remap_plain] in Hp |- *.
            destruct v as [| | | |lv| | | | | | |]; try (contradiction Hp; reflexivity).
            unfold py_set_call. cbn [py_iter bind]. rewrite set_of_mk_set.
            destruct (mk_set lv) as [w|x]; cbn [bind]; [|reflexivity]. rewrite setitem_kv. reflexivity.
          + cbn [tf_py]. rewrite !isinst_struct. eval_cls. cbn [bind remap_plain] in Hp |- *.
            destruct v as [| | | |lv| | | | | | |]; try (contradiction Hp; reflexivity).
            unfold py_set_call. cbn [py_iter bind]. rewrite set_of_mk_set.
            destruct (mk_set lv) as [w|x]; cbn [bind]; [|reflexivity]. rewrite setitem_kv. reflexivity.
          + cbn [remap_plain] in Hp |- *.
            replace (fld_isinstance tbl (tfpy (TRef c')) prims) with (@Ok bool false)
              by (cbn [tf_py]; rewrite isinst_struct; eval_cls; reflexivity).
            replace (fld_isinstance tbl (tfpy (TRef c')) [s2p "SerializableField"]) with (@Ok bool false)
              by (cbn [tf_py]; rewrite isinst_struct; eval_cls; reflexivity).
            replace (fld_isinstance tbl (tfpy (TRef c')) [s2p "ClassReference"]) with (@Ok bool true)
              by (cbn [tf_py]; rewrite isinst_struct; eval_cls; reflexivity).
            cbn [bind]. destruct v as [| | | |lv| | | | | | |]; try (contradiction Hp; reflexivity).
            cbn [py_iter bind]. rewrite val_wf_list in Hvw.
            assert (Hml : mapM (tc c') lv <> Raise Unmodelled).
            { intro E. apply Hp. rewrite E. reflexivity. }
            change (PStruct (s2p "Set") [(s2p "items", tfpy (TRef c'))]) with (PStruct (s2p "Set") [(s2p "items", tfpy (TRef c'))]).
            rewrite (filterM_ext _ (fun x => y <- rec (ref c') x name usm PNone ku ccc (PBool true) sv ;; Ok (Some y))) by (intro x; reflexivity).
            rewrite filterM_some.
            rewrite (mapM_agree _ (tc c') val_wf lv (fun x Hx Hg => Hrec c' x Hx Hg) Hvw Hml).
            destruct (mapM (tc c') lv) as [r|x]; cbn [bind]; [|reflexivity].
            rewrite set_of_mk_set. destruct (mk_set r) as [w|x]; cbn [bind]; [|reflexivity]. rewrite setitem_kv. reflexivity.
          + cbn [tf_py]. unfold anyof_py. rewrite !isinst_struct. eval_cls. cbn [bind remap_plain] in Hp |- *.
            destruct v as [| | | |lv| | | | | | |]; try (contradiction Hp; reflexivity).
            unfold py_set_call. cbn [py_iter bind]. rewrite set_of_mk_set.
            destruct (mk_set lv) as [w|x]; cbn [bind]; [|reflexivity]. rewrite setitem_kv. reflexivity.
          + cbn [tf_py]. unfold anyof_py. rewrite !isinst_struct. eval_cls. cbn [bind remap_plain] in Hp |- *.
            destruct v as [| | | |lv| | | | | | |]; try (contradiction Hp; reflexivity).
            unfold py_set_call. cbn [py_iter bind]. rewrite set_of_mk_set.
            destruct (mk_set lv) as [w|x]; cbn [bind]; [|reflexivity]. rewrite setitem_kv. reflexivity.
          + cbn [tf_wf] in Ht. cbn [tf_py]. other_facts Ht c0 attrs H1 H2 H3 H4 H5.
            destruct (not_valid_facts c0 H2) as (_ & Hse & Hpr).
            rewrite !isinst_struct, H1, H4, Hse, Hpr. cbn [bind remap_plain] in Hp |- *.
            destruct v as [| | | |lv| | | | | | |]; try (contradiction Hp; reflexivity).
            unfold py_set_call. cbn [py_iter bind]. rewrite set_of_mk_set.
            destruct (mk_set lv) as [w|x]; cbn [bind]; [|reflexivity]. rewrite setitem_kv. reflexivity.
        - (* a class reference *)
          cbn [remap_plain] in Hp |- *.
          replace (fld_isinstance tbl (tfpy (TRef c')) [s2p "ClassReference"]) with (@Ok bool true)
            by (cbn [tf_py]; rewrite isinst_struct; eval_cls; reflexivity).
          cbn [bind].
          change (fld_getattr heap_e (tfpy (TRef c')) (s2p "get_type")) with (@Ok pyval (ref c')). cbn [bind].
          rewrite (Hrec c' v Hvw Hp). destruct (tc c' v) as [w|x]; cbn [bind]; [|reflexivity]. rewrite setitem_kv. reflexivity.
        - cbn [tf_py]. unfold anyof_py. rewrite !isinst_struct. eval_cls. cbn [bind remap_plain]. rewrite setitem_kv. reflexivity.
        - cbn [tf_py]. unfold anyof_py. rewrite !isinst_struct. eval_cls. cbn [bind remap_plain]. rewrite setitem_kv. reflexivity.
        - (* an unmodelled field *)
          cbn [tf_wf] in Ht. cbn [tf_py] in Hs |- *. other_facts Ht c0 attrs H1 H2 H3 H4 H5.
          cbn [cls_of] in Hs. apply negb_true_iff in Hs.
          destruct (not_valid_facts c0 H2) as (Hen & Hse & _).
          rewrite !isinst_struct, H1, H4, Hen, Hse, Hs. cbn [bind remap_plain].
          destruct (class_in tbl c0 [s2p "Array"]) eqn:HA; cbn [orb bind] in H5 |- *; [|rewrite setitem_kv; reflexivity].
          unfold fld_getattr. destruct (alist_get attrs (s2p "items")) as [it|]; [|discriminate H5].
          apply andb_true_iff in H5 as [H6 H7]. unfold not_inst_of in H6, H7. cbn [bind].
          destruct (fld_isinstance tbl it [s2p "ClassReference"]) as [[|]|] eqn:E7; try discriminate H7. cbn [bind].
          assert (E8 : fld_isinstance tbl it [s2p "SerializableField"] = Ok false).
          { destruct it as [| | | | | | | | | |ci ai|]; try reflexivity; try discriminate E7.
            rewrite isinst_struct in H6, E7 |- *. destruct (class_known tbl ci); [|discriminate E7].
            destruct (class_in tbl ci valid) eqn:Ev; [discriminate H6|].
            destruct (not_valid_facts ci Ev) as (_ & Hx & _). rewrite Hx. reflexivity. }
          rewrite E8. cbn [bind]. rewrite setitem_kv. reflexivity. }
      (* which object the chain runs on *)
      destruct (find_tfd (t_fields c) k) as [fd|] eqn:Efd.
      2:{ cbn [fld_isinstance py_and bind]. rewrite HN. reflexivity. }
      assert (Hin : In fd (t_fields c)).
      { clear - Efd. induction (t_fields c) as [|d t IH]; [discriminate Efd|]. cbn [find_tfd] in Efd.
        destruct (pystr_eqb (f_name d) k); [inversion Efd; left; reflexivity | right; exact (IH Efd)]. }
      unfold fields_wf in Hwf. rewrite forallb_forall in Hwf. pose proof (Hwf fd Hin) as Ht.
      unfold fields_union_ok in Hun. rewrite forallb_forall in Hun. pose proof (Hun fd Hin) as Hu.
      rewrite forallb_forall in Hns. pose proof (Hns fd Hin) as Hs.
      destruct (f_ty fd) as [l|item|item|c'|nf f|ls|id b] eqn:Ety.
      - destruct (leaf_facts l Ht) as (Hk & _ & _ & Ha & _). cbn [tf_py]. rewrite isinst_leaf, Hk, Ha.
        cbn [py_and bind]. change (leaf_py l) with (tfpy (TLeaf l)). rewrite (HR (TLeaf l) Ht eq_refl Hm). reflexivity.
      - replace (fld_isinstance tbl (tfpy (TArray item)) [s2p "AnyOf"]) with (@Ok bool false)
          by (cbn [tf_py]; rewrite isinst_struct; eval_cls; reflexivity).
        cbn [py_and bind]. rewrite (HR (TArray item) Ht eq_refl Hm). reflexivity.
      - replace (fld_isinstance tbl (tfpy (TSet item)) [s2p "AnyOf"]) with (@Ok bool false)
          by (cbn [tf_py]; rewrite isinst_struct; eval_cls; reflexivity).
        cbn [py_and bind]. rewrite (HR (TSet item) Ht eq_refl Hm). reflexivity.
      - replace (fld_isinstance tbl (tfpy (TRef c')) [s2p "AnyOf"]) with (@Ok bool false)
          by (cbn [tf_py]; rewrite isinst_struct; eval_cls; reflexivity).
        cbn [py_and bind]. rewrite (HR (TRef c') Ht eq_refl Hm). reflexivity.
      - (* Optional: the chain runs on the option that is not None *)
        cbn [tf_wf] in Ht.
        replace (fld_isinstance tbl (tfpy (TOpt nf f)) [s2p "AnyOf"]) with (@Ok bool true)
          by (cbn [tf_py]; unfold anyof_py; rewrite isinst_struct; eval_cls; reflexivity).
        cbn [py_and bind]. rewrite (src_optional_anyof_opt other_obj heap_e nf f Ht). cbn [bind py_truthy].
        rewrite (src_extract_opt other_obj heap_e nf f Ht). cbn [bind remap_field] in Hm |- *.
        apply HR; [exact Ht | destruct f; try reflexivity; exact Hs | exact Hm].
      - cbn [tf_union_ok] in Hu. apply negb_true_iff in Hu.
        replace (fld_isinstance tbl (tfpy (TUnion ls)) [s2p "AnyOf"]) with (@Ok bool true)
          by (cbn [tf_py]; unfold anyof_py; rewrite isinst_struct; eval_cls; reflexivity).
        cbn [py_and bind]. rewrite (src_optional_anyof_union other_obj heap_e ls), Hu. cbn [py_and bind py_truthy].
        rewrite (HR (TUnion ls) Ht eq_refl Hm). reflexivity.
      - assert (Ha : fld_isinstance tbl (tfpy (TOther id b)) [s2p "AnyOf"] = Ok false).
        { pose proof Ht as Ht'. cbn [tf_wf] in Ht'. cbn [tf_py]. other_facts Ht' c0 attrs H1 H2 H3 H4 H5.
          rewrite isinst_struct, H1, H3. reflexivity. }
        rewrite Ha. cbn [py_and bind]. rewrite (HR (TOther id b) Ht Hs Hm). reflexivity.
    Qed.

    Hypothesis Hwf : fields_wf other_obj (t_fields c) = true.
    Hypothesis Hun : fields_union_ok (t_fields c) = true.
    Hypothesis Hns : forallb (fun fd => tf_noset (f_ty fd)) (t_fields c) = true.

    Lemma remap_loop_eq : forall inp acc kaft,
        nodupb (map fst acc ++ map fst inp) = true ->
        forallb (fun p => val_wf (snd p)) inp = true ->
        remap_input re_match sdeser tc c inp <> Raise Unmodelled ->
        loopR kaft (kv_py inp) (PDict (kv_py acc)) =
        match remap_input re_match sdeser tc c inp with
        | Ok r => kaft (PDict (kv_py (acc ++ r)))
        | Raise x => Raise x
        end.
    Proof.
      induction inp as [|[k v] t IH]; intros acc kaft Hn Hv Hm.
      - cbn [kv_py map src_remap_input_loop1 remap_input]. rewrite app_nil_r. reflexivity.
      - cbn [map fst] in Hn. destruct (nodupb_middle _ _ _ Hn) as (Hn1 & Hn2 & Hk).
        cbn [forallb snd] in Hv. apply andb_true_iff in Hv as [Hv1 Hv2].
        cbn [kv_py map fst snd]. fold (kv_py t). cbn [remap_input] in Hm |- *.
        destruct (is_none v) eqn:Ev.
        + destruct v; try discriminate Ev.
          destruct (heap_fields other_obj chain e cn c Hf) as (Hg & _ & _).
          destruct (heap_misc cn c Hf) as (_ & Heu & Hig & _ & _).
          cbn [src_remap_input_loop1]. rewrite ref_getattr, Hg. cbn [bind]. rewrite fields_get. cbn [bind py_is_none].
          rewrite !ref_getattr_def, Heu, Hig. cbn [bind py_truthy py_or].
          assert (Hmt : remap_input re_match sdeser tc c t <> Raise Unmodelled).
          { intro E. apply Hm. rewrite E. reflexivity. }
          destruct (t_ignore_none c); cbn [py_truthy py_not bind negb].
          * rewrite (IH acc kaft Hn2 Hv2 Hmt). destruct (remap_input re_match sdeser tc c t); reflexivity.
          * rewrite setitem_kv, (alist_set_fresh acc k PNone) by exact Hk. cbn [bind].
            rewrite (IH (acc ++ [(k, PNone)]) kaft) by (try rewrite map_app; assumption).
            destruct (remap_input re_match sdeser tc c t); cbn [bind]; [|reflexivity]. rewrite <- app_assoc. reflexivity.
        + set (entry := match find_tfd (t_fields c) k with
                        | Some fd => remap_field re_match sdeser tc (f_ty fd) v
                        | None => Ok v end).
          assert (Hme : entry <> Raise Unmodelled).
          { subst entry. intro E. apply Hm. destruct (find_tfd (t_fields c) k); [rewrite E; reflexivity|discriminate E]. }
          rewrite (remap_step k v (kv_py t) acc kaft Ev Hv1 Hwf Hun Hns Hme). fold entry.
          assert (Hmodel : match find_tfd (t_fields c) k with
                           | Some fd => w <- remap_field re_match sdeser tc (f_ty fd) v ;; r <- remap_input re_match sdeser tc c t ;; Ok ((k, w) :: r)
                           | None => r <- remap_input re_match sdeser tc c t ;; Ok ((k, v) :: r)
                           end = (w <- entry ;; r <- remap_input re_match sdeser tc c t ;; Ok ((k, w) :: r))).
          { subst entry. destruct (find_tfd (t_fields c) k); reflexivity. }
          rewrite Hmodel in Hm |- *. destruct entry as [w|x]; cbn [bind] in Hm |- *; [|reflexivity].
          assert (Hmt : remap_input re_match sdeser tc c t <> Raise Unmodelled).
          { intro E. apply Hm. rewrite E. reflexivity. }
          rewrite (alist_set_fresh acc k w) by exact Hk.
          rewrite (IH (acc ++ [(k, w)]) kaft) by (try rewrite map_app; assumption).
          destruct (remap_input re_match sdeser tc c t); cbn [bind]; [|reflexivity]. rewrite <- app_assoc. reflexivity.
    Qed.

    Lemma src_remap_input_eq : forall upd,
        nodupb (map fst upd) = true ->
        forallb (fun p => val_wf (snd p)) upd = true ->
        remap_input re_match sdeser tc c upd <> Raise Unmodelled ->
        src_remap_input ext mcall heap_e rec (PDict (kv_py upd)) (ref cn) name usm sv ccc ku =
        match remap_input re_match sdeser tc c upd with Ok r => Ok (PDict (kv_py r)) | Raise x => Raise x end.
    Proof.
      intros upd Hn Hv Hm. unfold src_remap_input. cbn [py_dict_items bind].
      change (PDict []) with (PDict (kv_py [])).
      rewrite (remap_loop_eq upd [] (fun v => Ok v) Hn Hv Hm). reflexivity.
    Qed.
  End Remap.

  (* ---------------------------------------------------------------- no value of the model's trusted path is a class object *)

  Notation pvals P l := (forallb (fun p : pystr * pyval => P (snd p)) l).
  Notation vals_ok l := (forallb (fun p : pystr * pyval => nocls (snd p)) l).

  Section ValuePredicate.
    Variable P : pyval -> bool.
    Hypothesis Penum : forall c n x, P (PEnum c n x) = true.

    Lemma alist_set_ok (a : list (pystr * pyval)) k v : pvals P a = true -> P v = true -> pvals P (alist_set a k v) = true.
    Proof.
      induction a as [|[k' v'] t IH]; intros Ha Hv; cbn [alist_set forallb snd]; [rewrite Hv; reflexivity|].
      cbn [forallb snd] in Ha. apply andb_true_iff in Ha as [H1 H2].
      destruct (pystr_eqb k' k); cbn [forallb snd]; [rewrite Hv, H2; reflexivity | rewrite H1, (IH H2 Hv); reflexivity].
    Qed.

    Lemma fold_set_ok (f : pystr * pyval -> pystr) : forall (l a : list (pystr * pyval)),
        pvals P l = true -> pvals P a = true ->
        pvals P (fold_left (fun acc p => alist_set acc (f p) (snd p)) l a) = true.
    Proof.
      induction l as [|p t IH]; intros a Hl Ha; [exact Ha|]. cbn [forallb] in Hl. apply andb_true_iff in Hl as [H1 H2].
      cbn [fold_left]. apply IH; [exact H2|]. apply alist_set_ok; assumption.
    Qed.

    Lemma apply_enums_ok inp : forall ts acc upd,
        apply_enums ts inp acc = Ok upd -> pvals P acc = true -> pvals P upd = true.
    Proof.
      induction ts as [|[k [[cls ms] byv]] t IH]; intros acc upd H Ha; cbn [apply_enums] in H.
      - inversion H; subst. exact Ha.
      - destruct (alist_get inp k) as [v|]; [|exact (IH _ _ H Ha)].
        destruct (py_truthy v); [|exact (IH _ _ H Ha)].
        destruct (negb (py_hashable v)); [discriminate H|].
        destruct (enum_member ms byv v) as [[n0 x]|]; [|discriminate H].
        apply (IH _ _ H). apply alist_set_ok; [exact Ha|apply Penum].
    Qed.
  End ValuePredicate.

  Lemma str_in_alist_set {A} x (a : list (pystr * A)) k v :
    str_in x (map fst (alist_set a k v)) = str_in x (map fst a) || pystr_eqb x k.
  Proof.
    unfold str_in. induction a as [|[k' v'] t IH]; cbn [alist_set map fst existsb]; [apply orb_comm|].
    destruct (pystr_eqb k' k) eqn:E; cbn [map fst existsb].
    - apply pystr_eqb_spec in E. subst k'. destruct (pystr_eqb x k), (existsb (pystr_eqb x) (map fst t)); reflexivity.
    - rewrite IH. rewrite orb_assoc. reflexivity.
  Qed.

  Lemma alist_set_nodup {A} (a : list (pystr * A)) k v :
    nodupb (map fst a) = true -> nodupb (map fst (alist_set a k v)) = true.
  Proof.
    induction a as [|[k' v'] t IH]; intro H; [reflexivity|].
    cbn [map fst nodupb] in H. apply andb_true_iff in H as [H1 H2]. apply negb_true_iff in H1.
    cbn [alist_set]. destruct (pystr_eqb k' k) eqn:E; cbn [map fst nodupb].
    - rewrite H1, H2. reflexivity.
    - rewrite str_in_alist_set, H1, E, (IH H2). reflexivity.
  Qed.

  Lemma fold_set_nodup (f : pystr * pyval -> pystr) : forall (l a : list (pystr * pyval)),
      nodupb (map fst a) = true -> nodupb (map fst (fold_left (fun acc p => alist_set acc (f p) (snd p)) l a)) = true.
  Proof. induction l as [|p t IH]; intros a Ha; [exact Ha|]. cbn [fold_left]. apply IH, alist_set_nodup, Ha. Qed.

  Lemma apply_enums_nodup inp : forall ts acc upd,
      apply_enums ts inp acc = Ok upd -> nodupb (map fst acc) = true -> nodupb (map fst upd) = true.
  Proof.
    induction ts as [|[k [[cls ms] byv]] t IH]; intros acc upd H Ha; cbn [apply_enums] in H.
    - inversion H; subst. exact Ha.
    - destruct (alist_get inp k) as [v|]; [|exact (IH _ _ H Ha)].
      destruct (py_truthy v); [|exact (IH _ _ H Ha)].
      destruct (negb (py_hashable v)); [discriminate H|].
      destruct (enum_member ms byv v) as [[n0 x]|]; [|discriminate H].
      apply (IH _ _ H). apply alist_set_nodup, Ha.
  Qed.

  Lemma pvals_impl (P Q : pyval -> bool) (l : list (pystr * pyval)) :
    (forall v, P v = true -> Q v = true) -> pvals P l = true -> pvals Q l = true.
  Proof.
    intros HPQ. induction l as [|[k v] t IH]; [reflexivity|]. cbn [forallb snd]. intro H. apply andb_true_iff in H as [H1 H2].
    rewrite (HPQ v H1), (IH H2). reflexivity.
  Qed.

  Lemma trusted_cls_ok fuel lv cn d w : trusted_cls re_match sdeser e fuel lv cn d = Ok w -> nocls w = true.
  Proof.
    destruct fuel as [|n]; [discriminate|]. cbn [trusted_cls].
    destruct (find_tclass e cn) as [c|]; [|discriminate]. destruct d; try discriminate.
    destruct (doc_alist kv) as [doc|]; [|discriminate].
    destruct (t_mapper c); cbn [bind]; try discriminate;
      (destruct (apply_enums _ _ _); cbn [bind]; [|discriminate];
       destruct lv; cbn [bind]; try (destruct (remap_input _ _ _ _ _); cbn [bind]; [|discriminate]);
       intro H; inversion H; reflexivity).
  Qed.

  Definition sdeser_ok : Prop := forall id v w, sdeser id v = Ok w -> nocls w = true.

  Section RemapOk.
    Variable n : nat.
    Hypothesis Hsd : sdeser_ok.
    Notation tc := (trusted_cls re_match sdeser e n Nested).

    Lemma mk_set_ok r w : mk_set r = Ok w -> nocls w = true.
    Proof. unfold mk_set. destruct (all_hashable r); [|discriminate]. intro H. inversion H. reflexivity. Qed.

    Lemma reg_leaf_ok l v w : leaf_is_ser l = true -> nocls v = true -> reg_leaf re_match sdeser l v = Ok w -> nocls w = true.
    Proof.
      destruct l as [f|cls ms byv|vals|id isn]; cbn [leaf_is_ser reg_leaf]; intros Hl Hv H; try discriminate Hl.
      - destruct byv.
        + destruct (negb (py_hashable v)); [discriminate H|]. destruct (find _ ms) as [[n0 x]|]; [|discriminate H]. inversion H. reflexivity.
        + destruct v; try discriminate H. destruct (alist_get ms s); [|discriminate H]. inversion H. reflexivity.
      - destruct (py_in v vals); [|discriminate H]. inversion H; subst. exact Hv.
      - exact (Hsd _ _ _ H).
    Qed.

    Lemma remap_plain_ok tf v w : nocls v = true -> remap_plain re_match sdeser tc tf v = Ok w -> nocls w = true.
    Proof.
      intros Hv H.
      destruct tf as [l|item|item|c'|nf f|ls|id b]; cbn [remap_plain] in H; try (inversion H; subst; exact Hv).
      - destruct l; try (inversion H; subst; exact Hv). exact (Hsd _ _ _ H).
      - destruct item as [l0|i2|i2|c'|nf f|ls|id b]; try (inversion H; subst; exact Hv).
        + destruct (leaf_is_ser l0) eqn:E; [|inversion H; subst; exact Hv].
          rewrite (deser_whole_reg l0 E) in H. exact (reg_leaf_ok l0 v w E Hv H).
        + destruct v; try discriminate H. match type of H with context [mapM ?f ?x] => destruct (mapM f x) end; cbn [bind] in H; [|discriminate H]. inversion H. reflexivity.
      - destruct item as [l0|i2|i2|c'|nf f|ls|id b]; try (destruct l0); destruct v; try discriminate H;
          try (exact (mk_set_ok _ _ H));
          (match type of H with context [mapM ?f ?x] => destruct (mapM f x) end; cbn [bind] in H; [|discriminate H];
           exact (mk_set_ok _ _ H)).
      - exact (trusted_cls_ok _ _ _ _ _ H).
    Qed.

    Lemma remap_input_ok c : forall inp r,
        vals_ok inp = true -> remap_input re_match sdeser tc c inp = Ok r -> vals_ok r = true.
    Proof.
      induction inp as [|[k v] t IH]; intros r Hi H; cbn [remap_input] in H.
      - inversion H. reflexivity.
      - cbn [forallb snd] in Hi. apply andb_true_iff in Hi as [H1 H2].
        destruct (is_none v).
        + destruct (remap_input re_match sdeser tc c t) as [r0|]; cbn [bind] in H; [|discriminate H].
          inversion H; subst. destruct (t_ignore_none c); [exact (IH r0 H2 eq_refl)|].
          cbn [forallb snd nocls]. exact (IH r0 H2 eq_refl).
        + destruct (find_tfd (t_fields c) k) as [fd|].
          * destruct (remap_field re_match sdeser tc (f_ty fd) v) as [w|] eqn:Ew; cbn [bind] in H; [|discriminate H].
            destruct (remap_input re_match sdeser tc c t) as [r0|]; cbn [bind] in H; [|discriminate H].
            inversion H; subst. cbn [forallb snd]. rewrite (IH r0 H2 eq_refl), andb_true_r.
            unfold remap_field in Ew. destruct (f_ty fd); exact (remap_plain_ok _ v w H1 Ew).
          * destruct (remap_input re_match sdeser tc c t) as [r0|]; cbn [bind] in H; [|discriminate H].
            inversion H; subst. cbn [forallb snd]. rewrite H1, (IH r0 H2 eq_refl). reflexivity.
    Qed.
  End RemapOk.

  (* ---------------------------------------------------------------- the trusted path *)

  (* on top of env_wf: distinct field names (get_all_fields_by_name() is a dict), no Set-like unmodelled field, and no
     class of the environment is called Versioned (classes are identified by their names) *)
  Definition path_wf : bool :=
    env_wf other_obj e &&
    forallb (fun c => nodupb (map f_name (t_fields c)) && forallb (fun fd => tf_noset (f_ty fd)) (t_fields c) &&
                      negb (pystr_eqb (t_name c) (s2p "Versioned"))) e.

  Lemma path_wf_find cn c :
    path_wf = true -> find_tclass e cn = Some c ->
    fields_wf other_obj (t_fields c) = true /\ fields_union_ok (t_fields c) = true /\
    nodupb (map f_name (t_fields c)) = true /\ forallb (fun fd => tf_noset (f_ty fd)) (t_fields c) = true /\
    pystr_eqb cn (s2p "Versioned") = false.
  Proof.
    unfold path_wf. intros H Hf. apply andb_true_iff in H as [Hw Hp].
    destruct (env_wf_find other_obj e cn c Hw Hf) as [H1 H2]. split; [exact H1|]. split; [exact H2|].
    destruct (heap_misc cn c Hf) as (_ & _ & _ & _ & Hname).
    clear - Hp Hf Hname. induction e as [|c0 t IH]; [discriminate Hf|]. cbn [forallb] in Hp. apply andb_true_iff in Hp as [H0 Ht].
    cbn [find_tclass] in Hf. destruct (pystr_eqb (t_name c0) cn).
    - inversion Hf; subst c0. apply andb_true_iff in H0 as [H0 H3]. apply andb_true_iff in H0 as [H4 H5].
      apply negb_true_iff in H3. rewrite Hname in H3. repeat split; assumption.
    - exact (IH Ht Hf).
  Qed.

  Section Main.
    Variables name usm ku : pyval.
    Hypothesis Hext : ext_ok.
    Hypothesis Hmc : mcall_ok.
    Hypothesis Hsd : sdeser_ok.
    Hypothesis Hpw : path_wf = true.

    Notation dsi fuel := (src_deserialize_structure_internal fuel ext mcall heap_e).

    (* the trusted branch of deserialize_structure_internal on a class whose simplicity level is known (the way
       _remap_input re-enters it, and deserialize_structure after the classifier): the model's trusted_cls *)
    Theorem src_trusted_cls_eq : forall fuel lv cn d,
        val_wf d = true ->
        trusted_cls re_match sdeser e fuel lv cn d <> Raise Unmodelled ->
        dsi fuel (ref cn) d name usm PNone ku (PBool false) (PBool true) (level_val lv) = trusted_cls re_match sdeser e fuel lv cn d.
    Proof.
      induction fuel as [|n IH]; intros lv cn d Hd Hm; [reflexivity|].
      cbn [trusted_cls] in Hm |- *.
      destruct (find_tclass e cn) as [c|] eqn:Hf; [|contradiction Hm; reflexivity].
      destruct d as [| | | | | | | |kv| | |]; try (contradiction Hm; reflexivity).
      destruct (doc_alist kv) as [doc|] eqn:Hdoc; [|contradiction Hm; reflexivity].
      destruct (val_wf_dict kv doc Hd Hdoc) as (Ekv & Hnd & Hvd). subst kv.
      destruct (path_wf_find cn c Hpw Hf) as (Hwf & Hun & Hnf & Hns & Hver).
      destruct (heap_misc cn c Hf) as (_ & _ & _ & Hmro & _).
      assert (Htr : py_truthy (level_val lv) = true) by (destruct lv; reflexivity).
      cbn [src_deserialize_structure_internal].
      unfold cls_issubclass, ref at 1. rewrite pystr_eqb_refl, Hmro. cbn [py_in existsb py_eq ref].
      rewrite pystr_eqb_refl, (pystr_eqb_sym (s2p "Versioned") cn), Hver.
      change (pystr_eqb (s2p "Versioned") (s2p "Structure")) with false. cbn [andb orb bind].
      cbn [py_truthy py_and py_or py_not bind negb]. rewrite Htr. cbn [py_truthy py_and py_or py_not bind negb].
      unfold src_get_class_deserialization_mapping_for_simple_class. rewrite (Hext cn c Hf).
      destruct (match t_mapper c with MapList => true | _ => false end) eqn:Eml.
      { destruct (t_mapper c); try discriminate Eml. reflexivity. }
      assert (Eext : match t_mapper c with MapList => Raise AttributeError | _ => Ok (fm_py (flat_mapping c)) end = Ok (fm_py (flat_mapping c)))
        by (destruct (t_mapper c); try reflexivity; discriminate Eml).
      assert (Emod : match t_mapper c with MapList => Raise AttributeError | _ => Ok tt end = Ok tt)
        by (destruct (t_mapper c); try reflexivity; discriminate Eml).
      rewrite Eext. rewrite Emod in Hm |- *. cbn [bind] in Hm |- *.
      (* the key renaming *)
      match goal with |- context [bind (if py_truthy (fm_py (flat_mapping c)) then ?A else ?B) _] =>
        replace (if py_truthy (fm_py (flat_mapping c)) then A else B) with (@Ok pyval (PDict (kv_py (rename_doc c doc))))
          by (symmetry; exact (rename_eq c doc Hnd)) end.
      cbn [bind]. set (inp := rename_doc c doc) in *.
      assert (Hninp : nodupb (map fst inp) = true) by (apply fold_set_nodup; reflexivity).
      assert (Hvinp : pvals val_wf inp = true) by (apply fold_set_ok; [exact Hvd|reflexivity]).
      (* the enum re-mapping *)
      rewrite (src_enum_mapping_eq other_obj chain e cn c Hf Hwf Hun Hnf). cbn [bind]. unfold targets_val.
      set (ts := enum_targets (enum_order (t_fields c))) in *.
      assert (Hnts : nodupb (map fst ts) = true).
      { subst ts. exact (proj1 (targets_keys (enum_order (t_fields c)) (enum_order_nodup _ Hnf))). }
      rewrite (apply_enums_steps inp ts inp) in Hm |- *.
      assert (Hupd : (if py_truthy (PDict (kv_py (map target_kv ts)))
                      then (t54 <- py_dict_items (PDict (kv_py (map target_kv ts))) ;;
                            r60 <- filterM (fun '(k, mapping) =>
                                       c0 <- (t24 <- py_dict_get_method (PDict (kv_py inp)) k PNone ;; Ok (py_truthy t24)) ;;
                                       if c0 then (t22 <- py_subscript (PDict (kv_py inp)) k ;; t23 <- py_subscript mapping t22 ;; Ok (Some (k, t23)))
                                       else Ok None) t54 ;;
                            t61 <- py_dict_of r60 ;; t63 <- py_dict_merge (PDict (kv_py inp)) t61 ;; Ok t63)
                      else Ok (PDict (kv_py inp)))
                     = (vals <- filterM (enum_step inp) ts ;;
                        Ok (PDict (kv_py (fold_left (fun a p => alist_set a (fst p) (snd p)) vals inp))))).
      { destruct ts as [|t0 ts0] eqn:Ets; [reflexivity|]. rewrite <- Ets in *.
        replace (py_truthy (PDict (kv_py (map target_kv ts)))) with true by (rewrite Ets; reflexivity).
        cbn [py_dict_items bind]. rewrite (enum_vals_src inp ts).
        destruct (filterM (enum_step inp) ts) as [vals|x] eqn:Ev; cbn [bind]; [|reflexivity].
        rewrite dict_of_kv. destruct (enum_vals_keys inp ts vals Ev Hnts) as [Hnv _].
        rewrite (set_all_fresh vals [] Hnv). cbn [app bind]. rewrite dict_merge_kv. reflexivity. }
      match goal with |- context [bind (if py_truthy (PDict (kv_py (map target_kv ts))) then ?A else ?B) _] =>
        replace (if py_truthy (PDict (kv_py (map target_kv ts))) then A else B)
          with (vals <- filterM (enum_step inp) ts ;;
                Ok (PDict (kv_py (fold_left (fun a p => alist_set a (fst p) (snd p)) vals inp))))
          by (symmetry; exact Hupd) end.
      destruct (filterM (enum_step inp) ts) as [vals|x] eqn:Ev; cbn [bind] in Hm |- *; [|reflexivity].
      set (upd := fold_left (fun a p => alist_set a (fst p) (snd p)) vals inp) in *.
      assert (Eupd : apply_enums ts inp inp = Ok upd) by (rewrite apply_enums_steps, Ev; reflexivity).
      assert (Hnupd : nodupb (map fst upd) = true) by exact (apply_enums_nodup inp ts inp upd Eupd Hninp).
      assert (Hvupd : pvals val_wf upd = true) by exact (apply_enums_ok val_wf (fun _ _ _ => eq_refl) inp ts inp upd Eupd Hvinp).
      cbn [bind].
      destruct lv; cbn [level_val py_is_member bind] in Hm |- *.
      - (* not nested: the input is handed to from_trusted_data as it is *)
        change (pystr_eqb (s2p "_ClsSimplicity") (s2p "_ClsSimplicity") && pystr_eqb (s2p "nested") (s2p "not_nested")) with false.
        cbn [bind].
        rewrite (src_from_trusted_eq cn c upd Hf Hnf (pvals_impl val_wf nocls upd val_wf_nocls Hvupd)). reflexivity.
      - change (pystr_eqb (s2p "_ClsSimplicity") (s2p "_ClsSimplicity") && pystr_eqb (s2p "nested") (s2p "nested")) with true.
        cbn [bind].
        change (PEnum (s2p "_ClsSimplicity") (s2p "nested") (zint 2)) with (level_val Nested).
        assert (Hmr : remap_input re_match sdeser (trusted_cls re_match sdeser e n Nested) c upd <> Raise Unmodelled).
        { intro E. apply Hm. rewrite E. reflexivity. }
        rewrite (src_remap_input_eq n (dsi n) name usm (PBool false) ku cn c Hf Hmc
                   (fun c' v Hv Hg => IH Nested c' v Hv Hg) Hwf Hun Hns upd Hnupd Hvupd Hmr).
        destruct (remap_input re_match sdeser (trusted_cls re_match sdeser e n Nested) c upd) as [r|x] eqn:Er; cbn [bind]; [|reflexivity].
        rewrite (src_from_trusted_eq cn c r Hf Hnf
                   (remap_input_ok n Hsd c upd r (pvals_impl val_wf nocls upd val_wf_nocls Hvupd) Er)).
        reflexivity.
    Qed.

    (* entering without a verified level: the classifier is consulted (twice), with the caller's whole fuel *)
    Lemma dsi_unverified fuel lv cls d :
      src_structure_simplicity_level fuel heap_e cls = Ok (level_val lv) ->
      dsi fuel cls d name usm PNone ku (PBool false) (PBool true) (PBool false) =
      dsi fuel cls d name usm PNone ku (PBool false) (PBool true) (level_val lv).
    Proof.
      intro H. destruct fuel as [|n]; [reflexivity|].
      assert (Htr : py_truthy (level_val lv) = true) by (destruct lv; reflexivity).
      cbn [src_deserialize_structure_internal py_truthy py_and py_or py_not bind negb].
      rewrite H. cbn [py_truthy py_and py_or py_not bind negb]. rewrite !Htr. cbn [py_truthy py_and py_or py_not bind negb].
      reflexivity.
    Qed.

    (* deserialize_structure_internal(cls, d, direct_trusted_mapping=True) on an ELIGIBLE class: the model's deser_trusted,
       i.e. its trusted_cls at the level the classifier finds *)
    Theorem src_trusted_path : forall (ostore : N -> pyval -> res pyval) (kum : bool) fuel cn d,
        chain_ok chain = true ->
        val_wf d = true ->
        eligible e fuel cn = true ->
        deser_trusted re_match sdeser ostore e fuel kum cn d <> Raise Unmodelled ->
        dsi fuel (ref cn) d name usm PNone ku (PBool false) (PBool true) (PBool false) =
        deser_trusted re_match sdeser ostore e fuel kum cn d.
    Proof.
      intros ostore kum fuel cn d Hc Hd He Hm.
      unfold eligible in He. destruct (level_of e fuel cn) as [[lv|]|] eqn:Hl; try discriminate He. unfold deser_trusted in Hm |- *. rewrite Hl in Hm |- *.
      assert (Hw : env_wf other_obj e = true) by (unfold path_wf in Hpw; apply andb_true_iff in Hpw as [Hw _]; exact Hw).
      assert (Hlm : level_of e fuel cn <> Raise Unmodelled) by (rewrite Hl; discriminate).
      pose proof (src_level_eq other_obj chain e fuel cn Hc Hw Hlm) as Hs. rewrite Hl in Hs. cbn [level_res] in Hs.
      rewrite (dsi_unverified fuel lv (ref cn) d Hs). exact (src_trusted_cls_eq fuel lv cn d Hd Hm).
    Qed.
  End Main.
End PathBridge.

(* ------------------------------------------------------------------ the hypotheses are satisfiable; the two sides compute *)

(* an [ext] that answers get_flat_resolved_mapper with the model's flat mapping satisfies ext_ok, for every environment *)
Definition ext_of (e : tenv) (name : pystr) (args : list pyval) : res pyval :=
  match args with
  | [POther _ cn] =>
      match find_tclass e cn with
      | Some c => match t_mapper c with MapList => Raise AttributeError | _ => Ok (fm_py (flat_mapping c)) end
      | None => Raise Unmodelled
      end
  | _ => Raise Unmodelled
  end.

Lemma ext_of_ok e : ext_ok e (ext_of e).
Proof. intros cn c Hf. unfold ext_of, ref. rewrite Hf. reflexivity. Qed.

Definition env_path : tenv :=
  [ mkc "In" [mkf "a" t_int; mkf "e" (TLeaf t_color)] MapCamel;
    mkc "C" [ mkf "my_r" (TRef (s2p "In")); mkf "o" (TOpt true (TLeaf t_color)); mkf "ar" (TArray (TRef (s2p "In")));
              mkf "s" (TSet (TLeaf t_str)); mkf "u" (TUnion [t_str; LPrim FNone; t_color]) ]
        (MapDict [(s2p "o", MStr (s2p "k0"))]) ].

Definition d1 (kv : list (string * pyval)) : pyval := PDict (map (fun p => (PStr (s2p (fst p)), snd p)) kv).
Definition doc_path : pyval :=
  d1 [("my_r", d1 [("a", PNum (NInt 1)); ("e", PStr (s2p "RED"))]); ("k0", PStr (s2p "GREEN"));
      ("ar", PList [d1 [("a", PNum (NInt 2))]]); ("s", PList [PStr (s2p "x"); PStr (s2p "x")]); ("zz", PNum (NInt 9))]%string.

Definition no_re (_ : N) (_ : pystr) : bool := true.
Definition no_sd (_ : N) (_ : pyval) : res pyval := Raise ValueError.
Definition no_mc (_ : pyval) (_ : pystr) (_ : list pyval) : res pyval := Raise ValueError.

Example C10_src_trusted_path_nonvacuous :
  path_wf other_cat env_path = true /\ val_wf doc_path = true /\ eligible env_path 4 (s2p "C") = true /\
  src_deserialize_structure_internal 4 (ext_of env_path) no_mc (class_heap other_cat chain_ex env_path) (ref (s2p "C")) doc_path
      PNone (PBool false) PNone (PBool false) (PBool false) (PBool true) (PBool false) =
  deser_trusted no_re no_sd no_sd env_path 4 false (s2p "C") doc_path /\
  deser_trusted no_re no_sd no_sd env_path 4 false (s2p "C") doc_path =
  Ok (PStruct (s2p "C")
        [(s2p "my_r", PStruct (s2p "In") [(s2p "a", PNum (NInt 1)); (s2p "e", PEnum (s2p "Color") (s2p "RED") (PNum (NInt 1)))]);
         (s2p "o", PEnum (s2p "Color") (s2p "GREEN") (PNum (NInt 2)));
         (s2p "ar", PList [PStruct (s2p "In") [(s2p "a", PNum (NInt 2))]]);
         (s2p "s", PSet false [PStr (s2p "x")])]).
Proof. vm_compute. repeat split; reflexivity. Qed.

Print Assumptions src_from_trusted_eq.
Print Assumptions remap_step.
Print Assumptions src_remap_input_eq.
Print Assumptions src_trusted_cls_eq.
Print Assumptions src_trusted_path.
Print Assumptions ext_of_ok.
Print Assumptions C10_src_trusted_path_nonvacuous.
