(* Round trip through the model of deserialize_structure_internal / construct_fields_map for a
   class whose fields are all scalars, any mapper list (declared, explicit, camel_case_convert),
   and the deserialization-side nested entry. *)
From Coq Require Import ZArith NArith Bool List Lia.
Import ListNotations.
From TP Require Import Base.PyVal Ser.Mappers Ser.MappersProofs.
Local Open Scope N_scope.

(* the populated fields of x, in the class's field order *)
Definition project (fields : list pystr) (x : list (pystr * ival)) : list (pystr * ival) :=
  flat_map (fun n => match alist_get x n with Some v => [(n, v)] | None => [] end) fields.

Definition flat_class (c : classdef) : Prop := forall k fk, In (k, fk) (cfields c) -> fk = None.

Definition scalar_inst (x : list (pystr * ival)) : Prop := forall n v, In (n, v) x -> exists z, v = IScal z.

Lemma serialize_unfold c override flag x :
  serialize c override flag x =
  (am <- agg_list true c (Some (used_list c override flag)) ;; ser_val (Some (Sub am)) (IStruct x)).
Proof. reflexivity. Qed.

Lemma alist_get_In_keys {A} (l : list (pystr * A)) k : In k (map fst l) -> exists v, alist_get l k = Some v.
Proof.
  induction l as [|[k0 v0] t IH]; [intros []|]. cbn [map fst In alist_get].
  destruct (pystr_eqb k0 k) eqn:E.
  - intros _. eexists. reflexivity.
  - intros [Heq|Hin]; [apply pystr_eqb_neq in E; contradiction|apply IH; exact Hin].
Qed.

Lemma alist_get_nodup_pair {A} (l : list (pystr * A)) k v :
  NoDup (map fst l) -> In (k, v) l -> alist_get l k = Some v.
Proof.
  induction l as [|[k0 v0] t IH]; [intros _ []|]. cbn [map fst]. intros Hnd [Heq|Hin].
  - inversion Heq; subst. cbn [alist_get]. rewrite pystr_eqb_refl. reflexivity.
  - inversion Hnd as [|? ? Hnin Hnd']; subst. cbn [alist_get].
    destruct (pystr_eqb k0 k) eqn:E.
    + apply pystr_eqb_spec in E. subst. exfalso. apply Hnin. apply in_map_iff. exists (k, v). split; [reflexivity|exact Hin].
    + apply IH; assumption.
Qed.

Theorem roundtrip_flat c override flag x dd dm :
  let L := used_list c override flag in
  flat_class c ->
  (forall n, In n (field_names c) -> ident n = true /\ chain_ok L n (Some n) = true) ->
  (* no field is dropped *)
  (forall n, In n (field_names c) -> rename_chain L n <> None) ->
  (* the chain is injective on the class's fields *)
  (forall n1 n2 k, In n1 (field_names c) -> In n2 (field_names c) ->
                   rename_chain L n1 = Some k -> rename_chain L n2 = Some k -> n1 = n2) ->
  (* the instance: some of the fields, scalar values *)
  (forall n, In n (keys_of x) -> In n (field_names c)) -> NoDup (keys_of x) -> scalar_inst x ->
  (* no unpopulated field is NAMED like the key of a populated one (non-strict fallback) *)
  (forall u n, In u (field_names c) -> ~ In u (keys_of x) -> In n (keys_of x) -> rename_chain L n <> Some u) ->
  aggregate false c override flag = Ok dm ->
  serialize c override flag x = Ok (DDict dd) ->
  deser_struct c override flag dd = Ok (project (field_names c) x).
Proof.
  intros L Hflat Hf Hnodrop Hinj Hx Hnd Hscal Hcap Hdm Hser.
  rewrite serialize_unfold in Hser. fold L in Hser.
  destruct (agg_list true c (Some L)) as [am|e] eqn:Hagg; cbn [bind] in Hser; [|discriminate].
  destruct (roundtrip_lookup c L am x dd Hagg Hf Hx Hnd Hinj Hser) as [Hpop Hunpop].
  assert (Hdmget : forall n, In n (field_names c) -> exists s, rename_chain L n = Some s /\ alist_get dm n = Some (Key s)).
  { intros n Hin. destruct (Hf n Hin) as [Hid Hc].
    pose proof (agg_is_chain false c L dm n Hdm Hin Hid Hc) as Hg.
    destruct (rename_chain L n) as [s|] eqn:R; [|exfalso; apply (Hnodrop n Hin); exact R].
    exists s. split; [reflexivity|exact Hg]. }
  destruct c as [fields ms]. cbn [deser_struct]. rewrite Hdm. cbn [bind].
  cbn [field_names cfields] in *.
  set (rec := fun (c' : classdef) (o : option amap) (d : list (pystr * dval)) => deser_struct c' o flag d).
  assert (Hgo : forall fs, incl fs fields -> deser_loop rec dm dd fs = Ok (project (map fst fs) x)).
  { induction fs as [|[k fk] t IH]; intros Hincl; [reflexivity|].
    assert (Hkin : In (k, fk) fields) by (apply Hincl; left; reflexivity).
    assert (Hkf : In k (map fst fields)) by (apply in_map_iff; exists (k, fk); split; [reflexivity|exact Hkin]).
    assert (Hfk : fk = None) by (apply (Hflat k fk); exact Hkin). subst fk.
    destruct (Hdmget k Hkf) as [s [Hs Hg]].
    change (deser_loop rec dm dd ((k, None) :: t)) with
      (pin <- processed_input dm dd k ;;
       let '(inp, mapped_key) := pin in
       match inp with
       | None => deser_loop rec dm dd t
       | Some v =>
           r <- deser_value rec None (sub_override_of (deser_sub_lookup dm mapped_key k)) v ;;
           rest <- deser_loop rec dm dd t ;;
           Ok ((k, r) :: rest)
       end).
    rewrite (IH (fun a Ha => Hincl a (or_intror Ha))).
    unfold processed_input. rewrite Hg. cbn [bind].
    cbn [map fst project flat_map].
    destruct (alist_get x k) as [v|] eqn:Gx.
    - assert (Hin : In (k, v) x) by (apply alist_get_some_In; exact Gx).
      destruct (Hscal k v Hin) as [z ->].
      destruct (Hpop k (IScal z) s Hin Hs) as [dv [Hdv Hdd]].
      cbn [ser_val] in Hdv. inversion Hdv; subst dv. rewrite Hdd. cbn [deser_value bind app]. reflexivity.
    - assert (Hnin : ~ In k (keys_of x)).
      { intro Hin. apply alist_get_In_keys in Hin as [v Hv]. congruence. }
      destruct (Hunpop k s Hkf Hnin Hs) as [Hn1 Hn2].
      rewrite Hn1. rewrite Hn2; [reflexivity|].
      intros n Hn. apply (Hcap k n Hkf Hnin Hn). }
  apply (Hgo fields). apply incl_refl.
Qed.

(* ------------------------------------------------------------------ the nested entry, deserialization side *)

(* In the aggregated DESERIALIZATION mapper the nested mapper of a field travels with the field's
   current key: after each mapper of the list it sits under "<current key>._mapper".  This is the
   entry construct_fields_map looks up first ("<mapped_key>._mapper"); the entry named after the
   FIELD may by then belong to a sibling whose key is this field's name. *)

(* the key add_step writes for the entry (k, v) *)
Definition written_key (fs : bool) (latest : mapper) (k : pystr) (v : mval) : option pystr :=
  if shortcut latest k v then Some k else
  match v with
  | Sub _ =>
      match ends_with_suffix k with
      | None => None
      | Some fname =>
          if fs then Some (fname ++ suffix)
          else match mapped_key_of latest fname with Ok s => Some (s ++ suffix) | Raise _ => None end
      end
  | _ => Some k
  end.

Lemma add_step_writes fs latest rec k v acc acc' :
  add_step fs latest rec (k, v) acc = Ok acc' ->
  exists key val, written_key fs latest k v = Some key /\ acc' = alist_set acc key val.
Proof.
  unfold add_step, written_key. destruct (shortcut latest k v).
  - intro H. inversion H. eexists _, _. split; reflexivity.
  - destruct v as [s| |pm].
    + intro H. inversion H. eexists _, _. split; reflexivity.
    + intro H. inversion H. eexists _, _. split; reflexivity.
    + destruct (ends_with_suffix k) as [fname|]; [|discriminate].
      destruct fs.
      * cbn [bind]. destruct (sub_of latest fname fname); cbn [bind]; try discriminate.
        -- intro H. inversion H. eexists _, _. split; reflexivity.
        -- destruct (rec m (Sub pm)); cbn [bind]; [|discriminate].
           intro H. inversion H. eexists _, _. split; reflexivity.
      * destruct (mapped_key_of latest fname) as [s|]; cbn [bind]; try discriminate.
        destruct (sub_of latest s fname); cbn [bind]; try discriminate.
        -- intro H. inversion H. eexists _, _. split; reflexivity.
        -- destruct (rec m (Sub pm)); cbn [bind]; [|discriminate].
           intro H. inversion H. eexists _, _. split; reflexivity.
Qed.

Lemma add_loop_other_written fs latest rec key : forall l acc r,
  (forall k v, In (k, v) l -> written_key fs latest k v <> Some key) ->
  add_loop fs latest rec l acc = Ok r -> alist_get r key = alist_get acc key.
Proof.
  induction l as [|[k0 v0] t IH]; intros acc r Hw H.
  - cbn in H. inversion H. reflexivity.
  - rewrite add_loop_cons in H.
    destruct (add_step fs latest rec (k0, v0) acc) as [a|] eqn:St; cbn [bind] in H; [|discriminate].
    rewrite (IH a r); [|intros k v Hin; apply Hw; right; exact Hin|exact H].
    apply add_step_writes in St as [key' [val [Hk ->]]].
    apply alist_get_set_other. intro; subst. apply (Hw k0 v0); [left; reflexivity|exact Hk].
Qed.

(* one mapper of the list applied to the nested entry of a field whose current key is cur *)
Definition des_sub_step (m : mapper) (cur : pystr) (x : amap) : res (pystr * amap) :=
  match apply_key m cur with
  | Key s =>
      match sub_of m s cur with
      | SubNone => Ok (s, x)
      | SubBad => Raise TypeError
      | SubMap sub => x' <- add_agg false sub x ;; Ok (s, x')
      end
  | _ => Raise Unmodelled
  end.

(* no OTHER entry of the aggregate is written to the key this entry moves to *)
Definition others_free (m : mapper) (a : amap) (cur s : pystr) : bool :=
  forallb (fun kv : pystr * mval =>
             let '(k', v') := kv in
             pystr_eqb k' (cur ++ suffix) ||
             match written_key false m k' v' with
             | Some key => negb (pystr_eqb key (s ++ suffix))
             | None => true
             end) a.

Lemma add_val_sub fs sub x r' :
  add_val fs sub (Sub x) = Ok r' -> exists x', add_agg fs sub x = Ok x' /\ r' = Sub x'.
Proof.
  intro Hv. unfold add_agg. rewrite Hv. cbn [bind].
  cbn [add_val] in Hv.
  destruct (add_loop fs sub (fun sub0 v' => add_val fs sub0 v') x []); cbn [bind] in Hv; [|discriminate].
  inversion Hv; subst. eexists. split; reflexivity.
Qed.

Lemma add_loop_des_entry m cur x s x' :
  shortcut m (cur ++ suffix) (Sub x) = false ->
  des_sub_step m cur x = Ok (s, x') ->
  forall l acc r, NoDup (map fst l) -> In (cur ++ suffix, Sub x) l ->
    add_loop false m (fun sub v' => add_val false sub v') l acc = Ok r ->
    others_free m l cur s = true -> alist_get r (s ++ suffix) = Some (Sub x').
Proof.
  intros Hsc Hd. induction l as [|[k0 v0] t IH]; intros acc r Hnd Hin H Hfree; [destruct Hin|].
  rewrite add_loop_cons in H.
  destruct (add_step false m (fun sub v' => add_val false sub v') (k0, v0) acc) as [a|] eqn:St; cbn [bind] in H; [|discriminate].
  cbn [map fst] in Hnd. inversion Hnd as [|? ? Hnin Hnd']; subst.
  cbn [others_free forallb] in Hfree. apply andb_true_iff in Hfree as [_ Hfree'].
  destruct Hin as [Heq|Hin].
  - inversion Heq; subst. clear Heq.
    assert (Hrest : alist_get r (s ++ suffix) = alist_get a (s ++ suffix)).
    { apply (add_loop_other_written false m (fun sub v' => add_val false sub v') (s ++ suffix) t a r); [|exact H].
      intros k v Hkv Hw.
      rewrite forallb_forall in Hfree'. specialize (Hfree' (k, v) Hkv). cbn beta iota in Hfree'.
      apply orb_true_iff in Hfree' as [E|E].
      - apply pystr_eqb_spec in E. subst k. apply Hnin. apply in_map_iff. exists (cur ++ suffix, v). split; [reflexivity|exact Hkv].
      - rewrite Hw in E. rewrite pystr_eqb_refl in E. discriminate. }
    rewrite Hrest. clear Hrest.
    unfold add_step in St. rewrite Hsc, ends_with_suffix_app in St.
    unfold des_sub_step in Hd. unfold mapped_key_of in St.
    destruct (apply_key m cur) as [s0| |?]; cbn [bind] in St; try discriminate.
    destruct (sub_of m s0 cur) as [|sub|]; cbn [bind] in St; try discriminate.
    + inversion Hd; subst. inversion St; subst a. apply alist_get_set_same.
    + destruct (add_val false sub (Sub x)) as [r'|] eqn:Hv; cbn [bind] in St; [|discriminate].
      inversion St; subst a.
      destruct (add_val_sub false sub x r' Hv) as [x1 [Hx1 ->]].
      rewrite Hx1 in Hd. cbn [bind] in Hd. inversion Hd; subst. apply alist_get_set_same.
  - exact (IH a r Hnd' Hin H Hfree').
Qed.

Lemma add_agg_des_entry m (a a1 : amap) cur (x : amap) s x' :
  add_agg false m a = Ok a1 -> NoDup (map fst a) -> alist_get a (cur ++ suffix) = Some (Sub x) ->
  shortcut m (cur ++ suffix) (Sub x) = false ->
  des_sub_step m cur x = Ok (s, x') -> others_free m a cur s = true ->
  alist_get a1 (s ++ suffix) = Some (Sub x').
Proof.
  intros H Hnd Hg Hsc Hd Hfree. apply add_agg_loop in H.
  exact (add_loop_des_entry m cur x s x' Hsc Hd a [] a1 Hnd (alist_get_some_In _ _ _ Hg) H Hfree).
Qed.

(* the whole list *)
Fixpoint des_track (L : list mapper) (cur : pystr) (x : amap) : res (pystr * amap) :=
  match L with
  | [] => Ok (cur, x)
  | m :: t => p <- des_sub_step m cur x ;; des_track t (fst p) (snd p)
  end.

(* along the list: the field is not dropped and its entry composes ([des_sub_step] succeeds), the
   `==` shortcut does not fire on the entry, and no other entry moves onto its key *)
Fixpoint des_free (L : list mapper) (a : amap) (cur : pystr) (x : amap) : bool :=
  match L with
  | [] => true
  | m :: t =>
      negb (shortcut m (cur ++ suffix) (Sub x)) &&
      match des_sub_step m cur x with
      | Ok (s, x') =>
          others_free m a cur s &&
          match add_agg false m a with
          | Ok a1 => des_free t a1 s x'
          | Raise _ => true
          end
      | Raise _ => false
      end
  end.

Lemma fold_add_des_entry : forall L (a am : amap) cur (x : amap),
  NoDup (map fst a) -> alist_get a (cur ++ suffix) = Some (Sub x) ->
  fold_add false L (Ok a) = Ok am -> des_free L a cur x = true ->
  exists k x', des_track L cur x = Ok (k, x') /\ alist_get am (k ++ suffix) = Some (Sub x').
Proof.
  induction L as [|m t IH]; intros a am cur x Hnd Hg H Hfree.
  - cbn in H. inversion H; subst. exists cur, x. split; [reflexivity|exact Hg].
  - rewrite fold_add_cons in H.
    destruct (add_agg false m a) as [a1|e] eqn:E; [|rewrite fold_add_raise in H; discriminate].
    cbn [des_free] in Hfree. apply andb_true_iff in Hfree as [Hsc Hfree]. apply negb_true_iff in Hsc.
    destruct (des_sub_step m cur x) as [[s x1]|] eqn:Hd; [|discriminate].
    rewrite E in Hfree. apply andb_true_iff in Hfree as [Hof Hfree].
    pose proof (add_agg_des_entry m a a1 cur x s x1 E Hnd Hg Hsc Hd Hof) as Hget.
    destruct (IH a1 am s x1 (add_agg_nodup _ _ _ _ E) Hget H Hfree) as [k [x' [Ht Hk]]].
    exists k, x'. split; [|exact Hk].
    cbn [des_track]. rewrite Hd. cbn [bind fst snd]. exact Ht.
Qed.

(* the key the entry ends under is the field's rename chain *)
Lemma des_sub_step_key m cur x s x' : des_sub_step m cur x = Ok (s, x') -> step m (Some cur) = Some s.
Proof.
  unfold des_sub_step. destruct (apply_key m cur) as [t| |?] eqn:A; try discriminate.
  intro H. assert (t = s).
  { destruct (sub_of m t cur); try discriminate; [inversion H; reflexivity|].
    destruct (add_agg false m0 x); cbn [bind] in H; [inversion H; reflexivity|discriminate]. }
  subst t. clear H. destruct m as [d| |]; cbn [apply_key step] in *.
  - destruct (alist_get d cur) as [[u| |?]|]; try discriminate; inversion A; reflexivity.
  - inversion A. reflexivity.
  - inversion A. reflexivity.
Qed.

Lemma des_track_key : forall L cur x k x',
  des_track L cur x = Ok (k, x') -> fold_left (fun st m => step m st) L (Some cur) = Some k.
Proof.
  induction L as [|m t IH]; intros cur x k x' H.
  - cbn in H. inversion H. reflexivity.
  - cbn [des_track] in H. destruct (des_sub_step m cur x) as [[s x1]|] eqn:D; cbn [bind fst snd] in H; [|discriminate].
    cbn [fold_left]. rewrite (des_sub_step_key m cur x s x1 D). exact (IH s x1 k x' H).
Qed.

Theorem nested_entry_deser c L dm f kd c' sub0 b :
  agg_list false c (Some L) = Ok dm ->
  NoDup (field_names c) -> (forall k, In k (field_names c) -> ident k = true) ->
  In (f, Some (kd, c')) (cfields c) ->
  agg_list false c' None = Ok sub0 -> (kd = KRef \/ sub0 <> []) ->
  base_noop false c = Ok b -> des_free L b f sub0 = true ->
  exists k x', des_track L f sub0 = Ok (k, x') /\ rename_chain L f = Some k /\
               alist_get dm (k ++ suffix) = Some (Sub x') /\
               deser_sub_lookup dm k f = Some (Sub x').
Proof.
  destruct c as [fields ms]. unfold base_noop. cbn [agg_list field_names cfields].
  intros H Hnd Hid Hin Hsub Hne Hb Hfree.
  destruct (base_loop (fun c0 => agg_list false c0 None) fields []) as [b0|e] eqn:B; [|rewrite fold_add_raise in H; discriminate].
  cbn in Hb. inversion Hb; subst b0. clear Hb.
  assert (Hg : alist_get b (f ++ suffix) = Some (Sub sub0)).
  { eapply (base_loop_get_sub (fun c0 => agg_list false c0 None) f kd c' sub0 Hsub Hne fields [] b B Hnd); [|exact Hin].
    intros k Hk. apply ident_nodot. apply Hid. exact Hk. }
  assert (Hbn : NoDup (map fst b)) by (eapply base_loop_nodup; [|exact B]; constructor).
  destruct (fold_add_des_entry L b dm f sub0 Hbn Hg H Hfree) as [k [x' [Ht Hk]]].
  exists k, x'. split; [exact Ht|]. split; [exact (des_track_key L f sub0 k x' Ht)|].
  split; [exact Hk|]. unfold deser_sub_lookup. rewrite Hk. reflexivity.
Qed.

(* construct_fields_map with the two lookups in the other order ("<field>._mapper" first) hands field
   b the nested mapper of its sibling a:  Outer {a: Left, b: Right} under {a: b, b: c} *)
Definition deser_sub_lookup_rev (dm : amap) (mapped_key k : pystr) : option mval :=
  match alist_get dm (k ++ suffix) with
  | Some x => Some x
  | None => alist_get dm (mapped_key ++ suffix)
  end.

Definition w_p : pystr := [112]. Definition w_q : pystr := [113].
Definition w_u : pystr := [117]. Definition w_v : pystr := [118].
Definition cLeft := Class [(w_u, None); (w_v, None)] [MDict [(w_u, Key w_p); (w_v, Key w_q)]].
Definition cRight := Class [(w_u, None); (w_v, None)] [MDict [(w_u, Key w_q); (w_v, Key w_p)]].
Definition LOuter := [MDict [(sa, Key sb); (sb, Key sc)]].
Definition cOuter := Class [(sa, Some (KRef, cLeft)); (sb, Some (KRef, cRight))] LOuter.

Lemma sub_lookup_order_matters :
  exists dm subR, agg_list false cOuter (Some LOuter) = Ok dm /\ agg_list false cRight None = Ok subR /\
    deser_sub_lookup dm sc sb = Some (Sub subR) /\ deser_sub_lookup_rev dm sc sb <> Some (Sub subR).
Proof.
  eexists. eexists. split; [vm_compute; reflexivity|]. split; [vm_compute; reflexivity|].
  split; [vm_compute; reflexivity|]. vm_compute. discriminate.
Qed.

(* ------------------------------------------------------------------ totality for classes of scalars *)

Lemma alist_set_In {A} (l : list (pystr * A)) k v k' v' :
  In (k', v') (alist_set l k v) -> (k' = k /\ v' = v) \/ In (k', v') l.
Proof.
  induction l as [|[k0 v0] t IH]; cbn [alist_set].
  - intros [H|[]]. inversion H. left. split; reflexivity.
  - destruct (pystr_eqb k0 k) eqn:E.
    + apply pystr_eqb_spec in E. subst k0.
      intros [H|H]; [inversion H; left; split; reflexivity|right; right; exact H].
    + intros [H|H]; [right; left; exact H|]. destruct (IH H) as [Hl|Hr]; [left; exact Hl|right; right; exact Hr].
Qed.

Lemma add_loop_nosub_total fs m rec : forall l acc,
  (forall k v, In (k, v) l -> is_sub v = false) ->
  exists r, add_loop fs m rec l acc = Ok r /\
            (forall k' v', In (k', v') r -> In (k', v') acc \/ exists v, In (k', v) l /\ v' = entry_step m k' v).
Proof.
  induction l as [|[k0 v0] t IH]; intros acc Hns.
  - exists acc. split; [reflexivity|]. intros k' v' H. left. exact H.
  - rewrite add_loop_cons.
    assert (Hv0 : is_sub v0 = false) by (apply (Hns k0 v0); left; reflexivity).
    assert (St : add_step fs m rec (k0, v0) acc = Ok (alist_set acc k0 (entry_step m k0 v0))).
    { unfold add_step, entry_step. destruct (shortcut m k0 v0); [reflexivity|].
      destruct v0; [reflexivity|reflexivity|discriminate]. }
    rewrite St. cbn [bind].
    destruct (IH (alist_set acc k0 (entry_step m k0 v0)) (fun k v H => Hns k v (or_intror H))) as [r [Hr Hin]].
    exists r. split; [exact Hr|].
    intros k' v' H. destruct (Hin k' v' H) as [Hacc|[v [Hl Hv]]].
    + apply alist_set_In in Hacc as [[-> ->]|Hacc]; [|left; exact Hacc].
      right. exists v0. split; [left; reflexivity|reflexivity].
    + right. exists v. split; [right; exact Hl|exact Hv].
Qed.

(* every entry of the aggregate is a field's entry holding the field's chain so far *)
Definition chain_inv (fields : list pystr) (L : list mapper) (a : amap) : Prop :=
  forall k v, In (k, v) a -> In k fields /\ exists st, v = mval_of st /\ chain_ok L k st = true.

Lemma fold_add_total fs fields : forall L a,
  chain_inv fields L a -> exists am, fold_add fs L (Ok a) = Ok am.
Proof.
  induction L as [|m t IH]; intros a Hinv.
  - exists a. reflexivity.
  - rewrite fold_add_cons.
    destruct (add_loop_nosub_total fs m (fun sub v' => add_val fs sub v') a []) as [r [Hr Hin]].
    { intros k v H. destruct (Hinv k v H) as [_ [st [-> _]]]. apply mval_of_not_sub. }
    assert (E : add_agg fs m a = Ok r) by (apply add_agg_loop; exact Hr).
    rewrite E. apply IH.
    intros k' v' H. destruct (Hin k' v' H) as [[]|[v [Hl ->]]].
    destruct (Hinv k' v Hl) as [Hf [st [-> Hc]]]. split; [exact Hf|].
    cbn [chain_ok] in Hc. apply andb_true_iff in Hc as [Hs Hc].
    exists (step m st). split; [apply entry_step_spec; exact Hs|exact Hc].
Qed.

Lemma base_loop_flat rec : forall fs acc,
  (forall k fk, In (k, fk) fs -> fk = None) ->
  exists r, base_loop rec fs acc = Ok r /\
            (forall k v, In (k, v) r -> In (k, v) acc \/ (In k (map fst fs) /\ v = Key k)).
Proof.
  induction fs as [|[k0 fk0] t IH]; intros acc Hflat.
  - exists acc. split; [reflexivity|]. intros k v H. left. exact H.
  - rewrite base_loop_cons.
    assert (fk0 = None) by (apply (Hflat k0 fk0); left; reflexivity). subst fk0.
    cbn [base_step bind].
    destruct (IH (alist_set acc k0 (Key k0)) (fun k fk H => Hflat k fk (or_intror H))) as [r [Hr Hin]].
    exists r. split; [exact Hr|].
    intros k v H. destruct (Hin k v H) as [Hacc|[Hk Hv]].
    + apply alist_set_In in Hacc as [[-> ->]|Hacc]; [|left; exact Hacc].
      right. split; [left; reflexivity|reflexivity].
    + right. split; [right; exact Hk|exact Hv].
Qed.

Theorem agg_flat_total fs c L :
  flat_class c -> (forall n, In n (field_names c) -> chain_ok L n (Some n) = true) ->
  exists am, agg_list fs c (Some L) = Ok am.
Proof.
  destruct c as [fields ms]. unfold flat_class. cbn [agg_list field_names cfields]. intros Hflat Hc.
  destruct (base_loop_flat (fun c' => agg_list fs c' None) fields [] Hflat) as [b [Hb Hin]].
  rewrite Hb. apply (fold_add_total fs (map fst fields)).
  intros k v H. destruct (Hin k v H) as [[]|[Hk ->]]. split; [exact Hk|].
  exists (Some k). split; [reflexivity|apply Hc; exact Hk].
Qed.

Lemma ser_loop_scalar_total am : forall x acc,
  scalar_inst x -> exists r, ser_loop (fun sub' v' => ser_val sub' v') am x acc = Ok r.
Proof.
  induction x as [|[n v] t IH]; intros acc Hs.
  - exists acc. reflexivity.
  - rewrite ser_loop_cons.
    destruct (Hs n v (or_introl eq_refl)) as [z ->].
    assert (Ht : scalar_inst t) by (intros n' v' H; apply (Hs n' v'); right; exact H).
    unfold ser_step. destruct (alist_get am n) as [[s| |m]|]; cbn [ser_val bind]; apply IH; exact Ht.
Qed.

(* the round trip, total form: for a class of scalar fields the serialization succeeds and the
   deserialization of its result is the instance *)
Theorem roundtrip_flat_total c override flag x :
  let L := used_list c override flag in
  flat_class c -> field_names c <> [] ->
  (forall n, In n (field_names c) -> ident n = true /\ chain_ok L n (Some n) = true) ->
  (forall n, In n (field_names c) -> rename_chain L n <> None) ->
  (forall n1 n2 k, In n1 (field_names c) -> In n2 (field_names c) ->
                   rename_chain L n1 = Some k -> rename_chain L n2 = Some k -> n1 = n2) ->
  (forall n, In n (keys_of x) -> In n (field_names c)) -> NoDup (keys_of x) -> scalar_inst x ->
  (forall u n, In u (field_names c) -> ~ In u (keys_of x) -> In n (keys_of x) -> rename_chain L n <> Some u) ->
  exists dd, serialize c override flag x = Ok (DDict dd) /\
             deser_struct c override flag dd = Ok (project (field_names c) x).
Proof.
  intros L Hflat Hne Hf Hnodrop Hinj Hx Hnd Hscal Hcap.
  assert (Hc : forall n, In n (field_names c) -> chain_ok L n (Some n) = true) by (intros n H; apply Hf; exact H).
  destruct (agg_flat_total true c L Hflat Hc) as [am Ham].
  destruct (agg_flat_total false c L Hflat Hc) as [dm Hdm].
  assert (Hser : exists dd, serialize c override flag x = Ok (DDict dd)).
  { rewrite serialize_unfold. fold L. rewrite Ham. cbn [bind].
    assert (Hex : exists n0, In n0 (field_names c)).
    { destruct (field_names c) as [|n0 t]; [contradiction|]. exists n0. left. reflexivity. }
    destruct Hex as [n0 Hn0].
    destruct (Hf n0 Hn0) as [Hid Hc0].
    pose proof (agg_is_chain true c L am n0 Ham Hn0 Hid Hc0) as Hg.
    destruct am as [|e am']; [discriminate|].
    cbn [ser_val].
    destruct (ser_loop_scalar_total (e :: am') x [] Hscal) as [r Hr]. rewrite Hr. cbn [bind].
    exists r. reflexivity. }
  destruct Hser as [dd Hser]. exists dd. split; [exact Hser|].
  exact (roundtrip_flat c override flag x dd dm Hflat Hf Hnodrop Hinj Hx Hnd Hscal Hcap Hdm Hser).
Qed.
