(* C01 for deserialization with its real pre-processing (Ser/DeserEntry.v): whatever document is
   deserialized, if an instance comes out it is valid for its class; deserialization IS the entry
   point [EDeser] of Struct/Entry.v on the keyword arguments the pre-processing computes, so every
   chain of entry points applied afterwards is covered by the chain theorems. *)
From Coq Require Import ZArith NArith String Bool List Lia.
Import ListNotations.
From TP Require Import Base.PyVal Fields.FieldAst Fields.SetChain Fields.Doc Fields.Domain
  Struct.Shapes Struct.Instance Struct.Entry Struct.InstanceProofs
  Ser.Json Ser.Serialize Ser.Deserialize Ser.DeserEntry.

Section DeserSound.
  Variable re_match : N -> pystr -> bool.
  Variable e : env.
  Variable ens : enums.
  Variable fl : dflags.

  Notation dstruct := (deser_struct re_match e ens fl).
  Notation dplan := (deser_plan re_match e ens fl).

  (* deser_struct = its plan followed by the constructor *)
  Lemma deser_struct_plan n ku cn j :
    dstruct (S n) ku cn j = (p <- dplan n ku cn j ;; construct re_match e (fst p) (snd p)).
  Proof.
    cbn [deser_struct]. unfold deser_plan.
    destruct (find_class e cn) as [c|]; [|reflexivity].
    destruct j; try (destruct (if df_compact fl then compact_eligible c else None) as [fd|]; [|reflexivity];
                     match goal with |- context [deser_val ?a ?b ?c0 ?d ?e0 ?f ?g ?h] =>
                       destruct (deser_val a b c0 d e0 f g h) end; reflexivity).
    match goal with |- context [deser_fields ?a ?b ?c0 ?d ?e0 ?f ?g ?h ?i] =>
      destruct (deser_fields a b c0 d e0 f g h i) as [kw|x] end; cbn [bind]; [|reflexivity].
    match goal with |- context [str_keys ?l] => destruct (str_keys l) end; reflexivity.
  Qed.

  Lemma deser_plan_class n ku cn j c kw : dplan n ku cn j = Ok (c, kw) -> find_class e cn = Some c.
  Proof.
    unfold deser_plan. destruct (find_class e cn) as [c'|]; [|discriminate].
    intro H. destruct j;
      try (destruct (if df_compact fl then compact_eligible c' else None) as [fd|]; [|discriminate];
           match type of H with context [deser_val ?a ?b ?c0 ?d ?e0 ?f ?g ?h] =>
             destruct (deser_val a b c0 d e0 f g h) end; cbn [bind] in H; inversion H; reflexivity).
    match type of H with context [deser_fields ?a ?b ?c0 ?d ?e0 ?f ?g ?h ?i] =>
      destruct (deser_fields a b c0 d e0 f g h i) as [kw'|x] end; cbn [bind] in H; [|discriminate].
    match type of H with context [str_keys ?l] => destruct (str_keys l) end; inversion H; reflexivity.
  Qed.

  (* deserialization of a document is the entry point EDeser on the computed keyword arguments *)
  Theorem deser_as_entry n ku cn j x cur :
    dstruct (S n) ku cn j = Ok x ->
    exists c kw, dplan n ku cn j = Ok (c, kw) /\ run_entry re_match e cur (EDeser cn kw) = Ok x.
  Proof.
    rewrite deser_struct_plan. destruct (dplan n ku cn j) as [[c kw]|ex] eqn:Ep; cbn [bind fst snd]; [|discriminate].
    intro H. exists c, kw. split; [reflexivity|].
    unfold run_entry, entry_plan, with_class. rewrite (deser_plan_class _ _ _ _ _ _ Ep). exact H.
  Qed.

  (* C01 for deserialize_structure(cls, document, keep_undefined=ku), any document *)
  Theorem deser_sound n ku cn j x :
    deser_dom re_match e ens fl n ku cn j = true ->
    dstruct (S n) ku cn j = Ok x -> inst_ok re_match e x = true.
  Proof.
    unfold deser_dom. rewrite deser_struct_plan.
    destruct (dplan n ku cn j) as [[c kw]|ex] eqn:Ep; cbn [bind fst snd]; [|discriminate].
    intros Hd H. apply andb_true_iff in Hd as [Hk Hdf].
    exact (construct_inst_ok re_match e cn c kw x (deser_plan_class _ _ _ _ _ _ Ep) Hk Hdf H).
  Qed.

  (* ... for Deserializer(cls).deserialize(document, keep_undefined=ku) *)
  Theorem deserialize_sound n ku cn c j x :
    find_class e cn = Some c ->
    deser_dom re_match e ens fl n (adjust_keep_undefined c ku) cn j = true ->
    deserialize re_match e ens fl (S n) ku cn j = Ok x -> inst_ok re_match e x = true.
  Proof.
    intros Hc Hd. unfold deserialize. rewrite Hc. apply deser_sound. exact Hd.
  Qed.

  (* ... and for any chain of validating entry points applied to the deserialized instance *)
  Theorem deser_then_chain_sound n ku cn j x0 ch x :
    deser_dom re_match e ens fl n ku cn j = true ->
    dstruct (S n) ku cn j = Ok x0 ->
    chain_dom re_match e x0 ch = true ->
    run_chain re_match e x0 ch = Ok x -> inst_ok re_match e x = true.
  Proof.
    intros Hd H0 Hch Hr.
    exact (chain_sound re_match e ch x0 x (deser_sound n ku cn j x0 Hd H0) Hch Hr).
  Qed.
End DeserSound.
