(* Predicates for the error-class clause of C06 ("rejections are TypeError/ValueError"), on declarations
   and class environments.  Executable; no proofs here. *)
From Coq Require Import ZArith NArith String List Bool.
Import ListNotations.
From TP Require Import Base.PyVal Base.PyEq Fields.FieldAst Fields.SetChain Struct.Instance Ser.Json Ser.Serialize
  Ser.Deserialize Ser.DocReading.
Local Open Scope Z_scope.

(* a TypeError/ValueError, or one of the two artefacts of the model (never raised by Python) *)
Definition okx (x : exn) : bool := is_te_ve x || model_exn x.

(* well-formed declaration: multiplesOf is not 0 (Number._validate_static would divide by it) and a Tuple
   declares at least one item field -- both are rejected by the field constructors of typedpy *)
Fixpoint wf_field (f : field) : bool :=
  match f with
  | FNumber _ _ c => match multiplesOf c with Some m => negb (m =? 0) | None => true end
  | FSeqEach _ g _ _ => wf_field g
  | FSeqPos _ gs _ _ _ => forallb wf_field gs
  | FSet _ (Some g) _ => wf_field g
  | FTuple gs _ => negb (match gs with [] => true | _ => false end) && forallb wf_field gs
  | FMapKV kf vf _ => wf_field kf && wf_field vf
  | FAllOf fs | FAnyOf fs | FOneOf fs | FNot fs => forallb wf_field fs
  | _ => true
  end.

Definition class_all (p : field -> bool) (c : classdef) : bool :=
  forallb (fun fd => p (fd_field fd)) (c_fields c).

Definition env_wf (e : env) : bool := forallb (class_all wf_field) e.

(* the full error-class statement (DeserExnProofs.deserialize_error_class): positional containers included -- a
   document shorter than the positional items is rejected with ValueError before any element is indexed *)
Definition error_class_statement : Prop :=
  forall re_match e ens fl n ku cn j x, env_wf e = true ->
    deserialize re_match e ens fl n ku cn j = Raise x -> is_te_ve x = true \/ model_exn x = true.

(* a one-field class `class A(Structure): t = f; _required = ['t']; _additional_properties = False` *)
Definition c06_int : field :=
  FNumber KInteger SAny {| multiplesOf := None; minimum := None; maximum := None; exclusiveMaximum := false |}.
Definition c06_str : field := FString {| minLength := None; maxLength := None; pattern := None |}.
Definition c06_cls (f : field) : classdef :=
  {| c_name := s2p "A"; c_ancestors := [];
     c_fields := [{| fd_name := s2p "t"; fd_field := f; fd_immutable := false; fd_default := None |}];
     c_required := [s2p "t"]; c_additional := false; c_ignore_none := false; c_immutable := false;
     c_hook := HookNone |}.
Definition c06_flags : dflags := {| df_ignore_invalid := true; df_compact := false |}.
Definition c06_doc (v : pyval) : pyval := PDict [(PStr (s2p "t"), v)].

(* ---- the agreement clause on the scalar fragment (Ser/AgreeProofs.v) *)
Definition scalar_field (f : field) : bool :=
  match f with FNumber _ _ _ | FString _ | FBoolean | FEnumLit _ | FAnything => true | _ => false end.

Definition scalar_class (c : classdef) : bool := forallb (fun fd => scalar_field (fd_field fd)) (c_fields c).

(* the model declines to predict *)
Definition mdeclines {A} (r : res A) : bool := match r with Raise x => model_exn x | _ => false end.

(* result-equivalent (both accept with == instances, or both raise a TypeError/ValueError), or one of the two
   models declines *)
Definition agree (a b : res pyval) : bool := mdeclines a || mdeclines b || res_equiv_tv a b.
