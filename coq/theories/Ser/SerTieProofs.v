(* Ties between the hand-written model of serialization and the source text of /repo, through the file
   Gen/SerSites.v that harness/genmods/ser_sites.py regenerates on every run:
   - the `except` clauses of the option dispatch swallow EVERY exception (the model's multi-field loops skip an option
     on any exception that is not an artefact of the model; C05_anyof's hypotheses speak of any exception class);
   - the item loops of deserialize_list_like and construct_fields_map catch exactly TypeError/ValueError
     (the model's [rewrap] / the falsy-input collection of [deser_fields] use [is_te_ve]);
   - Enum.serialize, translated from its source, is the model's [ser_enum_member] on every member of every enum,
     by name and by value, and the identity on a literal-valued Enum. *)
From Coq Require Import ZArith NArith String List Bool. Import ListNotations.
From TP Require Import Base.PyVal Base.PyOps Fields.FieldAst Ser.Json Ser.Serialize Ser.Deserialize Ser.SerOps
  Gen.SerSites.
Local Open Scope string_scope.

Lemma src_option_dispatch_catches_everything :
  forall x, catches h_deser_multifield x = true /\ catches h_ser_multifield x = true.
Proof. intro x. split; reflexivity. Qed.

(* the exception classes the model distinguishes (OtherExn carries a free name) *)
Definition named_exn (x : exn) : bool := match x with OtherExn _ => false | _ => true end.

Lemma src_item_errors_are_te_ve :
  forall x, named_exn x = true -> model_exn x = false ->
    catches h_list_like_item_0 x = is_te_ve x /\ catches h_list_like_item_1 x = is_te_ve x /\
    catches h_fields_map x = is_te_ve x.
Proof. intros x H1 H2. destruct x; try discriminate; repeat split; reflexivity. Qed.

Lemma isinstance_json_scalar x : py_isinstance x [K_bool; K_str; K_int; K_float] = json_value_ok x.
Proof. destruct x as [| | [] | | | | | | | | |]; reflexivity. Qed.

Lemma src_enum_serialize_member :
  forall by_value cls n x, Enum_serialize true by_value (PEnum cls n x) = ser_enum_member by_value (PEnum cls n x).
Proof. intros by_value cls n x. destruct by_value; destruct x as [| | [] | | | | | | | | |]; reflexivity. Qed.

Lemma src_enum_serialize_literal : forall by_value v, Enum_serialize false by_value v = Ok v.
Proof. reflexivity. Qed.

(* in particular: a member whose value is falsy is serialized by value as that value, not as its name *)
Lemma src_enum_serialize_falsy :
  forall cls n x, json_value_ok x = true -> py_truthy x = false ->
    Enum_serialize true true (PEnum cls n x) = Ok x.
Proof.
  intros cls n x Hj _. rewrite src_enum_serialize_member. cbn [ser_enum_member]. now rewrite Hj.
Qed.
